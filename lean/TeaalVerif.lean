import TeaalVerif.HF.Ast
import TeaalVerif.HF.Json
import TeaalVerif.Metrics.Fusion
import TeaalVerif.Props.C13
import TeaalVerif.Driver.Util
import TeaalVerif.Driver.C13
