/-!
# Token-level models of the five specification grammars   (C17)

teaal/parse/{equation,partitioning,spacetime,level}.py define five Lark grammars.  Here: the abstract
syntax a user writes, its token sequence `toks`, and a recursive-descent reader `parse` over tokens.
The multi-character literals of the grammars (`take(`, `uniform_shape(`, `.pos`, `[0..` …) are single
tokens, exactly as they are single terminals for Lark (white space inside them is *not* insignificant).
The character level — Lark's lexer, `%ignore WS_INLINE` — is outside this model; the check renders the
token sequences with random insignificant white space and compares what Lark + the extractors return
with the abstract syntax (and near-miss strings must be rejected by both).

Post-parse rewrites modelled here: `EquationParser.parse` turns `neg NUMBER` into the negative
coefficient; `Architecture` turns `NAME[0..N]` into `num = N + 1`; `SpaceTime` treats a bare rank name
as position style.
-/
namespace Grammar

inductive Tok
  | name (s : String)
  | num (n : Nat)
  | sym (s : String)
  deriving DecidableEq, Repr, Inhabited

/-! ## index expressions and Einsums -/

structure ITerm where
  coef : Option Int        -- `none`: bare variable (`ijust`); `some c`: `c * var` (`itimes`)
  var : String
  deriving DecidableEq, Repr, Inhabited

abbrev IExpr := List ITerm           -- non-empty sum

structure Access where
  name : String
  idx : List IExpr
  deriving DecidableEq, Repr, Inhabited

inductive Factor
  | scalar (n : String)
  | tensor (a : Access)
  deriving DecidableEq, Repr, Inhabited

inductive Term
  | times (fs : List Factor)
  | take (fs : List Factor) (sel : Nat)
  deriving DecidableEq, Repr, Inhabited

structure Einsum where
  out : Access
  terms : List Term
  deriving DecidableEq, Repr, Inhabited

def coefToks (c : Int) : List Tok :=
  if c < 0 then [.sym "-", .num (-c).toNat] else [.num c.toNat]

def ITerm.toks (t : ITerm) : List Tok :=
  match t.coef with
  | none => [.name t.var]
  | some c => coefToks c ++ [.sym "*", .name t.var]

def sepBy (sep : Tok) : List (List Tok) → List Tok
  | [] => []
  | [t] => t
  | t :: u :: ts => t ++ sep :: sepBy sep (u :: ts)

def IExpr.toks (e : IExpr) : List Tok := sepBy (.sym "+") (e.map ITerm.toks)

def Access.toks (a : Access) : List Tok :=
  .name a.name :: .sym "[" :: (sepBy (.sym ",") (a.idx.map IExpr.toks) ++ [.sym "]"])

def Factor.toks : Factor → List Tok
  | .scalar n => [.name n]
  | .tensor a => a.toks

def Term.toks : Term → List Tok
  | .times fs => sepBy (.sym "*") (fs.map Factor.toks)
  | .take fs sel => .sym "take(" :: (sepBy (.sym ",") (fs.map Factor.toks) ++ [.sym ",", .num sel, .sym ")"])

def Einsum.toks (e : Einsum) : List Tok :=
  e.out.toks ++ .sym "=" :: sepBy (.sym "+") (e.terms.map Term.toks)

/-! ### the reader (fuel = number of tokens; every call consumes at least one) -/

def parseITerm : List Tok → Option (ITerm × List Tok)
  | .name v :: rest => some (⟨none, v⟩, rest)
  | .num n :: .sym "*" :: .name v :: rest => some (⟨some (Int.ofNat n), v⟩, rest)
  | .sym "-" :: .num n :: .sym "*" :: .name v :: rest => some (⟨some (-(Int.ofNat n)), v⟩, rest)
  | _ => none

/-- `p (sep p)*`: the generic reader of separated lists -/
def parseSep {α : Type} (p : Nat → List Tok → Option (α × List Tok)) (sep : Tok) :
    Nat → List Tok → Option (List α × List Tok)
  | 0, _ => none
  | fuel + 1, ts =>
    match p (fuel + 1) ts with
    | none => none
    | some (x, []) => some ([x], [])
    | some (x, t :: rest) =>
      if t = sep then
        match parseSep p sep fuel rest with
        | some (xs, r) => some (x :: xs, r)
        | none => none
      else some ([x], t :: rest)

def parseIExpr (fuel : Nat) (ts : List Tok) : Option (IExpr × List Tok) :=
  parseSep (fun _ => parseITerm) (.sym "+") fuel ts

def parseAccess (fuel : Nat) : List Tok → Option (Access × List Tok)
  | .name n :: .sym "[" :: rest =>
    if rest.head? = some (.sym "]") then some (⟨n, []⟩, rest.tail)
    else
      match parseSep parseIExpr (.sym ",") fuel rest with
      | some (idx, r) => if r.head? = some (.sym "]") then some (⟨n, idx⟩, r.tail) else none
      | none => none
  | _ => none

def parseFactor (fuel : Nat) : List Tok → Option (Factor × List Tok)
  | .name n :: rest =>
    if rest.head? = some (.sym "[") then
      match parseAccess fuel (.name n :: rest) with
      | some (a, rest') => some (.tensor a, rest')
      | none => none
    else some (.scalar n, rest)
  | _ => none

def parseTimes (fuel : Nat) (ts : List Tok) : Option (List Factor × List Tok) :=
  parseSep parseFactor (.sym "*") fuel ts

/-- `(factor ",")* factor "," NUMBER ")"` after `take(` -/
def parseTakeArgs : Nat → List Tok → Option (List Factor × Nat × List Tok)
  | 0, _ => none
  | fuel + 1, ts =>
    match parseFactor (fuel + 1) ts with
    | none => none
    | some (f, r0) =>
      if r0.head? = some (.sym ",") then
        match r0.tail with
        | .num sel :: r' => if r'.head? = some (.sym ")") then some ([f], sel, r'.tail) else none
        | r =>
          match parseTakeArgs fuel r with
          | some (fs, sel, rest') => some (f :: fs, sel, rest')
          | none => none
      else none

def parseTerm (fuel : Nat) (ts : List Tok) : Option (Term × List Tok) :=
  if ts.head? = some (.sym "take(") then
    match parseTakeArgs fuel ts.tail with
    | some (fs, sel, rest') => some (.take fs sel, rest')
    | none => none
  else
    match parseTimes fuel ts with
    | some (fs, rest) => some (.times fs, rest)
    | none => none

def parseTerms (fuel : Nat) (ts : List Tok) : Option (List Term × List Tok) :=
  parseSep parseTerm (.sym "+") fuel ts

def parseEinsum (ts : List Tok) : Option Einsum :=
  match parseAccess ts.length ts with
  | some (out, r) =>
    if r.head? = some (.sym "=") then
      match parseTerms ts.length r.tail with
      | some (terms, []) => some ⟨out, terms⟩
      | _ => none
    else none
  | none => none

/-! ## partitioning directives, rank tuples, spacetime stamps, level names -/

inductive Size
  | lit (n : Nat)
  | sym (s : String)
  deriving DecidableEq, Repr, Inhabited

inductive Directive
  | nway (sz : Size)
  | occupancy (leader : String) (sz : Size)
  | shape (sz : Size)
  | flatten
  | follow (leader : String)
  deriving DecidableEq, Repr, Inhabited

def Size.toks : Size → List Tok
  | .lit n => [.num n]
  | .sym s => [.name s]

def Directive.toks : Directive → List Tok
  | .nway sz => .sym "nway_shape(" :: (sz.toks ++ [.sym ")"])
  | .occupancy l sz => .sym "uniform_occupancy(" :: .name l :: .sym "." :: (sz.toks ++ [.sym ")"])
  | .shape sz => .sym "uniform_shape(" :: (sz.toks ++ [.sym ")"])
  | .flatten => [.sym "flatten(", .sym ")"]
  | .follow l => [.sym "follow(", .name l, .sym ")"]

def parseSize : List Tok → Option (Size × List Tok)
  | .num n :: rest => some (.lit n, rest)
  | .name s :: rest => some (.sym s, rest)
  | _ => none

def parseDirective : List Tok → Option Directive
  | [.sym "nway_shape(", .num n, .sym ")"] => some (.nway (.lit n))
  | [.sym "nway_shape(", .name s, .sym ")"] => some (.nway (.sym s))
  | [.sym "uniform_shape(", .num n, .sym ")"] => some (.shape (.lit n))
  | [.sym "uniform_shape(", .name s, .sym ")"] => some (.shape (.sym s))
  | [.sym "uniform_occupancy(", .name l, .sym ".", .num n, .sym ")"] => some (.occupancy l (.lit n))
  | [.sym "uniform_occupancy(", .name l, .sym ".", .name s, .sym ")"] => some (.occupancy l (.sym s))
  | [.sym "flatten(", .sym ")"] => some .flatten
  | [.sym "follow(", .name l, .sym ")"] => some (.follow l)
  | _ => none

/-- a partitioning key: one rank, or a tuple of at least two ranks -/
inductive RankKey
  | one (r : String)
  | many (r1 r2 : String) (rs : List String)
  deriving DecidableEq, Repr, Inhabited

def namesToks : List String → List Tok
  | [] => []
  | r :: rs => .sym "," :: .name r :: namesToks rs

def RankKey.toks : RankKey → List Tok
  | .one r => [.name r]
  | .many r1 r2 rs => .sym "(" :: .name r1 :: .sym "," :: .name r2 :: (namesToks rs ++ [.sym ")"])

def parseNames : List Tok → Option (List String)
  | [.sym ")"] => some []
  | .sym "," :: .name r :: rest =>
    match parseNames rest with
    | some rs => some (r :: rs)
    | none => none
  | _ => none

def parseRankKey : List Tok → Option RankKey
  | [.name r] => some (.one r)
  | .sym "(" :: .name r1 :: .sym "," :: .name r2 :: rest =>
    match parseNames rest with
    | some rs => some (.many r1 r2 rs)
    | none => none
  | _ => none

inductive Style | pos | coord
  deriving DecidableEq, Repr, Inhabited

/-- a spacetime stamp; `written` records whether the style was spelled out -/
structure Stamp where
  rank : String
  style : Style
  explicit : Bool
  deriving DecidableEq, Repr, Inhabited

def Stamp.toks (s : Stamp) : List Tok :=
  match s.style, s.explicit with
  | .pos, false => [.name s.rank]
  | .pos, true => [.name s.rank, .sym ".pos"]
  | .coord, _ => [.name s.rank, .sym ".coord"]

/-- what the compiler extracts: rank and style (a bare name means position style) -/
def parseStamp : List Tok → Option (String × Style)
  | [.name r] => some (r, .pos)
  | [.name r, .sym ".pos"] => some (r, .pos)
  | [.name r, .sym ".coord"] => some (r, .coord)
  | _ => none

/-- an architecture level name: `NAME` (one instance) or `NAME[0..N]` (`N + 1` instances) -/
structure Level where
  name : String
  last : Option Nat
  deriving DecidableEq, Repr, Inhabited

def Level.toks (l : Level) : List Tok :=
  match l.last with
  | none => [.name l.name]
  | some n => [.name l.name, .sym "[0..", .num n, .sym "]"]

def Level.instances (l : Level) : Nat :=
  match l.last with
  | none => 1
  | some n => n + 1

/-- what `Architecture.__init__` extracts: the bare name and `num` -/
def parseLevel : List Tok → Option (String × Nat)
  | [.name s] => some (s, 1)
  | [.name s, .sym "[0..", .num n, .sym "]"] => some (s, n + 1)
  | _ => none

end Grammar
