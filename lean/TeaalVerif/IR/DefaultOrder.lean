/-!
# Model of the default loop order (teaal/ir/equation.py `__build_einsum_ranks`,
# teaal/ir/loop_order.py `__default_loop_order`, teaal/ir/partitioning.py `partition_ranks/__update_ranks`)

Scope: Einsums whose partitioned ranks are split by single-rank directives (`uniform_shape`,
`nway_shape`, `uniform_occupancy` stacks); `flatten()` tuples are outside this model (the check
compares those on the implementation only).

* `einsumRanks out term`: the output ranks as written, then the ranks of the first term that are not
  among them, in order of appearance (the `for rank in term_ranks: if rank not in …: append` loop).
* `replace1 r lv ranks`: one `__update_ranks` call for the single-rank part `r` whose level names,
  outermost first, are `lv` (index of `r`, remove it, insert the new names at that index).
* `expand sched ranks`: the `for part_ranks in used_parts` loop, in the order `sched` in which the
  Python iterates its *set* of partitionings (hash-seed dependent).
-/
namespace DefaultOrder

def appendNew : List String → List String → List String
  | acc, [] => acc
  | acc, r :: rs => if acc.contains r then appendNew acc rs else appendNew (acc ++ [r]) rs

def einsumRanks (out term : List String) : List String := appendNew out term

def replace1 (r : String) (lv : List String) : List String → List String
  | [] => []
  | x :: xs => if x = r then lv ++ xs else x :: replace1 r lv xs

def expand (sched : List (String × List String)) (ranks : List String) : List String :=
  sched.foldl (fun acc p => replace1 p.1 p.2 acc) ranks

/-- the property's wording: each partitioned rank replaced in place by its levels -/
def levelsOf (parts : List (String × List String)) (r : String) : List String :=
  match parts.lookup r with
  | some lv => lv
  | none => [r]

/-- the distinct elements in order of first appearance -/
def firstAppearance : List String → List String
  | [] => []
  | a :: as => a :: (firstAppearance as).filter (· ≠ a)

def specOrder (parts : List (String × List String)) (out term : List String) : List String :=
  (out ++ ((firstAppearance term).filter fun r => !out.contains r)).flatMap (levelsOf parts)

/-- the implementation's computation under the schedule `sched` -/
def implOrder (sched : List (String × List String)) (out term : List String) : List String :=
  expand sched (einsumRanks out term)

end DefaultOrder
