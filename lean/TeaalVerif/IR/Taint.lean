/-!
# Which values of an emitted program are rooted in the user's input data   (C07, second clause: inputs are never modified)

Every tensor / fiber / payload-reference variable of an emitted program holds a value that is either part of a tensor the user
supplied (`some true`) or part of a tensor the program created itself (`some false`): `x = T.getRoot()`, the payload variables a loop
binds, `getPayload`, `Tensor.fromFiber(fiber=...)` and `x = y` hand the root on; `Tensor(...)` and every value-returning tensor method
(`swizzleRanks`, `split*`, `flattenRanks`, ...) create fresh data.  A *mutation* - `x += e`, `x <<= e`, or being the left operand of `<<`
(which creates children) - is only allowed on a value that is known NOT to be rooted in an input.

`TOp`, `step`, `run`; `Prog` / `Tr` / `chk` as in `RankHeap` (loops any number of times, one side of an alternative; loop bodies and
branches checked once and required to leave the tags of the variables known before them unchanged).  `Props/C07Taint.chk_sound`.
-/
namespace Taint

abbrev St := String → Option Bool

def upd (f : St) (x : String) (v : Option Bool) : St := fun y => if y = x then v else f y

inductive TOp
  | setConst (x : String) (b : Bool)
  | copyFrom (x y : String)
  | mutate (x : String)
  | clobber (x : String)

def step (h : St) : TOp → Except String St
  | .setConst x b => .ok (upd h x (some b))
  | .copyFrom x y => .ok (upd h x (h y))
  | .mutate x =>
    match h x with
    | some false => .ok h
    | some true => .error s!"{x} is updated in place but is part of a tensor the user supplied"
    | none => .error s!"{x} is updated in place but its origin is not known"
  | .clobber x => .ok (upd h x none)

def run (h : St) : List TOp → Except String St
  | [] => .ok h
  | o :: os => match step h o with
    | .ok h' => run h' os
    | .error e => .error e

inductive Prog
  | op (o : TOp)
  | skip
  | seq (p q : Prog)
  | loop (b : Prog)
  | alt (p q : Prog)

instance : Inhabited Prog := ⟨.skip⟩

inductive Tr : Prog → List TOp → Prop
  | op (o : TOp) : Tr (.op o) [o]
  | skip : Tr .skip []
  | seq {p q : Prog} {t1 t2 : List TOp} : Tr p t1 → Tr q t2 → Tr (.seq p q) (t1 ++ t2)
  | loopNil {b : Prog} : Tr (.loop b) []
  | loopCons {b : Prog} {t1 t2 : List TOp} : Tr b t1 → Tr (.loop b) t2 → Tr (.loop b) (t1 ++ t2)
  | altL {p q : Prog} {t : List TOp} : Tr p t → Tr (.alt p q) t
  | altR {p q : Prog} {t : List TOp} : Tr q t → Tr (.alt p q) t

/-- the variables whose tag is known in `h` (listed in `dom`) have the same tag in `h'` -/
def frameOK (dom : List String) (h h' : St) : Bool := dom.all fun x => match h x with
  | none => true
  | some b => h' x == some b

def domAfter (d : List String) : TOp → List String
  | .setConst x _ => x :: d
  | .copyFrom x _ => x :: d
  | _ => d

/-- the checker carries the list of variables that may be tagged (every variable ever bound), for the executable frame test -/
def chk : Prog → List String × St → Except String (List String × St)
  | .op o, (d, h) => match step h o with
    | .ok h' => .ok (domAfter d o, h')
    | .error e => .error e
  | .skip, s => .ok s
  | .seq p q, s => match chk p s with
    | .ok s1 => chk q s1
    | .error e => .error e
  | .loop b, (d, h) => match chk b (d, h) with
    | .ok (_, h1) => if frameOK d h h1 then .ok (d, h) else .error "a loop body changes the origin of a value that exists before the loop"
    | .error e => .error e
  | .alt p q, (d, h) => match chk p (d, h), chk q (d, h) with
    | .ok (_, h1), .ok (_, h2) =>
      if frameOK d h h1 && frameOK d h h2 then .ok (d, h) else .error "a branch changes the origin of a value that exists before the branch"
    | .error e, _ => .error e
    | _, .error e => .error e

end Taint
