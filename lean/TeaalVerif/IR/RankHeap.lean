/-!
# Rank ids of the tensor objects of an emitted program: a heap semantics with aliasing   (C07)

A tensor variable of an emitted HiFiber program names a tensor OBJECT; `x = y` makes two names for one object, every fibertree
tensor method (`swizzleRanks`, `splitUniform`, ...) returns a NEW object, `setRankIds` changes an object in place - visibly through
every alias.  `H` is that heap restricted to what C07 speaks about: which object a variable names, the object's rank ids, and
whether the object is one of the user's inputs.

`TOp` is the tensor-relevant effect of one statement, `Prog` a program with loops (any number of iterations) and alternatives,
`Tr p tr`: `tr` is the operation sequence of one execution of `p`.  `chk` is the checker the harness runs ONCE over the real tree:
loop bodies and branches are checked once, from the state before them, and must leave every variable and object of that state as
it was (`frameOK`); what they bind themselves is forgotten afterwards.  `Props/C07Heap.chk_sound`: then EVERY execution succeeds
(no precondition of a tensor call is violated, no `setRankIds` reaches an input) and ends with every variable of `chk`'s final
state naming an object with exactly the rank ids `chk` computed.
-/
namespace RankHeap

def upd {β : Type} (f : String → β) (x : String) (v : β) : String → β := fun y => if y = x then v else f y
def updN {β : Type} (f : Nat → β) (a : Nat) (v : β) : Nat → β := fun b => if b = a then v else f b

structure H where
  cls : String → Option Nat        -- variable ↦ the object it names
  ids : Nat → List String          -- object ↦ rank ids
  inp : Nat → Bool                 -- object ↦ it is a tensor the user supplied
  next : Nat                       -- next unused object
  dom : List String                -- every variable that was ever bound to a tensor (for the executable frame test only)

def H.empty : H := { cls := fun _ => none, ids := fun _ => [], inp := fun _ => false, next := 0, dom := [] }

inductive TOp
  | fresh (x : String) (ids : List String)                                   -- x = Tensor(rank_ids=ids) / Tensor.fromFiber(rank_ids=ids, ...)
  | copy (x y : String)                                                      -- x = y
  | meth (x y : String) (f : List String → Except String (List String))     -- x = y.<tensor method>(...); f: its effect on rank ids
  | setIds (y : String) (ro : List String)                                   -- y.setRankIds(rank_ids=ro)
  | clobber (x : String)                                                     -- x = <something that is not a tensor> (fiber, number, loop target)

def H.alloc (h : H) (x : String) (ids : List String) (isInput : Bool) : H :=
  { cls := upd h.cls x (some h.next), ids := updN h.ids h.next ids, inp := updN h.inp h.next isInput, next := h.next + 1,
    dom := x :: h.dom }

def step (h : H) : TOp → Except String H
  | .fresh x ids => .ok (h.alloc x ids false)
  | .copy x y => .ok { h with cls := upd h.cls x (h.cls y), dom := x :: h.dom }
  | .meth x y f =>
    match h.cls y with
    | none => .error s!"tensor method applied to {y}, which names no tensor"
    | some a =>
      match f (h.ids a) with
      | .error e => .error e
      | .ok ids' => .ok (h.alloc x ids' false)
  | .setIds y ro =>
    match h.cls y with
    | none => .error s!"setRankIds on {y}, which names no tensor"
    | some a =>
      if h.inp a then .error s!"setRankIds mutates a tensor supplied by the user (through {y})"
      else if (h.ids a).length = ro.length then .ok { h with ids := updN h.ids a ro }
      else .error s!"setRankIds({ro}) on a tensor with rank ids {h.ids a}"
  | .clobber x => .ok { h with cls := upd h.cls x none }

def run (h : H) : List TOp → Except String H
  | [] => .ok h
  | o :: os => match step h o with
    | .ok h' => run h' os
    | .error e => .error e

inductive Prog
  | op (o : TOp)
  | skip
  | seq (p q : Prog)
  | loop (b : Prog)
  | alt (p q : Prog)

instance : Inhabited Prog := ⟨.skip⟩

/-- the operation sequences of the executions of a program: a loop body any number of times, one side of an alternative -/
inductive Tr : Prog → List TOp → Prop
  | op (o : TOp) : Tr (.op o) [o]
  | skip : Tr .skip []
  | seq {p q : Prog} {t1 t2 : List TOp} : Tr p t1 → Tr q t2 → Tr (.seq p q) (t1 ++ t2)
  | loopNil {b : Prog} : Tr (.loop b) []
  | loopCons {b : Prog} {t1 t2 : List TOp} : Tr b t1 → Tr (.loop b) t2 → Tr (.loop b) (t1 ++ t2)
  | altL {p q : Prog} {t : List TOp} : Tr p t → Tr (.alt p q) t
  | altR {p q : Prog} {t : List TOp} : Tr q t → Tr (.alt p q) t

/-- every variable bound in `h` names the same object in `h'`, with the same rank ids and input flag -/
def frameOK (h h' : H) : Bool :=
  h.dom.all fun x => match h.cls x with
    | none => true
    | some a => h'.cls x == some a && h'.ids a == h.ids a && h'.inp a == h.inp a

/-- the one-pass checker -/
def chk : Prog → H → Except String H
  | .op o, h => step h o
  | .skip, h => .ok h
  | .seq p q, h => match chk p h with
    | .ok h1 => chk q h1
    | .error e => .error e
  | .loop b, h => match chk b h with
    | .ok h1 => if frameOK h h1 then .ok h else .error "a loop body rebinds or mutates a tensor that exists before the loop"
    | .error e => .error e
  | .alt p q, h => match chk p h, chk q h with
    | .ok h1, .ok h2 =>
      if frameOK h h1 && frameOK h h2 then .ok h else .error "a branch rebinds or mutates a tensor that exists before the branch"
    | .error e, _ => .error e
    | _, .error e => .error e

end RankHeap
