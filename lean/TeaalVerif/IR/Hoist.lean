/-!
# Model of `FlowGraph.__hoist` (teaal/ir/flow_graph.py)

Nodes are natural numbers (the harness numbers the `repr` of the real nodes), the sorted statement
sequence is a `List Nat`, `D` is the descendant set of a loop node as `networkx.descendants` returned
it.  `hoistOne` is one iteration of the outer `for rank in reversed(loop_order)` loop: the nodes
between the loop node and `end` that are not descendants are moved, in order, to just before the loop
node; it returns the new sequence and the new `end` (the loop node's new position).
-/
namespace Hoist

def hoistOne (s : List Nat) (L : Nat) (D : Nat → Bool) (e : Nat) : List Nat × Nat :=
  let i := s.idxOf L
  if i + 1 ≤ e ∧ i < s.length then
    let pre := s.take i
    let mid := (s.drop (i + 1)).take (e - (i + 1))
    let post := s.drop (i + 1 + (e - (i + 1)))
    let up := mid.filter fun x => !D x
    (pre ++ (up ++ (L :: (mid.filter D ++ post))), pre.length + up.length)
  else (s, i)

/-- the whole pass: `loops` is the loop order (outermost first) with each loop's descendant set;
    they are processed innermost first, `end` starts at `len(sorted)` -/
def hoistAll (s : List Nat) (loops : List (Nat × (Nat → Bool))) : List Nat :=
  (loops.reverse.foldl (fun (acc : List Nat × Nat) (l : Nat × (Nat → Bool)) => hoistOne acc.1 l.1 l.2 acc.2)
    (s, s.length)).1

/-- no edge points backwards in `s` -/
def Topo (edges : List (Nat × Nat)) (s : List Nat) : Prop :=
  s.Pairwise fun x y => (y, x) ∉ edges

instance (edges : List (Nat × Nat)) (s : List Nat) : Decidable (Topo edges s) := by
  unfold Topo; infer_instance

/-- what `networkx.descendants(g, L)` guarantees: successors of `L` are in, and the set is closed
    under successors -/
def Closed (edges : List (Nat × Nat)) (L : Nat) (D : Nat → Bool) : Prop :=
  ∀ p ∈ edges, (p.1 = L → D p.2 = true) ∧ (D p.1 = true → D p.2 = true)

instance (edges : List (Nat × Nat)) (L : Nat) (D : Nat → Bool) : Decidable (Closed edges L D) := by
  unfold Closed; infer_instance

end Hoist
