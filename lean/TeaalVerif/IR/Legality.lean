/-!
# Models of the legality guards   (C18)

Each guard is written **from the code** (what the Python tests, in the order it tests it); the
property's wording of the rule is a separate predicate in Props/C18.lean.

* `dupGuard`        — `Tensor.__init__`: `len(ranks) > len(set(ranks))`; the same test is what
                      `Equation.__build_active_tensors` amounts to for repeated tensor names
* `termGuard`       — `Equation.__build_einsum_ranks`: `Counter(check_ranks) != Counter(term_ranks)`
* `nwayAfterDyn`    — `Partitioning.__nway_after_dyn`
* `checkFlatten`    — `Partitioning.__check_flatten`
* `staticAfterFlat` — `Partitioning.__build_part_graph`: shape split whose source is not an original rank
-/
namespace Legality

def dedup : List String → List String
  | [] => []
  | a :: as => if as.contains a then dedup as else a :: dedup as

def dupGuard (ranks : List String) : Bool := decide (ranks.length > (dedup ranks).length)

/-- `Counter(a) == Counter(b)`: equal as multisets -/
def sameCounter (a b : List String) : Bool := decide (a.Perm b)

def termGuard : List (List String) → Bool
  | [] => false
  | t0 :: ts => ts.any fun t => !sameCounter t t0

inductive Dir | nway | occ | shape | flatten | follow
  deriving DecidableEq, Repr, Inhabited

def Dir.static : Dir → Bool
  | .nway | .shape => true
  | _ => false

def nwayAfterDynAux : Bool → List Dir → Bool
  | _, [] => false
  | dyn, d :: ds =>
    if !d.static then nwayAfterDynAux true ds
    else if d = .nway && dyn then true
    else nwayAfterDynAux dyn ds

def nwayAfterDyn (ops : List Dir) : Bool := nwayAfterDynAux false ops

inductive FlattenErr
  | tupleWithoutFlatten | combined | fewerThanTwo | indexMath | alsoPartitioned | alreadyFlattened | multiplePartitionings
  deriving DecidableEq, Repr

/-- `__check_flatten` for the key `key` with directive stack `ops`;
    `indexMath r`: more than one coordinate expression is known for `r`;
    `alsoPart r`: `(r,)` is itself a key with a non-empty stack; `orig`: the Einsum's original ranks;
    `allRanks`: every rank name the mapping produces -/
def checkFlatten (key : List String) (ops : List Dir) (indexMath alsoPart : String → Bool)
    (orig allRanks : List String) : Option FlattenErr :=
  if !ops.contains .flatten then
    if key.length != 1 then some .tupleWithoutFlatten else none
  else if ops.length > 1 then some .combined
  else if key.length < 2 then some .fewerThanTwo
  else if key.any indexMath then some .indexMath
  else
    key.findSome? fun r =>
      if alsoPart r then some .alsoPartitioned
      else if !orig.contains r then
        if allRanks.contains r then some .alreadyFlattened
        else if !orig.contains (r.dropEnd 1).toString || r.back != '0' then some .multiplePartitionings
        else none
      else none

/-- shape-based split of a rank that is not an original rank (i.e. after flattening) -/
def staticAfterFlat (source : String) (ops : List Dir) (orig : List String) : Bool :=
  ops.any Dir.static && !orig.contains source

/-- `Equation.get_tensor` / `__build_active_tensors`: every tensor an Einsum names must be declared -/
def undeclGuard (declared used : List String) : Bool := used.any fun t => !declared.contains t

/-- `Bindings.__init__`: per Einsum, the loop over its binding entries sets `configured` when an entry carries `config`; the flag
    is initialised for EVERY Einsum; an Einsum whose flag is still false after its entries is rejected.  An Einsum is given as the
    list of its entries' "carries a config" flags. -/
def configLoop : Bool → List Bool → Bool
  | c, [] => c
  | c, b :: bs => configLoop (c || b) bs

def configGuard : List (List Bool) → Bool
  | [] => false
  | e :: es => if !configLoop false e then true else configGuard es

/-- `Header.__make_shape`: the output's ranks are matched, in order, against the loop positions `pos, pos+1, ...` (`fuel` of them):
    the scan takes the first position at which the pending rank is available (`ready r pos` = `LoopOrder.is_ready` of the rank's
    final id) and moves on to the next rank AND the next position; what is left over when the positions run out -/
def outScan (ready : String → Nat → Bool) : List String → Nat → Nat → List String
  | [], _, _ => []
  | r :: rs, _, 0 => r :: rs
  | r :: rs, pos, fuel + 1 => if ready r pos then outScan ready rs (pos + 1) fuel else outScan ready (r :: rs) (pos + 1) fuel

/-- rejected (the loop order projects into the output) iff some output rank is left without a position -/
def outRankGuard (ready : String → Nat → Bool) (ranks : List String) (nloops : Nat) : Bool := !(outScan ready ranks 0 nloops).isEmpty

end Legality
