import TeaalVerif.HF.Ast
/-!
# Model of the tensor cursor (teaal/ir/tensor.py) and the rank-id interpreter of emitted programs   (C07, C05)

`Cursor` mirrors `Tensor`: `ranks`, `init_ranks`, `rank_ptr`, `iter_ptr`, `is_output`, `is_flat`, with the
mutators the translator calls and the two naming functions.

`RankIds.interp` follows the rank ids of every tensor variable of an emitted program statement by statement
(`Tensor(rank_ids=…)`, aliasing `x = y`, `swizzleRanks`, `split*`, `flattenRanks`, `mergeRanks`,
`unflattenRanks`, `setRankIds`, `Tensor.fromFiber`), checking every precondition that concerns rank ids;
loop bodies are followed once (rank ids do not depend on the data).
-/
namespace Cursor

structure T where
  name : String
  ranks : List String
  initRanks : List String
  rankPtr : Nat := 0
  iterPtr : Nat := 0
  isOutput : Bool := false
  isFlat : Bool := false
  deriving Repr, DecidableEq

def init (name : String) (ranks : List String) : T := { name := name, ranks := ranks, initRanks := ranks }

def T.active (t : T) : List String := t.ranks.drop t.rankPtr

def T.tensorName (t : T) : String :=
  t.name ++ "_" ++ String.join t.active ++ (if t.isFlat && !t.isOutput then "_flat" else "")

def T.fiberName (t : T) : String :=
  match t.ranks[t.iterPtr]? with
  | some r => t.name.toLower ++ "_" ++ r.toLower
  | none => t.name.toLower ++ "_" ++ (if t.isOutput then "ref" else "val")

inductive Op
  | swizzle (order : List String)
  | updateRanks (ranks : List String)
  | fromFiber
  | pop
  | setIsOutput (b : Bool)
  | reset
  deriving Repr

/-- `none`: the Python raises (`swizzle` with a non-permutation, `pop` past the end) -/
def step (t : T) : Op → Option T
  | .swizzle order =>
    if decide (t.active.Perm order) then
      some { t with ranks := t.ranks.take t.rankPtr ++ order, isFlat := t.isFlat && decide (t.active = order) }
    else none
  | .updateRanks rs =>
    some { t with isFlat := decide (t.ranks.length - t.rankPtr > rs.length), ranks := t.ranks.take t.rankPtr ++ rs }
  | .fromFiber =>
    some { t with isFlat := t.isFlat && decide (t.rankPtr = t.iterPtr), rankPtr := t.iterPtr }
  | .pop => if t.iterPtr < t.ranks.length then some { t with iterPtr := t.iterPtr + 1 } else none
  | .setIsOutput b => some { t with isOutput := b }
  | .reset => some (init t.name t.initRanks)

def run (t : T) : List Op → Option T
  | [] => some t
  | o :: os => match step t o with
    | some t' => run t' os
    | none => none

end Cursor

namespace RankIds
open HF

structure St where
  ids : List (String × List String)        -- tensor variable ↦ rank ids (aliases share by construction below)
  alias : List (String × String)           -- variable ↦ representative (object identity)
  inputs : List String                     -- representatives of user-supplied tensors
  deriving Repr

def St.rep (s : St) (x : String) : String := (s.alias.lookup x).getD x
def St.get (s : St) (x : String) : Option (List String) := s.ids.lookup (s.rep x)
def St.setObj (s : St) (r : String) (ids : List String) : St := { s with ids := (r, ids) :: s.ids.filter (·.1 ≠ r) }
/-- bind `x` to a fresh object with the given ids -/
def St.bindFresh (s : St) (x : String) (ids : List String) : St :=
  let s' := { s with alias := (x, x) :: s.alias.filter (·.1 ≠ x) }
  s'.setObj x ids

def strList? : Expr → Option (List String)
  | .list es => es.mapM fun e => match e with | .str s => some s | _ => none
  | _ => none

def kwArg (kw : List (Option String)) (args : List Expr) (name : String) : Option Expr :=
  (kw.zip args).findSome? fun (k, a) => if k = some name then some a else none

def natArg (kw : List (Option String)) (args : List Expr) (name : String) (dflt : Nat) : Nat :=
  match kwArg kw args name with
  | some (.int i) => i.toNat
  | _ => dflt

/-- effect of `y.method(args)` on rank ids; `Except` carries the violated precondition -/
def methodIds (ids : List String) (m : String) (kw : List (Option String)) (args : List Expr) : Except String (List String) :=
  match m with
  | "swizzleRanks" =>
    match (kwArg kw args "rank_ids").bind strList? with
    | some ro => if decide (ids.Perm ro) then pure ro else throw s!"swizzleRanks({ro}) of a tensor with rank ids {ids}"
    | none => throw "swizzleRanks without literal rank_ids"
  | "splitUniform" | "splitEqual" | "splitNonUniform" =>
    let d := natArg kw args "depth" 0
    match ids[d]? with
    | some r => pure (ids.take d ++ [r ++ ".1", r ++ ".0"] ++ ids.drop (d + 1))
    | none => throw s!"{m}(depth={d}) on a tensor with rank ids {ids}"
  | "flattenRanks" =>
    let d := natArg kw args "depth" 0
    let l := natArg kw args "levels" 1
    if d + l < ids.length then pure (ids.take d ++ [String.join ((ids.drop d).take (l + 1))] ++ ids.drop (d + l + 1))
    else throw s!"flattenRanks(depth={d}, levels={l}) on {ids}"
  | "mergeRanks" =>
    let d := natArg kw args "depth" 0
    let l := natArg kw args "levels" 1
    if d + l < ids.length then pure (ids.take d ++ ids.drop (d + l)) else throw s!"mergeRanks(depth={d}, levels={l}) on {ids}"
  | "unflattenRanks" =>
    let d := natArg kw args "depth" 0
    let l := natArg kw args "levels" 1
    match ids[d]? with
    | some r => pure (ids.take d ++ (List.range (l + 1)).map (fun i => r ++ "." ++ toString i) ++ ids.drop (d + 1))
    | none => throw s!"unflattenRanks(depth={d}) on {ids}"
  | _ => throw s!"unknown tensor method {m}"

def tensorMethods : List String :=
  ["swizzleRanks", "splitUniform", "splitEqual", "splitNonUniform", "flattenRanks", "mergeRanks", "unflattenRanks"]

partial def interp (s : St) : Stmt → Except String St
  | .block ss => ss.foldlM interp s
  | .for_ _ _ b => interp s b
  | .if_ _ t _ es el => do
    let s1 ← interp s t
    let s2 ← es.foldlM interp s1
    match el with
    | some x => interp s2 x
    | none => pure s2
  | .assign (.var x) (.var y) =>
    match s.get y with
    | some _ => pure { s with alias := (x, s.rep y) :: s.alias.filter (·.1 ≠ x) }
    | none => pure s
  | .assign (.var x) (.func "Tensor" kw args) =>
    match (kwArg kw args "rank_ids").bind strList? with
    | some ids => pure (s.bindFresh x ids)
    | none => throw s!"Tensor(...) for {x} without literal rank_ids"
  | .assign (.var x) (.method (.var "Tensor") "fromFiber" kw args) =>
    match (kwArg kw args "rank_ids").bind strList? with
    | some ids => pure (s.bindFresh x ids)
    | none => throw s!"Tensor.fromFiber for {x} without literal rank_ids"
  | .assign (.var x) (.method (.var y) m kw args) =>
    if tensorMethods.contains m then
      match s.get y with
      | some ids => do
        let ids' ← methodIds ids m kw args
        pure (s.bindFresh x ids')
      | none => throw s!"{m} applied to {y}, which holds no known tensor"
    else pure s
  | .expr (.method (.var y) "setRankIds" kw args) =>
    match s.get y, (kwArg kw args "rank_ids").bind strList? with
    | some ids, some ro =>
      if s.inputs.contains (s.rep y) then throw s!"setRankIds mutates the user's input tensor {s.rep y} (through {y})"
      else if ids.length = ro.length then pure (s.setObj (s.rep y) ro)
      else throw s!"setRankIds({ro}) on a tensor with {ids.length} ranks {ids}"
    | _, _ => throw s!"setRankIds on {y}: unknown tensor or non-literal rank ids"
  | _ => pure s

end RankIds
