import TeaalVerif.IR.RankHeap
/-!
# C07 — rank ids of the emitted program's tensor objects: the one-pass checker is sound for every execution

`chk_sound`: if `RankHeap.chk` accepts a program from a state `h` (loop bodies and branches checked ONCE), then for EVERY execution of
the program - every loop any number of times (zero included), either side of every alternative - started in ANY state that extends
`h` (it may hold further variables and objects, e.g. what earlier iterations left behind):

* no operation fails: every tensor method finds a tensor in its receiver and its rank-id precondition holds (the ids permuted by
  `swizzleRanks` are the tensor's, the depth split / flattened / merged exists, `setRankIds` keeps the number of ranks);
* no `setRankIds` reaches an object the user supplied - directly or through any alias (`run_ok_no_input_mutation`);
* the final state extends `chk`'s final state: every variable `chk` knows names an object with exactly the rank ids `chk` computed,
  and two such variables name the same object iff `chk` says so (`Ext`).

So what the harness reads off `chk`'s final state on the real tree (`A_MK` ends with rank ids `[M, K]`, the result is bound under
`<Output>_<ranks>`, the inputs still carry their ids) holds of every execution of that program.
-/
namespace C07
open RankHeap

def DomOK (h : H) : Prop := ∀ x a, h.cls x = some a → x ∈ h.dom
def Fresh (h : H) : Prop := ∀ x a, h.cls x = some a → a < h.next

/-- `c` extends `h`: every variable of `h` names in `c` an object with the same rank ids and input flag, and the variables of `h`
    alias each other in `c` exactly as in `h` -/
def Ext (h c : H) : Prop :=
  ∀ x a, h.cls x = some a → ∃ a', c.cls x = some a' ∧ c.ids a' = h.ids a ∧ c.inp a' = h.inp a ∧
    ∀ y b, h.cls y = some b → (c.cls y = some a' ↔ b = a)

theorem Ext.refl (h : H) : Ext h h := by
  intro x a hx
  refine ⟨a, hx, rfl, rfl, ?_⟩
  intro y b hy
  rw [hy]
  constructor
  · intro e; exact Option.some.inj e
  · intro e; rw [e]

theorem Ext.trans {h m c : H} (h1 : Ext h m) (h2 : Ext m c) : Ext h c := by
  intro x a hx
  obtain ⟨a1, hm, hi1, hp1, hal1⟩ := h1 x a hx
  obtain ⟨a2, hc, hi2, hp2, hal2⟩ := h2 x a1 hm
  refine ⟨a2, hc, by rw [hi2, hi1], by rw [hp2, hp1], ?_⟩
  intro y b hy
  obtain ⟨b1, hmy, _, _, _⟩ := h1 y b hy
  have e1 := hal2 y b1 hmy
  have e2 := hal1 y b hy
  rw [hmy] at e2
  constructor
  · intro e
    have : b1 = a1 := e1.1 e
    exact e2.1 (by rw [this])
  · intro e
    have : b1 = a1 := Option.some.inj (e2.2 e)
    exact e1.2 this

theorem upd_same {β : Type} (f : String → β) (x : String) (v : β) : upd f x v x = v := by simp [upd]
theorem upd_other {β : Type} (f : String → β) (x y : String) (v : β) (h : y ≠ x) : upd f x v y = f y := by simp [upd, h]
theorem updN_same {β : Type} (f : Nat → β) (a : Nat) (v : β) : updN f a v a = v := by simp [updN]
theorem updN_other {β : Type} (f : Nat → β) (a b : Nat) (v : β) (h : b ≠ a) : updN f a v b = f b := by simp [updN, h]

theorem alloc_fresh (h : H) (x : String) (ids : List String) (i : Bool) (hF : Fresh h) : Fresh (h.alloc x ids i) := by
  intro y a hy
  simp only [H.alloc] at hy ⊢
  by_cases e : y = x
  · subst e; rw [upd_same] at hy; cases hy; omega
  · rw [upd_other _ _ _ _ e] at hy; have := hF y a hy; omega

theorem alloc_dom (h : H) (x : String) (ids : List String) (i : Bool) (hD : DomOK h) : DomOK (h.alloc x ids i) := by
  intro y a hy
  simp only [H.alloc] at hy ⊢
  by_cases e : y = x
  · subst e; exact List.mem_cons_self
  · rw [upd_other _ _ _ _ e] at hy; exact List.mem_cons_of_mem _ (hD y a hy)

/-- allocating a new object under the same name on both sides keeps the extension -/
theorem alloc_ext (h c : H) (x : String) (ids : List String) (i : Bool) (hE : Ext h c) (hFh : Fresh h) (hFc : Fresh c) :
    Ext (h.alloc x ids i) (c.alloc x ids i) := by
  intro z a hz
  simp only [H.alloc] at hz ⊢
  by_cases ez : z = x
  · subst ez
    rw [upd_same] at hz
    cases hz
    refine ⟨c.next, upd_same _ _ _, by rw [updN_same, updN_same], by rw [updN_same, updN_same], ?_⟩
    intro y b hy
    by_cases ey : y = z
    · subst ey
      rw [upd_same] at hy ⊢
      cases hy
      exact ⟨fun _ => rfl, fun _ => rfl⟩
    · rw [upd_other _ _ _ _ ey] at hy ⊢
      have hb := hFh y b hy
      constructor
      · intro e
        obtain ⟨b', hcy, _⟩ := hE y b hy
        rw [hcy] at e
        have := hFc y b' hcy
        cases e; omega
      · intro e; omega
  · rw [upd_other _ _ _ _ ez] at hz
    obtain ⟨a', hcz, hi, hp, hal⟩ := hE z a hz
    have ha := hFh z a hz
    have ha' := hFc z a' hcz
    refine ⟨a', by rw [upd_other _ _ _ _ ez]; exact hcz, ?_, ?_, ?_⟩
    · rw [updN_other _ _ _ _ (by omega), updN_other _ _ _ _ (by omega)]; exact hi
    · rw [updN_other _ _ _ _ (by omega), updN_other _ _ _ _ (by omega)]; exact hp
    · intro y b hy
      by_cases ey : y = x
      · subst ey
        rw [upd_same] at hy ⊢
        cases hy
        constructor
        · intro e; cases e; omega
        · intro e; omega
      · rw [upd_other _ _ _ _ ey] at hy ⊢
        exact hal y b hy

/-- **one operation**: whatever succeeds from `h` succeeds from every extension of `h`, and the results are again related -/
theorem step_mono (h c h1 : H) (o : TOp) (hE : Ext h c) (hFh : Fresh h) (hFc : Fresh c) (hD : DomOK h) (hs : step h o = .ok h1) :
    (Fresh h1 ∧ DomOK h1) ∧ ∃ c1, step c o = .ok c1 ∧ Ext h1 c1 ∧ Fresh c1 := by
  cases o with
  | fresh x ids =>
    simp only [step, Except.ok.injEq] at hs
    subst hs
    exact ⟨⟨alloc_fresh h x ids false hFh, alloc_dom h x ids false hD⟩, _, rfl, alloc_ext h c x ids false hE hFh hFc, alloc_fresh c x ids false hFc⟩
  | copy x y0 =>
    simp only [step, Except.ok.injEq] at hs
    subst hs
    refine ⟨⟨?_, ?_⟩, _, rfl, ?_, ?_⟩
    · intro y a hy
      simp only at hy ⊢
      by_cases e : y = x
      · subst e; rw [upd_same] at hy; exact hFh y0 a hy
      · rw [upd_other _ _ _ _ e] at hy; exact hFh y a hy
    · intro y a hy
      simp only at hy ⊢
      by_cases e : y = x
      · subst e; exact List.mem_cons_self
      · rw [upd_other _ _ _ _ e] at hy; exact List.mem_cons_of_mem _ (hD y a hy)
    · intro z a hz
      simp only at hz ⊢
      by_cases ez : z = x
      · subst ez
        rw [upd_same] at hz
        obtain ⟨a', hc0, hi, hp, hal⟩ := hE y0 a hz
        refine ⟨a', by rw [upd_same]; exact hc0, hi, hp, ?_⟩
        intro y b hy
        by_cases ey : y = z
        · subst ey
          rw [upd_same] at hy ⊢
          rw [hz] at hy; cases hy
          exact ⟨fun _ => rfl, fun _ => hc0⟩
        · rw [upd_other _ _ _ _ ey] at hy ⊢
          exact hal y b hy
      · rw [upd_other _ _ _ _ ez] at hz
        obtain ⟨a', hcz, hi, hp, hal⟩ := hE z a hz
        refine ⟨a', by rw [upd_other _ _ _ _ ez]; exact hcz, hi, hp, ?_⟩
        intro y b hy
        by_cases ey : y = x
        · subst ey
          rw [upd_same] at hy ⊢
          exact hal y0 b hy
        · rw [upd_other _ _ _ _ ey] at hy ⊢
          exact hal y b hy
    · intro y a hy
      simp only at hy ⊢
      by_cases e : y = x
      · subst e; rw [upd_same] at hy; exact hFc y0 a hy
      · rw [upd_other _ _ _ _ e] at hy; exact hFc y a hy
  | meth x y0 f =>
    simp only [step] at hs
    cases h0 : h.cls y0 with
    | none => rw [h0] at hs; cases hs
    | some a0 =>
      rw [h0] at hs
      simp only at hs
      cases hf : f (h.ids a0) with
      | error e => rw [hf] at hs; cases hs
      | ok ids' =>
        rw [hf] at hs
        simp only [Except.ok.injEq] at hs
        subst hs
        obtain ⟨a0', hc0, hi, _, _⟩ := hE y0 a0 h0
        refine ⟨⟨alloc_fresh h x ids' false hFh, alloc_dom h x ids' false hD⟩, c.alloc x ids' false, ?_, alloc_ext h c x ids' false hE hFh hFc,
          alloc_fresh c x ids' false hFc⟩
        simp only [step, hc0, hi, hf]
  | setIds y0 ro =>
    simp only [step] at hs
    cases h0 : h.cls y0 with
    | none => rw [h0] at hs; cases hs
    | some a0 =>
      rw [h0] at hs
      simp only at hs
      by_cases hin : h.inp a0 = true
      · rw [if_pos hin] at hs; cases hs
      · rw [if_neg hin] at hs
        by_cases hl : (h.ids a0).length = ro.length
        · rw [if_pos hl] at hs
          simp only [Except.ok.injEq] at hs
          subst hs
          obtain ⟨a0', hc0, hi, hp, hal0⟩ := hE y0 a0 h0
          refine ⟨⟨hFh, hD⟩, { c with ids := updN c.ids a0' ro }, ?_, ?_, hFc⟩
          · simp only [step, hc0, hp, hi, hin, hl, if_true, Bool.false_eq_true, if_false]
          · intro z a hz
            simp only at hz ⊢
            obtain ⟨a', hcz, hi', hp', hal⟩ := hE z a hz
            refine ⟨a', hcz, ?_, hp', hal⟩
            have hiff : a' = a0' ↔ a = a0 := by
              have := hal y0 a0 h0
              rw [hc0] at this
              constructor
              · intro e; exact (this.1 (by rw [e])).symm
              · intro e; exact (Option.some.inj (this.2 e.symm)).symm
            by_cases e : a = a0
            · rw [e, updN_same, hiff.2 e, updN_same]
            · rw [updN_other _ _ _ _ e, updN_other _ _ _ _ (fun e' => e (hiff.1 e'))]; exact hi'
        · rw [if_neg hl] at hs; cases hs
  | clobber x =>
    simp only [step, Except.ok.injEq] at hs
    subst hs
    refine ⟨⟨?_, ?_⟩, _, rfl, ?_, ?_⟩
    · intro y a hy
      simp only at hy ⊢
      by_cases e : y = x
      · subst e; rw [upd_same] at hy; cases hy
      · rw [upd_other _ _ _ _ e] at hy; exact hFh y a hy
    · intro y a hy
      simp only at hy ⊢
      by_cases e : y = x
      · subst e; rw [upd_same] at hy; cases hy
      · rw [upd_other _ _ _ _ e] at hy; exact hD y a hy
    · intro z a hz
      simp only at hz ⊢
      by_cases ez : z = x
      · subst ez; rw [upd_same] at hz; cases hz
      · rw [upd_other _ _ _ _ ez] at hz
        obtain ⟨a', hcz, hi, hp, hal⟩ := hE z a hz
        refine ⟨a', by rw [upd_other _ _ _ _ ez]; exact hcz, hi, hp, ?_⟩
        intro y b hy
        by_cases ey : y = x
        · subst ey; rw [upd_same] at hy; cases hy
        · rw [upd_other _ _ _ _ ey] at hy ⊢
          exact hal y b hy
    · intro y a hy
      simp only at hy ⊢
      by_cases e : y = x
      · subst e; rw [upd_same] at hy; cases hy
      · rw [upd_other _ _ _ _ e] at hy; exact hFc y a hy

theorem run_append (c : H) : ∀ (t1 t2 : List TOp), run c (t1 ++ t2) = (match run c t1 with | .ok c1 => run c1 t2 | .error e => .error e)
  | [], t2 => by simp [run]
  | o :: os, t2 => by
    simp only [List.cons_append, run]
    cases step c o with
    | ok c' => exact run_append c' os t2
    | error e => rfl

/-- a frame-preserving result extends the state it started from -/
theorem frame_ext (h h1 : H) (hD : DomOK h) (hf : frameOK h h1 = true) : Ext h h1 := by
  simp only [frameOK, List.all_eq_true] at hf
  have key : ∀ x a, h.cls x = some a → h1.cls x = some a ∧ h1.ids a = h.ids a ∧ h1.inp a = h.inp a := by
    intro x a hx
    have := hf x (hD x a hx)
    rw [hx] at this
    simp only [Bool.and_eq_true, beq_iff_eq] at this
    exact ⟨this.1.1, this.1.2, this.2⟩
  intro x a hx
  obtain ⟨k1, k2, k3⟩ := key x a hx
  refine ⟨a, k1, k2, k3, ?_⟩
  intro y b hy
  rw [(key y b hy).1]
  constructor
  · intro e; exact Option.some.inj e
  · intro e; rw [e]

/-- **soundness of the one-pass checker for every execution** -/
theorem chk_sound : ∀ (p : Prog) (h h' : H), chk p h = .ok h' → DomOK h → Fresh h →
    (DomOK h' ∧ Fresh h') ∧ ∀ tr, Tr p tr → ∀ c, Ext h c → Fresh c → ∃ c', run c tr = .ok c' ∧ Ext h' c' ∧ Fresh c'
  | .op o, h, h', hc, hD, hF => by
    simp only [chk] at hc
    refine ⟨?_, ?_⟩
    · obtain ⟨⟨a, b⟩, _⟩ := step_mono h h h' o (Ext.refl h) hF hF hD hc
      exact ⟨b, a⟩
    · intro tr htr c hE hFc
      cases htr
      obtain ⟨_, c1, hs, hE1, hF1⟩ := step_mono h c h' o hE hF hFc hD hc
      exact ⟨c1, by simp [run, hs], hE1, hF1⟩
  | .skip, h, h', hc, hD, hF => by
    simp only [chk, Except.ok.injEq] at hc
    subst hc
    refine ⟨⟨hD, hF⟩, ?_⟩
    intro tr htr c hE hFc
    cases htr
    exact ⟨c, rfl, hE, hFc⟩
  | .seq p q, h, h', hc, hD, hF => by
    simp only [chk] at hc
    cases h1e : chk p h with
    | error e => rw [h1e] at hc; cases hc
    | ok h1 =>
      rw [h1e] at hc
      simp only at hc
      obtain ⟨⟨hD1, hF1⟩, sp⟩ := chk_sound p h h1 h1e hD hF
      obtain ⟨⟨hD2, hF2⟩, sq⟩ := chk_sound q h1 h' hc hD1 hF1
      refine ⟨⟨hD2, hF2⟩, ?_⟩
      intro tr htr c hE hFc
      cases htr with
      | seq ht1 ht2 =>
        obtain ⟨c1, hr1, hE1, hFc1⟩ := sp _ ht1 c hE hFc
        obtain ⟨c2, hr2, hE2, hFc2⟩ := sq _ ht2 c1 hE1 hFc1
        exact ⟨c2, by rw [run_append, hr1]; exact hr2, hE2, hFc2⟩
  | .loop b, h, h', hc, hD, hF => by
    simp only [chk] at hc
    cases h1e : chk b h with
    | error e => rw [h1e] at hc; cases hc
    | ok h1 =>
      rw [h1e] at hc
      simp only at hc
      by_cases hfr : frameOK h h1 = true
      · rw [if_pos hfr] at hc
        simp only [Except.ok.injEq] at hc
        subst hc
        obtain ⟨_, sb⟩ := chk_sound b h h1 h1e hD hF
        have hExt := frame_ext h h1 hD hfr
        refine ⟨⟨hD, hF⟩, ?_⟩
        intro tr htr
        -- induction over the iterations
        generalize hp : Prog.loop b = p at htr
        induction htr with
        | op o => cases hp
        | skip => cases hp
        | seq _ _ _ _ => cases hp
        | loopNil => intro c hE hFc; exact ⟨c, rfl, hE, hFc⟩
        | loopCons ht1 _ _ ih2 =>
          cases hp
          intro c hE hFc
          obtain ⟨c1, hr1, hE1, hFc1⟩ := sb _ ht1 c hE hFc
          obtain ⟨c2, hr2, hE2, hFc2⟩ := ih2 rfl c1 (Ext.trans hExt hE1) hFc1
          exact ⟨c2, by rw [run_append, hr1]; exact hr2, hE2, hFc2⟩
        | altL _ _ => cases hp
        | altR _ _ => cases hp
      · rw [if_neg hfr] at hc; cases hc
  | .alt p q, h, h', hc, hD, hF => by
    simp only [chk] at hc
    cases h1e : chk p h with
    | error e => rw [h1e] at hc; cases hc
    | ok h1 =>
      cases h2e : chk q h with
      | error e => rw [h1e, h2e] at hc; cases hc
      | ok h2 =>
        rw [h1e, h2e] at hc
        simp only at hc
        by_cases hfr : (frameOK h h1 && frameOK h h2) = true
        · rw [if_pos hfr] at hc
          simp only [Except.ok.injEq] at hc
          subst hc
          simp only [Bool.and_eq_true] at hfr
          obtain ⟨_, sp⟩ := chk_sound p h h1 h1e hD hF
          obtain ⟨_, sq⟩ := chk_sound q h h2 h2e hD hF
          refine ⟨⟨hD, hF⟩, ?_⟩
          intro tr htr c hE hFc
          cases htr with
          | altL ht =>
            obtain ⟨c1, hr1, hE1, hFc1⟩ := sp _ ht c hE hFc
            exact ⟨c1, hr1, Ext.trans (frame_ext h h1 hD hfr.1) hE1, hFc1⟩
          | altR ht =>
            obtain ⟨c1, hr1, hE1, hFc1⟩ := sq _ ht c hE hFc
            exact ⟨c1, hr1, Ext.trans (frame_ext h h2 hD hfr.2) hE1, hFc1⟩
        · rw [if_neg hfr] at hc; cases hc

/-- an execution that succeeds performed no `setRankIds` on an input object: that operation is an error of `step` -/
theorem step_ok_no_input_mutation (c c' : H) (y : String) (ro : List String) (hs : step c (.setIds y ro) = .ok c') :
    ∃ a, c.cls y = some a ∧ c.inp a = false ∧ ∀ b, c.inp b = true → c'.ids b = c.ids b := by
  simp only [step] at hs
  cases h0 : c.cls y with
  | none => rw [h0] at hs; cases hs
  | some a =>
    rw [h0] at hs
    simp only at hs
    by_cases hin : c.inp a = true
    · rw [if_pos hin] at hs; cases hs
    · rw [if_neg hin] at hs
      split at hs
      · simp only [Except.ok.injEq] at hs
        subst hs
        refine ⟨a, rfl, by simpa using hin, ?_⟩
        intro b hb
        have : b ≠ a := fun e => hin (e ▸ hb)
        simp [updN, this]
      · cases hs

/-- the rank ids and the input flags of the input objects are the same after every successful operation, hence after every
    successful execution -/
theorem step_inputs_const (c c' : H) (o : TOp) (hF : Fresh c) (hs : step c o = .ok c') :
    ∀ b, b < c.next → c.inp b = true → c'.ids b = c.ids b ∧ c'.inp b = true := by
  intro b hb hin
  cases o with
  | fresh x ids =>
    simp only [step, Except.ok.injEq] at hs; subst hs
    simp only [H.alloc]
    rw [updN_other _ _ _ _ (by omega), updN_other _ _ _ _ (by omega)]
    exact ⟨rfl, hin⟩
  | copy x y => simp only [step, Except.ok.injEq] at hs; subst hs; exact ⟨rfl, hin⟩
  | meth x y f =>
    simp only [step] at hs
    cases h0 : c.cls y with
    | none => rw [h0] at hs; cases hs
    | some a =>
      rw [h0] at hs
      simp only at hs
      cases hf : f (c.ids a) with
      | error e => rw [hf] at hs; cases hs
      | ok ids' =>
        rw [hf] at hs
        simp only [Except.ok.injEq] at hs; subst hs
        simp only [H.alloc]
        rw [updN_other _ _ _ _ (by omega), updN_other _ _ _ _ (by omega)]
        exact ⟨rfl, hin⟩
  | setIds y ro =>
    obtain ⟨a, _, _, hall⟩ := step_ok_no_input_mutation c c' y ro hs
    refine ⟨hall b hin, ?_⟩
    simp only [step] at hs
    cases h0 : c.cls y with
    | none => rw [h0] at hs; cases hs
    | some a' =>
      rw [h0] at hs
      simp only at hs
      split at hs
      · cases hs
      · split at hs
        · simp only [Except.ok.injEq] at hs; subst hs; exact hin
        · cases hs
  | clobber x => simp only [step, Except.ok.injEq] at hs; subst hs; exact ⟨rfl, hin⟩

theorem step_next_mono (c c' : H) (o : TOp) (hs : step c o = .ok c') : c.next ≤ c'.next := by
  cases o with
  | fresh x ids => simp only [step, Except.ok.injEq] at hs; subst hs; simp [H.alloc]
  | copy x y => simp only [step, Except.ok.injEq] at hs; subst hs; exact Nat.le_refl _
  | meth x y f =>
    simp only [step] at hs
    split at hs
    · cases hs
    · split at hs
      · cases hs
      · simp only [Except.ok.injEq] at hs; subst hs; simp [H.alloc]
  | setIds y ro =>
    simp only [step] at hs
    split at hs
    · cases hs
    · split at hs
      · cases hs
      · split at hs
        · simp only [Except.ok.injEq] at hs; subst hs; exact Nat.le_refl _
        · cases hs
  | clobber x => simp only [step, Except.ok.injEq] at hs; subst hs; exact Nat.le_refl _

theorem step_fresh (c c' : H) (o : TOp) (hF : Fresh c) (hs : step c o = .ok c') : Fresh c' :=
  -- `step_mono` against itself would need `DomOK`; freshness alone is simpler to redo
  by
  cases o with
  | fresh x ids => simp only [step, Except.ok.injEq] at hs; subst hs; exact alloc_fresh c x ids false hF
  | copy x y =>
    simp only [step, Except.ok.injEq] at hs; subst hs
    intro z a hz
    simp only at hz ⊢
    by_cases e : z = x
    · subst e; rw [upd_same] at hz; exact hF y a hz
    · rw [upd_other _ _ _ _ e] at hz; exact hF z a hz
  | meth x y f =>
    simp only [step] at hs
    split at hs
    · cases hs
    · split at hs
      · cases hs
      · simp only [Except.ok.injEq] at hs; subst hs; exact alloc_fresh c x _ false hF
  | setIds y ro =>
    simp only [step] at hs
    split at hs
    · cases hs
    · split at hs
      · cases hs
      · split at hs
        · simp only [Except.ok.injEq] at hs; subst hs; exact hF
        · cases hs
  | clobber x =>
    simp only [step, Except.ok.injEq] at hs; subst hs
    intro z a hz
    simp only at hz ⊢
    by_cases e : z = x
    · subst e; rw [upd_same] at hz; cases hz
    · rw [upd_other _ _ _ _ e] at hz; exact hF z a hz

/-- **inputs are never modified**: in every successful execution every input object keeps its rank ids -/
theorem run_ok_no_input_mutation : ∀ (tr : List TOp) (c c' : H), Fresh c → run c tr = .ok c' →
    ∀ b, b < c.next → c.inp b = true → c'.ids b = c.ids b ∧ c'.inp b = true
  | [], c, c', _, hr => by
    simp only [run, Except.ok.injEq] at hr; subst hr
    intro b _ hin; exact ⟨rfl, hin⟩
  | o :: os, c, c', hF, hr => by
    simp only [run] at hr
    cases hs : step c o with
    | error e => rw [hs] at hr; cases hr
    | ok c1 =>
      rw [hs] at hr
      simp only at hr
      intro b hb hin
      obtain ⟨h1, h2⟩ := step_inputs_const c c1 o hF hs b hb hin
      have hb1 : b < c1.next := Nat.lt_of_lt_of_le hb (step_next_mono c c1 o hs)
      obtain ⟨h3, h4⟩ := run_ok_no_input_mutation os c1 c' (step_fresh c c1 o hF hs) hr b hb1 h2
      exact ⟨h3.trans h1, h4⟩

/-- the statement the check relies on, in one piece: a program accepted from the state holding the user's inputs -/
theorem accepted_program (p : Prog) (h0 h' : H) (hD : DomOK h0) (hF : Fresh h0) (hc : chk p h0 = .ok h') (tr : List TOp) (htr : Tr p tr) :
    ∃ c', run h0 tr = .ok c' ∧ Ext h' c' ∧ (∀ b, b < h0.next → h0.inp b = true → c'.ids b = h0.ids b) := by
  obtain ⟨_, s⟩ := chk_sound p h0 h' hc hD hF
  obtain ⟨c', hr, hE, _⟩ := s tr htr h0 (Ext.refl h0) hF
  exact ⟨c', hr, hE, fun b hb hin => (run_ok_no_input_mutation tr h0 c' hF hr b hb hin).1⟩

-- non-vacuity: an input, a swizzle, an alias and a loop whose body partitions a tensor it creates itself
private def demoMeth (ro : List String) : List String → Except String (List String) :=
  fun ids => if ids.length = ro.length then .ok ro else .error "precondition"
private def demoProg : Prog :=
  .seq (.op (.meth "A_KM" "A_MK" (demoMeth ["K", "M"])))
    (.seq (.op (.copy "t" "A_KM"))
      (.loop (.seq (.op (.fresh "B_K" ["K"])) (.seq (.op (.meth "tmp0" "B_K" (fun ids => .ok (ids.flatMap fun r => [r ++ ".1", r ++ ".0"])))) (.op (.setIds "tmp0" ["K1", "K0"]))))))
private def demoH0 : H := (H.empty.alloc "A_MK" ["M", "K"] true)
example : (match chk demoProg demoH0 with | .ok h' => (h'.cls "A_KM").map h'.ids | .error _ => none) = some ["K", "M"] := by decide
example : (match chk (.op (.setIds "A_MK" ["K", "M"])) demoH0 with | .ok _ => true | .error _ => false) = false := by decide
-- ... not even through an alias
example : (match chk (.seq (.op (.copy "t" "A_MK")) (.op (.setIds "t" ["K", "M"]))) demoH0 with | .ok _ => true | .error _ => false) = false := by decide
-- a loop body that renames the ranks of a tensor created BEFORE the loop is not accepted (after two iterations the ids would differ
-- from what one pass computes), one that only touches what it creates itself is
example : (match chk (.seq (.op (.fresh "Z_MN" ["M", "N"])) (.loop (.op (.setIds "Z_MN" ["N", "M"])))) H.empty with
    | .ok _ => true | .error _ => false) = false := by decide
example : (match chk (.seq (.op (.fresh "Z_MN" ["M", "N"])) (.loop (.seq (.op (.fresh "t" ["M", "N"])) (.op (.setIds "t" ["N", "M"]))))) H.empty with
    | .ok h => (h.cls "Z_MN").map h.ids | .error _ => none) = some ["M", "N"] := by decide

end C07
