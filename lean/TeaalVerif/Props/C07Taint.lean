import TeaalVerif.IR.Taint
/-!
# C07 — inputs are never modified: the origin checker is sound for every execution

`chk_sound`: if `Taint.chk` accepts a program from a state `h` whose tagged variables are all listed in `d`, then every execution of the
program (loops any number of times, either side of every alternative), started in any state that agrees with `h` on the variables `h`
tags, succeeds - and `step` makes every in-place update of a value rooted in a user-supplied tensor (or of unknown origin) an error, so
no execution modifies the user's data - and ends in a state that agrees with `chk`'s final state on the variables that one tags.
-/
namespace C07
open Taint

def TExt (h c : St) : Prop := ∀ x b, h x = some b → c x = some b
def TDom (d : List String) (h : St) : Prop := ∀ x b, h x = some b → x ∈ d

theorem TExt.refl (h : St) : TExt h h := fun _ _ e => e
theorem TExt.trans {h m c : St} (h1 : TExt h m) (h2 : TExt m c) : TExt h c := fun x b e => h2 x b (h1 x b e)

theorem tstep_mono (h c h1 : St) (o : TOp) (hE : TExt h c) (hs : step h o = .ok h1) : ∃ c1, step c o = .ok c1 ∧ TExt h1 c1 := by
  cases o with
  | setConst x b =>
    simp only [step, Except.ok.injEq] at hs; subst hs
    refine ⟨_, rfl, ?_⟩
    intro y v hy
    simp only [upd] at hy ⊢
    by_cases e : y = x
    · simp only [e, if_true] at hy ⊢; exact hy
    · simp only [e, if_false] at hy ⊢; exact hE y v hy
  | copyFrom x y0 =>
    simp only [step, Except.ok.injEq] at hs; subst hs
    refine ⟨_, rfl, ?_⟩
    intro y v hy
    simp only [upd] at hy ⊢
    by_cases e : y = x
    · simp only [e, if_true] at hy ⊢; exact hE y0 v hy
    · simp only [e, if_false] at hy ⊢; exact hE y v hy
  | mutate x =>
    simp only [step] at hs
    cases hx : h x with
    | none => rw [hx] at hs; cases hs
    | some b =>
      cases b with
      | true => rw [hx] at hs; cases hs
      | false =>
        rw [hx] at hs
        simp only [Except.ok.injEq] at hs; subst hs
        refine ⟨c, ?_, hE⟩
        simp only [step, hE x false hx]
  | clobber x =>
    simp only [step, Except.ok.injEq] at hs; subst hs
    refine ⟨_, rfl, ?_⟩
    intro y v hy
    simp only [upd] at hy ⊢
    by_cases e : y = x
    · simp only [e, if_true] at hy; cases hy
    · simp only [e, if_false] at hy ⊢; exact hE y v hy

theorem trun_append (c : St) : ∀ (t1 t2 : List TOp), run c (t1 ++ t2) = (match run c t1 with | .ok c1 => run c1 t2 | .error e => .error e)
  | [], _ => by simp [run]
  | o :: os, t2 => by
    simp only [List.cons_append, run]
    cases step c o with
    | ok c' => exact trun_append c' os t2
    | error e => rfl

theorem tframe_ext (d : List String) (h h1 : St) (hD : TDom d h) (hf : frameOK d h h1 = true) : TExt h h1 := by
  intro x b hx
  simp only [frameOK, List.all_eq_true] at hf
  have := hf x (hD x b hx)
  rw [hx] at this
  simpa using this

theorem tstep_dom (d : List String) (h h1 : St) (o : TOp) (hD : TDom d h) (hs : step h o = .ok h1) :
    TDom (domAfter d o) h1 := by
  cases o with
  | setConst x b =>
    simp only [step, Except.ok.injEq] at hs; subst hs
    intro y v hy
    simp only [upd] at hy
    simp only [domAfter]
    by_cases e : y = x
    · subst e; exact List.mem_cons_self
    · simp only [e, if_false] at hy; exact List.mem_cons_of_mem _ (hD y v hy)
  | copyFrom x y0 =>
    simp only [step, Except.ok.injEq] at hs; subst hs
    intro y v hy
    simp only [upd] at hy
    simp only [domAfter]
    by_cases e : y = x
    · subst e; exact List.mem_cons_self
    · simp only [e, if_false] at hy; exact List.mem_cons_of_mem _ (hD y v hy)
  | mutate x =>
    simp only [step] at hs
    split at hs
    · simp only [Except.ok.injEq] at hs; subst hs; exact hD
    · cases hs
    · cases hs
  | clobber x =>
    simp only [step, Except.ok.injEq] at hs; subst hs
    intro y v hy
    simp only [upd] at hy
    simp only [domAfter]
    by_cases e : y = x
    · simp only [e, if_true] at hy; cases hy
    · simp only [e, if_false] at hy; exact hD y v hy

/-- **the origin checker is sound for every execution** -/
theorem tchk_sound : ∀ (p : Prog) (d d' : List String) (h h' : St), chk p (d, h) = .ok (d', h') → TDom d h →
    TDom d' h' ∧ ∀ tr, Tr p tr → ∀ c, TExt h c → ∃ c', run c tr = .ok c' ∧ TExt h' c'
  | .op o, d, d', h, h', hc, hD => by
    simp only [chk] at hc
    cases hs : step h o with
    | error e => rw [hs] at hc; cases hc
    | ok h1 =>
      rw [hs] at hc
      simp only [Except.ok.injEq, Prod.mk.injEq] at hc
      obtain ⟨e1, e2⟩ := hc
      subst e1; subst e2
      refine ⟨tstep_dom d h h1 o hD hs, ?_⟩
      intro tr htr c hE
      cases htr
      obtain ⟨c1, hs1, hE1⟩ := tstep_mono h c h1 o hE hs
      exact ⟨c1, by simp [run, hs1], hE1⟩
  | .skip, d, d', h, h', hc, hD => by
    simp only [chk, Except.ok.injEq, Prod.mk.injEq] at hc
    obtain ⟨e1, e2⟩ := hc
    subst e1; subst e2
    refine ⟨hD, ?_⟩
    intro tr htr c hE
    cases htr
    exact ⟨c, rfl, hE⟩
  | .seq p q, d, d', h, h', hc, hD => by
    simp only [chk] at hc
    cases h1e : chk p (d, h) with
    | error e => rw [h1e] at hc; cases hc
    | ok s1 =>
      obtain ⟨d1, h1⟩ := s1
      rw [h1e] at hc
      simp only at hc
      obtain ⟨hD1, sp⟩ := tchk_sound p d d1 h h1 h1e hD
      obtain ⟨hD2, sq⟩ := tchk_sound q d1 d' h1 h' hc hD1
      refine ⟨hD2, ?_⟩
      intro tr htr c hE
      cases htr with
      | seq ht1 ht2 =>
        obtain ⟨c1, hr1, hE1⟩ := sp _ ht1 c hE
        obtain ⟨c2, hr2, hE2⟩ := sq _ ht2 c1 hE1
        exact ⟨c2, by rw [trun_append, hr1]; exact hr2, hE2⟩
  | .loop b, d, d', h, h', hc, hD => by
    simp only [chk] at hc
    cases h1e : chk b (d, h) with
    | error e => rw [h1e] at hc; cases hc
    | ok s1 =>
      obtain ⟨d1, h1⟩ := s1
      rw [h1e] at hc
      simp only at hc
      by_cases hfr : frameOK d h h1 = true
      · rw [if_pos hfr] at hc
        simp only [Except.ok.injEq, Prod.mk.injEq] at hc
        obtain ⟨e1, e2⟩ := hc
        subst e1; subst e2
        obtain ⟨_, sb⟩ := tchk_sound b d d1 h h1 h1e hD
        have hExt := tframe_ext d h h1 hD hfr
        refine ⟨hD, ?_⟩
        intro tr htr
        generalize hp : Prog.loop b = p at htr
        induction htr with
        | op o => cases hp
        | skip => cases hp
        | seq _ _ _ _ => cases hp
        | loopNil => intro c hE; exact ⟨c, rfl, hE⟩
        | loopCons ht1 _ _ ih2 =>
          cases hp
          intro c hE
          obtain ⟨c1, hr1, hE1⟩ := sb _ ht1 c hE
          obtain ⟨c2, hr2, hE2⟩ := ih2 rfl c1 (TExt.trans hExt hE1)
          exact ⟨c2, by rw [trun_append, hr1]; exact hr2, hE2⟩
        | altL _ _ => cases hp
        | altR _ _ => cases hp
      · rw [if_neg hfr] at hc; cases hc
  | .alt p q, d, d', h, h', hc, hD => by
    simp only [chk] at hc
    cases h1e : chk p (d, h) with
    | error e => rw [h1e] at hc; cases hc
    | ok s1 =>
      obtain ⟨d1, h1⟩ := s1
      cases h2e : chk q (d, h) with
      | error e => rw [h1e, h2e] at hc; cases hc
      | ok s2 =>
        obtain ⟨d2, h2⟩ := s2
        rw [h1e, h2e] at hc
        simp only at hc
        by_cases hfr : (frameOK d h h1 && frameOK d h h2) = true
        · rw [if_pos hfr] at hc
          simp only [Except.ok.injEq, Prod.mk.injEq] at hc
          obtain ⟨e1, e2⟩ := hc
          subst e1; subst e2
          simp only [Bool.and_eq_true] at hfr
          obtain ⟨_, sp⟩ := tchk_sound p d d1 h h1 h1e hD
          obtain ⟨_, sq⟩ := tchk_sound q d d2 h h2 h2e hD
          refine ⟨hD, ?_⟩
          intro tr htr c hE
          cases htr with
          | altL ht =>
            obtain ⟨c1, hr1, hE1⟩ := sp _ ht c hE
            exact ⟨c1, hr1, TExt.trans (tframe_ext d h h1 hD hfr.1) hE1⟩
          | altR ht =>
            obtain ⟨c1, hr1, hE1⟩ := sq _ ht c hE
            exact ⟨c1, hr1, TExt.trans (tframe_ext d h h2 hD hfr.2) hE1⟩
        · rw [if_neg hfr] at hc; cases hc

/-! ### forgetting is harmless

The translator puts, in front of every loop, a `clobber` of each variable the loop body binds (what an earlier part of the program
left in such a variable is dead).  Those `clobber`s are not statements of the real program.  `run_fewer_clobbers`: deleting any
`clobber` operations from a successful run leaves it successful, from any state that knows at least as much - so what `tchk_sound`
says about the executions of the translated program holds for the executions of the real one. -/

/-- `tr'` is `tr` with some `clobber` operations deleted -/
inductive Del : List TOp → List TOp → Prop
  | nil : Del [] []
  | keep (o : TOp) {t t' : List TOp} : Del t t' → Del (o :: t) (o :: t')
  | drop (x : String) {t t' : List TOp} : Del t t' → Del (.clobber x :: t) t'

theorem run_fewer_clobbers : ∀ (tr tr' : List TOp), Del tr tr' → ∀ (c c' c1 : St), TExt c c' → run c tr = .ok c1 →
    ∃ c1', run c' tr' = .ok c1' ∧ TExt c1 c1'
  | _, _, .nil, c, c', c1, hE, hr => by
    simp only [run, Except.ok.injEq] at hr; subst hr
    exact ⟨c', rfl, hE⟩
  | _, _, .keep o hd, c, c', c1, hE, hr => by
    simp only [run] at hr
    cases hs : step c o with
    | error e => rw [hs] at hr; cases hr
    | ok c2 =>
      rw [hs] at hr
      simp only at hr
      obtain ⟨c2', hs', hE2⟩ := tstep_mono c c' c2 o hE hs
      obtain ⟨c1', hr', hE1⟩ := run_fewer_clobbers _ _ hd c2 c2' c1 hE2 hr
      exact ⟨c1', by simp only [run, hs']; exact hr', hE1⟩
  | _, _, .drop x hd, c, c', c1, hE, hr => by
    simp only [run, step] at hr
    have hE2 : TExt (upd c x none) c' := by
      intro y v hy
      simp only [upd] at hy
      by_cases e : y = x
      · simp only [e, if_true] at hy; cases hy
      · simp only [e, if_false] at hy; exact hE y v hy
    exact run_fewer_clobbers _ _ hd (upd c x none) c' c1 hE2 hr

/-- a successful step that updates a value in place updated one that is not rooted in an input -/
theorem mutate_ok_not_input (c c' : St) (x : String) (hs : step c (.mutate x) = .ok c') : c x = some false := by
  simp only [step] at hs
  split at hs
  · assumption
  · cases hs
  · cases hs

-- non-vacuity: the output is created, rooted, iterated and updated; the input is only read
private def demoP : Prog :=
  .seq (.op (.setConst "Z_M" false)) (.seq (.op (.copyFrom "z_m" "Z_M")) (.seq (.op (.copyFrom "a_m" "A_M"))
    (.loop (.seq (.op (.mutate "z_m")) (.seq (.op (.copyFrom "z_ref" "z_m")) (.seq (.op (.copyFrom "a_val" "a_m")) (.op (.mutate "z_ref"))))))))
private def demoS : List String × St := (["A_M"], fun x => if x = "A_M" then some true else none)
example : (match chk demoP demoS with | .ok _ => true | .error _ => false) = true := by decide
-- ... and a program that accumulates into the input's payload is refused
example : (match chk (.seq (.op (.copyFrom "a_m" "A_M")) (.loop (.seq (.op (.copyFrom "a_ref" "a_m")) (.op (.mutate "a_ref"))))) demoS with
    | .ok _ => true | .error _ => false) = false := by decide

end C07
