import TeaalVerif.Metrics.Time
/-!
# C14 — execution time is the bottleneck-per-block roll-up of component times

`C14.rollup`: for every list of fusion blocks, every registration of components per Einsum
(`comps`, any order, repetitions allowed) and every assignment `d` of component times, the expression
built by the model of `Collector.__build_time` evaluates to

    Σ_{b ∈ blocks}  max_{c ∈ components active in b}  Σ_{(e, c) registered, e ∈ b}  d e c        (max ∅ = 0)

where "components active in b" may be enumerated by any list `ks b` with the right members (so the
sorted order the code uses is irrelevant).
-/
namespace C14
open Time

/-- Σ over the registered pairs of one block whose component is `c` -/
def compSum (d : String → String → Int) (ps : List (String × String)) (c : String) : Int :=
  ((ps.filter fun p => p.2 = c).map fun p => d p.1 p.2).sum

/-- the right-hand side of the property for one block, components enumerated by `ks` -/
def specBlock (d : String → String → Int) (comps : String → List String) (ks : List String) (b : List String) : Int :=
  maxL (ks.map (compSum d (pairs comps b)))

/-! ### `maxL` is the greatest element -/

theorem foldl_max_ge_init (xs : List Int) (a : Int) : a ≤ xs.foldl Max.max a := by
  induction xs generalizing a with
  | nil => simp
  | cons x xs ih => exact Int.le_trans (Int.le_max_left a x) (ih _)

theorem foldl_max_ge (xs : List Int) (a : Int) : ∀ y ∈ xs, y ≤ xs.foldl Max.max a := by
  induction xs generalizing a with
  | nil => intro y h; simp at h
  | cons x xs ih =>
    intro y hy
    rcases List.mem_cons.1 hy with rfl | hy
    · exact Int.le_trans (Int.le_max_right a y) (foldl_max_ge_init xs _)
    · exact ih _ y hy

theorem foldl_max_mem (xs : List Int) (a : Int) : xs.foldl Max.max a = a ∨ xs.foldl Max.max a ∈ xs := by
  induction xs generalizing a with
  | nil => simp
  | cons x xs ih =>
    simp only [List.foldl_cons]
    rcases ih (max a x) with h | h
    · rw [h]
      rcases Int.le_total a x with hax | hax
      · right; rw [Int.max_eq_right hax]; simp
      · left; rw [Int.max_eq_left hax]
    · right; exact List.mem_cons_of_mem _ h

theorem maxL_mem {l : List Int} (h : l ≠ []) : maxL l ∈ l := by
  cases l with
  | nil => exact absurd rfl h
  | cons x xs =>
    simp only [maxL]
    rcases foldl_max_mem xs x with h | h
    · rw [h]; simp
    · exact List.mem_cons_of_mem _ h

theorem maxL_ge {l : List Int} {y : Int} (hy : y ∈ l) : y ≤ maxL l := by
  cases l with
  | nil => simp at hy
  | cons x xs =>
    simp only [maxL]
    rcases List.mem_cons.1 hy with rfl | hy
    · exact foldl_max_ge_init xs _
    · exact foldl_max_ge xs x y hy

/-- `maxL` depends only on the set of values -/
theorem maxL_congr {l1 l2 : List Int} (h : ∀ v, v ∈ l1 ↔ v ∈ l2) : maxL l1 = maxL l2 := by
  cases h1 : l1 with
  | nil =>
    cases h2 : l2 with
    | nil => rfl
    | cons y ys =>
      have := (h y).2 (by rw [h2]; simp)
      rw [h1] at this
      simp at this
  | cons x xs =>
    have hne1 : l1 ≠ [] := by rw [h1]; simp
    have hne2 : l2 ≠ [] := by
      intro e
      have := (h x).1 (by rw [h1]; simp)
      rw [e] at this
      simp at this
    rw [← h1]
    apply Int.le_antisymm
    · exact maxL_ge ((h _).1 (maxL_mem hne1))
    · exact maxL_ge ((h _).2 (maxL_mem hne2))

/-! ### the dictionary -/

theorem eval_lookup_upd (d : String → String → Int) (c' : String) (t : TExpr) (c : String) :
    ∀ D : Dict, eval d (lookupD (upd D c' t) c) = eval d (lookupD D c) + (if c' = c then eval d t else 0)
  | [] => by
    simp only [upd, lookupD]
    split <;> simp [eval]
  | (k, v) :: rest => by
    simp only [upd]
    by_cases hk : k = c'
    · subst hk
      simp only [if_true, lookupD]
      by_cases hc : k = c
      · simp [hc, eval]
      · simp [hc]
    · simp only [hk, if_false, lookupD]
      by_cases hc : k = c
      · have : c' ≠ c := fun e => hk (hc.trans e.symm)
        simp [hc, this]
      · simp only [hc, if_false]
        exact eval_lookup_upd d c' t c rest

theorem keys_upd (c' : String) (t : TExpr) (x : String) :
    ∀ D : Dict, x ∈ (upd D c' t).map Prod.fst ↔ x ∈ D.map Prod.fst ∨ x = c'
  | [] => by simp [upd]
  | (k, v) :: rest => by
    simp only [upd]
    by_cases hk : k = c'
    · subst hk
      simp only [if_true, List.map_cons, List.mem_cons]
      constructor
      · rintro (h | h)
        · exact Or.inl (Or.inl h)
        · exact Or.inl (Or.inr h)
      · rintro ((h | h) | h)
        · exact Or.inl h
        · exact Or.inr h
        · exact Or.inl h
    · simp only [hk, if_false, List.map_cons, List.mem_cons, keys_upd c' t x rest]
      constructor
      · rintro (h | h | h)
        · exact Or.inl (Or.inl h)
        · exact Or.inl (Or.inr h)
        · exact Or.inr h
      · rintro ((h | h) | h)
        · exact Or.inl h
        · exact Or.inr (Or.inl h)
        · exact Or.inr (Or.inr h)

theorem foldl_dict (d : String → String → Int) (c : String) : ∀ (ps : List (String × String)) (D0 : Dict),
    eval d (lookupD (ps.foldl (fun D p => upd D p.2 (.leaf p.1 p.2)) D0) c) =
      eval d (lookupD D0 c) + compSum d ps c ∧
    ∀ x, x ∈ (ps.foldl (fun D p => upd D p.2 (.leaf p.1 p.2)) D0).map Prod.fst ↔
      x ∈ D0.map Prod.fst ∨ x ∈ ps.map Prod.snd
  | [], D0 => by simp [compSum]
  | p :: ps, D0 => by
    simp only [List.foldl_cons]
    obtain ⟨h1, h2⟩ := foldl_dict d c ps (upd D0 p.2 (.leaf p.1 p.2))
    refine ⟨?_, ?_⟩
    · rw [h1, eval_lookup_upd]
      simp only [compSum, List.filter_cons]
      by_cases hp : p.2 = c
      · simp [hp, eval, Int.add_assoc]
      · simp [hp]
    · intro x
      rw [h2, keys_upd]
      simp only [List.map_cons, List.mem_cons]
      constructor
      · rintro ((h | h) | h)
        · exact Or.inl h
        · exact Or.inr (Or.inl h)
        · exact Or.inr (Or.inr h)
      · rintro (h | h | h)
        · exact Or.inl (Or.inl h)
        · exact Or.inl (Or.inr h)
        · exact Or.inr h

theorem eval_dict (d : String → String → Int) (ps : List (String × String)) (c : String) :
    eval d (lookupD (dictOf ps) c) = compSum d ps c := by
  have := (foldl_dict d c ps []).1
  simpa [dictOf, lookupD, eval] using this

theorem keys_dict (ps : List (String × String)) (x : String) :
    x ∈ (dictOf ps).map Prod.fst ↔ x ∈ ps.map Prod.snd := by
  have := (foldl_dict (fun _ _ => 0) x ps []).2 x
  simpa [dictOf] using this

theorem evalL_map (d : String → String → Int) (D : Dict) : ∀ cs : List String,
    evalL d (cs.map (lookupD D)) = cs.map fun c => eval d (lookupD D c)
  | [] => rfl
  | c :: cs => by simp [evalL, evalL_map d D cs]

theorem mem_sortKeys (ks : List String) (x : String) : x ∈ sortKeys ks ↔ x ∈ ks := by
  unfold sortKeys
  exact (List.mergeSort_perm ks _).mem_iff

/-- **one block** -/
theorem blockTime_eval (d : String → String → Int) (comps : String → List String) (b : List String)
    (ks : List String) (hks : ∀ c, c ∈ ks ↔ c ∈ (pairs comps b).map Prod.snd) :
    eval d (blockTime comps b) = specBlock d comps ks b := by
  unfold specBlock
  have hmem : ∀ x, x ∈ sortKeys ((dictOf (pairs comps b)).map Prod.fst) ↔ x ∈ ks := by
    intro x
    rw [mem_sortKeys, keys_dict, hks]
  have hval : ∀ cs : List String, (∀ x, x ∈ cs ↔ x ∈ ks) →
      maxL (cs.map fun c => eval d (lookupD (dictOf (pairs comps b)) c)) =
        maxL (ks.map (compSum d (pairs comps b))) := by
    intro cs hcs
    apply maxL_congr
    intro v
    simp only [List.mem_map]
    constructor
    · rintro ⟨c, hc, rfl⟩
      exact ⟨c, (hcs c).1 hc, (eval_dict d _ c).symm⟩
    · rintro ⟨c, hc, rfl⟩
      exact ⟨c, (hcs c).2 hc, eval_dict d _ c⟩
  unfold blockTime
  simp only
  split
  · rename_i h0
    rw [← hval [] (by intro x; rw [← hmem x, h0])]
    simp [eval, maxL]
  · rename_i c h1
    rw [← hval [c] (by intro x; rw [← hmem x, h1])]
    simp [maxL]
  · rename_i cs _ _
    simp only [eval]
    rw [evalL_map]
    exact hval _ hmem

/-! ### the sum over blocks -/

theorem sumBlocks_eval (d : String → String → Int) : ∀ (ts : List TExpr) (a : TExpr),
    ∃ t, sumBlocks (some a) ts = some t ∧ eval d t = eval d a + (ts.map (eval d)).sum
  | [], a => ⟨a, rfl, by simp⟩
  | t :: ts, a => by
    obtain ⟨r, hr, he⟩ := sumBlocks_eval d ts (.add a t)
    exact ⟨r, by simpa [sumBlocks] using hr, by rw [he]; simp [eval, Int.add_assoc]⟩

/-- **C14 (roll-up)**: every block list, every component registration, every component times -/
theorem rollup (d : String → String → Int) (comps : String → List String) (blocks : List (List String))
    (ks : List String → List String)
    (hks : ∀ b ∈ blocks, ∀ c, c ∈ ks b ↔ c ∈ (pairs comps b).map Prod.snd)
    (t : TExpr) (ht : build comps blocks = some t) :
    eval d t = (blocks.map fun b => specBlock d comps (ks b) b).sum := by
  unfold build at ht
  cases blocks with
  | nil => simp [sumBlocks] at ht
  | cons b bs =>
    simp only [List.map_cons, sumBlocks] at ht
    obtain ⟨r, hr, he⟩ := sumBlocks_eval d (bs.map (blockTime comps)) (blockTime comps b)
    rw [hr] at ht
    cases ht
    rw [he, blockTime_eval d comps b (ks b) (hks b (by simp))]
    simp only [List.map_cons, List.sum_cons, List.map_map]
    congr 1
    apply congrArg
    apply List.map_congr_left
    intro b' hb'
    exact blockTime_eval d comps b' (ks b') (hks b' (List.mem_cons_of_mem _ hb'))

/-- there is a roll-up exactly when there is at least one block -/
theorem build_some (comps : String → List String) (blocks : List (List String)) (h : blocks ≠ []) :
    ∃ t, build comps blocks = some t := by
  cases blocks with
  | nil => exact absurd rfl h
  | cons b bs =>
    obtain ⟨r, hr, _⟩ := sumBlocks_eval (fun _ _ => 0) (bs.map (blockTime comps)) (blockTime comps b)
    exact ⟨r, by simpa [build, sumBlocks] using hr⟩

/-- hypothesis-free form (also the non-vacuity witness of `rollup`): components enumerated as registered -/
theorem rollup_registered (d : String → String → Int) (comps : String → List String) (blocks : List (List String))
    (h : blocks ≠ []) :
    ∃ t, build comps blocks = some t ∧
      eval d t = (blocks.map fun b => specBlock d comps ((pairs comps b).map Prod.snd) b).sum := by
  obtain ⟨t, ht⟩ := build_some comps blocks h
  exact ⟨t, ht, rollup d comps blocks (fun b => (pairs comps b).map Prod.snd) (fun _ _ _ => Iff.rfl) t ht⟩

end C14
