import TeaalVerif.Nest.SplitMeaning
import TeaalVerif.Props.C01Den
/-!
# C02 — a loop nest over partitioned ranks computes the original Einsum  (composition with C01)

`Cfg` is an Einsum together with its inputs and one output point; `Step` is either a re-enumeration of the ranks
(any permutation) or the split of one rank `K` into `K1, K0` by **any** partition function `g` (every tensor carrying
`K` is split accordingly, the output point as well).  `C02.steps_meaning`: any sequence of steps preserves the meaning.
Since the emitted nest computes the meaning of the Einsum it is given (`C01.resultAt_eq_meaning`, any loop order over the
expanded ranks), `C02.partitioned_nest` follows: **the nest emitted for the partitioned Einsum — any stack of
splits on any ranks, the level ranks looped in any order — accumulates, at the split output point, the value the
original Einsum defines**, for every input.  `uniform_shape(s)` is the instance `g k = k / s * s`
(`C02.shape_step_ok`), `nway_shape(n)` the same with `s = (N - 1) / n + 1` (`C02.nway_cover`).
-/
namespace C02
open Nest

structure Cfg where
  R : List (String × Nat)
  out : List String
  terms : List TermS
  env : String → Pts
  τ : List Nat

def Cfg.value (A : Cfg) : Int := meaning A.R A.out A.terms A.env A.τ

inductive Step : Cfg → Cfg → Prop
  | perm {R R' : List (String × Nat)} (out : List String) (terms : List TermS) (env : String → Pts) (τ : List Nat)
      (hp : R.Perm R') (hnd : (R.map (·.1)).Nodup) : Step ⟨R, out, terms, env, τ⟩ ⟨R', out, terms, env, τ⟩
  | split (K K1 K0 : String) (g : Nat → Nat) (e e1 : Nat) (R0 : List (String × Nat)) (out : List String) (terms : List TermS)
      (env env' : String → Pts) (τ : List Nat)
      (hg : ∀ k, k < e → g k < e1)
      (hK : K ∉ R0.map (·.1)) (hK1 : K1 ∉ R0.map (·.1)) (hK0 : K0 ∉ R0.map (·.1))
      (h10 : K1 ≠ K0) (h1K : K1 ≠ K) (h0K : K0 ≠ K)
      (H : SplitHyp K K1 K0 g out terms env env') (hτ : τ.length = out.length) :
      Step ⟨(K, e) :: R0, out, terms, env, τ⟩
           ⟨(K1, e1) :: (K0, e) :: R0, splitRanks K K1 K0 out, terms.map (splitTerm K K1 K0), env', splitPt K g out τ⟩

inductive Steps : Cfg → Cfg → Prop
  | refl (A : Cfg) : Steps A A
  | tail {A B C : Cfg} : Steps A B → Step B C → Steps A C

theorem step_meaning {A B : Cfg} (h : Step A B) : B.value = A.value := by
  cases h with
  | perm out terms env τ hp hnd => exact (C01.meaning_perm hp hnd out terms env τ).symm
  | split K K1 K0 g e e1 R0 out terms env env' τ hg hK hK1 hK0 h10 h1K h0K H hτ =>
    exact meaning_split K K1 K0 g e e1 R0 out terms env env' τ hg hK hK1 hK0 h10 h1K h0K H hτ

/-- **any sequence of rank splits and re-enumerations preserves the meaning** -/
theorem steps_meaning {A B : Cfg} (h : Steps A B) : B.value = A.value := by
  induction h with
  | refl => rfl
  | tail _ hs ih => rw [step_meaning hs, ih]

/-- **C02 / C03 (static splits), composed with C01**: if the partitioned Einsum `S'` (with inputs `env'`) is reached from the
    original Einsum `S` (inputs `env`, output point `σ`) by rank splits, then the nest emitted for `S'` — whatever its
    loop order over the expanded ranks — accumulates at the split output point `σ'` the value `S` defines at `σ` -/
theorem partitioned_nest (S S' : EinsumS) (env env' : String → Pts) (σ σ' : List Nat)
    (hsteps : Steps ⟨S.loop.zip S.exts, S.outRanks, S.terms, env, σ⟩ ⟨S'.loop.zip S'.exts, S'.outRanks, S'.terms, env', σ'⟩)
    (hS : S'.WF) (hnd : S'.loop.Nodup) (hlen : S'.exts.length = S'.loop.length)
    (hP : ∀ t ∈ S'.terms, t.kind = .times ∨ (t.kind = .take 0 ∧ t.tensors.length = 1))
    (hE : C01.Ext (levels S') (initTerms S' env')) (hin : C01.InputsWF S' env')
    (hout : S'.outRanks.Nodup) (houtin : ∀ r ∈ S'.outRanks, r ∈ S'.loop) (hl : σ'.length = S'.outRanks.length) :
    C01.resultAt S' env' σ' = meaning (S.loop.zip S.exts) S.outRanks S.terms env σ := by
  rw [C01.resultAt_eq_meaning S' env' hS hnd hlen hP hE hin hout houtin σ' hl]
  exact steps_meaning hsteps

/-- ... and therefore the value the nest emitted for the *unpartitioned* Einsum accumulates -/
theorem partitioned_eq_unpartitioned (S S' : EinsumS) (env env' : String → Pts) (σ σ' : List Nat)
    (hsteps : Steps ⟨S.loop.zip S.exts, S.outRanks, S.terms, env, σ⟩ ⟨S'.loop.zip S'.exts, S'.outRanks, S'.terms, env', σ'⟩)
    (hS' : S'.WF) (hnd' : S'.loop.Nodup) (hlen' : S'.exts.length = S'.loop.length)
    (hP' : ∀ t ∈ S'.terms, t.kind = .times ∨ (t.kind = .take 0 ∧ t.tensors.length = 1))
    (hE' : C01.Ext (levels S') (initTerms S' env')) (hin' : C01.InputsWF S' env')
    (hout' : S'.outRanks.Nodup) (houtin' : ∀ r ∈ S'.outRanks, r ∈ S'.loop) (hl' : σ'.length = S'.outRanks.length)
    (hS : S.WF) (hnd : S.loop.Nodup) (hlen : S.exts.length = S.loop.length)
    (hP : ∀ t ∈ S.terms, t.kind = .times ∨ (t.kind = .take 0 ∧ t.tensors.length = 1))
    (hE : C01.Ext (levels S) (initTerms S env)) (hin : C01.InputsWF S env)
    (hout : S.outRanks.Nodup) (houtin : ∀ r ∈ S.outRanks, r ∈ S.loop) (hl : σ.length = S.outRanks.length) :
    C01.resultAt S' env' σ' = C01.resultAt S env σ := by
  rw [partitioned_nest S S' env env' σ σ' hsteps hS' hnd' hlen' hP' hE' hin' hout' houtin' hl',
      C01.resultAt_eq_meaning S env hS hnd hlen hP hE hin hout houtin σ hl]

/-- `uniform_shape(s)`: the partition of `k` is `k / s * s`, below the extent -/
theorem shape_step_ok (s e : Nat) : ∀ k, k < e → k / s * s < e := fun k hk =>
  Nat.lt_of_le_of_lt (Nat.div_mul_le_self k s) hk

end C02
