import TeaalVerif.Nest.Aff
import TeaalVerif.Props.C01
import TeaalVerif.Nest.Drive
/-!
# C04 — the loop nest with projected fibers accumulates what the dense nest accumulates

`C04.runA_eq_specA`: for **every** number of loops, every set of pending affine accesses (any integer coefficients, any
number of variables per access, any number of tensors and terms), every extent and **every** input content: the emitted
nest - which at each loop co-iterates the fibers whose next access has just become resolvable, each read through
`project(inverse of the access, interval).prune(integral)` - accumulates at every output point exactly what the dense nest
(every loop over `0 .. extent-1`, same accesses) accumulates: no contribution is missing and none is counted twice.
`Props/C04Den.lean` identifies the dense nest with the Einsum's meaning.
-/
namespace C04
open Nest C01

def DeadA (st : TermA) : Prop := ∃ o ∈ st.ops, o.pts = []

theorem projPts_nil (a k : Int) (lim : Option Nat) : projPts a k lim [] = [] := rfl

theorem view_pts_nil (r : String) (ext : Nat) (o : OperandA) (h : o.pts = []) : (o.view r ext).pts = [] := by
  unfold OperandA.view
  split
  · split <;> simp [h, projPts_nil]
  · simp [h]

theorem stepA_dead (r : String) (ext c : Nat) (st : TermA) (h : DeadA st) : DeadA (st.step r ext c) := by
  obtain ⟨o, ho, he⟩ := h
  refine ⟨o.step r ext c, ?_, ?_⟩
  · simp only [TermA.step, List.mem_map]; exact ⟨o, ho, rfl⟩
  · simp only [OperandA.step, Operand.step, view_pts_nil r ext o he, slice_nil]
    split <;> rfl

theorem fin_dead (st : TermA) (h : DeadA st) : Dead st.fin := by
  obtain ⟨o, ho, he⟩ := h
  exact ⟨{ sched := [], pts := o.pts }, by simp only [TermA.fin, List.mem_map]; exact ⟨o, ho, rfl⟩, he⟩

theorem specA_zero : ∀ (ls : List (String × Bool × Nat)) (sts : List TermA), (∀ st ∈ sts, DeadA st) →
    ∀ σ, sumAt σ (specA ls sts) = 0
  | [], sts, h, σ => by
    simp only [specA]
    have : ((sts.map TermA.fin).map mathVal).sum = 0 :=
      sum_map_zero _ _ (fun st hst => by
        obtain ⟨st0, hst0, rfl⟩ := List.mem_map.1 hst
        exact mathVal_dead _ (fin_dead st0 (h st0 hst0)))
    rw [this]
    simp [sumAt, List.filter_cons]
    split <;> simp
  | (r, out, ext) :: ls, sts, h, σ => by
    simp only [specA]
    rw [sumAt_flatMap]
    apply sum_map_zero
    intro c _
    have hd : ∀ st ∈ sts.map (TermA.step r ext c), DeadA st := by
      intro st hst
      obtain ⟨st0, hst0, rfl⟩ := List.mem_map.1 hst
      exact stepA_dead r ext c st0 (h st0 hst0)
    cases out with
    | true =>
      rw [sumAt_map_tag_out]
      cases σ with
      | nil => rfl
      | cons c' σ' =>
        simp only
        split
        · exact specA_zero ls _ hd σ'
        · rfl
    | false =>
      rw [sumAt_map_tag_in]
      exact specA_zero ls _ hd σ

/-- at every loop either every term has a fiber to co-iterate or none has (all terms range over the same variables) -/
def LevelWFA : List (String × Bool × Nat) → List TermA → Prop
  | [], _ => True
  | (r, _, ext) :: ls, sts =>
    ((∀ st ∈ sts, hasActive (st.view r ext).ops = true) ∨ (∀ st ∈ sts, hasActive (st.view r ext).ops = false)) ∧
    ∀ c, c < ext → LevelWFA ls (sts.map (TermA.step r ext c))

/-- every coordinate a co-iterated fiber offers is below the loop's extent (automatic for projected fibers: the interval) -/
def ExtA : List (String × Bool × Nat) → List TermA → Prop
  | [], _ => True
  | (r, _, ext) :: ls, sts =>
    (∀ st ∈ sts, ∀ o ∈ (st.view r ext).ops, o.active = true → ∀ c ∈ heads o.pts, c < ext) ∧
    ∀ c, c < ext → ExtA ls (sts.map (TermA.step r ext c))

def PlainA (st : TermA) : Prop := st.kind = .times ∨ (st.kind = .take 0 ∧ st.ops.length = 1)

theorem plainA_step (r : String) (ext c : Nat) (st : TermA) (h : PlainA st) : PlainA (st.step r ext c) := by
  rcases h with h | ⟨h1, h2⟩
  · exact Or.inl h
  · exact Or.inr ⟨h1, by simp [TermA.step, h2]⟩

theorem plainA_fin (st : TermA) (h : PlainA st) : Plain st.fin := by
  rcases h with h | ⟨h1, h2⟩
  · exact Or.inl h
  · exact Or.inr ⟨h1, by simp [TermA.fin, h2]⟩

theorem view_step_pts (r : String) (ext c : Nat) (st : TermA) :
    ((st.view r ext).step c).ops.map (·.pts) = (st.step r ext c).ops.map (·.pts) := by
  simp [TermA.view, TermSt.step, TermA.step, OperandA.step, List.map_map, Function.comp_def]

/-- **C04, nest level**: emitted nest with projected fibers = dense nest, at every output point -/
theorem runA_eq_specA : ∀ (ls : List (String × Bool × Nat)) (sts : List TermA), (∀ st ∈ sts, PlainA st) →
    LevelWFA ls sts → ExtA ls sts → ∀ σ, sumAt σ (runA ls sts) = sumAt σ (specA ls sts)
  | [], sts, hP, _, _, σ => by
    simp only [runA, specA]
    have : (sts.map TermA.fin).map emitVal = (sts.map TermA.fin).map mathVal := by
      apply List.map_congr_left
      intro st hst
      obtain ⟨st0, hst0, rfl⟩ := List.mem_map.1 hst
      exact emit_eq_math_plain _ (plainA_fin st0 (hP st0 hst0))
    rw [this]
  | (r, out, N) :: ls, sts, hP, hW, hB, σ => by
    obtain ⟨hlvl, hW'⟩ := hW
    obtain ⟨hB0, hB'⟩ := hB
    have hP' : ∀ c, ∀ st ∈ sts.map (TermA.step r N c), PlainA st := by
      intro c st hst
      obtain ⟨st0, hst0, rfl⟩ := List.mem_map.1 hst
      exact plainA_step r N c st0 (hP st0 hst0)
    have ih : ∀ c, c < N → ∀ σ', sumAt σ' (runA ls (sts.map (TermA.step r N c))) =
        sumAt σ' (specA ls (sts.map (TermA.step r N c))) :=
      fun c hc σ' => runA_eq_specA ls _ (hP' c) (hW' c hc) (hB' c hc) σ'
    simp only [runA, specA]
    cases hco : coiterAll (sts.map (TermA.view r N)) with
    | none =>
      simp only
      rw [sumAt_flatMap, sumAt_flatMap]
      congr 1
      apply List.map_congr_left
      intro c hcm
      have hc : c < N := List.mem_range.1 hcm
      cases out with
      | true =>
        rw [sumAt_map_tag_out, sumAt_map_tag_out]
        cases σ with
        | nil => rfl
        | cons c' σ' => simp only; split
                        · exact ih c hc σ'
                        · rfl
      | false => rw [sumAt_map_tag_in, sumAt_map_tag_in]; exact ih c hc σ
    | some cs =>
      simp only
      obtain ⟨hnd, hsound, hcompl⟩ := coiterAll_spec _ cs hco
      have hact : ∀ st ∈ sts, hasActive (st.view r N).ops = true := by
        rcases hlvl with h | h
        · exact h
        · exfalso
          have : coiterAll (sts.map (TermA.view r N)) = none :=
            (coiterAll_none_iff _).2 (fun st hst => by
              obtain ⟨st0, hst0, rfl⟩ := List.mem_map.1 hst
              exact (coiterT_none_iff _).2 (h st0 hst0))
          rw [this] at hco; cases hco
      have hlt : ∀ c ∈ cs, c < N := by
        intro c hc
        obtain ⟨st, hst, cs', hcs', hm⟩ := hsound c hc
        obtain ⟨st0, hst0, rfl⟩ := List.mem_map.1 hst
        obtain ⟨_, hs, _⟩ := coiterT_spec _ cs' hcs'
        have : hasActive (st0.view r N).ops = true := hact st0 hst0
        simp only [hasActive, List.any_eq_true] at this
        obtain ⟨o, ho, hoa⟩ := this
        exact hB0 st0 hst0 o ho hoa c (hs c hm o ho hoa)
      have hdead : ∀ c, c ∉ cs → ∀ st ∈ sts.map (TermA.step r N c), DeadA st := by
        intro c hc st hst
        obtain ⟨st0, hst0, rfl⟩ := List.mem_map.1 hst
        have hne : coiterT (st0.view r N).ops ≠ none := fun e => by
          have := (coiterT_none_iff _).1 e
          rw [hact st0 hst0] at this; cases this
        cases hct : coiterT (st0.view r N).ops with
        | none => exact absurd hct hne
        | some cs' =>
          obtain ⟨_, _, hcm⟩ := coiterT_spec _ cs' hct
          obtain ⟨o, ho, hoa, hn⟩ := hcm c (hcompl c hc (st0.view r N) (List.mem_map.2 ⟨st0, hst0, rfl⟩) cs' hct)
          simp only [TermA.view, List.mem_map] at ho
          obtain ⟨oa, hoa0, rfl⟩ := ho
          refine ⟨oa.step r N c, ?_, ?_⟩
          · simp only [TermA.step, List.mem_map]; exact ⟨oa, hoa0, rfl⟩
          · simp only [OperandA.step, Operand.step, hoa, if_true]; exact slice_eq_nil hn
      exact sumAt_tagged_cover out N cs _ _ σ hnd hlt (fun c hc σ' => ih c (hlt c hc) σ') (fun c hc σ' => specA_zero ls _ (hdead c hc) σ')

/-! ### the two hypotheses are decidable: a checker that walks the dense nest -/

def nestOKb : List (String × Bool × Nat) → List TermA → Bool
  | [], _ => true
  | (r, _, ext) :: ls, sts =>
    ((sts.all fun st => hasActive (st.view r ext).ops) || (sts.all fun st => !hasActive (st.view r ext).ops)) &&
    (sts.all fun st => (st.view r ext).ops.all fun o => !o.active || (heads o.pts).all fun c => decide (c < ext)) &&
    (List.range ext).all fun c => nestOKb ls (sts.map (TermA.step r ext c))

theorem nestOKb_sound : ∀ (ls : List (String × Bool × Nat)) (sts : List TermA), nestOKb ls sts = true → LevelWFA ls sts ∧ ExtA ls sts
  | [], _, _ => ⟨trivial, trivial⟩
  | (r, out, ext) :: ls, sts, h => by
    simp only [nestOKb, Bool.and_eq_true, Bool.or_eq_true, List.all_eq_true, List.mem_range, Bool.not_eq_true', decide_eq_true_eq] at h
    obtain ⟨⟨h1, h2⟩, h3⟩ := h
    have ih := fun c hc => nestOKb_sound ls (sts.map (TermA.step r ext c)) (h3 c hc)
    refine ⟨⟨h1, fun c hc => (ih c hc).1⟩, ⟨?_, fun c hc => (ih c hc).2⟩⟩
    intro st hst o ho hoa c hc
    rcases h2 st hst o ho with hf | hb
    · rw [hoa] at hf; cases hf
    · exact hb c hc

end C04
