import TeaalVerif.Props.C03Nest
import TeaalVerif.Props.C02Model
/-!
# C03 — static splits followed by a dynamic one (occupancy beneath a shape split; occupancy at the top level)

`C03.static_then_dynamic`: split some ranks statically (`C02.applySplits`: `uniform_shape` / `nway_shape` levels, done in the
program's header), then partition one of the resulting ranks by occupancy inside the loops: the emitted nest computes the
meaning of the **original** Einsum.  With no static split and no outer loop this is top-level occupancy partitioning.
-/
namespace C03
open Nest C01 C02

theorem applySplits_out : ∀ (sps : List SplitSpec) (A : Cfg), (∀ sp ∈ sps, sp.K ∉ A.out) →
    (applySplits sps A).out = A.out ∧ (applySplits sps A).τ = A.τ
  | [], _, _ => ⟨rfl, rfl⟩
  | sp :: sps, A, h => by
    have hK : sp.K ∉ A.out := h sp (by simp)
    have ho : (splitCfg sp A).out = A.out := splitRanks_of_not_mem sp.K sp.K1 sp.K0 A.out hK
    have ht : (splitCfg sp A).τ = A.τ := splitPt_of_not_mem sp.K sp.g A.out A.τ hK
    have ih := applySplits_out sps (splitCfg sp A) (fun sp' hsp' => by rw [ho]; exact h sp' (List.mem_cons_of_mem _ hsp'))
    simp only [applySplits]
    rw [ih.1, ih.2, ho, ht]
    exact ⟨rfl, rfl⟩

theorem concord_idem (L X : List String) : concord L (concord L X) = concord L X := by
  unfold concord
  apply List.filter_congr
  intro r hr
  rw [Bool.eq_iff_iff]
  simp [List.mem_filter, hr]

theorem splitsOK_len : ∀ (sps : List SplitSpec) (A : Cfg) (τ : List Nat), τ.length = A.τ.length → SplitsOK sps A →
    SplitsOK sps { A with τ := τ }
  | [], _, _, _, _ => trivial
  | sp :: sps, A, τ, hl, h => by
    obtain ⟨h1, h2⟩ := h
    refine ⟨?_, ?_⟩
    · obtain ⟨a, b, c, d, e, f, g, h', i, j, k, l⟩ := h1
      exact ⟨a, b, c, d, e, f, g, h', i, j, k, by simpa [hl] using l⟩
    · have : splitCfg sp { A with τ := τ } = { splitCfg sp A with τ := splitPt sp.K sp.g A.out τ } := rfl
      rw [this]
      apply splitsOK_len sps (splitCfg sp A) _ _ h2
      obtain ⟨_, _, _, _, _, _, _, _, _, _, _, l⟩ := h1
      show (splitPt sp.K sp.g A.out τ).length = (splitPt sp.K sp.g A.out A.τ).length
      rw [C03.length_splitPt sp.K sp.K1 sp.K0 sp.g A.out τ (by rw [hl, l]), C03.length_splitPt sp.K sp.K1 sp.K0 sp.g A.out A.τ l]

theorem applySplits_tau_indep : ∀ (sps : List SplitSpec) (A : Cfg) (τ : List Nat),
    (applySplits sps { A with τ := τ }).R = (applySplits sps A).R ∧ (applySplits sps { A with τ := τ }).terms = (applySplits sps A).terms ∧
    (applySplits sps { A with τ := τ }).env = (applySplits sps A).env ∧ (applySplits sps { A with τ := τ }).out = (applySplits sps A).out
  | [], _, _ => ⟨rfl, rfl, rfl, rfl⟩
  | sp :: sps, A, τ => by
    have : splitCfg sp { A with τ := τ } = { splitCfg sp A with τ := splitPt sp.K sp.g A.out τ } := rfl
    simp only [applySplits]
    rw [this]
    exact applySplits_tau_indep sps (splitCfg sp A) _

/-- the static part of the hypotheses (decidable); `σ0` is any list of the right length (only its length is looked at) -/
def StaticHyps (S : EinsumS) (env : String → Pts) (sps : List SplitSpec) (L1 : List String) (σ0 : List Nat) : Prop :=
  let outc := concord L1 S.outRanks
  let A : Cfg := ⟨S.loop.zip S.exts, outc, S.terms, env, σ0⟩
  let B := applySplits sps A
  let S1 := partEinsum S B L1
  SplitsOK sps A ∧ (∀ sp ∈ sps, sp.K ∉ outc) ∧ B.R.Perm (S1.loop.zip S1.exts) ∧ (B.R.map (·.1)).Nodup ∧ σ0.length = outc.length ∧
  (∀ r ∈ S.outRanks, r ∈ L1)

instance (S : EinsumS) (env : String → Pts) (sps : List SplitSpec) (L1 : List String) (σ0 : List Nat) :
    Decidable (StaticHyps S env sps L1 σ0) := by unfold StaticHyps; infer_instance

/-- static splits of ranks that are not output ranks (every output rank is still a loop rank of `L1`, so
    `concord L1 S.outRanks` is the output's rank list in loop order): the statically split Einsum means what the original one means -/
theorem static_meaning (S : EinsumS) (env : String → Pts) (sps : List SplitSpec) (L1 : List String)
    (σ0 : List Nat) (h : StaticHyps S env sps L1 σ0) (τ : List Nat) (hτ : τ.length = σ0.length) :
    let B := applySplits sps ⟨S.loop.zip S.exts, concord L1 S.outRanks, S.terms, env, σ0⟩
    let S1 := partEinsum S B L1
    meaning (S1.loop.zip S1.exts) (concord S1.loop S1.outRanks) S1.terms B.env τ =
      meaning (S.loop.zip S.exts) (concord L1 S.outRanks) S.terms env τ := by
  intro B S1
  obtain ⟨hsp, hKs, hperm, hndR, hl0, _⟩ := h
  let outc := concord L1 S.outRanks
  let A : Cfg := ⟨S.loop.zip S.exts, outc, S.terms, env, σ0⟩
  let Aτ : Cfg := { A with τ := τ }
  have hspτ : SplitsOK sps Aτ := splitsOK_len sps A τ hτ hsp
  obtain ⟨hR, hT, hE, hO⟩ := applySplits_tau_indep sps A τ
  have hoτ := applySplits_out sps Aτ hKs
  have hsteps := steps_meaning (applySplits_steps sps Aτ hspτ)
  simp only [Cfg.value] at hsteps
  have hB : B = applySplits sps A := rfl
  have e1 : S1.terms = (applySplits sps Aτ).terms := by rw [hT]; rfl
  have e2 : B.env = (applySplits sps Aτ).env := by rw [hE]
  have e3 : concord S1.loop S1.outRanks = (applySplits sps Aτ).out := by
    rw [hoτ.1]
    show concord L1 B.out = outc
    rw [hB, (applySplits_out sps A hKs).1]
    exact concord_idem L1 S.outRanks
  rw [e1, e2, e3]
  have hperm' : (applySplits sps Aτ).R.Perm (S1.loop.zip S1.exts) := by rw [hR]; exact hperm
  rw [← C01.meaning_perm hperm' (by rw [hR]; exact hndR)]
  have := hsteps
  rw [hoτ.2] at this
  rw [this]

/-- hypotheses of `static_then_dynamic` (decidable) -/
def StatDynHyps (S : EinsumS) (env : String → Pts) (sps : List SplitSpec) (L1 : List String) (D : DynSpec) (npre : Nat) (σ0 : List Nat) : Prop :=
  let B := applySplits sps ⟨S.loop.zip S.exts, concord L1 S.outRanks, S.terms, env, σ0⟩
  StaticHyps S env sps L1 σ0 ∧ DynHyps D (partEinsum S B L1) B.env npre

instance (S : EinsumS) (env : String → Pts) (sps : List SplitSpec) (L1 : List String) (D : DynSpec) (npre : Nat) (σ0 : List Nat) :
    Decidable (StatDynHyps S env sps L1 D npre σ0) := by unfold StatDynHyps; infer_instance

/-- **C03: static splits, then a dynamic occupancy split inside the loops** -/
theorem static_then_dynamic (S : EinsumS) (env : String → Pts) (sps : List SplitSpec) (L1 : List String) (D : DynSpec) (npre : Nat)
    (σ0 : List Nat) (h : StatDynHyps S env sps L1 D npre σ0) (τ : List Nat) (hτ : τ.length = σ0.length) :
    let B := applySplits sps ⟨S.loop.zip S.exts, concord L1 S.outRanks, S.terms, env, σ0⟩
    let S1 := partEinsum S B L1
    sumAt τ (runDyn D S1.outRanks (lv S1.outRanks (S1.loop.take npre) (S1.exts.take npre)) (initTerms S1 B.env)) =
      meaning (S.loop.zip S.exts) (concord L1 S.outRanks) S.terms env τ := by
  intro B S1
  rw [dynamic_nest' D S1 B.env npre h.2 τ]
  exact static_meaning S env sps L1 σ0 h.1 τ hτ

end C03
