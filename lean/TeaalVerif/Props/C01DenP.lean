import TeaalVerif.Nest.DenP
import TeaalVerif.Props.C01Den
/-!
# `spec_sumF` for accesses that carry their tensor (no environment): the dense nest over the remaining loops, started from any
operand states that represent the accesses under the coordinates bound so far, sums the terms over all extensions of those
coordinates.  (Obtained from the environment-based proof in Props/C01Den.lean by renaming; same argument.)
-/
namespace C01
open Nest

/-- operand state `o` represents the access `x` once the ranks outside `rs` are bound as in `f` -/
def OpRelP (rs : List String) (f : String → Nat) (x : AccessP) (o : Operand) : Prop :=
  o.sched = schedOf rs x.ranks ∧
  ∀ f', (∀ s, s ∉ rs → f' s = f s) → sumAt ((concord rs x.ranks).map f') o.pts = sumAt (x.ranks.map f') x.pts

def OpsRelP (rs : List String) (f : String → Nat) : List AccessP → List Operand → Prop
  | [], [] => True
  | x :: xs, o :: os => OpRelP rs f x o ∧ OpsRelP rs f xs os
  | _, _ => False

def TermRelP (rs : List String) (f : String → Nat) (t : TermP) (st : TermSt) : Prop :=
  st.kind = t.kind ∧ st.scal = t.scal ∧ OpsRelP rs f t.accs st.ops

def RelP (rs : List String) (f : String → Nat) : List TermP → List TermSt → Prop
  | [], [] => True
  | t :: ts, st :: sts => TermRelP rs f t st ∧ RelP rs f ts sts
  | _, _ => False

theorem opRelP_step {r : String} {rs : List String} {f : String → Nat} {x : AccessP} {o : Operand}
    (hr : r ∉ rs) (c : Nat) (h : OpRelP (r :: rs) f x o) : OpRelP rs (upd f r c) x (o.step c) := by
  obtain ⟨hs, hv⟩ := h
  refine ⟨by simp [Operand.step, hs, schedOf], ?_⟩
  intro f' hf'
  have hagree : ∀ s, s ∉ r :: rs → f' s = f s := by
    intro s hs'
    have h1 : s ∉ rs := fun hm => hs' (List.mem_cons_of_mem _ hm)
    have h2 : s ≠ r := fun e => hs' (by simp [e])
    rw [hf' s h1]; simp [upd, h2]
  have hfr : f' r = c := by rw [hf' r hr]; simp [upd]
  have hact : o.active = x.ranks.contains r := by
    simp [Operand.active, hs, schedOf]
  by_cases hm : x.ranks.contains r = true
  · have : (o.step c).pts = slice c o.pts := by
      show (if o.active then slice c o.pts else o.pts) = slice c o.pts
      rw [hact, hm]; rfl
    rw [this, sumAt_slice, ← hv f' hagree, concord_cons_mem hm]
    simp [hfr]
  · have hm' : x.ranks.contains r = false := by simpa using hm
    have : (o.step c).pts = o.pts := by
      show (if o.active then slice c o.pts else o.pts) = o.pts
      rw [hact, hm']; rfl
    rw [this, ← hv f' hagree, concord_cons_not_mem hm']

theorem opsRelP_step {r : String} {rs : List String} {f : String → Nat} (hr : r ∉ rs) (c : Nat) :
    ∀ (xs : List AccessP) (os : List Operand), OpsRelP (r :: rs) f xs os → OpsRelP rs (upd f r c) xs (os.map (Operand.step c))
  | [], [], _ => trivial
  | x :: xs, o :: os, h => ⟨opRelP_step hr c h.1, opsRelP_step hr c xs os h.2⟩
  | [], _ :: _, h => h.elim
  | _ :: _, [], h => h.elim

theorem relP_step {r : String} {rs : List String} {f : String → Nat} (hr : r ∉ rs) (c : Nat) :
    ∀ (ts : List TermP) (sts : List TermSt), RelP (r :: rs) f ts sts → RelP rs (upd f r c) ts (sts.map (TermSt.step c))
  | [], [], _ => trivial
  | t :: ts, st :: sts, h => ⟨⟨h.1.1, h.1.2.1, opsRelP_step hr c _ _ h.1.2.2⟩, relP_step hr c ts sts h.2⟩
  | [], _ :: _, h => h.elim
  | _ :: _, [], h => h.elim

theorem opsRelP_vals {f : String → Nat} :
    ∀ (xs : List AccessP) (os : List Operand), OpsRelP [] f xs os → os.map (fun o => leaf o.pts) = xs.map (accessValP f)
  | [], [], _ => rfl
  | x :: xs, o :: os, h => by
    have := h.1.2 f (fun _ _ => rfl)
    have hx : leaf o.pts = accessValP f x := by
      rw [leaf_eq_sumAt, accessValP, ← this]; rfl
    simp only [List.map_cons, opsRelP_vals xs os h.2, hx]
  | [], _ :: _, h => h.elim
  | _ :: _, [], h => h.elim

theorem relP_vals {f : String → Nat} :
    ∀ (ts : List TermP) (sts : List TermSt), RelP [] f ts sts → sts.map mathVal = ts.map (termValP f)
  | [], [], _ => rfl
  | t :: ts, st :: sts, h => by
    simp only [List.map_cons, relP_vals ts sts h.2]
    congr 1
    rw [mathVal_eq_comb, termValP, h.1.1, h.1.2.1, opsRelP_vals _ _ h.1.2.2]
  | [], _ :: _, h => h.elim
  | _ :: _, [], h => h.elim

/-- the dense nest over the remaining loops sums the terms over all extensions of the bound assignment -/
theorem spec_sumF_P (out : List String) (terms : List TermP) :
    ∀ (rs : List String) (es : List Nat) (sts : List TermSt) (f : String → Nat),
      rs.Nodup → es.length = rs.length → RelP rs f terms sts →
      ∀ τ, sumAt τ (spec (lv out rs es) sts) =
        sumF (rs.zip es) (fun f' => if (concord rs out).map f' = τ then (terms.map (termValP f')).sum else 0) f
  | [], es, sts, f, _, _, hR, τ => by
    simp only [lv, List.zip_nil_left, List.map_nil, spec, sumF, concord, List.filter_nil]
    rw [relP_vals terms sts hR]
    cases τ with
    | nil => simp [sumAt]
    | cons a τ => simp [sumAt]
  | r :: rs, [], _, _, _, hl, _, _ => by simp at hl
  | r :: rs, e :: es, sts, f, hnd, hl, hR, τ => by
    have hnd' := List.nodup_cons.1 hnd
    have hl' : es.length = rs.length := by simpa using hl
    have ih := fun c τ' => spec_sumF_P out terms rs es (sts.map (TermSt.step c)) (upd f r c) hnd'.2 hl' (relP_step hnd'.1 c terms sts hR) τ'
    have hlv : lv out (r :: rs) (e :: es) = (out.contains r, e) :: lv out rs es := by simp [lv]
    simp only [hlv, spec, List.zip_cons_cons, sumF]
    rw [sumAt_flatMap]
    apply sum_map_congr
    intro c _
    by_cases hm : out.contains r = true
    · rw [hm, sumAt_map_tag_out, concord_cons_mem hm]
      cases τ with
      | nil =>
        simp only [List.map_cons]
        rw [show (fun f' : String → Nat => if f' r :: List.map f' (concord rs out) = [] then (terms.map (termValP f')).sum else 0) = fun _ => 0 from by
          funext f'; simp]
        rw [sumF_zero]
      | cons c' τ' =>
        simp only [List.map_cons]
        by_cases hc : c' = c
        · subst hc
          rw [if_pos rfl, ih]
          apply sumF_congr_on
          intro f' hf'
          have : f' r = c' := by
            rw [hf' r (by
              intro hmem
              obtain ⟨p, hp, hpr⟩ := List.mem_map.1 hmem
              exact hnd'.1 (hpr ▸ (List.of_mem_zip hp).1))]
            simp [upd]
          simp [this]
        · rw [if_neg hc]
          symm
          refine (sumF_congr_on _ _ (fun _ => 0) _ ?_).trans (sumF_zero _ _)
          intro f' hf'
          have : f' r = c := by
            rw [hf' r (by
              intro hmem
              obtain ⟨p, hp, hpr⟩ := List.mem_map.1 hmem
              exact hnd'.1 (hpr ▸ (List.of_mem_zip hp).1))]
            simp [upd]
          have hne : ¬ (f' r :: List.map f' (concord rs out) = c' :: τ') := by
            intro e
            simp only [List.cons.injEq] at e
            exact hc (e.1.symm.trans this)
          rw [if_neg hne]
    · have hm' : out.contains r = false := by simpa using hm
      rw [hm', sumAt_map_tag_in, concord_cons_not_mem hm', ih]


end C01
