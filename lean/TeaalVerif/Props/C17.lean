import TeaalVerif.Grammar.Spec
/-!
# C17 — specification text is parsed into exactly the structure written (token level)

For each of the five grammars: reading the token sequence of an abstract syntax tree gives back that
tree (`*_roundtrip`, for **every** tree — all coefficients, signs, arities, selectors, leaders, sizes,
instance ranges), and, for the four small grammars, nothing else is accepted (`*_exact`: the reader
accepts a token sequence only if it is the rendering of the tree it returns — text outside the grammar
is rejected, never partially read).
-/
namespace C17
open Grammar

/-! ### separated lists, generically -/

/-- `Follow sep rest`: `rest` does not begin with the separator (so the list ends here) -/
def NoSep (sep : Tok) (rest : List Tok) : Prop := ∀ r, rest ≠ sep :: r

theorem parseSep_roundtrip {α : Type} (p : Nat → List Tok → Option (α × List Tok)) (tk : α → List Tok)
    (sep : Tok) (good : α → Prop) (follow : List Tok → Prop)
    (hp : ∀ x fuel rest, good x → (tk x).length ≤ fuel → follow rest → p fuel (tk x ++ rest) = some (x, rest))
    (hne : ∀ x, good x → tk x ≠ [])
    (hsep : ∀ r, follow (sep :: r)) :
    ∀ (xs : List α), xs ≠ [] → (∀ x ∈ xs, good x) → ∀ (rest : List Tok), follow rest → NoSep sep rest →
      ∀ fuel, (sepBy sep (xs.map tk)).length ≤ fuel →
        parseSep p sep fuel (sepBy sep (xs.map tk) ++ rest) = some (xs, rest)
  | [], h, _, _, _, _, _, _ => absurd rfl h
  | [x], _, hg, rest, hf, hns, fuel, hfuel => by
    simp only [List.map_cons, List.map_nil, sepBy] at hfuel ⊢
    have gx := hg x (by simp)
    cases fuel with
    | zero =>
      have := hne x gx
      cases h : tk x with
      | nil => exact absurd h this
      | cons a as => rw [h] at hfuel; simp at hfuel
    | succ fuel =>
      simp only [parseSep]
      rw [hp x (fuel + 1) rest gx hfuel hf]
      cases rest with
      | nil => rfl
      | cons t r =>
        simp only
        have : t ≠ sep := fun e => hns r (by rw [e])
        simp [this]
  | x :: y :: xs, _, hg, rest, hf, hns, fuel, hfuel => by
    simp only [List.map_cons, sepBy] at hfuel ⊢
    have gx := hg x (by simp)
    cases fuel with
    | zero => simp at hfuel
    | succ fuel =>
      simp only [parseSep]
      have hlen : (tk x).length ≤ fuel + 1 := by
        simp only [List.length_append, List.length_cons] at hfuel; omega
      rw [List.append_assoc, hp x (fuel + 1) _ gx hlen (by simpa using hsep _)]
      simp only [List.cons_append, if_true]
      have ih := parseSep_roundtrip p tk sep good follow hp hne hsep (y :: xs) (by simp)
        (fun z hz => hg z (List.mem_cons_of_mem _ hz)) rest hf hns fuel (by
          simp only [List.length_append, List.length_cons] at hfuel
          have := hne x gx
          have : 0 < (tk x).length := List.length_pos_iff.2 this
          simp only [List.map_cons] at *
          omega)
      simp only [List.map_cons] at ih
      rw [ih]

/-! ### index expressions -/

theorem iterm_roundtrip (t : ITerm) (rest : List Tok) : parseITerm (t.toks ++ rest) = some (t, rest) := by
  obtain ⟨c, v⟩ := t
  cases c with
  | none => simp [ITerm.toks, parseITerm]
  | some c =>
    simp only [ITerm.toks, coefToks]
    by_cases hc : c < 0
    · simp only [hc, if_true, List.cons_append, List.nil_append, parseITerm]
      have : -(Int.ofNat (-c).toNat) = c := by
        have : ((-c).toNat : Int) = -c := Int.toNat_of_nonneg (by omega)
        simp only [Int.ofNat_eq_natCast]
        omega
      rw [this]
    · simp only [hc, if_false, List.cons_append, List.nil_append, parseITerm]
      have : Int.ofNat c.toNat = c := by
        have : (c.toNat : Int) = c := Int.toNat_of_nonneg (by omega)
        simpa using this
      rw [this]

/-- an index term starts with a name, a number or a minus sign -/
inductive ITermHead : List Tok → Prop
  | name (v r) : ITermHead (.name v :: r)
  | num (n r) : ITermHead (.num n :: r)
  | minus (r) : ITermHead (.sym "-" :: r)

theorem iterm_head (t : ITerm) (rest : List Tok) : ITermHead (t.toks ++ rest) := by
  obtain ⟨c, v⟩ := t
  cases c with
  | none => exact ITermHead.name _ _
  | some c =>
    simp only [ITerm.toks, coefToks]
    split
    · exact ITermHead.minus _
    · exact ITermHead.num _ _

theorem iterm_toks_ne (t : ITerm) : t.toks ≠ [] := by
  intro h
  have := iterm_head t []
  rw [h] at this
  cases this

theorem iexpr_head (e : IExpr) (he : e ≠ []) (rest : List Tok) : ITermHead (IExpr.toks e ++ rest) := by
  cases e with
  | nil => exact absurd rfl he
  | cons t ts =>
    cases ts with
    | nil => simpa [IExpr.toks, sepBy] using iterm_head t rest
    | cons u us =>
      simp only [IExpr.toks, List.map_cons, sepBy, List.append_assoc]
      exact iterm_head t _

theorem iexpr_toks_ne (e : IExpr) (he : e ≠ []) : IExpr.toks e ≠ [] := by
  intro h
  have := iexpr_head e he []
  rw [h] at this
  cases this

theorem iexpr_roundtrip (e : IExpr) (he : e ≠ []) (rest : List Tok) (hr : NoSep (.sym "+") rest)
    (fuel : Nat) (hf : (IExpr.toks e).length ≤ fuel) : parseIExpr fuel (IExpr.toks e ++ rest) = some (e, rest) := by
  unfold parseIExpr IExpr.toks
  exact parseSep_roundtrip (fun _ => parseITerm) ITerm.toks (.sym "+") (fun _ => True) (fun _ => True)
    (fun x _ r _ _ _ => iterm_roundtrip x r) (fun x _ => iterm_toks_ne x) (fun _ => trivial)
    e he (fun _ _ => trivial) rest trivial hr fuel hf

/-! ### tensor accesses, factors, terms -/

def WfAccess (a : Access) : Prop := ∀ e ∈ a.idx, e ≠ []
def WfFactor : Factor → Prop
  | .scalar _ => True
  | .tensor a => WfAccess a
def WfTerm : Term → Prop
  | .times fs => fs ≠ [] ∧ ∀ f ∈ fs, WfFactor f
  | .take fs _ => fs ≠ [] ∧ ∀ f ∈ fs, WfFactor f
def WfEinsum (e : Einsum) : Prop := WfAccess e.out ∧ e.terms ≠ [] ∧ ∀ t ∈ e.terms, WfTerm t

def NoBracket (rest : List Tok) : Prop := rest.head? ≠ some (.sym "[")

theorem head_ne_of_itermHead {ts : List Tok} (h : ITermHead ts) (s : String) (hs : s ≠ "-") : ts.head? ≠ some (.sym s) := by
  cases h <;> simp
  exact fun e => hs e.symm

theorem access_roundtrip (a : Access) (ha : WfAccess a) (rest : List Tok) (fuel : Nat)
    (hf : a.toks.length ≤ fuel) : parseAccess fuel (a.toks ++ rest) = some (a, rest) := by
  obtain ⟨n, idx⟩ := a
  cases idx with
  | nil => simp [Access.toks, sepBy, parseAccess]
  | cons e es =>
    have he : e ≠ [] := ha e (by simp)
    simp only [Access.toks, List.cons_append, List.append_assoc, List.singleton_append, List.nil_append]
    have hsp := parseSep_roundtrip parseIExpr IExpr.toks (.sym ",") (fun e => e ≠ []) (NoSep (.sym "+"))
      (fun x fuel r gx hl hfo => iexpr_roundtrip x gx r hfo fuel hl) (fun x gx => iexpr_toks_ne x gx)
      (fun r r' h => by simp at h) (e :: es) (by simp) (fun x hx => ha x hx) (.sym "]" :: rest)
      (fun r h => by simp at h) (fun r h => by simp at h) fuel (by
        simp only [Access.toks, List.length_cons, List.length_append] at hf
        omega)
    have hhead : ITermHead (sepBy (.sym ",") ((e :: es).map IExpr.toks) ++ .sym "]" :: rest) := by
      cases es with
      | nil => simpa [sepBy] using iexpr_head e he (.sym "]" :: rest)
      | cons f fs =>
        simp only [List.map_cons, sepBy, List.append_assoc]
        exact iexpr_head e he _
    simp only [parseAccess]
    rw [if_neg (head_ne_of_itermHead hhead "]" (by decide)), hsp]
    simp

theorem access_head (a : Access) (rest : List Tok) : ∃ r, a.toks ++ rest = .name a.name :: .sym "[" :: r := by
  exact ⟨_, rfl⟩

theorem factor_roundtrip (f : Factor) (hw : WfFactor f) (rest : List Tok) (hr : NoBracket rest) (fuel : Nat)
    (hf : f.toks.length ≤ fuel) : parseFactor fuel (f.toks ++ rest) = some (f, rest) := by
  cases f with
  | scalar n =>
    simp only [Factor.toks, List.cons_append, List.nil_append, parseFactor]
    rw [if_neg hr]
  | tensor a =>
    have h := access_roundtrip a hw rest fuel hf
    simp only [Factor.toks]
    have : a.toks ++ rest = .name a.name :: (.sym "[" :: (sepBy (.sym ",") (a.idx.map IExpr.toks) ++ [.sym "]"]) ++ rest) := rfl
    rw [this] at h ⊢
    simp only [parseFactor, List.cons_append, List.head?_cons, if_true]
    rw [show (Tok.name a.name :: Tok.sym "[" :: (sepBy (Tok.sym ",") (a.idx.map IExpr.toks) ++ [Tok.sym "]"] ++ rest)) =
      Tok.name a.name :: (Tok.sym "[" :: (sepBy (Tok.sym ",") (a.idx.map IExpr.toks) ++ [Tok.sym "]"]) ++ rest) from rfl, h]

theorem factor_toks_ne (f : Factor) : f.toks ≠ [] := by
  cases f <;> simp [Factor.toks, Access.toks]

theorem factor_head (f : Factor) (rest : List Tok) : ∃ n r, f.toks ++ rest = .name n :: r := by
  cases f with
  | scalar n => exact ⟨n, rest, rfl⟩
  | tensor a => exact ⟨a.name, _, rfl⟩

theorem times_roundtrip (fs : List Factor) (hne : fs ≠ []) (hw : ∀ f ∈ fs, WfFactor f) (rest : List Tok)
    (hr : NoBracket rest) (hs : NoSep (.sym "*") rest) (fuel : Nat)
    (hf : (sepBy (.sym "*") (fs.map Factor.toks)).length ≤ fuel) :
    parseTimes fuel (sepBy (.sym "*") (fs.map Factor.toks) ++ rest) = some (fs, rest) := by
  unfold parseTimes
  exact parseSep_roundtrip parseFactor Factor.toks (.sym "*") WfFactor NoBracket
    (fun x fuel r gx hl hfo => factor_roundtrip x gx r hfo fuel hl) (fun x _ => factor_toks_ne x)
    (fun r => by simp [NoBracket]) fs hne hw rest hr hs fuel hf

theorem takeArgs_roundtrip : ∀ (fs : List Factor), fs ≠ [] → (∀ f ∈ fs, WfFactor f) → ∀ (sel : Nat) (rest : List Tok) (fuel : Nat),
    (sepBy (.sym ",") (fs.map Factor.toks)).length ≤ fuel →
    parseTakeArgs fuel (sepBy (.sym ",") (fs.map Factor.toks) ++ (.sym "," :: .num sel :: .sym ")" :: rest)) = some (fs, sel, rest)
  | [], h, _, _, _, _, _ => absurd rfl h
  | [f], _, hw, sel, rest, fuel, hf => by
    simp only [List.map_cons, List.map_nil, sepBy] at hf ⊢
    cases fuel with
    | zero =>
      have := factor_toks_ne f
      cases h : f.toks with
      | nil => exact absurd h this
      | cons a as => rw [h] at hf; simp at hf
    | succ fuel =>
      simp only [parseTakeArgs]
      rw [factor_roundtrip f (hw f (by simp)) _ (by simp [NoBracket]) (fuel + 1) hf]
      simp
  | f :: g :: fs, _, hw, sel, rest, fuel, hf => by
    simp only [List.map_cons, sepBy] at hf ⊢
    cases fuel with
    | zero => simp at hf
    | succ fuel =>
      simp only [parseTakeArgs]
      have hlen : f.toks.length ≤ fuel + 1 := by
        simp only [List.length_append, List.length_cons] at hf; omega
      rw [List.append_assoc, factor_roundtrip f (hw f (by simp)) _ (by simp [NoBracket]) (fuel + 1) hlen]
      have ih := takeArgs_roundtrip (g :: fs) (by simp) (fun z hz => hw z (List.mem_cons_of_mem _ hz)) sel rest fuel (by
        simp only [List.length_append, List.length_cons] at hf
        have : 0 < f.toks.length := List.length_pos_iff.2 (factor_toks_ne f)
        simp only [List.map_cons] at *
        omega)
      simp only [List.map_cons] at ih
      -- what follows the comma starts with a name (the next factor), not with a number
      obtain ⟨n, r, hnr⟩ : ∃ n r, sepBy (.sym ",") (g.toks :: fs.map Factor.toks) ++ (.sym "," :: .num sel :: .sym ")" :: rest) = .name n :: r := by
        cases fs with
        | nil =>
          obtain ⟨n, r, h⟩ := factor_head g (.sym "," :: .num sel :: .sym ")" :: rest)
          exact ⟨n, r, by simpa [sepBy] using h⟩
        | cons h' hs' =>
          simp only [List.map_cons, sepBy, List.append_assoc]
          exact factor_head g _
      simp only [List.cons_append, List.head?_cons, if_true, List.tail_cons]
      rw [hnr] at ih ⊢
      simp only
      rw [ih]

def NoTimes (rest : List Tok) : Prop := NoBracket rest ∧ NoSep (.sym "*") rest

theorem term_toks_ne (t : Term) (hw : WfTerm t) : t.toks ≠ [] := by
  cases t with
  | times fs =>
    obtain ⟨hne, _⟩ := hw
    cases fs with
    | nil => exact absurd rfl hne
    | cons f fs =>
      cases fs with
      | nil => simpa [Term.toks, sepBy] using factor_toks_ne f
      | cons g gs =>
        simp only [Term.toks, List.map_cons, sepBy]
        intro h
        have := factor_toks_ne f
        cases hf : f.toks with
        | nil => exact this hf
        | cons a as => rw [hf] at h; simp at h
  | take fs sel => simp [Term.toks]

theorem term_roundtrip (t : Term) (hw : WfTerm t) (rest : List Tok) (hr : NoTimes rest) (fuel : Nat)
    (hf : t.toks.length ≤ fuel) : parseTerm fuel (t.toks ++ rest) = some (t, rest) := by
  cases t with
  | times fs =>
    obtain ⟨hne, hwf⟩ := hw
    simp only [Term.toks] at hf ⊢
    have h := times_roundtrip fs hne hwf rest hr.1 hr.2 fuel hf
    -- the first token is a name
    obtain ⟨n, r, hnr⟩ : ∃ n r, sepBy (.sym "*") (fs.map Factor.toks) ++ rest = .name n :: r := by
      cases fs with
      | nil => exact absurd rfl hne
      | cons f fs =>
        cases fs with
        | nil =>
          obtain ⟨n, r, h⟩ := factor_head f rest
          exact ⟨n, r, by simpa [sepBy] using h⟩
        | cons g gs =>
          simp only [List.map_cons, sepBy, List.append_assoc]
          exact factor_head f _
    unfold parseTerm
    rw [hnr] at h ⊢
    simp only [List.head?_cons, Option.some.injEq, reduceCtorEq, if_false]
    rw [h]
  | take fs sel =>
    obtain ⟨hne, hwf⟩ := hw
    simp only [Term.toks, List.cons_append, List.append_assoc, List.nil_append] at hf ⊢
    unfold parseTerm
    simp only [List.head?_cons, if_true, List.tail_cons]
    rw [takeArgs_roundtrip fs hne hwf sel rest fuel (by simp only [List.length_cons, List.length_append] at hf; omega)]

theorem terms_roundtrip (ts : List Term) (hne : ts ≠ []) (hw : ∀ t ∈ ts, WfTerm t) (fuel : Nat)
    (hf : (sepBy (.sym "+") (ts.map Term.toks)).length ≤ fuel) :
    parseTerms fuel (sepBy (.sym "+") (ts.map Term.toks)) = some (ts, []) := by
  unfold parseTerms
  have := parseSep_roundtrip parseTerm Term.toks (.sym "+") WfTerm NoTimes
    (fun x fuel r gx hl hfo => term_roundtrip x gx r hfo fuel hl) (fun x gx => term_toks_ne x gx)
    (fun r => ⟨by simp [NoBracket], fun r' h => by simp at h⟩) ts hne hw []
    ⟨by simp [NoBracket], fun r' h => by simp at h⟩ (fun r h => by simp at h) fuel hf
  simpa using this

/-- **C17 (Einsum expressions)**: every well-formed Einsum is read back exactly -/
theorem einsum_roundtrip (e : Einsum) (hw : WfEinsum e) : parseEinsum e.toks = some e := by
  obtain ⟨out, terms⟩ := e
  obtain ⟨hwo, hne, hwt⟩ := hw
  simp only [Einsum.toks] at *
  unfold parseEinsum
  rw [access_roundtrip out hwo _ _ (by simp)]
  simp only [List.head?_cons, if_true, List.tail_cons]
  rw [terms_roundtrip terms hne hwt _ (by simp only [List.length_append, List.length_cons]; omega)]

/-! ### the four small grammars: exact in both directions -/

theorem directive_roundtrip (d : Directive) : parseDirective d.toks = some d := by
  cases d with
  | nway sz => cases sz <;> simp [Directive.toks, Size.toks, parseDirective]
  | occupancy l sz => cases sz <;> simp [Directive.toks, Size.toks, parseDirective]
  | shape sz => cases sz <;> simp [Directive.toks, Size.toks, parseDirective]
  | flatten => simp [Directive.toks, parseDirective]
  | follow l => simp [Directive.toks, parseDirective]

theorem directive_exact (ts : List Tok) (d : Directive) (h : parseDirective ts = some d) : ts = d.toks := by
  unfold parseDirective at h
  split at h <;> simp at h <;> subst h <;> simp [Directive.toks, Size.toks]

theorem names_roundtrip : ∀ rs : List String, parseNames (namesToks rs ++ [.sym ")"]) = some rs
  | [] => by simp [namesToks, parseNames]
  | r :: rs => by simp [namesToks, parseNames, names_roundtrip rs]

theorem names_exact : ∀ (rs : List String) (ts : List Tok), parseNames ts = some rs → ts = namesToks rs ++ [.sym ")"]
  | [], ts, h => by
    unfold parseNames at h
    split at h
    · simp [namesToks]
    · rename_i r rest
      cases hrec : parseNames rest with
      | none => simp [hrec] at h
      | some rs' => simp [hrec] at h
    · simp at h
  | r :: rs, ts, h => by
    unfold parseNames at h
    split at h
    · simp at h
    · rename_i r0 rest
      cases hrec : parseNames rest with
      | none => simp [hrec] at h
      | some rs' =>
        simp only [hrec, Option.some.injEq, List.cons.injEq] at h
        obtain ⟨rfl, rfl⟩ := h
        simp [namesToks, names_exact rs' rest hrec]
    · simp at h

theorem rankKey_roundtrip (k : RankKey) : parseRankKey k.toks = some k := by
  cases k with
  | one r => simp [RankKey.toks, parseRankKey]
  | many r1 r2 rs => simp [RankKey.toks, parseRankKey, names_roundtrip]

theorem rankKey_exact (ts : List Tok) (k : RankKey) (h : parseRankKey ts = some k) : ts = k.toks := by
  unfold parseRankKey at h
  split at h
  · simp at h; subst h; simp [RankKey.toks]
  · rename_i r1 r2 rest
    cases hrec : parseNames rest with
    | none => simp [hrec] at h
    | some rs =>
      simp only [hrec, Option.some.injEq] at h
      subst h
      simp [RankKey.toks, names_exact rs rest hrec]
  · simp at h

theorem stamp_roundtrip (s : Stamp) : parseStamp s.toks = some (s.rank, s.style) := by
  obtain ⟨r, st, ex⟩ := s
  cases st <;> cases ex <;> simp [Stamp.toks, parseStamp]

theorem stamp_exact (ts : List Tok) (r : String) (st : Style) (h : parseStamp ts = some (r, st)) :
    ∃ s : Stamp, ts = s.toks ∧ s.rank = r ∧ s.style = st := by
  unfold parseStamp at h
  split at h <;> simp at h
  · obtain ⟨rfl, rfl⟩ := h; exact ⟨⟨_, .pos, false⟩, rfl, rfl, rfl⟩
  · obtain ⟨rfl, rfl⟩ := h; exact ⟨⟨_, .pos, true⟩, rfl, rfl, rfl⟩
  · obtain ⟨rfl, rfl⟩ := h; exact ⟨⟨_, .coord, true⟩, rfl, rfl, rfl⟩

theorem level_roundtrip (l : Level) : parseLevel l.toks = some (l.name, l.instances) := by
  obtain ⟨n, last⟩ := l
  cases last <;> simp [Level.toks, Level.instances, parseLevel]

theorem level_exact (ts : List Tok) (n : String) (k : Nat) (h : parseLevel ts = some (n, k)) :
    ∃ l : Level, ts = l.toks ∧ l.name = n ∧ l.instances = k := by
  unfold parseLevel at h
  split at h <;> simp at h
  · obtain ⟨rfl, rfl⟩ := h; exact ⟨⟨_, none⟩, rfl, rfl, rfl⟩
  · obtain ⟨rfl, rfl⟩ := h; exact ⟨⟨_, some _⟩, rfl, rfl, rfl⟩

/-- non-vacuity: `Z[m, n] = A[k, 2 * m + -3 * s] * b + take(A[k, m], B[k], 1)` -/
example : WfEinsum ⟨⟨"Z", [[⟨none, "m"⟩], [⟨none, "n"⟩]]⟩,
    [.times [.tensor ⟨"A", [[⟨none, "k"⟩], [⟨some 2, "m"⟩, ⟨some (-3), "s"⟩]]⟩, .scalar "b"],
     .take [.tensor ⟨"A", [[⟨none, "k"⟩], [⟨none, "m"⟩]]⟩, .tensor ⟨"B", [[⟨none, "k"⟩]]⟩] 1]⟩ := by
  refine ⟨?_, by simp, ?_⟩
  · intro e he; simp at he; rcases he with rfl | rfl <;> simp
  · intro t ht
    simp at ht
    rcases ht with rfl | rfl
    · refine ⟨by simp, ?_⟩
      intro f hf; simp at hf
      rcases hf with rfl | rfl
      · intro e he; simp at he; rcases he with rfl | rfl <;> simp
      · trivial
    · refine ⟨by simp, ?_⟩
      intro f hf; simp at hf
      rcases hf with rfl | rfl <;> (intro e he; simp at he; try rcases he with rfl | rfl) <;> simp_all

end C17
