import TeaalVerif.Nest.Cont
import TeaalVerif.Props.C01
/-!
# C01, continuation form: outer loops around any inner computation

`C01.runK_eq_specK`: if, for the states the emitted outer loops actually reach, the inner computation `k1` accumulates what
the inner reference computation `k2` accumulates (and `k2` accumulates nothing once a term has an empty operand), then the
emitted outer loops around `k1` accumulate what the dense outer loops around `k2` accumulate.  `C01.run_eq_spec` is the
instance "inner = the update"; the dynamic-partitioning theorem of C03 is the instance "inner = split the fibers reached,
then run the inner loops".
-/
namespace C01
open Nest

theorem runK_eq_specK (I : List (Bool × Nat) → List TermSt → Prop) (k1 k2 : List TermSt → List (List Nat × Int))
    (hbase : ∀ sts, I [] sts → ∀ σ, sumAt σ (k1 sts) = sumAt σ (k2 sts))
    (hzero : ∀ sts, (∀ st ∈ sts, Dead st) → ∀ σ, sumAt σ (k2 sts) = 0)
    (hstep : ∀ out N ls sts, I ((out, N) :: ls) sts → ∀ c, Visits N sts c → I ls (sts.map (TermSt.step c))) :
    ∀ (ls : List (Bool × Nat)) (sts : List TermSt), I ls sts → LevelWF ls sts → Ext ls sts →
      ∀ σ, sumAt σ (runK k1 ls sts) = sumAt σ (specK k2 ls sts)
  | [], sts, hI, _, _, σ => by
    simp only [runK, specK, hbase sts hI σ]
  | (out, N) :: ls, sts, hI, hW, hB, σ => by
    obtain ⟨hlvl, hW'⟩ := hW
    obtain ⟨hB0, hB'⟩ := hB
    have ih : ∀ c, Visits N sts c → ∀ σ', sumAt σ' (runK k1 ls (sts.map (TermSt.step c))) =
        sumAt σ' (specK k2 ls (sts.map (TermSt.step c))) :=
      fun c hv σ' => runK_eq_specK I k1 k2 hbase hzero hstep ls _ (hstep out N ls sts hI c hv) (hW' c) (hB' c) σ'
    simp only [runK, specK]
    rw [sumAt_flatMap, sumAt_flatMap]
    cases hco : coiterAll sts with
    | none =>
      simp only
      congr 1
      apply List.map_congr_left
      intro c hc
      have hv : Visits N sts c := by simp only [Visits, hco]; exact List.mem_range.1 hc
      cases out with
      | true =>
        rw [sumAt_map_tag_out, sumAt_map_tag_out]
        cases σ with
        | nil => rfl
        | cons c' σ' => simp only; split
                        · exact ih c hv σ'
                        · rfl
      | false => rw [sumAt_map_tag_in, sumAt_map_tag_in]; exact ih c hv σ
    | some cs =>
      simp only
      obtain ⟨hnd, hsound, hcompl⟩ := coiterAll_spec sts cs hco
      have hact : ∀ st ∈ sts, hasActive st.ops = true := by
        rcases hlvl with h | h
        · exact h
        · exfalso
          have : coiterAll sts = none := (coiterAll_none_iff sts).2 (fun st hst => (coiterT_none_iff st.ops).2 (h st hst))
          rw [this] at hco; cases hco
      have hlt : ∀ c ∈ cs, c < N := by
        intro c hc
        obtain ⟨st, hst, cs', hcs', hm⟩ := hsound c hc
        obtain ⟨_, hs, _⟩ := coiterT_spec st.ops cs' hcs'
        have : hasActive st.ops = true := hact st hst
        simp only [hasActive, List.any_eq_true] at this
        obtain ⟨o, ho, hoa⟩ := this
        exact hB0 st hst o ho hoa c (hs c hm o ho hoa)
      have hdead : ∀ c, c ∉ cs → ∀ st ∈ sts.map (TermSt.step c), Dead st := by
        intro c hc st hst
        obtain ⟨st0, hst0, rfl⟩ := List.mem_map.1 hst
        have hne : coiterT st0.ops ≠ none := fun e => by
          have := (coiterT_none_iff st0.ops).1 e
          rw [hact st0 hst0] at this; cases this
        cases hct : coiterT st0.ops with
        | none => exact absurd hct hne
        | some cs' =>
          obtain ⟨_, _, hcm⟩ := coiterT_spec st0.ops cs' hct
          obtain ⟨o, ho, hoa, hn⟩ := hcm c (hcompl c hc st0 hst0 cs' hct)
          refine ⟨o.step c, ?_, ?_⟩
          · simp only [TermSt.step, List.mem_map]; exact ⟨o, ho, rfl⟩
          · simp only [Operand.step, hoa, if_true]; exact slice_eq_nil hn
      have hvis : ∀ c ∈ cs, Visits N sts c := fun c hc => by simp only [Visits, hco]; exact hc
      cases out with
      | false =>
        have hR := sum_range_eq_sum_list N (fun c => sumAt σ ((specK k2 ls (sts.map (TermSt.step c))).map (tag false c))) cs hnd hlt
          (fun c _ hc => by rw [sumAt_map_tag_in]; exact specK_zero k2 hzero ls _ (hdead c hc) σ)
        rw [hR]
        congr 1
        apply List.map_congr_left
        intro c hc
        rw [sumAt_map_tag_in, sumAt_map_tag_in]
        exact ih c (hvis c hc) σ
      | true =>
        have hR := sum_range_eq_sum_list N (fun c => sumAt σ ((specK k2 ls (sts.map (TermSt.step c))).map (tag true c))) cs hnd hlt
          (fun c _ hc => by
            rw [sumAt_map_tag_out]
            cases σ with
            | nil => rfl
            | cons c' σ' =>
              simp only
              split
              · exact specK_zero k2 hzero ls _ (hdead c hc) σ'
              · rfl)
        rw [hR]
        congr 1
        apply List.map_congr_left
        intro c hc
        rw [sumAt_map_tag_out, sumAt_map_tag_out]
        cases σ with
        | nil => rfl
        | cons c' σ' =>
          simp only
          split
          · exact ih c (hvis c hc) σ'
          · rfl

end C01
