import TeaalVerif.Props.C07
/-!
# C05 — cascaded Einsums are compiled independently of their predecessors (shared-state level; partial)

The only state shared between the translations of two Einsums of one specification is (i) the tensor
cursors, which `Program.reset()` resets, and (ii) the temporary counter of `TransUtils`.

* `cursors_restored` — for **every** set of declared tensors and **every** history of cursor operations the
  translation of an Einsum performs on each of them, resetting leaves exactly the freshly declared
  tensors: Einsum *i+1* starts from the same cursor state as if it were compiled alone;
* `tmp_monotone`, `tmp_offset` — the temporaries issued while translating a later Einsum are exactly those
  it would be issued alone, shifted by the number issued before: the two translations differ in the
  numbering of temporaries only (as far as the counter is concerned).

The equality of the emitted statements themselves ("the i-th Einsum's code equals its stand-alone code up
to temporaries") is observed on the real compiler by the check (segment of the cascade text vs stand-alone
text after renaming temporaries by first occurrence), and the composition of results by execution.
-/
namespace C05
open Cursor

/-- run one history per tensor -/
def runAll : List T → List (List Op) → Option (List T)
  | [], _ => some []
  | t :: ts, [] => (runAll ts []).map (t :: ·)
  | t :: ts, h :: hs =>
    match run t h, runAll ts hs with
    | some t', some ts' => some (t' :: ts')
    | _, _ => none

def resetAll (ts : List T) : List T := ts.map fun t => init t.name t.initRanks

theorem cursors_restored : ∀ (decls : List (String × List String)) (hists : List (List Op)) (ts' : List T),
    runAll (decls.map fun d => init d.1 d.2) hists = some ts' → resetAll ts' = decls.map fun d => init d.1 d.2
  | [], _, ts', h => by simp [runAll] at h; subst h; rfl
  | d :: ds, [], ts', h => by
    simp only [List.map_cons, runAll, Option.map_eq_some_iff] at h
    obtain ⟨r, hr, rfl⟩ := h
    have := cursors_restored ds [] r hr
    simp only [resetAll, List.map_cons] at this ⊢
    rw [this]
    rfl
  | d :: ds, hh :: hs, ts', h => by
    simp only [List.map_cons, runAll] at h
    cases h1 : run (init d.1 d.2) hh with
    | none => simp [h1] at h
    | some t1 =>
      cases h2 : runAll (ds.map fun d => init d.1 d.2) hs with
      | none => simp [h1, h2] at h
      | some r =>
        simp only [h1, h2, Option.some.injEq] at h
        subst h
        obtain ⟨e1, e2⟩ := C07.init_ranks_const hh _ t1 h1
        have := cursors_restored ds hs r h2
        simp only [resetAll, List.map_cons] at this ⊢
        rw [this, e1, e2]
        rfl

/-! ### the temporary counter (`TransUtils.count`, starting at -1; `next_tmp` increments, then names) -/

/-- the numbers issued by `n` calls of `next_tmp` starting from counter value `c` -/
def issued (c : Int) : Nat → List Int
  | 0 => []
  | n + 1 => (c + 1) :: issued (c + 1) n

theorem tmp_offset (c : Int) : ∀ (n : Nat), issued c n = (issued (-1) n).map (· + (c + 1))
  | 0 => rfl
  | n + 1 => by
    have gen : ∀ (a b : Int) (n : Nat), issued (a + b) n = (issued a n).map (· + b) := by
      intro a b n
      induction n generalizing a with
      | zero => rfl
      | succ m ih =>
        simp only [issued, List.map_cons]
        rw [show a + b + 1 = (a + 1) + b by omega, ih (a + 1)]
    have := gen (-1) (c + 1) (n + 1)
    rw [show (-1 : Int) + (c + 1) = c by omega] at this
    exact this

theorem tmp_monotone (c : Int) : ∀ (n : Nat) (x : Int), x ∈ issued c n → c < x
  | 0, x, h => by simp [issued] at h
  | n + 1, x, h => by
    simp only [issued, List.mem_cons] at h
    rcases h with rfl | h
    · omega
    · have := tmp_monotone (c + 1) n x h; omega

/-- non-vacuity -/
example : issued 2 3 = [3, 4, 5] ∧ (issued (-1) 3).map (· + 3) = [3, 4, 5] := by decide

end C05
