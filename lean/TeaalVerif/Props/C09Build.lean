import TeaalVerif.Props.C09
/-!
# C09 — the coordinate-expression builder only builds trees that print faithfully

`CoordAccess.build_expr` turns a SymPy expression into a HiFiber tree **without ever inserting parentheses**:
`Symbol ↦ EVar`, `Integer ↦ EInt`, `Rational p/q ↦ EBinOp(EInt p, /, EInt q)`, `Add`/`Mul` ↦ the right-nested fold of the built arguments
(`a op (b op (c op d))`).  Whether the printed text denotes the tree therefore depends on the SHAPE SymPy gives its results.

`SE` models the SymPy trees the compiler feeds it (the solutions of the linear access equations and the halo expressions): a sum whose
arguments are atoms or products, a product being an optional leading number followed by symbols (SymPy's canonical argument order puts
the numeric coefficient first).  `C09.build_precok`: **for every such expression** - any number of terms, any coefficients (negative,
fractional), any symbols - the tree `build` constructs satisfies `PrecOK`, hence (`C09.gen_derives`) Python reads its text as that tree
up to re-association of `+`/`*` chains.  `build_mul_add_counterexample`: outside the class (a product with a sum as argument) the builder
does produce a tree whose text means something else - the shape hypothesis is necessary.
-/
namespace C09
open HF

inductive Num where
  | int (i : Int)
  | rat (p q : Int)
  deriving Repr

/-- an argument of `Add`: an atom or a product (optional leading number, then symbols) -/
inductive STerm where
  | sym (s : String)
  | num (n : Num)
  | mul (n : Option Num) (syms : List String)
  deriving Repr

/-- a SymPy result: a single term or an `Add` of terms -/
inductive SE where
  | term (t : STerm)
  | add (ts : List STerm)
  deriving Repr

def buildNum : Num → Expr
  | .int i => .int i
  | .rat p q => .binop (.int p) .div (.int q)

/-- `__combine`: `a op (b op (c op d))` -/
def foldR (op : Op) : List Expr → Option Expr
  | [] => none
  | [_] => none
  | [a, b] => some (.binop a op b)
  | a :: rest => (foldR op rest).map fun r => .binop a op r

def mulArgs (n : Option Num) (syms : List String) : List Expr :=
  (match n with | some x => [buildNum x] | none => []) ++ syms.map Expr.var

def buildTerm : STerm → Option Expr
  | .sym s => some (.var s)
  | .num n => some (buildNum n)
  | .mul n syms => foldR .mul (mulArgs n syms)

def build : SE → Option Expr
  | .term t => buildTerm t
  | .add ts => (ts.mapM buildTerm).bind (foldR .add)

/-! ### right-nested chains -/

/-- `a op (b op (c ...))` for a non-empty argument list -/
def foldR1 (op : Op) : Expr → List Expr → Expr
  | a, [] => a
  | a, b :: rest => .binop a op (foldR1 op b rest)

theorem foldR_eq (op : Op) : ∀ (a b : Expr) (rest : List Expr), foldR op (a :: b :: rest) = some (foldR1 op a (b :: rest))
  | a, b, [] => rfl
  | a, b, c :: rest => by
    have ih := foldR_eq op b c rest
    simp only [foldR, foldR1] at ih ⊢
    rw [ih]; rfl

/-- an operand that may stand to the right inside a chain of `op` without parentheses -/
def StrictLeaf (op : Op) (x : Expr) : Prop := PrecOK x = true ∧ op.level + 1 ≤ lvl x ∧ ∀ p q, x ≠ .binop p op q

theorem spineOK_leaf (op : Op) (x : Expr) (h : StrictLeaf op x) : spineOK op x = true := by
  obtain ⟨_, hl, hne⟩ := h
  cases x with
  | binop p op' q =>
    have hop : op' ≠ op := fun e => hne p q (by rw [e])
    simp only [spineOK, hop, if_false, decide_eq_true_eq]
    simpa [lvl] using hl
  | _ => simp only [spineOK, decide_eq_true_eq]; exact hl

theorem chain_ok (op : Op) (hassoc : op.assoc = true) (hlev : 2 ≤ op.level) : ∀ (rest : List Expr) (b : Expr),
    (∀ x ∈ b :: rest, StrictLeaf op x) →
    PrecOK (foldR1 op b rest) = true ∧ spineOK op (foldR1 op b rest) = true ∧
      (rest = [] → foldR1 op b rest = b) ∧ (rest ≠ [] → chainRight op (foldR1 op b rest) = true)
  | [], b, h => ⟨(h b (by simp)).1, spineOK_leaf op b (h b (by simp)), fun _ => rfl, fun hne => absurd rfl hne⟩
  | c :: rest, b, h => by
    obtain ⟨ih1, ih2, ih3, ih4⟩ := chain_ok op hassoc hlev rest c (fun x hx => h x (List.mem_cons_of_mem _ hx))
    have hb := h b (by simp)
    have hc := h c (by simp)
    have hl1 : (op.level == 1) = false := by
      have : op.level ≠ 1 := by omega
      simpa using this
    refine ⟨?_, ?_, (fun e => by cases e), (fun _ => by simp [foldR1, chainRight, hassoc])⟩
    · simp only [foldR1, PrecOK, hb.1, ih1, hl1, Bool.true_and, Bool.false_eq_true, if_false, Bool.and_eq_true, decide_eq_true_eq,
        Bool.or_eq_true]
      refine ⟨by have := hb.2.1; omega, ?_⟩
      cases hr : rest with
      | nil =>
        left
        have := ih3 hr
        rw [hr] at this
        rw [this]; exact hc.2.1
      | cons d ds =>
        right
        have hne : rest ≠ [] := by rw [hr]; simp
        rw [← hr]
        exact ⟨ih4 hne, ih2⟩
    · simp only [foldR1, spineOK, if_true, Bool.and_eq_true]
      exact ⟨spineOK_leaf op b hb, ih2⟩

/-- the top node: its left operand only needs the operator's own level -/
theorem top_ok (op : Op) (hassoc : op.assoc = true) (hlev : 2 ≤ op.level) (a b : Expr) (rest : List Expr)
    (ha : PrecOK a = true) (hla : op.level ≤ lvl a) (h : ∀ x ∈ b :: rest, StrictLeaf op x) :
    PrecOK (foldR1 op a (b :: rest)) = true := by
  obtain ⟨h1, h2, h3, h4⟩ := chain_ok op hassoc hlev rest b h
  have hl1 : (op.level == 1) = false := by
    have : op.level ≠ 1 := by omega
    simpa using this
  simp only [foldR1, PrecOK, ha, h1, hl1, Bool.true_and, Bool.false_eq_true, if_false, Bool.and_eq_true, decide_eq_true_eq, Bool.or_eq_true]
  refine ⟨hla, ?_⟩
  cases hr : rest with
  | nil =>
    left
    have := h3 hr
    rw [hr] at this
    rw [this]; exact (h b (by simp)).2.1
  | cons d ds =>
    right
    have hne : rest ≠ [] := by rw [hr]; simp
    rw [← hr]
    exact ⟨h4 hne, h2⟩

/-! ### products and sums of the SymPy shape -/

theorem precOK_num (n : Num) : PrecOK (buildNum n) = true ∧ 6 ≤ lvl (buildNum n) ∧ ∀ p q, buildNum n ≠ .binop p .add q := by
  cases n with
  | int i =>
    refine ⟨by simp [buildNum, PrecOK], ?_, fun p q => by simp [buildNum]⟩
    simp only [buildNum, lvl]; split <;> omega
  | rat p q =>
    refine ⟨?_, by simp [buildNum, lvl, Op.level], fun _ _ => by simp [buildNum]⟩
    have h1 : 6 ≤ (if p < 0 then 7 else 8 : Nat) := by split <;> omega
    have h2 : 7 ≤ (if q < 0 then 7 else 8 : Nat) := by split <;> omega
    simp [buildNum, PrecOK, lvl, Op.level, h1, h2]

theorem var_strict_mul (s : String) : StrictLeaf .mul (.var s) := ⟨by simp [PrecOK], by simp [lvl, Op.level], fun _ _ => by simp⟩

/-- a built term prints faithfully, binds at least as strongly as a product and is not itself a sum -/
theorem buildTerm_ok (t : STerm) (e : Expr) (h : buildTerm t = some e) :
    PrecOK e = true ∧ 6 ≤ lvl e ∧ ∀ p q, e ≠ .binop p .add q := by
  cases t with
  | sym s =>
    simp only [buildTerm, Option.some.injEq] at h; subst h
    exact ⟨by simp [PrecOK], by simp [lvl], fun _ _ => by simp⟩
  | num n =>
    simp only [buildTerm, Option.some.injEq] at h; subst h
    exact precOK_num n
  | mul n syms =>
    simp only [buildTerm] at h
    cases n with
    | none =>
      match syms, h with
      | a :: b :: rest, h =>
        simp only [mulArgs, List.nil_append, List.map_cons] at h
        rw [foldR_eq] at h
        simp only [Option.some.injEq] at h; subst h
        refine ⟨?_, by simp [foldR1, lvl, Op.level], fun _ _ => by simp [foldR1]⟩
        apply top_ok .mul rfl (by simp [Op.level]) _ _ _ (by simp [PrecOK]) (by simp [lvl, Op.level])
        intro x hx
        simp only [List.mem_cons, List.mem_map] at hx
        rcases hx with rfl | ⟨s, _, rfl⟩
        · exact var_strict_mul b
        · exact var_strict_mul s
      | [], h => simp [mulArgs, foldR] at h
      | [_], h => simp [mulArgs, foldR] at h
    | some x =>
      match syms, h with
      | b :: rest, h =>
        simp only [mulArgs, List.cons_append, List.nil_append, List.map_cons] at h
        rw [foldR_eq] at h
        simp only [Option.some.injEq] at h; subst h
        refine ⟨?_, by simp [foldR1, lvl, Op.level], fun _ _ => by simp [foldR1]⟩
        apply top_ok .mul rfl (by simp [Op.level]) _ _ _ (precOK_num x).1 (by have := (precOK_num x).2.1; simpa [Op.level] using this)
        intro y hy
        simp only [List.mem_cons, List.mem_map] at hy
        rcases hy with rfl | ⟨s, _, rfl⟩
        · exact var_strict_mul b
        · exact var_strict_mul s
      | [], h => simp [mulArgs, foldR] at h

theorem mapM_buildTerm_ok : ∀ (ts : List STerm) (es : List Expr), ts.mapM buildTerm = some es →
    ∀ e ∈ es, PrecOK e = true ∧ 6 ≤ lvl e ∧ ∀ p q, e ≠ .binop p .add q
  | [], es, h, e, he => by simp at h; subst h; simp at he
  | t :: ts, es, h, e, he => by
    simp only [List.mapM_cons, Option.bind_eq_bind] at h
    cases ht : buildTerm t with
    | none => simp [ht] at h
    | some e0 =>
      cases hts : ts.mapM buildTerm with
      | none => simp [ht, hts] at h
      | some es0 =>
        simp [ht, hts] at h
        subst h
        rcases List.mem_cons.1 he with rfl | he'
        · exact buildTerm_ok t _ ht
        · exact mapM_buildTerm_ok ts es0 hts e he'

/-- **every tree `build_expr` constructs from an expression of the SymPy shape prints faithfully** -/
theorem build_precok (s : SE) (e : Expr) (h : build s = some e) : PrecOK e = true := by
  cases s with
  | term t => exact (buildTerm_ok t e h).1
  | add ts =>
    simp only [build] at h
    cases hts : ts.mapM buildTerm with
    | none => simp [hts] at h
    | some es =>
      simp only [hts, Option.bind_some] at h
      match es, h, hts with
      | a :: b :: rest, h, hts =>
        rw [foldR_eq] at h
        simp only [Option.some.injEq] at h; subst h
        have hall := mapM_buildTerm_ok ts _ hts
        have ha := hall a (by simp)
        apply top_ok .add rfl (by simp [Op.level]) _ _ _ ha.1 (by have := ha.2.1; simp [Op.level]; omega)
        intro x hx
        have hx' := hall x (List.mem_cons_of_mem _ hx)
        exact ⟨hx'.1, by have := hx'.2.1; simp [Op.level]; omega, hx'.2.2⟩
      | [], h, _ => simp [foldR] at h
      | [_], h, _ => simp [foldR] at h

/-- outside the shape the builder is NOT safe: a product with a sum as argument (`2*(x + y)` un-expanded) would print as
    `2 * x + y`; the compiler relies on SymPy handing it expanded sums -/
theorem build_mul_add_counterexample :
    PrecOK (.binop (.int 2) .mul (.binop (.var "x") .add (.var "y"))) = false := by decide

/-- non-vacuity: `-1/2*s + 1/2*w` and `w + -2*q` -/
example : build (.add [.mul (some (.rat (-1) 2)) ["s"], .mul (some (.rat 1 2)) ["w"]]) =
    some (.binop (.binop (.binop (.int (-1)) .div (.int 2)) .mul (.var "s")) .add (.binop (.binop (.int 1) .div (.int 2)) .mul (.var "w"))) := rfl

end C09
