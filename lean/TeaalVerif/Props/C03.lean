import TeaalVerif.FT.Ops
/-!
# C03 — occupancy partitioning and flattening (tensor/fiber-level algebra; partial)

* `flatten_unflatten_id` — `unflattenRanks` undoes `flattenRanks(coord_style="tuple")` point for point;
* `groupOf_spec`         — `splitNonUniform(boundaries)` puts a coordinate into the group of the largest
                           boundary not above it;
* `follower_agrees`      — **the follower is split exactly at the leader's boundaries**: if the boundaries
                           are the keys of the leader's occupancy chunks (every `n`-th coordinate of the
                           leader's fiber, whatever `n` and the fiber), every coordinate the leader holds
                           lands, in the follower, in the group keyed by the leader's own chunk — so pairs
                           that must meet are neither separated nor met twice.

Not proved: the composition with the loop-nest theorem (dynamic splits inside the loops, several levels);
decided per specification by executing the real program against the unmapped one and the oracle.
-/
namespace C03
open FT

/-! ### flattening -/

theorem drop_insert {α : Type} (x : α) : ∀ (l1 l2 : List α), (l1 ++ x :: l2).drop (l1.length + 1) = l2
  | [], _ => rfl
  | a :: l1, l2 => by simpa using drop_insert x l1 l2

theorem take_insert {α : Type} (x : α) : ∀ (l1 l2 : List α), (l1 ++ x :: l2).take l1.length = l1
  | [], _ => rfl
  | a :: l1, l2 => by simp [take_insert x l1 l2]

theorem getD_insert {α : Type} (x dflt : α) : ∀ (l1 l2 : List α), (l1 ++ x :: l2).getD l1.length dflt = x
  | [], _ => rfl
  | a :: l1, l2 => by simpa [List.getD] using getD_insert x dflt l1 l2

theorem flatten_unflatten_id (d k : Nat) (t : Pts)
    (h : ∀ p ∈ t, d + 1 < p.1.length ∧ (p.1.getD d []).length = k) : unflatten d k (flatten d t) = t := by
  unfold unflatten flatten
  rw [List.map_map]
  conv => rhs; rw [← List.map_id t]
  apply List.map_congr_left
  intro ⟨p, v⟩ hp
  obtain ⟨hd, hk⟩ := h _ hp
  simp only [Function.comp, id]
  congr 1
  simp only at hd hk
  have hlen : (p.take d).length = d := by simp; omega
  have hget := getD_insert (p.getD d [] ++ p.getD (d + 1) []) [] (p.take d) (p.drop (d + 2))
  have htake := take_insert (p.getD d [] ++ p.getD (d + 1) []) (p.take d) (p.drop (d + 2))
  have hdrop := drop_insert (p.getD d [] ++ p.getD (d + 1) []) (p.take d) (p.drop (d + 2))
  rw [hlen] at hget htake hdrop
  rw [hget, htake, hdrop]
  have h1 : (p.getD d [] ++ p.getD (d + 1) []).take k = p.getD d [] := by
    rw [← hk]; simp
  have h2 : (p.getD d [] ++ p.getD (d + 1) []).drop k = p.getD (d + 1) [] := by
    rw [← hk]; simp
  rw [h1, h2]
  have e1 : p.getD d [] = p[d]'(by omega) := by simp [List.getD, List.getElem?_eq_getElem (by omega : d < p.length)]
  have e2 : p.getD (d + 1) [] = p[d + 1]'(by omega) := by simp [List.getD, List.getElem?_eq_getElem (by omega : d + 1 < p.length)]
  rw [e1, e2]
  have : p.drop d = p[d] :: p[d + 1] :: p.drop (d + 2) := by
    rw [List.drop_eq_getElem_cons (by omega), List.drop_eq_getElem_cons (by omega : d + 1 < p.length)]
  calc p.take d ++ p[d] :: p[d + 1] :: p.drop (d + 2) = p.take d ++ p.drop d := by rw [this]
    _ = p := List.take_append_drop d p

/-! ### occupancy -/

/-- the keys of the leader's chunks: every `n`-th coordinate of its fiber -/
def leaderKeys (n : Nat) (cs : List Nat) : List Nat :=
  (List.range cs.length).filterMap fun i => if i % n = 0 then cs[i]? else none

def Sorted (l : List Nat) : Prop := l.Pairwise (· < ·)

theorem groupOf_spec : ∀ (bs : List Nat), Sorted bs → ∀ (c g : Nat),
    groupOf bs c = some g ↔ (g ∈ bs ∧ g ≤ c ∧ ∀ b ∈ bs, b ≤ c → b ≤ g) := by
  intro bs hs c g
  unfold groupOf
  have hsub : (bs.filter fun b => b ≤ c).Pairwise (· < ·) := hs.sublist List.filter_sublist
  constructor
  · intro h
    have hm : g ∈ bs.filter fun b => b ≤ c := List.mem_of_getLast? h
    have hg := List.mem_filter.1 hm
    refine ⟨hg.1, by simpa using hg.2, ?_⟩
    intro b hb hbc
    have hbm : b ∈ bs.filter fun b => b ≤ c := List.mem_filter.2 ⟨hb, by simpa using hbc⟩
    -- the last element of a strictly increasing list is its maximum
    have key : ∀ (l : List Nat), l.Pairwise (· < ·) → ∀ x, l.getLast? = some x → ∀ y ∈ l, y ≤ x := by
      intro l
      induction l with
      | nil => intro _ x hx; simp at hx
      | cons a as ih =>
        intro hp x hx y hy
        rw [List.pairwise_cons] at hp
        cases as with
        | nil =>
          simp at hx hy; omega
        | cons a2 as2 =>
          have hx' : (a2 :: as2).getLast? = some x := by simpa [List.getLast?_cons_cons] using hx
          rcases List.mem_cons.1 hy with rfl | hy
          · have : x ∈ a2 :: as2 := List.mem_of_getLast? hx'
            exact Nat.le_of_lt (hp.1 x this)
          · exact ih hp.2 x hx' y hy
    exact key _ hsub g h b hbm
  · rintro ⟨hgb, hgc, hmax⟩
    have hm : g ∈ bs.filter fun b => b ≤ c := List.mem_filter.2 ⟨hgb, by simpa using hgc⟩
    cases hl : (bs.filter fun b => b ≤ c).getLast? with
    | none =>
      rw [List.getLast?_eq_none_iff] at hl
      rw [hl] at hm; simp at hm
    | some x =>
      have hxm : x ∈ bs.filter fun b => b ≤ c := List.mem_of_getLast? hl
      have hx := List.mem_filter.1 hxm
      have h1 : x ≤ g := hmax x hx.1 (by simpa using hx.2)
      -- and g ≤ x since x is the last (largest)
      have key : ∀ (l : List Nat), l.Pairwise (· < ·) → ∀ x, l.getLast? = some x → ∀ y ∈ l, y ≤ x := by
        intro l
        induction l with
        | nil => intro _ x hx; simp at hx
        | cons a as ih =>
          intro hp x hx y hy
          rw [List.pairwise_cons] at hp
          cases as with
          | nil => simp at hx hy; omega
          | cons a2 as2 =>
            have hx' : (a2 :: as2).getLast? = some x := by simpa [List.getLast?_cons_cons] using hx
            rcases List.mem_cons.1 hy with rfl | hy
            · have : x ∈ a2 :: as2 := List.mem_of_getLast? hx'
              exact Nat.le_of_lt (hp.1 x this)
            · exact ih hp.2 x hx' y hy
      have h2 : g ≤ x := key _ hsub x hl g hm
      have : x = g := by omega
      rw [this]

theorem sorted_get_lt {l : List Nat} (h : Sorted l) {i j : Nat} (hi : i < l.length) (hj : j < l.length) (hij : i < j) :
    l[i] < l[j] := by
  exact List.pairwise_iff_getElem.1 h i j hi hj hij

theorem mem_leaderKeys {n : Nat} {cs : List Nat} {x : Nat} :
    x ∈ leaderKeys n cs ↔ ∃ i, ∃ (h : i < cs.length), i % n = 0 ∧ cs[i] = x := by
  simp only [leaderKeys, List.mem_filterMap, List.mem_range]
  constructor
  · rintro ⟨i, hi, h⟩
    split at h
    · rename_i hm
      rw [List.getElem?_eq_getElem hi] at h
      exact ⟨i, hi, hm, by simpa using h⟩
    · cases h
  · rintro ⟨i, hi, hm, rfl⟩
    exact ⟨i, hi, by simp [hm, List.getElem?_eq_getElem hi]⟩

theorem leaderKeys_sorted (n : Nat) (cs : List Nat) (h : Sorted cs) : Sorted (leaderKeys n cs) := by
  unfold leaderKeys Sorted
  -- a filterMap of an increasing function over the increasing index list
  have : ∀ (is : List Nat), is.Pairwise (· < ·) → (∀ i ∈ is, i < cs.length) →
      (is.filterMap fun i => if i % n = 0 then cs[i]? else none).Pairwise (· < ·) := by
    intro is
    induction is with
    | nil => intro _ _; simp
    | cons a as ih =>
      intro hp hb
      rw [List.pairwise_cons] at hp
      have iha := ih hp.2 (fun i hi => hb i (List.mem_cons_of_mem _ hi))
      simp only [List.filterMap_cons]
      split
      · exact iha
      · rename_i x hx
        rw [List.pairwise_cons]
        refine ⟨?_, iha⟩
        intro y hy
        simp only [List.mem_filterMap] at hy
        obtain ⟨j, hj, hyj⟩ := hy
        have haj : a < j := hp.1 j hj
        have hal : a < cs.length := hb a (by simp)
        have hjl : j < cs.length := hb j (List.mem_cons_of_mem _ hj)
        split at hx
        · rw [List.getElem?_eq_getElem hal] at hx
          split at hyj
          · rw [List.getElem?_eq_getElem hjl] at hyj
            simp only [Option.some.injEq] at hx hyj
            rw [← hx, ← hyj]
            exact sorted_get_lt h hal hjl haj
          · cases hyj
        · cases hx
  apply this
  · exact List.pairwise_lt_range
  · intro i hi; exact List.mem_range.1 hi

/-- **the follower is split at the leader's boundaries**: every coordinate of the leader's fiber falls,
    under `splitNonUniform(<leader's chunk keys>)`, into the group keyed by the leader's own chunk -/
theorem follower_agrees (n : Nat) (hn : 0 < n) (cs : List Nat) (hs : Sorted cs) (i : Nat) (hi : i < cs.length) :
    groupOf (leaderKeys n cs) cs[i] = some (cs[i / n * n]'(Nat.lt_of_le_of_lt (Nat.div_mul_le_self i n) hi)) := by
  have hk : i / n * n ≤ i := Nat.div_mul_le_self i n
  have hkl : i / n * n < cs.length := Nat.lt_of_le_of_lt hk hi
  rw [groupOf_spec _ (leaderKeys_sorted n cs hs)]
  refine ⟨mem_leaderKeys.2 ⟨i / n * n, hkl, Nat.mul_mod_left _ _, rfl⟩, ?_, ?_⟩
  · rcases Nat.lt_or_eq_of_le hk with h | h
    · exact Nat.le_of_lt (sorted_get_lt hs hkl hi h)
    · simp [h]
  · intro b hb hbc
    obtain ⟨j, hj, hjm, rfl⟩ := mem_leaderKeys.1 hb
    -- j ≤ i because the fiber is strictly increasing; j is a multiple of n, hence j ≤ (i / n) * n
    have hji : j ≤ i := by
      rcases Nat.lt_or_ge i j with h | h
      · have := sorted_get_lt hs hi hj h
        omega
      · exact h
    have hjk : j ≤ i / n * n := by
      have : j = j / n * n := by
        have := Nat.div_add_mod j n
        rw [hjm] at this
        rw [Nat.mul_comm]; omega
      rw [this]
      exact Nat.mul_le_mul_right n (Nat.div_le_div_right hji)
    rcases Nat.lt_or_eq_of_le hjk with h | h
    · exact Nat.le_of_lt (sorted_get_lt hs hj hkl h)
    · simp [h]

/-- non-vacuity: leader fiber `[1, 4, 6, 9, 12]` in chunks of 2: keys `[1, 6, 12]`; coordinate 9 is in 6's group -/
example : leaderKeys 2 [1, 4, 6, 9, 12] = [1, 6, 12] ∧ groupOf [1, 6, 12] 9 = some 6 ∧ groupOf [1, 6, 12] 0 = none := by decide
example : unflatten 0 1 (flatten 0 [([[2], [5], [1]], 7)]) = [([[2], [5], [1]], 7)] := by decide

end C03
