import TeaalVerif.Props.C01G
import TeaalVerif.Props.C01Ext
import TeaalVerif.Props.C03Dyn
/-!
# C03 — flatten(): a loop over the flattened rank of one tensor, the other tensors looked up by coordinate

`C03.flatten_nest`: for every product Einsum, every tuple of ranks of one tensor flattened (in the order the loops visit them),
every position of the flattened loop among the others and every input inside the extents: the nest in which the flattened
ranks' coordinates come from that tensor alone and every other tensor (the output included) is looked up by coordinate
accumulates the Einsum's meaning — "tensors lacking a flattened rank are looked up by coordinate, so no pair of elements that
must meet is separated or met twice".
-/
namespace C03
open Nest C01

def levelsG (S : EinsumS) (modes : List Mode) : List (Bool × Nat × Mode) :=
  (levels S).zipWith (fun (l : Bool × Nat) m => (l.1, l.2, m)) modes

theorem plainLevels_levelsG (S : EinsumS) (modes : List Mode) (h : modes.length = (levels S).length) :
    plainLevels (levelsG S modes) = levels S := by
  unfold levelsG plainLevels
  generalize levels S = ls at h ⊢
  induction ls generalizing modes with
  | nil => simp
  | cons l ls ih =>
    cases modes with
    | nil => simp at h
    | cons m ms => simp [List.zipWith, ih ms (by simpa using h)]

/-- the update as a continuation -/
def kEmit (sts : List TermSt) : List (List Nat × Int) := [([], (sts.map emitVal).sum)]
def kMath (sts : List TermSt) : List (List Nat × Int) := [([], (sts.map mathVal).sum)]

theorem spec_eq_specK : ∀ (ls : List (Bool × Nat)) (sts : List TermSt), spec ls sts = specK kMath ls sts
  | [], _ => rfl
  | (o, e) :: ls, sts => by
    simp only [spec, specK]
    congr 1
    funext c
    rw [spec_eq_specK ls]

/-- static check: at every driven level the driving operand carries the loop's rank -/
def DriveSched : List Mode → List (List Bool) → Prop
  | [], _ => True
  | m :: ms, scheds =>
    (match m with
     | .co => True
     | .drive o => (scheds[o]?.bind List.head?) = some true) ∧ DriveSched ms (scheds.map List.tail)

instance : ∀ (ms : List Mode) (scheds : List (List Bool)), Decidable (DriveSched ms scheds)
  | [], _ => isTrue trivial
  | m :: ms, scheds => by
    unfold DriveSched
    have := instDecidableDriveSched ms (scheds.map List.tail)
    cases m <;> infer_instance

theorem driveWF_of_sched : ∀ (ls : List (Bool × Nat)) (ms : List Mode) (st : TermSt),
    DriveSched ms (st.ops.map (·.sched)) → DriveWF (ls.zipWith (fun (l : Bool × Nat) m => (l.1, l.2, m)) ms) [st]
  | [], _, _, _ => by simp [DriveWF]
  | _ :: _, [], _, _ => by simp [DriveWF]
  | l :: ls, m :: ms, st, h => by
    obtain ⟨h0, h1⟩ := h
    simp only [List.zipWith, DriveWF]
    refine ⟨?_, ?_⟩
    · cases m with
      | co => trivial
      | drive o =>
        simp only at h0 ⊢
        cases hop : st.ops[o]? with
        | none => simp [hop] at h0
        | some op =>
          refine ⟨st, op, rfl, hop, ?_⟩
          simp only [List.getElem?_map, hop, Option.map_some, Option.bind_some] at h0
          simp [Operand.active, h0]
    · intro c
      have : (([st] : List TermSt).map (TermSt.step c)) = [st.step c] := rfl
      rw [this]
      apply driveWF_of_sched ls ms (st.step c)
      have hs : (st.step c).ops.map (·.sched) = (st.ops.map (·.sched)).map List.tail := by
        simp [TermSt.step, Operand.step, List.map_map, Function.comp_def]
      rw [hs]; exact h1

/-- hypotheses of `flatten_nest` (decidable) -/
def FlatHyps (S : EinsumS) (env : String → Pts) (modes : List Mode) : Prop :=
  match S.terms with
  | [t] => t.kind = .times ∧ modes.length = S.loop.length ∧ S.exts.length = S.loop.length ∧ S.loop.Nodup ∧
      DriveSched modes (t.tensors.map fun x => schedOf S.loop x.ranks) ∧ InBounds S env ∧ InputsWF S env ∧
      (∀ r ∈ S.outRanks, r ∈ S.loop)
  | _ => False

instance (S : EinsumS) (env : String → Pts) (modes : List Mode) : Decidable (FlatHyps S env modes) := by
  unfold FlatHyps
  split <;> infer_instance

/-- **C03, flatten()** -/
theorem flatten_nest (S : EinsumS) (env : String → Pts) (modes : List Mode) (h : FlatHyps S env modes) (τ : List Nat) :
    sumAt τ (runG kEmit (levelsG S modes) (initTerms S env)) =
      meaning (S.loop.zip S.exts) (concord S.loop S.outRanks) S.terms env τ := by
  unfold FlatHyps at h
  split at h
  · rename_i t ht
    obtain ⟨hk, hm, hlen, hnd, hds, hb, hin, _⟩ := h
    have hst : initTerms S env = [{ kind := t.kind, scal := t.scal, ops := t.tensors.map fun x => initOperand S.loop x (env x.name) }] := by
      simp [initTerms, ht]
    have hll : (levels S).length = S.loop.length := by simp [levels, hlen]
    have hpl := plainLevels_levelsG S modes (by rw [hll]; exact hm)
    have hmain := runG_eq_specK (fun _ sts => ∀ st ∈ sts, Plain st) kEmit kMath
      (by
        intro sts hP σ
        simp only [kEmit, kMath]
        have : (sts.map emitVal).sum = (sts.map mathVal).sum := by
          congr 1
          apply List.map_congr_left
          intro st hst'
          exact emit_eq_math_plain st (hP st hst')
        rw [this])
      (by
        intro sts hd σ
        simp only [kMath]
        have : (sts.map mathVal).sum = 0 := sum_map_zero _ _ (fun st hst' => mathVal_dead st (hd st hst'))
        rw [this]
        cases σ <;> simp [sumAt])
      (by
        intro _ _ _ _ sts hP c _ st hst'
        obtain ⟨st0, hst0, rfl⟩ := List.mem_map.1 hst'
        exact plain_step c st0 (hP st0 hst0))
      (levelsG S modes) (initTerms S env)
      (by
        intro st hst'
        rw [hst] at hst'
        simp at hst'; subst hst'
        exact Or.inl hk)
      (by rw [hpl]; rw [hst]; exact levelWF_single _ _)
      (by rw [hpl]; exact ext_of_inBounds S env hnd hlen hb)
      (by
        rw [hst]
        apply driveWF_of_sched
        simpa [initOperand, List.map_map, Function.comp_def] using hds)
      τ
    rw [hmain, hpl, ← spec_eq_specK]
    exact spec_eq_meaning S env hnd hlen hin τ
  · exact h.elim

end C03
