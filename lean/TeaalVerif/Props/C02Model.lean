import TeaalVerif.Props.C02Nest
import TeaalVerif.Props.C01Ext
/-!
# C02 — model compiler for stacks of shape splits, with decidable side conditions

`applySplits` performs a list of rank splits on an Einsum configuration (rank list, output, accesses, inputs, output
point); `SplitsOK` collects the side conditions (all decidable: fresh names, arities, one rank list per tensor name, the
split rank occurs in the output or in every term).  `C02.applySplits_steps`: under `SplitsOK` the result is reached by
`Step`s, hence (`C02.model_partitioned`) the nest emitted for the split Einsum in **any** loop order over the expanded
ranks computes the original meaning.  The driver evaluates `SplitsOK` and the other hypotheses with `decide` on every
sampled specification and input, so a sample either lies inside the proved class or is reported as outside.
-/
namespace C02
open Nest

theorem Steps.trans {A B C : Cfg} (h1 : Steps A B) (h2 : Steps B C) : Steps A C := by
  induction h2 with
  | refl => exact h1
  | tail _ hs ih => exact Steps.tail ih hs

structure SplitSpec where
  K : String
  K1 : String
  K0 : String
  g : Nat → Nat

def extOfR (R : List (String × Nat)) (r : String) : Nat := (R.lookup r).getD 0

def findRanks (terms : List TermS) (n : String) : Option (List String) :=
  ((terms.flatMap (·.tensors)).find? (fun x => x.name == n)).map (·.ranks)

def splitEnv (K : String) (g : Nat → Nat) (terms : List TermS) (env : String → Pts) : String → Pts :=
  fun n => match findRanks terms n with
    | some rs => splitPts K g rs (env n)
    | none => env n

def splitCfg (sp : SplitSpec) (A : Cfg) : Cfg :=
  let e := extOfR A.R sp.K
  ⟨(sp.K1, e) :: (sp.K0, e) :: A.R.erase (sp.K, e), splitRanks sp.K sp.K1 sp.K0 A.out, A.terms.map (splitTerm sp.K sp.K1 sp.K0),
   splitEnv sp.K sp.g A.terms A.env, splitPt sp.K sp.g A.out A.τ⟩

/-- side conditions of one split (decidable) -/
def SplitOK (sp : SplitSpec) (A : Cfg) : Prop :=
  (sp.K, extOfR A.R sp.K) ∈ A.R ∧ (A.R.map (·.1)).Nodup ∧
  sp.K1 ∉ A.R.map (·.1) ∧ sp.K0 ∉ A.R.map (·.1) ∧ sp.K1 ≠ sp.K0 ∧
  (∀ k, k < extOfR A.R sp.K → sp.g k < extOfR A.R sp.K) ∧
  (sp.K1 ∉ A.out ∧ sp.K0 ∉ A.out) ∧
  (∀ t ∈ A.terms, ∀ x ∈ t.tensors, sp.K1 ∉ x.ranks ∧ sp.K0 ∉ x.ranks) ∧
  (∀ t ∈ A.terms, ∀ x ∈ t.tensors, ∀ p ∈ A.env x.name, p.1.length = x.ranks.length) ∧
  (∀ t ∈ A.terms, ∀ x ∈ t.tensors, findRanks A.terms x.name = some x.ranks) ∧
  (sp.K ∉ A.out → ∀ t ∈ A.terms, ∃ x ∈ t.tensors, sp.K ∈ x.ranks) ∧
  A.τ.length = A.out.length

instance (sp : SplitSpec) (A : Cfg) : Decidable (SplitOK sp A) := by unfold SplitOK; infer_instance

theorem splitCfg_steps (sp : SplitSpec) (A : Cfg) (h : SplitOK sp A) : Steps A (splitCfg sp A) := by
  obtain ⟨hmem, hnd, h1, h0, h10, hg, hfo, hf, har, hcons, hcov, hτ⟩ := h
  obtain ⟨R, out, terms, env, τ⟩ := A
  simp only at *
  let e := extOfR R sp.K
  have hperm : R.Perm ((sp.K, e) :: R.erase (sp.K, e)) := List.perm_cons_erase hmem
  have hnd2 : (((sp.K, e) :: R.erase (sp.K, e)).map (·.1)).Nodup := (hperm.map (·.1)).nodup_iff.1 hnd
  have hK : sp.K ∉ (R.erase (sp.K, e)).map (·.1) := (List.nodup_cons.1 hnd2).1
  have hsub : ∀ s, s ∈ (R.erase (sp.K, e)).map (·.1) → s ∈ R.map (·.1) := by
    intro s hs
    obtain ⟨p, hp, rfl⟩ := List.mem_map.1 hs
    exact List.mem_map.2 ⟨p, List.mem_of_mem_erase hp, rfl⟩
  have hKin : sp.K ∈ R.map (·.1) := List.mem_map.2 ⟨_, hmem, rfl⟩
  have H : SplitHyp sp.K sp.K1 sp.K0 sp.g out terms env (splitEnv sp.K sp.g terms env) :=
    { fresh_out := hfo, fresh := hf, arity := har, cover := hcov,
      env' := by
        intro t ht x hx
        simp [splitEnv, hcons t ht x hx] }
  refine Steps.tail (Steps.tail (Steps.refl _) (Step.perm out terms env τ hperm hnd)) ?_
  exact Step.split sp.K sp.K1 sp.K0 sp.g e e (R.erase (sp.K, e)) out terms env _ τ hg hK
    (fun hm => h1 (hsub _ hm)) (fun hm => h0 (hsub _ hm)) h10 (fun e => h1 (e ▸ hKin)) (fun e => h0 (e ▸ hKin)) H hτ

def applySplits : List SplitSpec → Cfg → Cfg
  | [], A => A
  | sp :: sps, A => applySplits sps (splitCfg sp A)

def SplitsOK : List SplitSpec → Cfg → Prop
  | [], _ => True
  | sp :: sps, A => SplitOK sp A ∧ SplitsOK sps (splitCfg sp A)

instance : ∀ (sps : List SplitSpec) (A : Cfg), Decidable (SplitsOK sps A)
  | [], _ => isTrue trivial
  | sp :: sps, A => by
    unfold SplitsOK
    have := instDecidableSplitsOK sps (splitCfg sp A)
    infer_instance

theorem applySplits_steps : ∀ (sps : List SplitSpec) (A : Cfg), SplitsOK sps A → Steps A (applySplits sps A)
  | [], A, _ => Steps.refl A
  | sp :: sps, A, h => (splitCfg_steps sp A h.1).trans (applySplits_steps sps _ h.2)

/-- the partitioned Einsum the model compiler builds: the split configuration with the loop order `L'` -/
def partEinsum (S : EinsumS) (B : Cfg) (L' : List String) : EinsumS :=
  { loop := L', exts := L'.map (extOfR B.R), outName := S.outName, outRanks := B.out, terms := B.terms }

/-- all hypotheses of `model_partitioned`, decidable -/
def PartOK (S : EinsumS) (env : String → Pts) (σ : List Nat) (sps : List SplitSpec) (L' : List String) : Prop :=
  let A : Cfg := ⟨S.loop.zip S.exts, S.outRanks, S.terms, env, σ⟩
  let B := applySplits sps A
  let S' := partEinsum S B L'
  SplitsOK sps A ∧ B.R.Perm (S'.loop.zip S'.exts) ∧ (B.R.map (·.1)).Nodup ∧ S'.WF ∧ S'.loop.Nodup ∧
  (∀ t ∈ S'.terms, t.kind = .times ∨ (t.kind = .take 0 ∧ t.tensors.length = 1)) ∧
  C01.InBounds S' B.env ∧ C01.InputsWF S' B.env ∧ S'.outRanks.Nodup ∧ (∀ r ∈ S'.outRanks, r ∈ S'.loop) ∧
  B.τ.length = S'.outRanks.length

instance (S : EinsumS) (env : String → Pts) (σ : List Nat) (sps : List SplitSpec) (L' : List String) :
    Decidable (PartOK S env σ sps L') := by unfold PartOK; infer_instance

/-- **C02 for the model compiler**: every Einsum (sum of products), every stack of splits on every rank (any partition
    functions), every loop order over the expanded ranks, every input inside the extents: the emitted nest accumulates, at
    the split image of the output point `σ`, the value the original Einsum defines at `σ` -/
theorem model_partitioned (S : EinsumS) (env : String → Pts) (σ : List Nat) (sps : List SplitSpec) (L' : List String)
    (h : PartOK S env σ sps L') :
    let B := applySplits sps ⟨S.loop.zip S.exts, S.outRanks, S.terms, env, σ⟩
    C01.resultAt (partEinsum S B L') B.env B.τ = meaning (S.loop.zip S.exts) S.outRanks S.terms env σ := by
  intro B
  obtain ⟨hsp, hperm, hndR, hWF, hnd, hP, hb, hin, hout, houtin, hl⟩ := h
  have hlen : (partEinsum S B L').exts.length = (partEinsum S B L').loop.length := by simp [partEinsum]
  rw [C01.resultAt_eq_meaning' (partEinsum S B L') B.env hWF hnd hlen hP hb hin hout houtin B.τ hl]
  have hsteps := applySplits_steps sps ⟨S.loop.zip S.exts, S.outRanks, S.terms, env, σ⟩ hsp
  have h1 := steps_meaning hsteps
  have h2 := C01.meaning_perm hperm hndR B.out B.terms B.env B.τ
  simp only [Cfg.value] at h1
  rw [← h1]
  exact h2.symm

end C02

namespace C02
open Nest
/-- non-vacuity: GEMM `Z[m,n] = A[k,m] * B[k,n]`, `K: uniform_shape(2)`, loop order `[K1, M, N, K0]` satisfies every hypothesis -/
example :
    let S : EinsumS := { loop := ["K", "M", "N"], exts := [3, 2, 2], outName := "Z", outRanks := ["M", "N"], terms := [{ kind := .times, scal := 1, tensors := [⟨"A", ["K", "M"]⟩, ⟨"B", ["K", "N"]⟩] }] }
    let env : String → Pts := fun n => if n = "A" then [([0, 1], 2), ([2, 1], 3)] else if n = "B" then [([0, 0], 5), ([2, 0], 7)] else []
    PartOK S env [1, 0] [⟨"K", "K1", "K0", fun k => k / 2 * 2⟩] ["K1", "M", "N", "K0"] := by
  decide
end C02
