import TeaalVerif.IR.Tensor
/-!
# C07 — tensor names tell the truth (cursor level; partial)

For **every** tensor (name, declared ranks) and **every** history of cursor operations the translator
may perform on it (`swizzle`, `update_ranks`, `from_fiber`, `pop`, `set_is_output`, `reset`, in any order
and number):

* `name_spells`     — the current tensor name is `<Name>_<active ranks concatenated>` (plus `_flat` exactly
                      when the tensor is flat and not the output): the name never lies about the rank order;
* `swizzle_perm`    — a successful swizzle only permutes the active ranks (no rank is lost or invented);
* `reset_restores`  — after any history, `reset` puts the cursor back into the state of a freshly declared
                      tensor (this is what makes each Einsum of a cascade independent of its predecessors, C05);
* `init_ranks_const`— no operation changes the declared ranks.

The rank ids the *emitted program* gives its tensor variables are followed by `RankIds.interp` (an
executable interpreter of the rank-id effect of every emitted tensor operation, evaluated on the real
trees by the check; no soundness theorem is claimed for it beyond being that projection), and inputs/data
are observed by execution.
-/
namespace C07
open Cursor

theorem name_spells (t : T) :
    t.tensorName = t.name ++ "_" ++ String.join t.active ++ (if t.isFlat && !t.isOutput then "_flat" else "") := rfl

theorem swizzle_perm (t t' : T) (order : List String) (h : step t (.swizzle order) = some t')
    (hp : t.rankPtr ≤ t.ranks.length) : t'.active.Perm t.active ∧ t'.active = order := by
  simp only [step] at h
  split at h
  · rename_i hperm
    simp only [Option.some.injEq] at h
    subst h
    have hperm' : t.active.Perm order := by simpa using hperm
    have : ({ t with ranks := t.ranks.take t.rankPtr ++ order, isFlat := t.isFlat && decide (t.active = order) } : T).active = order := by
      simp only [T.active]
      rw [List.drop_append_of_le_length (by simp [Nat.min_eq_left hp])]
      simp [Nat.min_eq_left hp]
    rw [this]
    exact ⟨hperm'.symm, rfl⟩
  · cases h

theorem step_init_ranks (t t' : T) (o : Op) (h : step t o = some t') : t'.initRanks = t.initRanks ∧ t'.name = t.name := by
  cases o <;> simp only [step] at h
  · split at h
    · simp only [Option.some.injEq] at h; subst h; exact ⟨rfl, rfl⟩
    · cases h
  · simp only [Option.some.injEq] at h; subst h; exact ⟨rfl, rfl⟩
  · simp only [Option.some.injEq] at h; subst h; exact ⟨rfl, rfl⟩
  · split at h
    · simp only [Option.some.injEq] at h; subst h; exact ⟨rfl, rfl⟩
    · cases h
  · simp only [Option.some.injEq] at h; subst h; exact ⟨rfl, rfl⟩
  · simp only [Option.some.injEq] at h; subst h; exact ⟨rfl, rfl⟩

/-- no history changes the declared ranks or the name -/
theorem init_ranks_const : ∀ (ops : List Op) (t t' : T), run t ops = some t' → t'.initRanks = t.initRanks ∧ t'.name = t.name
  | [], t, t', h => by simp [run] at h; subst h; exact ⟨rfl, rfl⟩
  | o :: os, t, t', h => by
    simp only [run] at h
    cases hs : step t o with
    | none => simp [hs] at h
    | some t1 =>
      simp only [hs] at h
      obtain ⟨h1, h2⟩ := step_init_ranks t t1 o hs
      obtain ⟨h3, h4⟩ := init_ranks_const os t1 t' h
      exact ⟨h3.trans h1, h4.trans h2⟩

/-- **after any history, `reset` restores the freshly declared tensor** -/
theorem reset_restores (name : String) (ranks : List String) (ops : List Op) (t' : T)
    (h : run (init name ranks) ops = some t') : step t' .reset = some (init name ranks) := by
  obtain ⟨h1, h2⟩ := init_ranks_const ops _ t' h
  simp only [step, init] at *
  rw [h1, h2]

/-- non-vacuity: partition, swizzle, iterate, then reset -/
example : (run (init "A" ["K", "M"]) [.updateRanks ["K1", "K0", "M"], .swizzle ["M", "K1", "K0"], .pop, .fromFiber]).map T.tensorName =
    some "A_K1K0" := by decide
example : (run (init "A" ["K", "M"]) [.updateRanks ["KM"]]).map T.tensorName = some "A_KM_flat" := by decide

end C07
