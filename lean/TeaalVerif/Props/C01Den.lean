import TeaalVerif.Nest.DenLemmas
import TeaalVerif.Props.C01
/-!
# C01 (continued) — the loop nest computes the Einsum's order-free meaning; the loop order does not matter

* `C01.spec_eq_meaning`: the dense nest `spec` that `C01.run_eq_spec_*` relates the emitted nest to is the
  Einsum's `meaning` — a sum over all assignments of coordinates to ranks, reading every tensor in its declared
  rank order (no swizzle, no slicing, no loop order).
* `C01.run_eq_meaning`: hence the emitted nest computes the meaning (sums of products; every Einsum, loop
  order, rank order, extent, input).
* `C01.meaning_perm`: the meaning does not depend on the order in which the ranks are enumerated; so any two loop
  orders compute the same tensor (`C01.loop_order_irrelevant`).
-/
namespace C01
open Nest

def lv (out rs : List String) (es : List Nat) : List (Bool × Nat) := (rs.zip es).map fun (r, e) => (out.contains r, e)

theorem levels_eq_lv (S : EinsumS) : levels S = lv S.outRanks S.loop S.exts := rfl

/-- operand state `o` represents the access `x` once the ranks outside `rs` are bound as in `f` -/
def OpRel (rs : List String) (env : String → Pts) (f : String → Nat) (x : TensorS) (o : Operand) : Prop :=
  o.sched = schedOf rs x.ranks ∧
  ∀ f', (∀ s, s ∉ rs → f' s = f s) → sumAt ((concord rs x.ranks).map f') o.pts = sumAt (x.ranks.map f') (env x.name)

def OpsRel (rs : List String) (env : String → Pts) (f : String → Nat) : List TensorS → List Operand → Prop
  | [], [] => True
  | x :: xs, o :: os => OpRel rs env f x o ∧ OpsRel rs env f xs os
  | _, _ => False

def TermRel (rs : List String) (env : String → Pts) (f : String → Nat) (t : TermS) (st : TermSt) : Prop :=
  st.kind = t.kind ∧ st.scal = t.scal ∧ OpsRel rs env f t.tensors st.ops

def Rel (rs : List String) (env : String → Pts) (f : String → Nat) : List TermS → List TermSt → Prop
  | [], [] => True
  | t :: ts, st :: sts => TermRel rs env f t st ∧ Rel rs env f ts sts
  | _, _ => False

theorem concord_cons_mem {r : String} {rs ranks : List String} (h : ranks.contains r = true) :
    concord (r :: rs) ranks = r :: concord rs ranks := by
  unfold concord; rw [List.filter_cons]; simp only [h, if_true]

theorem concord_cons_not_mem {r : String} {rs ranks : List String} (h : ranks.contains r = false) :
    concord (r :: rs) ranks = concord rs ranks := by
  unfold concord; rw [List.filter_cons]; simp only [h]; rfl

theorem map_upd_of_not_mem (f : String → Nat) (r : String) (c : Nat) (xs : List String) (h : r ∉ xs) :
    xs.map (upd f r c) = xs.map f := by
  apply List.map_congr_left
  intro s hs
  have : s ≠ r := fun e => h (e ▸ hs)
  simp [upd, this]

theorem opRel_step {r : String} {rs : List String} {env : String → Pts} {f : String → Nat} {x : TensorS} {o : Operand}
    (hr : r ∉ rs) (c : Nat) (h : OpRel (r :: rs) env f x o) : OpRel rs env (upd f r c) x (o.step c) := by
  obtain ⟨hs, hv⟩ := h
  refine ⟨by simp [Operand.step, hs, schedOf], ?_⟩
  intro f' hf'
  have hagree : ∀ s, s ∉ r :: rs → f' s = f s := by
    intro s hs'
    have h1 : s ∉ rs := fun hm => hs' (List.mem_cons_of_mem _ hm)
    have h2 : s ≠ r := fun e => hs' (by simp [e])
    rw [hf' s h1]; simp [upd, h2]
  have hfr : f' r = c := by rw [hf' r hr]; simp [upd]
  have hact : o.active = x.ranks.contains r := by
    simp [Operand.active, hs, schedOf]
  by_cases hm : x.ranks.contains r = true
  · have : (o.step c).pts = slice c o.pts := by
      show (if o.active then slice c o.pts else o.pts) = slice c o.pts
      rw [hact, hm]; rfl
    rw [this, sumAt_slice, ← hv f' hagree, concord_cons_mem hm]
    simp [hfr]
  · have hm' : x.ranks.contains r = false := by simpa using hm
    have : (o.step c).pts = o.pts := by
      show (if o.active then slice c o.pts else o.pts) = o.pts
      rw [hact, hm']; rfl
    rw [this, ← hv f' hagree, concord_cons_not_mem hm']

theorem opsRel_step {r : String} {rs : List String} {env : String → Pts} {f : String → Nat} (hr : r ∉ rs) (c : Nat) :
    ∀ (xs : List TensorS) (os : List Operand), OpsRel (r :: rs) env f xs os → OpsRel rs env (upd f r c) xs (os.map (Operand.step c))
  | [], [], _ => trivial
  | x :: xs, o :: os, h => ⟨opRel_step hr c h.1, opsRel_step hr c xs os h.2⟩
  | [], _ :: _, h => h.elim
  | _ :: _, [], h => h.elim

theorem rel_step {r : String} {rs : List String} {env : String → Pts} {f : String → Nat} (hr : r ∉ rs) (c : Nat) :
    ∀ (ts : List TermS) (sts : List TermSt), Rel (r :: rs) env f ts sts → Rel rs env (upd f r c) ts (sts.map (TermSt.step c))
  | [], [], _ => trivial
  | t :: ts, st :: sts, h => ⟨⟨h.1.1, h.1.2.1, opsRel_step hr c _ _ h.1.2.2⟩, rel_step hr c ts sts h.2⟩
  | [], _ :: _, h => h.elim
  | _ :: _, [], h => h.elim

theorem opsRel_vals {env : String → Pts} {f : String → Nat} :
    ∀ (xs : List TensorS) (os : List Operand), OpsRel [] env f xs os → os.map (fun o => leaf o.pts) = xs.map (accessVal env f)
  | [], [], _ => rfl
  | x :: xs, o :: os, h => by
    have := h.1.2 f (fun _ _ => rfl)
    have hx : leaf o.pts = accessVal env f x := by
      rw [leaf_eq_sumAt, accessVal, ← this]; rfl
    simp only [List.map_cons, opsRel_vals xs os h.2, hx]
  | [], _ :: _, h => h.elim
  | _ :: _, [], h => h.elim

theorem rel_vals {env : String → Pts} {f : String → Nat} :
    ∀ (ts : List TermS) (sts : List TermSt), Rel [] env f ts sts → sts.map mathVal = ts.map (termVal env f)
  | [], [], _ => rfl
  | t :: ts, st :: sts, h => by
    simp only [List.map_cons, rel_vals ts sts h.2]
    congr 1
    rw [mathVal_eq_comb, termVal, h.1.1, h.1.2.1, opsRel_vals _ _ h.1.2.2]
  | [], _ :: _, h => h.elim
  | _ :: _, [], h => h.elim

/-- the dense nest over the remaining loops sums the terms over all extensions of the bound assignment -/
theorem spec_sumF (out : List String) (terms : List TermS) (env : String → Pts) :
    ∀ (rs : List String) (es : List Nat) (sts : List TermSt) (f : String → Nat),
      rs.Nodup → es.length = rs.length → Rel rs env f terms sts →
      ∀ τ, sumAt τ (spec (lv out rs es) sts) =
        sumF (rs.zip es) (fun f' => if (concord rs out).map f' = τ then (terms.map (termVal env f')).sum else 0) f
  | [], es, sts, f, _, _, hR, τ => by
    simp only [lv, List.zip_nil_left, List.map_nil, spec, sumF, concord, List.filter_nil]
    rw [rel_vals terms sts hR]
    cases τ with
    | nil => simp [sumAt]
    | cons a τ => simp [sumAt]
  | r :: rs, [], _, _, _, hl, _, _ => by simp at hl
  | r :: rs, e :: es, sts, f, hnd, hl, hR, τ => by
    have hnd' := List.nodup_cons.1 hnd
    have hl' : es.length = rs.length := by simpa using hl
    have ih := fun c τ' => spec_sumF out terms env rs es (sts.map (TermSt.step c)) (upd f r c) hnd'.2 hl' (rel_step hnd'.1 c terms sts hR) τ'
    have hlv : lv out (r :: rs) (e :: es) = (out.contains r, e) :: lv out rs es := by simp [lv]
    simp only [hlv, spec, List.zip_cons_cons, sumF]
    rw [sumAt_flatMap]
    apply sum_map_congr
    intro c _
    by_cases hm : out.contains r = true
    · rw [hm, sumAt_map_tag_out, concord_cons_mem hm]
      cases τ with
      | nil =>
        simp only [List.map_cons]
        rw [show (fun f' : String → Nat => if f' r :: List.map f' (concord rs out) = [] then (terms.map (termVal env f')).sum else 0) = fun _ => 0 from by
          funext f'; simp]
        rw [sumF_zero]
      | cons c' τ' =>
        simp only [List.map_cons]
        by_cases hc : c' = c
        · subst hc
          rw [if_pos rfl, ih]
          apply sumF_congr_on
          intro f' hf'
          have : f' r = c' := by
            rw [hf' r (by
              intro hmem
              obtain ⟨p, hp, hpr⟩ := List.mem_map.1 hmem
              exact hnd'.1 (hpr ▸ (List.of_mem_zip hp).1))]
            simp [upd]
          simp [this]
        · rw [if_neg hc]
          symm
          refine (sumF_congr_on _ _ (fun _ => 0) _ ?_).trans (sumF_zero _ _)
          intro f' hf'
          have : f' r = c := by
            rw [hf' r (by
              intro hmem
              obtain ⟨p, hp, hpr⟩ := List.mem_map.1 hmem
              exact hnd'.1 (hpr ▸ (List.of_mem_zip hp).1))]
            simp [upd]
          have hne : ¬ (f' r :: List.map f' (concord rs out) = c' :: τ') := by
            intro e
            simp only [List.cons.injEq] at e
            exact hc (e.1.symm.trans this)
          rw [if_neg hne]
    · have hm' : out.contains r = false := by simpa using hm
      rw [hm', sumAt_map_tag_in, concord_cons_not_mem hm', ih]

/-- input well-formedness: every access names distinct loop ranks and every stored point has one coordinate per rank -/
def InputsWF (S : EinsumS) (env : String → Pts) : Prop :=
  ∀ t ∈ S.terms, ∀ x ∈ t.tensors, x.ranks.Nodup ∧ (∀ r ∈ x.ranks, r ∈ S.loop) ∧ ∀ p ∈ env x.name, p.1.length = x.ranks.length

theorem init_opsRel (loop : List String) (env : String → Pts) (f : String → Nat) :
    ∀ (xs : List TensorS), (∀ x ∈ xs, x.ranks.Nodup ∧ (∀ r ∈ x.ranks, r ∈ loop) ∧ ∀ p ∈ env x.name, p.1.length = x.ranks.length) →
      OpsRel loop env f xs (xs.map fun x => initOperand loop x (env x.name))
  | [], _ => trivial
  | x :: xs, h => by
    refine ⟨⟨rfl, ?_⟩, init_opsRel loop env f xs (fun y hy => h y (List.mem_cons_of_mem _ hy))⟩
    intro f' _
    obtain ⟨hnd, hin, har⟩ := h x (by simp)
    exact sumAt_reorder f' x.ranks (concord loop x.ranks) (env x.name) hnd
      (fun r hr => mem_concord.2 ⟨hin r hr, hr⟩) (fun r hr => (mem_concord.1 hr).2) har

theorem init_rel (loop : List String) (env : String → Pts) (f : String → Nat) :
    ∀ (ts : List TermS), (∀ t ∈ ts, ∀ x ∈ t.tensors, x.ranks.Nodup ∧ (∀ r ∈ x.ranks, r ∈ loop) ∧ ∀ p ∈ env x.name, p.1.length = x.ranks.length) →
      Rel loop env f ts (ts.map fun t => { kind := t.kind, scal := t.scal, ops := t.tensors.map fun x => initOperand loop x (env x.name) })
  | [], _ => trivial
  | t :: ts, h => ⟨⟨rfl, rfl, init_opsRel loop env f t.tensors (h t (by simp))⟩, init_rel loop env f ts (fun u hu => h u (List.mem_cons_of_mem _ hu))⟩

/-- **the dense nest is the Einsum's meaning** (output coordinates in the order the loops produce them) -/
theorem spec_eq_meaning (S : EinsumS) (env : String → Pts) (hnd : S.loop.Nodup) (hlen : S.exts.length = S.loop.length)
    (hin : InputsWF S env) (τ : List Nat) :
    sumAt τ (spec (levels S) (initTerms S env)) = meaning (S.loop.zip S.exts) (concord S.loop S.outRanks) S.terms env τ := by
  rw [levels_eq_lv]
  exact spec_sumF S.outRanks S.terms env S.loop S.exts (initTerms S env) (fun _ => 0) hnd hlen (init_rel S.loop env _ S.terms hin) τ

/-- **C01, order-free form**: the emitted nest computes the Einsum's meaning — every sum-of-products Einsum, every loop
    order, every rank order, every extent, every input -/
theorem run_eq_meaning (S : EinsumS) (env : String → Pts) (hS : S.WF) (hnd : S.loop.Nodup) (hlen : S.exts.length = S.loop.length)
    (hP : ∀ t ∈ S.terms, t.kind = .times ∨ (t.kind = .take 0 ∧ t.tensors.length = 1))
    (hE : Ext (levels S) (initTerms S env)) (hin : InputsWF S env) (τ : List Nat) :
    sumAt τ (run (levels S) (initTerms S env)) = meaning (S.loop.zip S.exts) (concord S.loop S.outRanks) S.terms env τ := by
  rw [model_times S env hS hlen hP hE τ, spec_eq_meaning S env hnd hlen hin τ]

/-- the meaning does not depend on the order in which the ranks are enumerated -/
theorem meaning_perm {R R' : List (String × Nat)} (hp : R.Perm R') (hnd : (R.map (·.1)).Nodup) (out : List String)
    (terms : List TermS) (env : String → Pts) (τ : List Nat) : meaning R out terms env τ = meaning R' out terms env τ :=
  sumF_perm hp _ hnd _

/-- the output point may be named in any order of the output's ranks -/
theorem meaning_reorder (R : List (String × Nat)) (out out' : List String) (terms : List TermS) (env : String → Pts)
    (hnd : out.Nodup) (h1 : ∀ r ∈ out, r ∈ out') (h2 : ∀ r ∈ out', r ∈ out) (σ : List Nat) (hl : σ.length = out.length) :
    meaning R out' terms env (reorder out out' σ) = meaning R out terms env σ := by
  unfold meaning
  apply sumF_congr
  intro f
  have := reorder_eq_iff f out out' σ hnd h1 h2 hl
  by_cases h : σ = out.map f
  · rw [if_pos (this.2 h).symm, if_pos h.symm]
  · rw [if_neg (fun e => h (this.1 e.symm)), if_neg (fun e => h e.symm)]

/-- the value the emitted nest accumulates for the output point `σ` given in the output's **declared** rank order -/
def resultAt (S : EinsumS) (env : String → Pts) (σ : List Nat) : Int :=
  sumAt (reorder S.outRanks (concord S.loop S.outRanks) σ) (run (levels S) (initTerms S env))

/-- **C01, declared-order form** -/
theorem resultAt_eq_meaning (S : EinsumS) (env : String → Pts) (hS : S.WF) (hnd : S.loop.Nodup) (hlen : S.exts.length = S.loop.length)
    (hP : ∀ t ∈ S.terms, t.kind = .times ∨ (t.kind = .take 0 ∧ t.tensors.length = 1))
    (hE : Ext (levels S) (initTerms S env)) (hin : InputsWF S env)
    (hout : S.outRanks.Nodup) (houtin : ∀ r ∈ S.outRanks, r ∈ S.loop) (σ : List Nat) (hl : σ.length = S.outRanks.length) :
    resultAt S env σ = meaning (S.loop.zip S.exts) S.outRanks S.terms env σ := by
  unfold resultAt
  rw [run_eq_meaning S env hS hnd hlen hP hE hin]
  exact meaning_reorder _ S.outRanks _ S.terms env hout (fun r hr => mem_concord.2 ⟨houtin r hr, hr⟩) (fun r hr => (mem_concord.1 hr).2) σ hl

/-- **any two loop orders compute the same tensor**: two schedules of the same Einsum (same terms, same output, the loop
    ranks with their extents permuted) accumulate the same value at every output point -/
theorem loop_order_irrelevant (S S' : EinsumS) (env : String → Pts)
    (hterms : S'.terms = S.terms) (hout' : S'.outRanks = S.outRanks) (hperm : (S.loop.zip S.exts).Perm (S'.loop.zip S'.exts))
    (hS : S.WF) (hS' : S'.WF) (hnd : S.loop.Nodup) (hnd' : S'.loop.Nodup)
    (hlen : S.exts.length = S.loop.length) (hlen' : S'.exts.length = S'.loop.length)
    (hP : ∀ t ∈ S.terms, t.kind = .times ∨ (t.kind = .take 0 ∧ t.tensors.length = 1))
    (hE : Ext (levels S) (initTerms S env)) (hE' : Ext (levels S') (initTerms S' env))
    (hin : InputsWF S env) (hin' : InputsWF S' env)
    (hout : S.outRanks.Nodup) (houtin : ∀ r ∈ S.outRanks, r ∈ S.loop) (houtin' : ∀ r ∈ S.outRanks, r ∈ S'.loop)
    (σ : List Nat) (hl : σ.length = S.outRanks.length) :
    resultAt S env σ = resultAt S' env σ := by
  rw [resultAt_eq_meaning S env hS hnd hlen hP hE hin hout houtin σ hl,
      resultAt_eq_meaning S' env hS' hnd' hlen' (hterms ▸ hP) hE' hin' (hout' ▸ hout) (hout' ▸ houtin') σ (hout' ▸ hl),
      hterms, hout']
  apply meaning_perm hperm
  have : (S.loop.zip S.exts).map (·.1) = S.loop := by
    rw [List.map_fst_zip]; omega
  rw [this]; exact hnd

/-- non-vacuity: GEMM `Z[m,n] = A[k,m] * B[k,n]`, loop order `[K, M, N]`, with a concrete input -/
example :
    let S : EinsumS := { loop := ["K", "M", "N"], exts := [2, 2, 2], outName := "Z", outRanks := ["M", "N"],
                         terms := [{ kind := .times, scal := 1, tensors := [⟨"A", ["K", "M"]⟩, ⟨"B", ["K", "N"]⟩] }] }
    let env : String → Pts := fun n => if n = "A" then [([0, 1], 2), ([1, 1], 3)] else [([0, 0], 5), ([1, 0], 7)]
    resultAt S env [1, 0] = 31 ∧ meaning (S.loop.zip S.exts) S.outRanks S.terms env [1, 0] = 31 := by
  decide

end C01
