import TeaalVerif.Metrics.Arch
import TeaalVerif.Props.C17
/-!
# C14, third clause: "... times the component's instance count given by the architecture tree"

`C14.instances_of_local`: in ANY architecture tree (any depth, any branching) whose component names are distinct,
the instance count the hardware dictionary holds for a component is the count of the level it is written under -
`N + 1` for a level written `NAME[0..N]`, 1 for a bare name (`C14.instances_written`, through `C17.level_roundtrip`:
the count is what the level-name parser extracts from the written tokens).
`C14.instances_sound`: with or without distinct names, whatever the dictionary holds for a name is the count of SOME
level that lists it; `C14.instances_none`: a name no level lists has no entry.
`C14.shadow_counterexample`: without distinct names the last level wins (why the hypothesis is there).
-/
namespace C14
open Arch Grammar

theorem mem_assignsL {s : Tree} {subs : List Tree} (hs : s ∈ subs) : ∀ x ∈ assigns s, x ∈ assignsL subs := by
  induction subs with
  | nil => cases hs
  | cons t ts ih =>
    intro x hx
    simp only [assignsL, List.mem_append]
    rcases List.mem_cons.mp hs with rfl | h
    · exact Or.inl hx
    · exact Or.inr (ih h x hx)

theorem localAt_mem {t : Tree} {c : String} {n : Nat} (h : LocalAt t c n) : (c, n) ∈ assigns t := by
  induction h with
  | here hc =>
    simp only [assigns, List.mem_append, List.mem_map]
    exact Or.inl ⟨_, hc, rfl⟩
  | sub hs _ ih =>
    simp only [assigns, List.mem_append]
    exact Or.inr (mem_assignsL hs _ ih)

mutual
theorem mem_localAt : ∀ (t : Tree) (c : String) (n : Nat), (c, n) ∈ assigns t → LocalAt t c n
  | .node lvl locals subs, c, n, h => by
    simp only [assigns, List.mem_append, List.mem_map] at h
    rcases h with ⟨c', hc', he⟩ | h
    · cases he; exact .here hc'
    · obtain ⟨s, hs, hl⟩ := mem_localAtL subs c n h
      exact .sub hs hl
theorem mem_localAtL : ∀ (ts : List Tree) (c : String) (n : Nat), (c, n) ∈ assignsL ts → ∃ s ∈ ts, LocalAt s c n
  | [], _, _, h => by simp [assignsL] at h
  | t :: ts, c, n, h => by
    simp only [assignsL, List.mem_append] at h
    rcases h with h | h
    · exact ⟨t, List.mem_cons_self, mem_localAt t c n h⟩
    · obtain ⟨s, hs, hl⟩ := mem_localAtL ts c n h
      exact ⟨s, List.mem_cons_of_mem _ hs, hl⟩
end

theorem lookup_mem {l : List (String × Nat)} {c : String} {n : Nat} (h : l.lookup c = some n) : (c, n) ∈ l := by
  induction l with
  | nil => simp at h
  | cons p l ih =>
    obtain ⟨k, v⟩ := p
    by_cases hk : c = k
    · subst hk; simp at h; subst h; exact List.mem_cons_self
    · have : (c == k) = false := by simpa using hk
      simp [List.lookup, this] at h
      exact List.mem_cons_of_mem _ (ih h)

theorem lookup_of_nodup {l : List (String × Nat)} (hn : (l.map Prod.fst).Nodup) {c : String} {n : Nat}
    (h : (c, n) ∈ l) : l.lookup c = some n := by
  induction l with
  | nil => cases h
  | cons p l ih =>
    obtain ⟨k, v⟩ := p
    simp only [List.map_cons, List.nodup_cons] at hn
    rcases List.mem_cons.mp h with he | h'
    · cases he; simp
    · have hne : c ≠ k := by
        intro he; subst he
        exact hn.1 (List.mem_map.mpr ⟨(c, n), h', rfl⟩)
      have : (c == k) = false := by simpa using hne
      simp [List.lookup, this]
      exact ih hn.2 h'

/-- whatever the dictionary holds for a name is the count of a level that lists it (no hypothesis) -/
theorem instances_sound (t : Tree) (c : String) (n : Nat) (h : instances t c = some n) : LocalAt t c n := by
  unfold instances at h
  exact mem_localAt t c n (List.mem_reverse.mp (lookup_mem h))

/-- a name no level lists has no entry -/
theorem instances_none (t : Tree) (c : String) (h : ∀ n, ¬ LocalAt t c n) : instances t c = none := by
  cases hi : instances t c with
  | none => rfl
  | some n => exact absurd (instances_sound t c n hi) (h n)

/-- distinct component names: the dictionary holds, for every component, the count of the level it is written under -/
theorem instances_of_local (t : Tree) (hn : ((assigns t).map Prod.fst).Nodup) (c : String) (n : Nat)
    (h : LocalAt t c n) : instances t c = some n := by
  unfold instances
  apply lookup_of_nodup
  · rw [List.map_reverse]
    unfold List.Nodup at hn ⊢
    rw [List.pairwise_reverse]
    exact hn.imp fun h => h.symm
  · exact List.mem_reverse.mpr (localAt_mem h)

/-- ... and that count is what the level-name parser extracts from the written level name: `N + 1` for `NAME[0..N]` -/
theorem instances_written (lvl : Level) (locals : List String) (subs : List Tree) (c : String) (hc : c ∈ locals)
    (hn : ((assigns (.node lvl locals subs)).map Prod.fst).Nodup) :
    ∃ k, parseLevel lvl.toks = some (lvl.name, k) ∧ instances (.node lvl locals subs) c = some k :=
  ⟨lvl.instances, C17.level_roundtrip lvl, instances_of_local _ hn c _ (.here hc)⟩

/-- the order in which sub-levels and local components are written is immaterial: two trees with distinct names that list the
same components under levels of the same counts give the same dictionary -/
theorem instances_order_free (t t' : Tree) (hn : ((assigns t).map Prod.fst).Nodup) (hn' : ((assigns t').map Prod.fst).Nodup)
    (h : ∀ c n, LocalAt t c n ↔ LocalAt t' c n) (c : String) : instances t c = instances t' c := by
  cases hi : instances t c with
  | some n => exact (instances_of_local t' hn' c n ((h c n).mp (instances_sound t c n hi))).symm
  | none =>
    cases hi' : instances t' c with
    | none => rfl
    | some n =>
      have := instances_of_local t hn c n ((h c n).mpr (instances_sound t' c n hi'))
      rw [hi] at this; cases this

/-- the count is the level's own, not a product along the path -/
example : instances (.node ⟨"System", some 3⟩ ["Mem"] [.node ⟨"PE", some 7⟩ ["Mul", "Buf"] []]) "Mul" = some 8 := by decide

/-- premises satisfiable on a two-level tree -/
example : ((assigns (.node ⟨"System", none⟩ ["Mem"] [.node ⟨"PE", some 7⟩ ["Mul", "Buf"] []])).map Prod.fst).Nodup := by
  decide

/-- without distinct names the last level listing the name wins -/
theorem shadow_counterexample :
    let t : Tree := .node ⟨"System", none⟩ ["X"] [.node ⟨"PE", some 7⟩ ["X"] []]
    LocalAt t "X" 1 ∧ instances t "X" = some 8 := by
  refine ⟨?_, by decide⟩
  exact LocalAt.here (lvl := ⟨"System", none⟩) (by simp)

end C14
