import TeaalVerif.Nest.Drive
import TeaalVerif.Props.C01K
/-!
# C01 for nests with operand-driven levels (flattened ranks)

`C01.runG_eq_specK`: the continuation form of the loop-nest theorem for nests in which some levels take their coordinates
from one driving operand and look the other operands up (`Mode.drive`, single-term Einsums): such a level visits every
coordinate at which the driver has an element; where another operand is absent its slice is empty and the product
contributes nothing - exactly what the dense reference nest accumulates.
-/
namespace C01
open Nest

def DriveWF : List (Bool × Nat × Mode) → List TermSt → Prop
  | [], _ => True
  | (_, _, mode) :: ls, sts =>
    (match mode with
     | .co => True
     | .drive o => ∃ st op, sts = [st] ∧ st.ops[o]? = some op ∧ op.active = true) ∧
    ∀ c, DriveWF ls (sts.map (TermSt.step c))

def VisitsG (mode : Mode) (N : Nat) (sts : List TermSt) (c : Nat) : Prop := c ∈ visitG mode N sts

theorem runG_eq_specK (I : List (Bool × Nat × Mode) → List TermSt → Prop) (k1 k2 : List TermSt → List (List Nat × Int))
    (hbase : ∀ sts, I [] sts → ∀ σ, sumAt σ (k1 sts) = sumAt σ (k2 sts))
    (hzero : ∀ sts, (∀ st ∈ sts, Dead st) → ∀ σ, sumAt σ (k2 sts) = 0)
    (hstep : ∀ out N mode ls sts, I ((out, N, mode) :: ls) sts → ∀ c, VisitsG mode N sts c → I ls (sts.map (TermSt.step c))) :
    ∀ (ls : List (Bool × Nat × Mode)) (sts : List TermSt), I ls sts → LevelWF (plainLevels ls) sts → Ext (plainLevels ls) sts →
      DriveWF ls sts → ∀ σ, sumAt σ (runG k1 ls sts) = sumAt σ (specK k2 (plainLevels ls) sts)
  | [], sts, hI, _, _, _, σ => by
    simp only [runG, plainLevels, List.map_nil, specK, hbase sts hI σ]
  | (out, N, mode) :: ls, sts, hI, hW, hB, hD, σ => by
    have hpl : plainLevels ((out, N, mode) :: ls) = (out, N) :: plainLevels ls := rfl
    rw [hpl] at hW hB ⊢
    obtain ⟨hlvl, hW'⟩ := hW
    obtain ⟨hB0, hB'⟩ := hB
    obtain ⟨hD0, hD'⟩ := hD
    have ih : ∀ c, VisitsG mode N sts c → ∀ σ', sumAt σ' (runG k1 ls (sts.map (TermSt.step c))) =
        sumAt σ' (specK k2 (plainLevels ls) (sts.map (TermSt.step c))) :=
      fun c hv σ' => runG_eq_specK I k1 k2 hbase hzero hstep ls _ (hstep out N mode ls sts hI c hv) (hW' c) (hB' c) (hD' c) σ'
    simp only [runG, specK]
    cases mode with
    | drive o =>
      obtain ⟨st, op, rfl, hop, hact⟩ := hD0
      have hvis : visitG (.drive o) N [st] = heads op.pts := by simp [visitG, driver, hop]
      rw [hvis]
      have hmem : op ∈ st.ops := List.mem_of_getElem? hop
      apply sumAt_tagged_cover out N (heads op.pts) _ _ σ (heads_nodup _)
      · intro c hc
        exact hB0 st (by simp) op hmem hact c hc
      · intro c hc σ'
        exact ih c (by simp only [VisitsG, hvis]; exact hc) σ'
      · intro c hc σ'
        apply specK_zero k2 hzero
        intro st' hst'
        simp at hst'; subst hst'
        refine ⟨op.step c, ?_, ?_⟩
        · simp only [TermSt.step, List.mem_map]; exact ⟨op, hmem, rfl⟩
        · simp only [Operand.step, hact, if_true]; exact slice_eq_nil hc
    | co =>
      have ih' : ∀ c, Visits N sts c → ∀ σ', sumAt σ' (runG k1 ls (sts.map (TermSt.step c))) =
          sumAt σ' (specK k2 (plainLevels ls) (sts.map (TermSt.step c))) := by
        intro c hv σ'
        apply ih c ?_ σ'
        simp only [VisitsG, visitG]
        simp only [Visits] at hv
        cases hco : coiterAll sts with
        | none => rw [hco] at hv; simp only; exact List.mem_range.2 hv
        | some cs => rw [hco] at hv; simp only; exact hv
      simp only [visitG]
      rw [sumAt_flatMap, sumAt_flatMap]
      cases hco : coiterAll sts with
      | none =>
        simp only
        congr 1
        apply List.map_congr_left
        intro c hc
        have hv : Visits N sts c := by simp only [Visits, hco]; exact List.mem_range.1 hc
        cases out with
        | true =>
          rw [sumAt_map_tag_out, sumAt_map_tag_out]
          cases σ with
          | nil => rfl
          | cons c' σ' => simp only; split
                          · exact ih' c hv σ'
                          · rfl
        | false => rw [sumAt_map_tag_in, sumAt_map_tag_in]; exact ih' c hv σ
      | some cs =>
        simp only
        obtain ⟨hnd, hsound, hcompl⟩ := coiterAll_spec sts cs hco
        have hact : ∀ st ∈ sts, hasActive st.ops = true := by
          rcases hlvl with h | h
          · exact h
          · exfalso
            have : coiterAll sts = none := (coiterAll_none_iff sts).2 (fun st hst => (coiterT_none_iff st.ops).2 (h st hst))
            rw [this] at hco; cases hco
        have hlt : ∀ c ∈ cs, c < N := by
          intro c hc
          obtain ⟨st, hst, cs', hcs', hm⟩ := hsound c hc
          obtain ⟨_, hs, _⟩ := coiterT_spec st.ops cs' hcs'
          have : hasActive st.ops = true := hact st hst
          simp only [hasActive, List.any_eq_true] at this
          obtain ⟨o, ho, hoa⟩ := this
          exact hB0 st hst o ho hoa c (hs c hm o ho hoa)
        have hdead : ∀ c, c ∉ cs → ∀ st ∈ sts.map (TermSt.step c), Dead st := by
          intro c hc st hst
          obtain ⟨st0, hst0, rfl⟩ := List.mem_map.1 hst
          have hne : coiterT st0.ops ≠ none := fun e => by
            have := (coiterT_none_iff st0.ops).1 e
            rw [hact st0 hst0] at this; cases this
          cases hct : coiterT st0.ops with
          | none => exact absurd hct hne
          | some cs' =>
            obtain ⟨_, _, hcm⟩ := coiterT_spec st0.ops cs' hct
            obtain ⟨o, ho, hoa, hn⟩ := hcm c (hcompl c hc st0 hst0 cs' hct)
            refine ⟨o.step c, ?_, ?_⟩
            · simp only [TermSt.step, List.mem_map]; exact ⟨o, ho, rfl⟩
            · simp only [Operand.step, hoa, if_true]; exact slice_eq_nil hn
        have hvis : ∀ c ∈ cs, Visits N sts c := fun c hc => by simp only [Visits, hco]; exact hc
        cases out with
        | false =>
          have hR := sum_range_eq_sum_list N (fun c => sumAt σ ((specK k2 (plainLevels ls) (sts.map (TermSt.step c))).map (tag false c))) cs hnd hlt
            (fun c _ hc => by rw [sumAt_map_tag_in]; exact specK_zero k2 hzero (plainLevels ls) _ (hdead c hc) σ)
          rw [hR]
          congr 1
          apply List.map_congr_left
          intro c hc
          rw [sumAt_map_tag_in, sumAt_map_tag_in]
          exact ih' c (hvis c hc) σ
        | true =>
          have hR := sum_range_eq_sum_list N (fun c => sumAt σ ((specK k2 (plainLevels ls) (sts.map (TermSt.step c))).map (tag true c))) cs hnd hlt
            (fun c _ hc => by
              rw [sumAt_map_tag_out]
              cases σ with
              | nil => rfl
              | cons c' σ' =>
                simp only
                split
                · exact specK_zero k2 hzero (plainLevels ls) _ (hdead c hc) σ'
                · rfl)
          rw [hR]
          congr 1
          apply List.map_congr_left
          intro c hc
          rw [sumAt_map_tag_out, sumAt_map_tag_out]
          cases σ with
          | nil => rfl
          | cons c' σ' =>
            simp only
            split
            · exact ih' c (hvis c hc) σ'
            · rfl


end C01
