import TeaalVerif.Nest.Cascade
import TeaalVerif.Props.C01Ext
import TeaalVerif.Props.C03Dyn
/-!
# C05 — the emitted cascade computes the sequential composition of the Einsums (model level)

`C05.cascade_correct`: running the nests of the Einsums of a specification one after the other - each leaving its result
under its declared name and rank order, later ones reading it there - yields, for every tensor name and every point, the
value of the mathematical composition `semCascade` (each Einsum's order-free `meaning` applied to the environment produced so
far).  The hypotheses (`CascadeOK`) are the decidable hypotheses of `C01.resultAt_eq_meaning'` for every member, evaluated on
the environment the model cascade has produced up to that member; the driver decides them for every sampled cascade and input.
-/
namespace C05
open Nest C01

theorem keys_len_run : ∀ (ls : List (Bool × Nat)) (sts : List TermSt), ∀ p ∈ run ls sts, p.1.length = (ls.filter (·.1)).length
  | [], sts, p, hp => by simp [run] at hp; subst hp; rfl
  | (o, e) :: ls, sts, p, hp => by
    simp only [run, List.mem_flatMap, List.mem_map] at hp
    obtain ⟨c, _, q, hq, rfl⟩ := hp
    have ih := keys_len_run ls _ q hq
    cases o with
    | true => simp [tag, List.filter_cons, ih]
    | false => simp [tag, List.filter_cons, ih]

theorem sumAt_filter_nz (σ : List Nat) (l : Pts) : sumAt σ (l.filter fun p => p.2 != 0) = sumAt σ l := by
  induction l with
  | nil => rfl
  | cons p ps ih =>
    obtain ⟨cs, v⟩ := p
    by_cases hv : v = 0
    · subst hv
      have : (List.filter (fun p : List Nat × Int => p.2 != 0) ((cs, 0) :: ps)) = List.filter (fun p => p.2 != 0) ps := by
        simp [List.filter_cons]
      rw [this, ih, sumAt_cons]; simp
    · have : (List.filter (fun p : List Nat × Int => p.2 != 0) ((cs, v) :: ps)) = (cs, v) :: List.filter (fun p => p.2 != 0) ps := by
        simp [List.filter_cons, hv]
      rw [this, sumAt_cons, sumAt_cons, ih]

theorem exists_assign (out : List String) (σ : List Nat) (hnd : out.Nodup) (hl : σ.length = out.length) :
    ∃ f : String → Nat, out.map f = σ :=
  ⟨fun r => σ.getD (out.idxOf r) 0, ((coord_eq_iff _ out σ hnd hl).1 (fun _ _ => rfl)).symm⟩

/-- a list of distinct keys, each mapped to its value: the value at `σ` is the value of the one key that maps to `σ` -/
theorem sumAt_map_unique (σ k0 : List Nat) (keys : List (List Nat)) (h : List Nat → List Nat) (val : List Nat → Int)
    (hnd : keys.Nodup) (hiff : ∀ k ∈ keys, h k = σ ↔ k = k0) (h0 : k0 ∉ keys → val k0 = 0) :
    sumAt σ (keys.map fun k => (h k, val k)) = val k0 := by
  induction keys with
  | nil => simp [sumAt]; exact (h0 (by simp)).symm
  | cons k ks ih =>
    have hnd' := List.nodup_cons.1 hnd
    simp only [List.map_cons]
    rw [sumAt_cons]
    by_cases hk : k = k0
    · subst hk
      rw [if_pos ((hiff k (by simp)).2 rfl)]
      have : sumAt σ (ks.map fun k' => (h k', val k')) = 0 := by
        apply C03.sumAt_eq_zero_of_ne
        intro p hp
        obtain ⟨k', hk', rfl⟩ := List.mem_map.1 hp
        intro e
        have := (hiff k' (List.mem_cons_of_mem _ hk')).1 e
        exact hnd'.1 (this ▸ hk')
      rw [this]; simp
    · rw [if_neg (fun e => hk ((hiff k (by simp)).1 e))]
      rw [ih hnd'.2 (fun k' hk' => hiff k' (List.mem_cons_of_mem _ hk')) (fun hn => h0 (by
        intro hm
        rcases List.mem_cons.1 hm with e | e
        · exact hk e.symm
        · exact hn e))]
      simp

end C05

namespace C05
open Nest C01

theorem out_levels_len (out : List String) : ∀ (loop : List String) (exts : List Nat), exts.length = loop.length →
    ((lv out loop exts).filter (·.1)).length = (concord loop out).length
  | [], _, _ => by simp [lv, concord]
  | r :: loop, [], h => by simp at h
  | r :: loop, e :: exts, h => by
    have ih := out_levels_len out loop exts (by simpa using h)
    have hlv : lv out (r :: loop) (e :: exts) = (out.contains r, e) :: lv out loop exts := by simp [lv]
    rw [hlv]
    by_cases hm : out.contains r = true
    · rw [concord_cons_mem hm, List.filter_cons, hm]
      simp only [if_true, List.length_cons, ih]
    · have hm' : out.contains r = false := by simpa using hm
      rw [concord_cons_not_mem hm', List.filter_cons, hm']
      simpa using ih

theorem nodup_concord (loop out : List String) (h : loop.Nodup) : (concord loop out).Nodup :=
  List.Nodup.sublist (List.filter_sublist) h

/-- the value of the tensor a nest leaves behind, at a point given in the output's declared rank order -/
theorem sumAt_resultPts (S : EinsumS) (env : String → Pts) (hnd : S.loop.Nodup) (hlen : S.exts.length = S.loop.length)
    (hout : S.outRanks.Nodup) (houtin : ∀ r ∈ S.outRanks, r ∈ S.loop) (σ : List Nat) :
    sumAt σ (resultPts S env) = if σ.length = S.outRanks.length then resultAt S env σ else 0 := by
  unfold resultPts
  simp only
  rw [sumAt_filter_nz]
  let c := run (levels S) (initTerms S env)
  let outL := concord S.loop S.outRanks
  have hkl : ∀ k ∈ dedupG (c.map (·.1)), k.length = outL.length := by
    intro k hk
    obtain ⟨p, hp, rfl⟩ := List.mem_map.1 (mem_dedupG.1 hk)
    rw [keys_len_run (levels S) _ p hp, levels_eq_lv]
    exact out_levels_len S.outRanks S.loop S.exts hlen
  have h1 : ∀ r ∈ outL, r ∈ S.outRanks := fun r hr => (mem_concord.1 hr).2
  have h2 : ∀ r ∈ S.outRanks, r ∈ outL := fun r hr => mem_concord.2 ⟨houtin r hr, hr⟩
  by_cases hl : σ.length = S.outRanks.length
  · rw [if_pos hl]
    obtain ⟨f, hf⟩ := exists_assign S.outRanks σ hout hl
    have hk0 : reorder S.outRanks outL σ = outL.map f := (reorder_eq_iff f S.outRanks outL σ hout h2 h1 hl).2 hf.symm
    apply sumAt_map_unique σ (reorder S.outRanks outL σ) _ (reorder outL S.outRanks) (fun k => sumAt k c) (nodup_dedupG _)
    · intro k hk
      rw [hk0, ← hf]
      exact reorder_eq_iff f outL S.outRanks k (nodup_concord _ _ hnd) h1 h2 (hkl k hk)
    · intro hn
      apply C03.sumAt_eq_zero_of_ne
      intro p hp e
      exact hn (mem_dedupG.2 (List.mem_map.2 ⟨p, hp, e⟩))
  · rw [if_neg hl]
    apply C03.sumAt_eq_zero_of_ne
    intro p hp e
    obtain ⟨k, _, rfl⟩ := List.mem_map.1 hp
    apply hl
    rw [← e]
    simp [reorder]

/-- hypotheses for one member of the cascade (those of `C01.resultAt_eq_meaning'`, all decidable) -/
def StepOK (S : EinsumS) (env : String → Pts) : Prop :=
  S.WF ∧ S.loop.Nodup ∧ S.exts.length = S.loop.length ∧
  (∀ t ∈ S.terms, t.kind = .times ∨ (t.kind = .take 0 ∧ t.tensors.length = 1)) ∧
  InBounds S env ∧ InputsWF S env ∧ S.outRanks.Nodup ∧ (∀ r ∈ S.outRanks, r ∈ S.loop)

instance (S : EinsumS) (env : String → Pts) : Decidable (StepOK S env) := by unfold StepOK; infer_instance

def CascadeOK : List EinsumS → (String → Pts) → Prop
  | [], _ => True
  | S :: Ss, env => StepOK S env ∧ CascadeOK Ss (updEnv env S.outName (resultPts S env))

instance instDecCascadeOK : ∀ (Ss : List EinsumS) (env : String → Pts), Decidable (CascadeOK Ss env)
  | [], _ => isTrue trivial
  | S :: Ss, env => by
    unfold CascadeOK
    have := instDecCascadeOK Ss (updEnv env S.outName (resultPts S env))
    infer_instance

theorem meaningF_len (R : List (String × Nat)) (out : List String) (terms : List TermS) (ρ : FEnv) (τ : List Nat)
    (h : τ.length ≠ out.length) : meaningF R out terms ρ τ = 0 := by
  unfold meaningF
  rw [sumF_congr _ _ (fun _ => 0) (fun f => by
    rw [if_neg]
    intro e
    apply h
    rw [← e]; simp), sumF_zero]

theorem step_toF (S : EinsumS) (env : String → Pts) (h : StepOK S env) :
    toF (updEnv env S.outName (resultPts S env)) =
      fun n σ => if n = S.outName then meaningF (S.loop.zip S.exts) S.outRanks S.terms (toF env) σ else toF env n σ := by
  obtain ⟨hS, hnd, hlen, hP, hb, hin, hout, houtin⟩ := h
  funext n σ
  by_cases hn : n = S.outName
  · simp only [toF, updEnv, hn, if_true]
    rw [sumAt_resultPts S env hnd hlen hout houtin σ]
    by_cases hl : σ.length = S.outRanks.length
    · rw [if_pos hl, resultAt_eq_meaning' S env hS hnd hlen hP hb hin hout houtin σ hl]
      rfl
    · rw [if_neg hl]
      exact (meaningF_len _ _ _ _ _ hl).symm
  · simp only [toF, updEnv, hn, if_false]

/-- **C05: the cascade of nests computes the sequential composition of the Einsums' meanings** - every tensor name, every
    point, every input -/
theorem cascade_correct : ∀ (Ss : List EinsumS) (env : String → Pts), CascadeOK Ss env →
    toF (cascade Ss env) = semCascade Ss (toF env)
  | [], _, _ => rfl
  | S :: Ss, env, h => by
    simp only [cascade, semCascade]
    rw [cascade_correct Ss _ h.2, step_toF S env h.1]

end C05
