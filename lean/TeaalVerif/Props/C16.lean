import TeaalVerif.Props.C11
/-!
# C16 — spacetime stamps are unambiguous (partial: the stamp algebra)

An executed update is identified by its *iteration vector*: the coordinate chosen at every loop, outermost
first.  The stamp component of loop `i` is `f i pre c`, a function of the coordinates `pre` of the outer
loops and of the loop's own coordinate `c`: the coordinate itself, its position in the fiber iterated (which
fiber that is depends on `pre`), or the coordinate relative to the coordinate of the enclosing partition
level.  Each of these is injective in `c` for fixed `pre` on the coordinates that loop can take.

* `stamps_injective` — if **every loop rank is stamped**, two different iteration vectors never carry the
  same stamp (for every number of loops and every such family `f`), because the vector can be
  reconstructed from the stamp outermost-first; re-ordering the components into a (space, time) pair of
  tuples does not matter (`perm_injective`);
* `rel_coord_injective` — the relative coordinate `c − k` is injective on `c ≥ k` (a lower partition
  level's coordinates are never below the upper level's);
* `slip_unique` — with the `slip` option the time stamp of an activity is the number of earlier activities
  with the same space stamp: the (space, time) pairs are pairwise distinct, whatever the sequence.

Observation-only, one-activity-per-update and point arities are decided by execution.
-/
namespace C16

/-- stamp of an iteration vector: component `i` is `f i (outer coordinates) (own coordinate)` -/
def stampFrom (f : Nat → List Nat → Nat → Nat) : Nat → List Nat → List Nat → List Nat
  | _, _, [] => []
  | i, pre, c :: cs => f i pre c :: stampFrom f (i + 1) (pre ++ [c]) cs

/-- the vectors the nest can produce: at loop `i` under outer coordinates `pre` the coordinate satisfies `D i pre` -/
def Admissible (D : Nat → List Nat → Nat → Prop) : Nat → List Nat → List Nat → Prop
  | _, _, [] => True
  | i, pre, c :: cs => D i pre c ∧ Admissible D (i + 1) (pre ++ [c]) cs

theorem stamps_injective_from (f : Nat → List Nat → Nat → Nat) (D : Nat → List Nat → Nat → Prop)
    (hinj : ∀ i pre c c', D i pre c → D i pre c' → f i pre c = f i pre c' → c = c') :
    ∀ (v v' : List Nat) (i : Nat) (pre : List Nat), v.length = v'.length → Admissible D i pre v → Admissible D i pre v' →
      stampFrom f i pre v = stampFrom f i pre v' → v = v'
  | [], [], _, _, _, _, _, _ => rfl
  | [], _ :: _, _, _, h, _, _, _ => by simp at h
  | _ :: _, [], _, _, h, _, _, _ => by simp at h
  | c :: cs, c' :: cs', i, pre, hl, ha, ha', hs => by
    simp only [stampFrom, List.cons.injEq] at hs
    have hc : c = c' := hinj i pre c c' ha.1 ha'.1 hs.1
    subst hc
    have := stamps_injective_from f D hinj cs cs' (i + 1) (pre ++ [c]) (by simpa using hl) ha.2 ha'.2 hs.2
    rw [this]

/-- **every loop rank stamped ⇒ no two activities share a stamp** -/
theorem stamps_injective (f : Nat → List Nat → Nat → Nat) (D : Nat → List Nat → Nat → Prop)
    (hinj : ∀ i pre c c', D i pre c → D i pre c' → f i pre c = f i pre c' → c = c')
    (v v' : List Nat) (hl : v.length = v'.length) (ha : Admissible D 0 [] v) (ha' : Admissible D 0 [] v')
    (hs : stampFrom f 0 [] v = stampFrom f 0 [] v') : v = v' :=
  stamps_injective_from f D hinj v v' 0 [] hl ha ha' hs

/-- distributing the components over the (space, time) tuples in any order loses nothing -/
theorem perm_injective (σ : List Nat) (s s' : List Nat) (hl : s.length = s'.length)
    (hσ : ∀ i, i < s.length → i ∈ σ) (h : σ.map (fun i => s.getD i 0) = σ.map (fun i => s'.getD i 0)) : s = s' := by
  apply List.ext_getElem hl
  intro i h1 h2
  have hi := hσ i h1
  have : (fun i => s.getD i 0) i = (fun i => s'.getD i 0) i := by
    have := List.map_inj_left.1 h i hi
    exact this
  simp only [List.getD, List.getElem?_eq_getElem h1, List.getElem?_eq_getElem h2, Option.getD_some] at this
  exact this

theorem rel_coord_injective (k c c' : Nat) (h : k ≤ c) (h' : k ≤ c') (he : c - k = c' - k) : c = c' := by omega

/-! ### slip -/

/-- the (space, time) pairs emitted with `opt: slip`: time = number of earlier activities at the same space -/
def slipPairs : List Nat → List Nat → List (Nat × Nat)
  | _, [] => []
  | seen, s :: rest => (s, seen.count s) :: slipPairs (s :: seen) rest

theorem slip_time_ge (seen : List Nat) : ∀ (rest : List Nat) (p : Nat × Nat), p ∈ slipPairs seen rest → seen.count p.1 ≤ p.2
  | [], p, h => by simp [slipPairs] at h
  | s :: rest, p, h => by
    simp only [slipPairs, List.mem_cons] at h
    rcases h with rfl | h
    · exact Nat.le_refl _
    · have := slip_time_ge (s :: seen) rest p h
      rw [List.count_cons] at this
      omega

/-- **with slip no two activities share a (space, time) stamp** -/
theorem slip_unique : ∀ (seen rest : List Nat), (slipPairs seen rest).Nodup
  | _, [] => by simp [slipPairs]
  | seen, s :: rest => by
    simp only [slipPairs, List.nodup_cons]
    refine ⟨?_, slip_unique (s :: seen) rest⟩
    intro hm
    have := slip_time_ge (s :: seen) rest (s, seen.count s) hm
    simp at this
    omega

/-- non-vacuity -/
example : slipPairs [] [3, 5, 3, 3, 5] = [(3, 0), (5, 0), (3, 1), (3, 2), (5, 1)] := by decide


/-! ### exactly one activity per executed update, for every input

A program whose statements are tensor updates, `addActivity` calls and everything else, with loops whose trip counts depend on the
state and alternatives decided by the state.  `bal p = some (u, a)`: outside loops `p` performs `u` updates and `a` activities on
every path, and every loop body performs as many activities as updates.  Then every execution reports exactly
`(#updates - u) + a` activities - in particular as many activities as updates when `u = a` - whatever the trip counts are. -/

inductive EProg (T : Type) where
  | skip
  | other (h : T → T)
  | update (h : T → T)
  | activity
  | seq (p q : EProg T)
  | loop (n : T → Nat) (body : EProg T)
  | alt (c : T → Bool) (p q : EProg T)

instance {T : Type} : Inhabited (EProg T) := ⟨.skip⟩

/-- state, number of updates executed, number of activities reported -/
def EProg.run {T : Type} : EProg T → T × Nat × Nat → T × Nat × Nat
  | .skip, s => s
  | .other h, s => (h s.1, s.2.1, s.2.2)
  | .update h, s => (h s.1, s.2.1 + 1, s.2.2)
  | .activity, s => (s.1, s.2.1, s.2.2 + 1)
  | .seq p q, s => q.run (p.run s)
  | .loop n body, s => C11.iter body.run (n s.1) s
  | .alt c p q, s => if c s.1 then p.run s else q.run s

def EProg.bal {T : Type} : EProg T → Option (Nat × Nat)
  | .skip => some (0, 0)
  | .other _ => some (0, 0)
  | .update _ => some (1, 0)
  | .activity => some (0, 1)
  | .seq p q => match p.bal, q.bal with
    | some (u1, a1), some (u2, a2) => some (u1 + u2, a1 + a2)
    | _, _ => none
  | .loop _ body => match body.bal with
    | some (u, a) => if u = a then some (0, 0) else none
    | none => none
  | .alt _ p q => match p.bal, q.bal with
    | some x, some y => if x = y then some x else none
    | _, _ => none

theorem iter_balanced {T : Type} (f : T × Nat × Nat → T × Nat × Nat)
    (h : ∀ s, (f s).2.1 + s.2.2 = (f s).2.2 + s.2.1) : ∀ (k : Nat) (s : T × Nat × Nat), (C11.iter f k s).2.1 + s.2.2 = (C11.iter f k s).2.2 + s.2.1
  | 0, s => by simp only [C11.iter]; omega
  | k + 1, s => by
    have h1 := iter_balanced f h k (f s)
    have h2 := h s
    simp only [C11.iter]
    omega

/-- **activities and updates advance together** -/
theorem run_balanced {T : Type} : ∀ (p : EProg T) (u a : Nat), p.bal = some (u, a) → ∀ s : T × Nat × Nat,
    (p.run s).2.1 + s.2.2 + a = (p.run s).2.2 + s.2.1 + u
  | .skip, u, a, h, s => by simp only [EProg.bal, Option.some.injEq, Prod.mk.injEq] at h; obtain ⟨rfl, rfl⟩ := h; simp only [EProg.run]; omega
  | .other _, u, a, h, s => by simp only [EProg.bal, Option.some.injEq, Prod.mk.injEq] at h; obtain ⟨rfl, rfl⟩ := h; simp only [EProg.run]; omega
  | .update _, u, a, h, s => by
    simp only [EProg.bal, Option.some.injEq, Prod.mk.injEq] at h; obtain ⟨rfl, rfl⟩ := h; simp only [EProg.run]; omega
  | .activity, u, a, h, s => by
    simp only [EProg.bal, Option.some.injEq, Prod.mk.injEq] at h; obtain ⟨rfl, rfl⟩ := h; simp only [EProg.run]; omega
  | .seq p q, u, a, h, s => by
    simp only [EProg.bal] at h
    cases hp : p.bal with
    | none => simp [hp] at h
    | some x =>
      obtain ⟨u1, a1⟩ := x
      cases hq : q.bal with
      | none => simp [hp, hq] at h
      | some y =>
        obtain ⟨u2, a2⟩ := y
        simp only [hp, hq, Option.some.injEq, Prod.mk.injEq] at h
        obtain ⟨rfl, rfl⟩ := h
        have h1 := run_balanced p u1 a1 hp s
        have h2 := run_balanced q u2 a2 hq (p.run s)
        simp only [EProg.run]
        omega
  | .loop n body, u, a, h, s => by
    simp only [EProg.bal] at h
    cases hb : body.bal with
    | none => simp [hb] at h
    | some x =>
      obtain ⟨ub, ab⟩ := x
      simp only [hb] at h
      by_cases e : ub = ab
      · rw [if_pos e] at h
        simp only [Option.some.injEq, Prod.mk.injEq] at h
        obtain ⟨rfl, rfl⟩ := h
        subst e
        have := iter_balanced body.run (fun t => by have := run_balanced body ub ub hb t; omega) (n s.1) s
        simp only [EProg.run]
        omega
      · rw [if_neg e] at h; cases h
  | .alt c p q, u, a, h, s => by
    simp only [EProg.bal] at h
    cases hp : p.bal with
    | none => simp [hp] at h
    | some x =>
      cases hq : q.bal with
      | none => simp [hp, hq] at h
      | some y =>
        simp only [hp, hq] at h
        by_cases e : x = y
        · rw [if_pos e] at h
          simp only [Option.some.injEq] at h
          subst e
          simp only [EProg.run]
          split
          · exact run_balanced p u a (by rw [hp, h]) s
          · exact run_balanced q u a (by rw [hq, h]) s
        · rw [if_neg e] at h; cases h

/-- **one activity per executed update**: a balanced program started with both counters at zero ends with equal counters -/
theorem one_activity_per_update {T : Type} (p : EProg T) (k : Nat) (h : p.bal = some (k, k)) (t : T) :
    (p.run (t, 0, 0)).2.1 = (p.run (t, 0, 0)).2.2 := by
  have := run_balanced p k k h (t, 0, 0)
  simp only at this
  omega

-- non-vacuity: a nest with a data-dependent trip count, a slip-style bookkeeping statement between update and activity
example : (EProg.loop (fun t : Nat => t) (.loop (fun t => t + 1) (.seq (.update fun t => t) (.seq (.other fun t => t) .activity)))).bal = some (0, 0) := by decide
example : ((EProg.loop (fun t : Nat => t) (.loop (fun t => t + 1) (.seq (.update fun t => t) (.seq (.other fun t => t) .activity)))).run (3, 0, 0)).2 = (12, 12) := by decide
-- an activity outside the innermost loop is not balanced
example : (EProg.loop (fun t : Nat => t) (.seq .activity (.loop (fun t => t) (.update fun t => t)))).bal = none := by decide

end C16
