/-!
# C16 — spacetime stamps are unambiguous (partial: the stamp algebra)

An executed update is identified by its *iteration vector*: the coordinate chosen at every loop, outermost
first.  The stamp component of loop `i` is `f i pre c`, a function of the coordinates `pre` of the outer
loops and of the loop's own coordinate `c`: the coordinate itself, its position in the fiber iterated (which
fiber that is depends on `pre`), or the coordinate relative to the coordinate of the enclosing partition
level.  Each of these is injective in `c` for fixed `pre` on the coordinates that loop can take.

* `stamps_injective` — if **every loop rank is stamped**, two different iteration vectors never carry the
  same stamp (for every number of loops and every such family `f`), because the vector can be
  reconstructed from the stamp outermost-first; re-ordering the components into a (space, time) pair of
  tuples does not matter (`perm_injective`);
* `rel_coord_injective` — the relative coordinate `c − k` is injective on `c ≥ k` (a lower partition
  level's coordinates are never below the upper level's);
* `slip_unique` — with the `slip` option the time stamp of an activity is the number of earlier activities
  with the same space stamp: the (space, time) pairs are pairwise distinct, whatever the sequence.

Observation-only, one-activity-per-update and point arities are decided by execution.
-/
namespace C16

/-- stamp of an iteration vector: component `i` is `f i (outer coordinates) (own coordinate)` -/
def stampFrom (f : Nat → List Nat → Nat → Nat) : Nat → List Nat → List Nat → List Nat
  | _, _, [] => []
  | i, pre, c :: cs => f i pre c :: stampFrom f (i + 1) (pre ++ [c]) cs

/-- the vectors the nest can produce: at loop `i` under outer coordinates `pre` the coordinate satisfies `D i pre` -/
def Admissible (D : Nat → List Nat → Nat → Prop) : Nat → List Nat → List Nat → Prop
  | _, _, [] => True
  | i, pre, c :: cs => D i pre c ∧ Admissible D (i + 1) (pre ++ [c]) cs

theorem stamps_injective_from (f : Nat → List Nat → Nat → Nat) (D : Nat → List Nat → Nat → Prop)
    (hinj : ∀ i pre c c', D i pre c → D i pre c' → f i pre c = f i pre c' → c = c') :
    ∀ (v v' : List Nat) (i : Nat) (pre : List Nat), v.length = v'.length → Admissible D i pre v → Admissible D i pre v' →
      stampFrom f i pre v = stampFrom f i pre v' → v = v'
  | [], [], _, _, _, _, _, _ => rfl
  | [], _ :: _, _, _, h, _, _, _ => by simp at h
  | _ :: _, [], _, _, h, _, _, _ => by simp at h
  | c :: cs, c' :: cs', i, pre, hl, ha, ha', hs => by
    simp only [stampFrom, List.cons.injEq] at hs
    have hc : c = c' := hinj i pre c c' ha.1 ha'.1 hs.1
    subst hc
    have := stamps_injective_from f D hinj cs cs' (i + 1) (pre ++ [c]) (by simpa using hl) ha.2 ha'.2 hs.2
    rw [this]

/-- **every loop rank stamped ⇒ no two activities share a stamp** -/
theorem stamps_injective (f : Nat → List Nat → Nat → Nat) (D : Nat → List Nat → Nat → Prop)
    (hinj : ∀ i pre c c', D i pre c → D i pre c' → f i pre c = f i pre c' → c = c')
    (v v' : List Nat) (hl : v.length = v'.length) (ha : Admissible D 0 [] v) (ha' : Admissible D 0 [] v')
    (hs : stampFrom f 0 [] v = stampFrom f 0 [] v') : v = v' :=
  stamps_injective_from f D hinj v v' 0 [] hl ha ha' hs

/-- distributing the components over the (space, time) tuples in any order loses nothing -/
theorem perm_injective (σ : List Nat) (s s' : List Nat) (hl : s.length = s'.length)
    (hσ : ∀ i, i < s.length → i ∈ σ) (h : σ.map (fun i => s.getD i 0) = σ.map (fun i => s'.getD i 0)) : s = s' := by
  apply List.ext_getElem hl
  intro i h1 h2
  have hi := hσ i h1
  have : (fun i => s.getD i 0) i = (fun i => s'.getD i 0) i := by
    have := List.map_inj_left.1 h i hi
    exact this
  simp only [List.getD, List.getElem?_eq_getElem h1, List.getElem?_eq_getElem h2, Option.getD_some] at this
  exact this

theorem rel_coord_injective (k c c' : Nat) (h : k ≤ c) (h' : k ≤ c') (he : c - k = c' - k) : c = c' := by omega

/-! ### slip -/

/-- the (space, time) pairs emitted with `opt: slip`: time = number of earlier activities at the same space -/
def slipPairs : List Nat → List Nat → List (Nat × Nat)
  | _, [] => []
  | seen, s :: rest => (s, seen.count s) :: slipPairs (s :: seen) rest

theorem slip_time_ge (seen : List Nat) : ∀ (rest : List Nat) (p : Nat × Nat), p ∈ slipPairs seen rest → seen.count p.1 ≤ p.2
  | [], p, h => by simp [slipPairs] at h
  | s :: rest, p, h => by
    simp only [slipPairs, List.mem_cons] at h
    rcases h with rfl | h
    · exact Nat.le_refl _
    · have := slip_time_ge (s :: seen) rest p h
      rw [List.count_cons] at this
      omega

/-- **with slip no two activities share a (space, time) stamp** -/
theorem slip_unique : ∀ (seen rest : List Nat), (slipPairs seen rest).Nodup
  | _, [] => by simp [slipPairs]
  | seen, s :: rest => by
    simp only [slipPairs, List.nodup_cons]
    refine ⟨?_, slip_unique (s :: seen) rest⟩
    intro hm
    have := slip_time_ge (s :: seen) rest (s, seen.count s) hm
    simp at this
    omega

/-- non-vacuity -/
example : slipPairs [] [3, 5, 3, 3, 5] = [(3, 0), (5, 0), (3, 1), (3, 2), (5, 1)] := by decide

end C16
