import TeaalVerif.Nest.Lemmas
import TeaalVerif.Nest.Compile
/-!
# C01 — the generated loop nest computes the Einsum (for every input)

`C01.run_eq_spec_times` and `C01.run_eq_spec_single`: for **every** number of loops, every schedule of
every operand (every loop order and every rank order that is concordant with it), every output
participation, every extent `N` and **every** input tensor content (bounded by the extent; for `take`:
without stored zeros), the value the emitted nest accumulates at every output point equals the value
the Einsum defines:

* sums of products (any number of terms and factors, scalars, rank-0 operands, reductions, output-only
  ranks), including `take` with a single operand;
* single-term Einsums with `take` over any number of operands none of which is rank-0.

`C01.take_in_sum_counterexample` / `C01.take_rank0_counterexample`: outside these classes the statement
is false of the emitted nest (known findings): the hypotheses are necessary, not convenient.
-/
namespace C01
open Nest

def LevelWF : List (Bool × Nat) → List TermSt → Prop
  | [], _ => True
  | _ :: ls, sts =>
    ((∀ st ∈ sts, hasActive st.ops = true) ∨ (∀ st ∈ sts, hasActive st.ops = false)) ∧
    ∀ c, LevelWF ls (sts.map (TermSt.step c))

/-- every coordinate present in an operand is below the extent of the loop that consumes it -/
def Ext : List (Bool × Nat) → List TermSt → Prop
  | [], _ => True
  | (_, e) :: ls, sts =>
    (∀ st ∈ sts, ∀ o ∈ st.ops, o.active = true → ∀ c ∈ heads o.pts, c < e) ∧
    ∀ c, Ext ls (sts.map (TermSt.step c))

/-- the coordinates the emitted loop visits -/
def Visits (ext : Nat) (sts : List TermSt) (c : Nat) : Prop :=
  match coiterAll sts with
  | some cs => c ∈ cs
  | none => c < ext

/-- **core**: parametrised by an invariant `I` that makes the emitted and the mathematical leaf values
    agree wherever the emitted nest arrives -/
theorem run_eq_spec (I : List (Bool × Nat) → List TermSt → Prop)
    (hbase : ∀ sts, I [] sts → (sts.map emitVal).sum = (sts.map mathVal).sum)
    (hstep : ∀ out N ls sts, I ((out, N) :: ls) sts → ∀ c, Visits N sts c → I ls (sts.map (TermSt.step c))) :
    ∀ (ls : List (Bool × Nat)) (sts : List TermSt), I ls sts → LevelWF ls sts → Ext ls sts →
      ∀ σ, sumAt σ (run ls sts) = sumAt σ (spec ls sts)
  | [], sts, hI, _, _, σ => by
    simp only [run, spec, hbase sts hI]
  | (out, N) :: ls, sts, hI, hW, hB, σ => by
    obtain ⟨hlvl, hW'⟩ := hW
    obtain ⟨hB0, hB'⟩ := hB
    have ih : ∀ c, Visits N sts c → ∀ σ', sumAt σ' (run ls (sts.map (TermSt.step c))) =
        sumAt σ' (spec ls (sts.map (TermSt.step c))) :=
      fun c hv σ' => run_eq_spec I hbase hstep ls _ (hstep out N ls sts hI c hv) (hW' c) (hB' c) σ'
    simp only [run, spec]
    rw [sumAt_flatMap, sumAt_flatMap]
    cases hco : coiterAll sts with
    | none =>
      simp only
      congr 1
      apply List.map_congr_left
      intro c hc
      have hv : Visits N sts c := by simp only [Visits, hco]; exact List.mem_range.1 hc
      cases out with
      | true =>
        rw [sumAt_map_tag_out, sumAt_map_tag_out]
        cases σ with
        | nil => rfl
        | cons c' σ' => simp only; split
                        · exact ih c hv σ'
                        · rfl
      | false => rw [sumAt_map_tag_in, sumAt_map_tag_in]; exact ih c hv σ
    | some cs =>
      simp only
      obtain ⟨hnd, hsound, hcompl⟩ := coiterAll_spec sts cs hco
      -- every term has an active operand
      have hact : ∀ st ∈ sts, hasActive st.ops = true := by
        rcases hlvl with h | h
        · exact h
        · exfalso
          have : coiterAll sts = none := (coiterAll_none_iff sts).2 (fun st hst => (coiterT_none_iff st.ops).2 (h st hst))
          rw [this] at hco; cases hco
      have hlt : ∀ c ∈ cs, c < N := by
        intro c hc
        obtain ⟨st, hst, cs', hcs', hm⟩ := hsound c hc
        obtain ⟨_, hs, _⟩ := coiterT_spec st.ops cs' hcs'
        have : hasActive st.ops = true := hact st hst
        simp only [hasActive, List.any_eq_true] at this
        obtain ⟨o, ho, hoa⟩ := this
        exact hB0 st hst o ho hoa c (hs c hm o ho hoa)
      have hdead : ∀ c, c ∉ cs → ∀ st ∈ sts.map (TermSt.step c), Dead st := by
        intro c hc st hst
        obtain ⟨st0, hst0, rfl⟩ := List.mem_map.1 hst
        have hne : coiterT st0.ops ≠ none := fun e => by
          have := (coiterT_none_iff st0.ops).1 e
          rw [hact st0 hst0] at this; cases this
        cases hct : coiterT st0.ops with
        | none => exact absurd hct hne
        | some cs' =>
          obtain ⟨_, _, hcm⟩ := coiterT_spec st0.ops cs' hct
          obtain ⟨o, ho, hoa, hn⟩ := hcm c (hcompl c hc st0 hst0 cs' hct)
          refine ⟨o.step c, ?_, ?_⟩
          · simp only [TermSt.step, List.mem_map]; exact ⟨o, ho, rfl⟩
          · simp only [Operand.step, hoa, if_true]; exact slice_eq_nil hn
      have hvis : ∀ c ∈ cs, Visits N sts c := fun c hc => by simp only [Visits, hco]; exact hc
      cases out with
      | false =>
        have hR := sum_range_eq_sum_list N (fun c => sumAt σ ((spec ls (sts.map (TermSt.step c))).map (tag false c))) cs hnd hlt
          (fun c _ hc => by rw [sumAt_map_tag_in]; exact spec_zero ls _ (hdead c hc) σ)
        rw [hR]
        congr 1
        apply List.map_congr_left
        intro c hc
        rw [sumAt_map_tag_in, sumAt_map_tag_in]
        exact ih c (hvis c hc) σ
      | true =>
        have hR := sum_range_eq_sum_list N (fun c => sumAt σ ((spec ls (sts.map (TermSt.step c))).map (tag true c))) cs hnd hlt
          (fun c _ hc => by
            rw [sumAt_map_tag_out]
            cases σ with
            | nil => rfl
            | cons c' σ' =>
              simp only
              split
              · exact spec_zero ls _ (hdead c hc) σ'
              · rfl)
        rw [hR]
        congr 1
        apply List.map_congr_left
        intro c hc
        rw [sumAt_map_tag_out, sumAt_map_tag_out]
        cases σ with
        | nil => rfl
        | cons c' σ' =>
          simp only
          split
          · exact ih c (hvis c hc) σ'
          · rfl

/-! ### sums of products (and single-operand `take`) -/

/-- a term whose emitted and mathematical leaf values agree in every state -/
def Plain (st : TermSt) : Prop := st.kind = .times ∨ (st.kind = .take 0 ∧ st.ops.length = 1)

theorem emit_eq_math_plain (st : TermSt) (h : Plain st) : emitVal st = mathVal st := by
  rcases h with h | ⟨h, hl⟩
  · simp [emitVal, mathVal, h]
  · simp only [emitVal, mathVal, h]
    match hops : st.ops, hl with
    | [o], _ =>
      simp only [List.all_cons, List.all_nil, Bool.and_true, List.getElem?_cons_zero]
      by_cases hz : leaf o.pts = 0
      · simp [hz]
      · simp [hz]

theorem plain_step (c : Nat) (st : TermSt) (h : Plain st) : Plain (st.step c) := by
  rcases h with h | ⟨h, hl⟩
  · exact Or.inl h
  · exact Or.inr ⟨h, by simpa [TermSt.step] using hl⟩

/-- **C01, sums of products**: any number of terms, factors, scalars, loops -/
theorem run_eq_spec_times (ls : List (Bool × Nat)) (sts : List TermSt) (hP : ∀ st ∈ sts, Plain st)
    (hW : LevelWF ls sts) (hB : Ext ls sts) (σ : List Nat) :
    sumAt σ (run ls sts) = sumAt σ (spec ls sts) := by
  refine run_eq_spec (fun _ sts => ∀ st ∈ sts, Plain st) ?_ ?_ ls sts hP hW hB σ
  · intro sts h
    congr 1
    apply List.map_congr_left
    intro st hst
    exact emit_eq_math_plain st (h st hst)
  · intro _ _ _ sts h c _ st hst
    obtain ⟨st0, hst0, rfl⟩ := List.mem_map.1 hst
    exact plain_step c st0 (h st0 hst0)

/-! ### a single `take` term -/

/-- no stored zeros, no duplicate points, and every point has one coordinate per remaining active loop -/
def Norm (o : Operand) : Prop :=
  (∀ p ∈ o.pts, p.1.length = o.sched.count true) ∧ (o.pts.map (·.1)).Nodup ∧ ∀ p ∈ o.pts, p.2 ≠ 0

def TakeInv (ls : List (Bool × Nat)) (st : TermSt) : Prop :=
  ∀ o ∈ st.ops, o.sched.length = ls.length ∧ Norm o ∧ (o.sched.all (fun b => !b) = true → o.pts ≠ [])

theorem norm_step (c : Nat) (o : Operand) (h : Norm o) : Norm (o.step c) := by
  obtain ⟨hlen, hnd, hnz⟩ := h
  unfold Operand.step Operand.active
  cases hs : o.sched with
  | nil =>
    simp only [List.head?_nil, List.tail_nil]
    have : (none == some true) = false := rfl
    simp only [this, Bool.false_eq_true, if_false]
    exact ⟨by simpa [hs] using hlen, hnd, hnz⟩
  | cons b bs =>
    cases b with
    | false =>
      simp only [List.head?_cons, List.tail_cons]
      have : (some false == some true) = false := rfl
      simp only [this, Bool.false_eq_true, if_false]
      exact ⟨by simpa [hs] using hlen, hnd, hnz⟩
    | true =>
      simp only [List.head?_cons, List.tail_cons, beq_self_eq_true, if_true]
      refine ⟨?_, ?_, ?_⟩
      · intro p hp
        obtain ⟨tl, v⟩ := p
        have := hlen _ (mem_slice.1 hp)
        simp only [hs, List.length_cons, List.count_cons_self] at this
        simpa using this
      · -- tails of points sharing the head c are distinct
        have : ∀ (t : Pts), (t.map (·.1)).Nodup → ((slice c t).map (·.1)).Nodup := by
          intro t
          induction t with
          | nil => intro _; simp [slice]
          | cons p ps ih =>
            intro hn
            simp only [List.map_cons, List.nodup_cons] at hn
            obtain ⟨cs, v⟩ := p
            cases cs with
            | nil => simpa [slice] using ih hn.2
            | cons hd tl =>
              by_cases hh : hd = c
              · subst hh
                have : slice hd ((hd :: tl, v) :: ps) = (tl, v) :: slice hd ps := by simp [slice]
                rw [this, List.map_cons, List.nodup_cons]
                refine ⟨?_, ih hn.2⟩
                intro hm
                obtain ⟨q, hq, he⟩ := List.mem_map.1 hm
                obtain ⟨tl', v'⟩ := q
                simp only at he
                subst he
                exact hn.1 (List.mem_map.2 ⟨(hd :: tl', v'), mem_slice.1 hq, rfl⟩)
              · have : slice c ((hd :: tl, v) :: ps) = slice c ps := by simp [slice, hh]
                rw [this]
                exact ih hn.2
        exact this o.pts hnd
      · intro p hp
        obtain ⟨tl, v⟩ := p
        exact hnz (c :: tl, v) (mem_slice.1 hp)

theorem leaf_ne_zero_of_norm (o : Operand) (hs : o.sched = []) (hn : Norm o) (hne : o.pts ≠ []) : leaf o.pts ≠ 0 := by
  obtain ⟨hlen, hnd, hnz⟩ := hn
  rw [hs] at hlen
  simp only [List.count_nil] at hlen
  cases hp : o.pts with
  | nil => exact absurd hp hne
  | cons p ps =>
    obtain ⟨cs, v⟩ := p
    have hcs : cs = [] := by
      have := hlen (cs, v) (by rw [hp]; simp)
      simpa using this
    subst hcs
    have hps : ps = [] := by
      cases ps with
      | nil => rfl
      | cons q qs =>
        exfalso
        obtain ⟨cs', v'⟩ := q
        have hq : cs' = [] := by
          have := hlen (cs', v') (by rw [hp]; simp)
          simpa using this
        subst hq
        rw [hp] at hnd
        simp at hnd
    subst hps
    have := hnz ([], v) (by rw [hp]; simp)
    simpa [leaf] using this

/-- **C01, a single `take` term** (any number of operands, none of them rank-0 and empty) -/
theorem run_eq_spec_single (ls : List (Bool × Nat)) (st : TermSt) (hT : TakeInv ls st)
    (hW : LevelWF ls [st]) (hB : Ext ls [st]) (σ : List Nat) :
    sumAt σ (run ls [st]) = sumAt σ (spec ls [st]) := by
  refine run_eq_spec (fun ls sts => ∃ st, sts = [st] ∧ TakeInv ls st) ?_ ?_ ls [st] ⟨st, rfl, hT⟩ hW hB σ
  · rintro sts ⟨st, rfl, h⟩
    simp only [List.map_cons, List.map_nil]
    congr 1
    unfold emitVal mathVal
    cases hk : st.kind with
    | times => rfl
    | take sel =>
      simp only
      have : st.ops.all (fun o => leaf o.pts != 0) = true := by
        rw [List.all_eq_true]
        intro o ho
        obtain ⟨hl, hn, hne⟩ := h o ho
        have hs : o.sched = [] := by simpa using hl
        have := leaf_ne_zero_of_norm o hs hn (hne (by simp [hs]))
        simpa using this
      simp [this]
  · rintro out N ls sts ⟨st, rfl, h⟩ c hv
    refine ⟨st.step c, rfl, ?_⟩
    intro o' ho'
    simp only [TermSt.step, List.mem_map] at ho'
    obtain ⟨o, ho, rfl⟩ := ho'
    obtain ⟨hl, hn, hne⟩ := h o ho
    refine ⟨by simp [Operand.step, hl], norm_step c o hn, ?_⟩
    intro hall
    -- the stepped schedule is all-false
    simp only [Operand.step] at hall ⊢
    cases hs : o.sched with
    | nil =>
      have : o.active = false := by simp [Operand.active, hs]
      simp only [this, Bool.false_eq_true, if_false]
      exact hne (by simp [hs])
    | cons b bs =>
      rw [hs] at hall
      simp only [List.tail_cons] at hall
      cases b with
      | false =>
        have : o.active = false := by simp [Operand.active, hs]
        simp only [this, Bool.false_eq_true, if_false]
        exact hne (by simp [hs, hall])
      | true =>
        have hact : o.active = true := by simp [Operand.active, hs]
        simp only [hact, if_true]
        -- c is visited, hence a head of every active operand of the single term
        simp only [Visits, coiterAll] at hv
        cases hct : coiterT st.ops with
        | none =>
          exfalso
          have := (coiterT_none_iff st.ops).1 hct
          simp only [hasActive, List.any_eq_false] at this
          exact this o ho hact
        | some cs =>
          rw [hct] at hv
          simp only at hv
          obtain ⟨_, hsound, _⟩ := coiterT_spec st.ops cs hct
          exact slice_ne_nil (hsound c hv o ho hact)

/-! ### the model compiler produces well-formed nests, for every specification -/

/-- per remaining loop, either every term has an operand whose schedule is active or none has -/
def Uniform : Nat → List (List (List Bool)) → Prop
  | 0, _ => True
  | n + 1, sch =>
    ((∀ t ∈ sch, (t.any fun s => s.head? == some true) = true) ∨ (∀ t ∈ sch, (t.any fun s => s.head? == some true) = false)) ∧
    Uniform n (sch.map fun t => t.map List.tail)

def schedsOf (sts : List TermSt) : List (List (List Bool)) := sts.map fun st => st.ops.map (·.sched)

theorem schedsOf_step (c : Nat) (sts : List TermSt) :
    schedsOf (sts.map (TermSt.step c)) = (schedsOf sts).map fun t => t.map List.tail := by
  simp [schedsOf, TermSt.step, Operand.step, List.map_map, Function.comp_def]

theorem levelWF_of_uniform : ∀ (ls : List (Bool × Nat)) (sts : List TermSt), Uniform ls.length (schedsOf sts) → LevelWF ls sts
  | [], _, _ => trivial
  | _ :: ls, sts, h => by
    obtain ⟨h1, h2⟩ := h
    refine ⟨?_, fun c => levelWF_of_uniform ls _ (by rw [schedsOf_step]; exact h2)⟩
    have key : ∀ st ∈ sts, hasActive st.ops = ((st.ops.map (·.sched)).any fun s => s.head? == some true) := by
      intro st _
      simp only [hasActive, List.any_map, Function.comp_def]
      rfl
    rcases h1 with h | h
    · left
      intro st hst
      rw [key st hst]
      exact h _ (List.mem_map.2 ⟨st, hst, rfl⟩)
    · right
      intro st hst
      rw [key st hst]
      exact h _ (List.mem_map.2 ⟨st, hst, rfl⟩)

theorem uniform_scheds (terms : List (List (List String))) : ∀ (loop : List String),
    (∀ t ∈ terms, ∀ t' ∈ terms, ∀ r ∈ loop, (t.any fun x => x.contains r) = (t'.any fun x => x.contains r)) →
    Uniform loop.length (terms.map fun t => t.map fun x => schedOf loop x)
  | [], _ => trivial
  | r :: loop, h => by
    refine ⟨?_, ?_⟩
    · -- the flag of a term at rank r is `t.any (contains r)`, the same for all terms
      have flag : ∀ t : List (List String), ((t.map fun x => schedOf (r :: loop) x).any fun s => s.head? == some true) =
          (t.any fun x => x.contains r) := by
        intro t
        simp [schedOf, List.any_map, Function.comp_def]
      cases terms with
      | nil => left; intro t ht; simp at ht
      | cons t0 ts =>
        by_cases h0 : (t0.any fun x => x.contains r) = true
        · left
          intro t ht
          obtain ⟨t1, ht1, rfl⟩ := List.mem_map.1 ht
          rw [flag, h t1 ht1 t0 (by simp) r (by simp)]
          exact h0
        · right
          intro t ht
          obtain ⟨t1, ht1, rfl⟩ := List.mem_map.1 ht
          rw [flag, h t1 ht1 t0 (by simp) r (by simp)]
          simpa using h0
    · have : ((terms.map fun t => t.map fun x => schedOf (r :: loop) x).map fun t => t.map List.tail) =
          terms.map fun t => t.map fun x => schedOf loop x := by
        simp [schedOf, List.map_map, Function.comp_def]
      rw [this]
      exact uniform_scheds terms loop (fun t ht t' ht' r' hr' => h t ht t' ht' r' (List.mem_cons_of_mem _ hr'))

/-- **C01, model compiler**: for every Einsum whose terms range over the same ranks, every loop order and
    every input, the nest the model compiler builds is well-formed -/
theorem compile_wf (S : EinsumS) (env : String → Pts) (hS : S.WF) (hlen : S.exts.length = S.loop.length) :
    LevelWF (levels S) (initTerms S env) := by
  apply levelWF_of_uniform
  have hl : (levels S).length = S.loop.length := by simp [levels, hlen]
  rw [hl]
  have : schedsOf (initTerms S env) = (S.terms.map fun t => t.tensors.map (·.ranks)).map fun t => t.map fun x => schedOf S.loop x := by
    simp [schedsOf, initTerms, initOperand, List.map_map, Function.comp_def]
  rw [this]
  apply uniform_scheds
  intro t ht t' ht' r hr
  obtain ⟨u, hu, rfl⟩ := List.mem_map.1 ht
  obtain ⟨u', hu', rfl⟩ := List.mem_map.1 ht'
  have := hS u hu u' hu' r hr
  simpa [List.any_map, Function.comp_def] using this

/-- **C01 for the model compiler, sums of products**: every Einsum, loop order, rank order and input -/
theorem model_times (S : EinsumS) (env : String → Pts) (hS : S.WF) (hlen : S.exts.length = S.loop.length)
    (hP : ∀ t ∈ S.terms, t.kind = .times ∨ (t.kind = .take 0 ∧ t.tensors.length = 1))
    (hE : Ext (levels S) (initTerms S env)) (σ : List Nat) :
    sumAt σ (run (levels S) (initTerms S env)) = sumAt σ (spec (levels S) (initTerms S env)) := by
  apply run_eq_spec_times _ _ _ (compile_wf S env hS hlen) hE
  intro st hst
  simp only [initTerms, List.mem_map] at hst
  obtain ⟨t, ht, rfl⟩ := hst
  rcases hP t ht with h | ⟨h, hl⟩
  · exact Or.inl h
  · exact Or.inr ⟨h, by simpa using hl⟩

/-! ### the hypotheses are necessary -/

/-- `Z[] = R[j,i] + take(Q[i], G[j], 1)` with `R = {(0,1): 1}`, `Q = {0: 5}`, `G = {0: 7}`, loop order `[J, I]`:
    the nest yields 15, the Einsum is 8 (known finding: `take` with several operands inside a sum) -/
theorem take_in_sum_counterexample :
    let sts : List TermSt := [⟨.times, 1, [⟨[true, true], [([0, 1], 1)]⟩]⟩,
                               ⟨.take 1, 1, [⟨[false, true], [([0], 5)]⟩, ⟨[true, false], [([0], 7)]⟩]⟩]
    sumAt [] (run [(false, 2), (false, 2)] sts) = 15 ∧ sumAt [] (spec [(false, 2), (false, 2)] sts) = 8 := by
  decide

/-- `Z[] = take(A[], G[i], 1)` with `A = 0`: the nest yields `Σ G`, the Einsum is 0 (known finding:
    a rank-0 operand of `take` is never tested) -/
theorem take_rank0_counterexample :
    let sts : List TermSt := [⟨.take 1, 1, [⟨[false], []⟩, ⟨[true], [([0], 3), ([1], 4)]⟩]⟩]
    sumAt [] (run [(false, 2)] sts) = 7 ∧ sumAt [] (spec [(false, 2)] sts) = 0 := by
  decide

/-- non-vacuity: GEMM `Z[m,n] = A[k,m] * B[k,n]` with loop order `[K, M, N]` satisfies the hypotheses -/
example : LevelWF [(false, 1), (true, 1), (true, 2)] [⟨.times, 1, [⟨[true, true, false], [([0, 0], 2)]⟩, ⟨[true, false, true], [([0, 1], 3)]⟩]⟩] := by
  refine ⟨Or.inl (by simp [hasActive, Operand.active]), fun c => ⟨Or.inl (by simp [hasActive, Operand.active, TermSt.step, Operand.step]), fun c' =>
    ⟨Or.inl (by simp [hasActive, Operand.active, TermSt.step, Operand.step]), fun _ => trivial⟩⟩⟩

end C01
