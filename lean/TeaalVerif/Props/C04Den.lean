import TeaalVerif.Nest.AffDen
import TeaalVerif.Props.C04Nest
import TeaalVerif.Props.C01Den
/-!
# C04 — the nest with projected fibers computes the affine Einsum's order-free meaning

* `C04.solve_eq_some_iff`, `C04.sumAt_projPts`: the projected fiber `project(inverse, interval).prune(integral)` read at
  loop coordinate `c` is the original fiber read at `a*c + k` - for every integer stride `a ≠ 0`, offset `k`, fiber content;
* `C04.specA_eq_meaningA`: the dense nest over the model compiler's operands is the Einsum's meaning (sum over all
  assignments of the index variables; every tensor read in declared order at the value of its index expressions);
* `C04.runA_eq_meaningA`: hence the emitted nest computes the meaning.
-/
namespace C04
open Nest C01

/-! ### affine expressions -/

theorem filter_cons_pos' {α : Type} (p : α → Bool) (a : α) (l : List α) (h : p a = true) : (a :: l).filter p = a :: l.filter p := by
  simp [List.filter_cons, h]

theorem filter_cons_neg' {α : Type} (p : α → Bool) (a : α) (l : List α) (h : p a = false) : (a :: l).filter p = l.filter p := by
  simp [List.filter_cons, h]

theorem sum_filter_split (r : String) (g : Int × String → Int) : ∀ ts : List (Int × String),
    (ts.map g).sum = ((ts.filter fun t => !(t.2 == r)).map g).sum + ((ts.filter fun t => t.2 == r).map g).sum
  | [] => rfl
  | t :: ts => by
    have ih := sum_filter_split r g ts
    cases h : (t.2 == r)
    · rw [filter_cons_neg' (fun t => t.2 == r) t ts h, filter_cons_pos' (fun t => !(t.2 == r)) t ts (by simp [h])]
      simp only [List.map_cons, List.sum_cons]
      omega
    · rw [filter_cons_pos' (fun t => t.2 == r) t ts h, filter_cons_neg' (fun t => !(t.2 == r)) t ts (by simp [h])]
      simp only [List.map_cons, List.sum_cons]
      omega

theorem sum_eq_coef (r : String) (f : String → Nat) : ∀ ts : List (Int × String),
    ((ts.filter fun t => t.2 == r).map fun t => t.1 * (f t.2 : Int)).sum = ((ts.filter fun t => t.2 == r).map (·.1)).sum * (f r : Int)
  | [] => by simp
  | t :: ts => by
    have ih := sum_eq_coef r f ts
    cases h : (t.2 == r)
    · rw [filter_cons_neg' (fun t => t.2 == r) t ts h]
      exact ih
    · have ht : t.2 = r := by simpa using h
      rw [filter_cons_pos' (fun t => t.2 == r) t ts h]
      simp only [List.map_cons, List.sum_cons, ih, ht, Int.add_mul]

theorem eval_decomp (r : String) (f : String → Nat) (e : AffS) :
    e.eval f = ((e.rest r).map fun t => t.1 * (f t.2 : Int)).sum + e.coef r * (f r : Int) + e.const := by
  unfold AffS.eval AffS.rest AffS.coef
  rw [sum_filter_split r _ e.terms, sum_eq_coef]

theorem rest_rest (r : String) (e : AffS) : (e.subst r c).rest r = e.rest r := by
  simp [AffS.subst, AffS.rest, List.filter_filter]

theorem coef_subst (r : String) (c : Nat) (e : AffS) : (e.subst r c).coef r = 0 := by
  simp only [AffS.subst, AffS.coef, AffS.rest, List.filter_filter]
  have : (e.terms.filter fun t => (t.2 == r && !(t.2 == r))) = [] := by
    apply List.filter_eq_nil_iff.2
    intro t _
    cases t.2 == r <;> simp
  rw [this]; rfl

theorem eval_subst (r : String) (c : Nat) (f : String → Nat) (e : AffS) (h : f r = c) : (e.subst r c).eval f = e.eval f := by
  rw [eval_decomp r f (e.subst r c), eval_decomp r f e, rest_rest, coef_subst, h]
  simp only [AffS.subst]
  omega

theorem eval_ready (r : String) (f : String → Nat) (e : AffS) (h : e.readyAt r = true) :
    e.eval f = e.coef r * (f r : Int) + e.const ∧ e.coef r ≠ 0 := by
  simp only [AffS.readyAt, Bool.and_eq_true, bne_iff_ne, ne_eq, List.isEmpty_iff] at h
  refine ⟨?_, h.1⟩
  rw [eval_decomp r f e, h.2]
  simp

/-! ### the projected fiber -/

theorem solve_eq_some_iff (a k : Int) (lim : Option Nat) (w c : Nat) (ha : a ≠ 0) (hlim : ∀ n, lim = some n → c < n) :
    solve a k lim w = some c ↔ (w : Int) = a * (c : Int) + k := by
  unfold solve
  constructor
  · intro h
    by_cases hc : (((w : Int) - k) % a == 0 && decide (0 ≤ ((w : Int) - k) / a) && inLim lim (((w : Int) - k) / a)) = true
    · rw [if_pos hc] at h
      simp only [Bool.and_eq_true, beq_iff_eq, decide_eq_true_eq] at hc
      obtain ⟨⟨h1, h2⟩, _⟩ := hc
      have hq : ((w : Int) - k) / a = (c : Int) := by
        have := Option.some.inj h
        omega
      have := Int.mul_ediv_cancel' (Int.dvd_of_emod_eq_zero h1)
      rw [hq] at this
      omega
    · rw [if_neg hc] at h; cases h
  · intro h
    have hd : (w : Int) - k = a * (c : Int) := by omega
    have h1 : ((w : Int) - k) % a = 0 := by rw [hd]; exact Int.mul_emod_right a c
    have h2 : ((w : Int) - k) / a = (c : Int) := by rw [hd]; exact Int.mul_ediv_cancel_left _ ha
    have h3 : inLim lim (c : Int) = true := by
      unfold inLim
      cases hl : lim with
      | none => rfl
      | some n =>
        have := hlim n hl
        simp only [decide_eq_true_eq]
        omega
    rw [h1, h2, h3]
    simp

/-- the projected fiber read at `c` is the fiber read at `a*c + k` -/
theorem sumAt_projPts (a k : Int) (lim : Option Nat) (c : Nat) (τ : List Nat) (ha : a ≠ 0) (hlim : ∀ n, lim = some n → c < n) :
    ∀ t : Pts, sumAt (c :: τ) (projPts a k lim t) = if 0 ≤ a * (c : Int) + k then sumAt ((a * (c : Int) + k).toNat :: τ) t else 0
  | [] => by simp [projPts, sumAt]
  | (cs, v) :: ps => by
    have ih := sumAt_projPts a k lim c τ ha hlim ps
    cases cs with
    | nil =>
      have h1 : projPts a k lim (([], v) :: ps) = projPts a k lim ps := by simp [projPts]
      rw [h1, ih, sumAt_cons]
      simp
    | cons w tl =>
      have hiff := solve_eq_some_iff a k lim w c ha hlim
      cases hs : solve a k lim w with
      | none =>
        have h1 : projPts a k lim ((w :: tl, v) :: ps) = projPts a k lim ps := by simp [projPts, hs]
        have hne : ¬ (w : Int) = a * (c : Int) + k := fun e => by rw [hiff.2 e] at hs; cases hs
        rw [h1, ih, sumAt_cons]
        split
        · rename_i hpos
          have : ¬ (w :: tl = (a * (c : Int) + k).toNat :: τ) := by
            intro e
            simp only [List.cons.injEq] at e
            apply hne
            have := e.1
            omega
          rw [if_neg this]; simp
        · rfl
      | some q =>
        have h1 : projPts a k lim ((w :: tl, v) :: ps) = (q :: tl, v) :: projPts a k lim ps := by simp [projPts, hs]
        rw [h1, sumAt_cons, ih]
        by_cases hq : q = c
        · subst hq
          have hw : (w : Int) = a * (q : Int) + k := hiff.1 hs
          have hpos : 0 ≤ a * (q : Int) + k := by omega
          have hwn : (a * (q : Int) + k).toNat = w := by omega
          rw [if_pos hpos, sumAt_cons, hwn]
          by_cases ht : tl = τ
          · simp [ht]; omega
          · simp [ht]; omega
        · have hne : ¬ (w : Int) = a * (c : Int) + k := fun e => by
            rw [hiff.2 e] at hs
            exact hq (Option.some.inj hs).symm
          have h2 : ¬ (q :: tl = c :: τ) := fun e => hq (List.cons.inj e).1
          rw [if_neg h2]
          split
          · rename_i hpos
            have : ¬ (w :: tl = (a * (c : Int) + k).toNat :: τ) := by
              intro e
              simp only [List.cons.injEq] at e
              apply hne
              have := e.1
              omega
            rw [sumAt_cons, if_neg this]
          · simp

theorem valAt_cons (i : Int) (is : List Int) (pts : Pts) :
    valAt (i :: is) pts = if 0 ≤ i then (if is.all (fun j => decide (0 ≤ j)) then sumAt (i.toNat :: is.map Int.toNat) pts else 0) else 0 := by
  unfold valAt
  by_cases h : 0 ≤ i <;> simp [h]

theorem valAt_slice_proj (a k : Int) (lim : Option Nat) (c : Nat) (is : List Int) (pts : Pts) (ha : a ≠ 0)
    (hlim : ∀ n, lim = some n → c < n) :
    valAt is (slice c (projPts a k lim pts)) = valAt ((a * (c : Int) + k) :: is) pts := by
  rw [valAt_cons]
  unfold valAt
  by_cases hall : is.all (fun j => decide (0 ≤ j)) = true
  · rw [if_pos hall, if_pos hall, sumAt_slice, sumAt_projPts a k lim c _ ha hlim]
  · rw [if_neg hall, if_neg hall]; simp

/-! ### operand states represent accesses -/

/-- operand state `o` stands for an access whose value under every completion `f'` of the bound assignment is `V f'` -/
def OpRelA (rs : List String) (f : String → Nat) (V : (String → Nat) → Int) (o : OperandA) : Prop :=
  SchedOK rs o.shape ∧
  ∀ f', (∀ s, s ∉ rs → f' s = f s) → valAt (o.idx.map fun a => a.e.eval f') o.pts = V f'

theorem opRelA_step {r : String} {rs : List String} {f : String → Nat} {V : (String → Nat) → Int} {o : OperandA}
    (hr : r ∉ rs) (ext c : Nat) (hc : c < ext) (h : OpRelA (r :: rs) f V o) : OpRelA rs (upd f r c) V (o.step r ext c) := by
  obtain ⟨hs, hv⟩ := h
  refine ⟨by rw [shape_step]; exact hs, ?_⟩
  intro f' hf'
  have hagree : ∀ s, s ∉ r :: rs → f' s = f s := by
    intro s hs'
    have h1 : s ∉ rs := fun hm => hs' (List.mem_cons_of_mem _ hm)
    have h2 : s ≠ r := fun e => hs' (by simp [e])
    rw [hf' s h1]; simp [upd, h2]
  have hfr : f' r = c := by rw [hf' r hr]; simp [upd]
  rw [← hv f' hagree]
  obtain ⟨idx, pts⟩ := o
  have hsub : ∀ l : List AccA, (l.map (AccA.subst r c)).map (fun a => a.e.eval f') = l.map (fun a => a.e.eval f') := by
    intro l
    rw [List.map_map]
    apply List.map_congr_left
    intro a _
    exact eval_subst r c f' a.e hfr
  cases idx with
  | nil => simp [OperandA.step, OperandA.activeAt, OperandA.view, Operand.step, Operand.active]
  | cons a tl =>
    cases hra : a.e.readyAt r with
    | false =>
      simp only [OperandA.step, OperandA.activeAt, OperandA.view, hra, Bool.false_eq_true, if_false, Operand.step, Operand.active,
        List.head?_cons, hsub]
      rfl
    | true =>
      obtain ⟨hev, hne⟩ := eval_ready r f' a.e hra
      simp only [OperandA.step, OperandA.activeAt, OperandA.view, hra, if_true, Operand.step, Operand.active, List.head?_cons,
        List.tail_cons, hsub]
      have : (some true == some true) = true := rfl
      simp only [this, if_true, List.map_cons]
      rw [valAt_slice_proj _ _ _ c _ pts hne (by
        intro n hn
        cases hp : a.ivl with
        | false => simp [hp] at hn
        | true => simp only [hp, if_true, Option.some.injEq] at hn; omega)]
      rw [hev, hfr]

def OpsRelA (rs : List String) (env : String → Pts) (f : String → Nat) : List TensorAS → List OperandA → Prop
  | [], [] => True
  | x :: xs, o :: os => OpRelA rs f (fun f' => accessValA env f' x) o ∧ OpsRelA rs env f xs os
  | _, _ => False

def TermRelA (rs : List String) (env : String → Pts) (f : String → Nat) (t : TermAS) (st : TermA) : Prop :=
  st.kind = t.kind ∧ st.scal = t.scal ∧ OpsRelA rs env f t.tensors st.ops

def RelA (rs : List String) (env : String → Pts) (f : String → Nat) : List TermAS → List TermA → Prop
  | [], [] => True
  | t :: ts, st :: sts => TermRelA rs env f t st ∧ RelA rs env f ts sts
  | _, _ => False

theorem opsRelA_step {r : String} {rs : List String} {env : String → Pts} {f : String → Nat} (hr : r ∉ rs) (ext c : Nat) (hc : c < ext) :
    ∀ (xs : List TensorAS) (os : List OperandA), OpsRelA (r :: rs) env f xs os →
      OpsRelA rs env (upd f r c) xs (os.map (OperandA.step r ext c))
  | [], [], _ => trivial
  | x :: xs, o :: os, h => ⟨opRelA_step hr ext c hc h.1, opsRelA_step hr ext c hc xs os h.2⟩
  | [], _ :: _, h => h.elim
  | _ :: _, [], h => h.elim

theorem relA_step {r : String} {rs : List String} {env : String → Pts} {f : String → Nat} (hr : r ∉ rs) (ext c : Nat) (hc : c < ext) :
    ∀ (ts : List TermAS) (sts : List TermA), RelA (r :: rs) env f ts sts → RelA rs env (upd f r c) ts (sts.map (TermA.step r ext c))
  | [], [], _ => trivial
  | t :: ts, st :: sts, h => ⟨⟨h.1.1, h.1.2.1, opsRelA_step hr ext c hc _ _ h.1.2.2⟩, relA_step hr ext c hc ts sts h.2⟩
  | [], _ :: _, h => h.elim
  | _ :: _, [], h => h.elim

theorem opsRelA_vals {env : String → Pts} {f : String → Nat} :
    ∀ (xs : List TensorAS) (os : List OperandA), OpsRelA [] env f xs os →
      os.map (fun o => leaf o.pts) = xs.map (accessValA env f)
  | [], [], _ => rfl
  | x :: xs, o :: os, h => by
    obtain ⟨⟨hs, hv⟩, hrest⟩ := h
    have hnil : o.idx = [] := by
      have : o.shape = [] := hs
      simpa [OperandA.shape] using this
    have := hv f (fun _ _ => rfl)
    rw [hnil] at this
    simp only at this
    have hx : leaf o.pts = accessValA env f x := by
      rw [leaf_eq_sumAt, ← this]; simp [valAt]
    simp only [List.map_cons, opsRelA_vals xs os hrest, hx]
  | [], _ :: _, h => h.elim
  | _ :: _, [], h => h.elim

theorem relA_vals {env : String → Pts} {f : String → Nat} :
    ∀ (ts : List TermAS) (sts : List TermA), RelA [] env f ts sts → (sts.map TermA.fin).map mathVal = ts.map (termValA env f)
  | [], [], _ => rfl
  | t :: ts, st :: sts, h => by
    simp only [List.map_cons, relA_vals ts sts h.2]
    congr 1
    rw [mathVal_eq_comb, termValA]
    simp only [TermA.fin, List.map_map, Function.comp_def]
    rw [h.1.1, h.1.2.1, opsRelA_vals _ _ h.1.2.2]
  | [], _ :: _, h => h.elim
  | _ :: _, [], h => h.elim

def lvA (out rs : List String) (es : List Nat) : List (String × Bool × Nat) := (rs.zip es).map fun (r, e) => (r, out.contains r, e)

theorem levelsA_eq_lvA (S : EinsumAS) : levelsA S = lvA S.outVars S.loop S.exts := rfl

/-- the dense nest over the remaining loops sums the terms over all extensions of the bound assignment -/
theorem specA_sumF (out : List String) (terms : List TermAS) (env : String → Pts) :
    ∀ (rs : List String) (es : List Nat) (sts : List TermA) (f : String → Nat),
      rs.Nodup → es.length = rs.length → RelA rs env f terms sts →
      ∀ τ, sumAt τ (specA (lvA out rs es) sts) =
        sumF (rs.zip es) (fun f' => if (concord rs out).map f' = τ then (terms.map (termValA env f')).sum else 0) f
  | [], es, sts, f, _, _, hR, τ => by
    simp only [lvA, List.zip_nil_left, List.map_nil, specA, sumF, concord, List.filter_nil]
    rw [relA_vals terms sts hR]
    cases τ with
    | nil => simp [sumAt]
    | cons a τ => simp [sumAt]
  | r :: rs, [], _, _, _, hl, _, _ => by simp at hl
  | r :: rs, e :: es, sts, f, hnd, hl, hR, τ => by
    have hnd' := List.nodup_cons.1 hnd
    have hl' : es.length = rs.length := by simpa using hl
    have ih := fun c (hc : c < e) τ' => specA_sumF out terms env rs es (sts.map (TermA.step r e c)) (upd f r c) hnd'.2 hl'
      (relA_step hnd'.1 e c hc terms sts hR) τ'
    have hlv : lvA out (r :: rs) (e :: es) = (r, out.contains r, e) :: lvA out rs es := by simp [lvA]
    simp only [hlv, specA, List.zip_cons_cons, sumF]
    rw [sumAt_flatMap]
    apply sum_map_congr
    intro c hcm
    have hc : c < e := List.mem_range.1 hcm
    by_cases hm : out.contains r = true
    · rw [hm, sumAt_map_tag_out, concord_cons_mem hm]
      cases τ with
      | nil =>
        simp only [List.map_cons]
        rw [show (fun f' : String → Nat => if f' r :: List.map f' (concord rs out) = [] then (terms.map (termValA env f')).sum else 0) = fun _ => 0 from by
          funext f'; simp]
        rw [sumF_zero]
      | cons c' τ' =>
        simp only [List.map_cons]
        by_cases hcc : c' = c
        · subst hcc
          rw [if_pos rfl, ih c' hc]
          apply sumF_congr_on
          intro f' hf'
          have : f' r = c' := by
            rw [hf' r (by
              intro hmem
              obtain ⟨p, hp, hpr⟩ := List.mem_map.1 hmem
              exact hnd'.1 (hpr ▸ (List.of_mem_zip hp).1))]
            simp [upd]
          simp [this]
        · rw [if_neg hcc]
          symm
          refine (sumF_congr_on _ _ (fun _ => 0) _ ?_).trans (sumF_zero _ _)
          intro f' hf'
          have : f' r = c := by
            rw [hf' r (by
              intro hmem
              obtain ⟨p, hp, hpr⟩ := List.mem_map.1 hmem
              exact hnd'.1 (hpr ▸ (List.of_mem_zip hp).1))]
            simp [upd]
          have hne : ¬ (f' r :: List.map f' (concord rs out) = c' :: τ') := by
            intro e
            simp only [List.cons.injEq] at e
            exact hcc (e.1.symm.trans this)
          rw [if_neg hne]
    · have hm' : out.contains r = false := by simpa using hm
      rw [hm', sumAt_map_tag_in, concord_cons_not_mem hm', ih c hc]

/-! ### the model compiler's initial operands represent the Einsum's accesses -/

theorem zip_lookup_map (d : AccA) : ∀ (ranks : List String) (idx : List AccA), ranks.Nodup → idx.length = ranks.length →
    ranks.map (fun rk => ((ranks.zip idx).lookup rk).getD d) = idx
  | [], idx, _, hl => by
    have : idx = [] := List.length_eq_zero_iff.1 (by simpa using hl)
    simp [this]
  | rk :: ranks, [], _, hl => by simp at hl
  | rk :: ranks, a :: idx, hnd, hl => by
    have hnd' := List.nodup_cons.1 hnd
    have ih := zip_lookup_map d ranks idx hnd'.2 (by simpa using hl)
    simp only [List.zip_cons_cons, List.map_cons, List.lookup_cons, beq_self_eq_true, Option.getD_some]
    congr 1
    rw [← ih]
    apply List.map_congr_left
    intro rk' hrk'
    have hne : (rk' == rk) = false := by
      have : rk' ≠ rk := fun e => hnd'.1 (e ▸ hrk')
      simp [this]
    simp [List.lookup_cons, hne, ih]

theorem mem_concordA {loop : List String} {x : TensorAS} {rk : String} (h : rk ∈ concordA loop x) : rk ∈ x.ranks := by
  simp only [concordA, List.mem_flatMap, List.mem_filter] at h
  obtain ⟨_, _, h2, _⟩ := h
  exact h2

/-- decidable well-formedness of one tensor access against the loop order and the supplied content -/
def TensorWFA (loop : List String) (x : TensorAS) (P : Pts) : Prop :=
  x.ranks.Nodup ∧ x.idx.length = x.ranks.length ∧ (∀ p ∈ P, p.1.length = x.ranks.length) ∧
  (∀ r ∈ x.ranks, r ∈ concordA loop x) ∧ SchedOK loop ((concordA loop x).map fun rk => (accOf x rk).e.terms)

instance (loop : List String) (x : TensorAS) (P : Pts) : Decidable (TensorWFA loop x P) := by unfold TensorWFA; infer_instance

theorem init_opRelA (loop : List String) (env : String → Pts) (f : String → Nat) (x : TensorAS)
    (h : TensorWFA loop x (env x.name)) :
    OpRelA loop f (fun f' => accessValA env f' x) (initOperandA loop x (env x.name)) := by
  obtain ⟨hnd, hlen, har, hcov, hsch⟩ := h
  refine ⟨by simpa [initOperandA, OperandA.shape, List.map_map, Function.comp_def] using hsch, ?_⟩
  intro f' _
  let g : String → Int := fun rk => (accOf x rk).e.eval f'
  have h1 : (initOperandA loop x (env x.name)).idx.map (fun a => a.e.eval f') = (concordA loop x).map g := by
    simp [initOperandA, List.map_map, Function.comp_def, g]
  have h2 : x.idx.map (fun a => a.e.eval f') = x.ranks.map g := by
    have := zip_lookup_map default x.ranks x.idx hnd hlen
    conv => lhs; rw [← this]
    simp [List.map_map, Function.comp_def, g, accOf]
  show valAt _ _ = valAt _ _
  rw [h1, h2]
  unfold valAt
  have hall : ((concordA loop x).map g).all (fun i => decide (0 ≤ i)) = (x.ranks.map g).all (fun i => decide (0 ≤ i)) := by
    rw [Bool.eq_iff_iff]
    simp only [List.all_eq_true, List.mem_map, decide_eq_true_eq, forall_exists_index, and_imp, forall_apply_eq_imp_iff₂]
    exact ⟨fun h r hr => h r (hcov r hr), fun h r hr => h r (mem_concordA hr)⟩
  rw [hall]
  split
  · have := sumAt_reorder (fun rk => (g rk).toNat) x.ranks (concordA loop x) (env x.name) hnd hcov (fun r hr => mem_concordA hr) har
    simp only [List.map_map, Function.comp_def]
    exact this
  · rfl

def InputsWFA (S : EinsumAS) (env : String → Pts) : Prop :=
  ∀ t ∈ S.terms, ∀ x ∈ t.tensors, TensorWFA S.loop x (env x.name)

instance (S : EinsumAS) (env : String → Pts) : Decidable (InputsWFA S env) := by unfold InputsWFA; infer_instance

theorem init_opsRelA (loop : List String) (env : String → Pts) (f : String → Nat) :
    ∀ (xs : List TensorAS), (∀ x ∈ xs, TensorWFA loop x (env x.name)) →
      OpsRelA loop env f xs (xs.map fun x => initOperandA loop x (env x.name))
  | [], _ => trivial
  | x :: xs, h => ⟨init_opRelA loop env f x (h x (by simp)), init_opsRelA loop env f xs (fun y hy => h y (List.mem_cons_of_mem _ hy))⟩

theorem init_relA (loop : List String) (env : String → Pts) (f : String → Nat) :
    ∀ (ts : List TermAS), (∀ t ∈ ts, ∀ x ∈ t.tensors, TensorWFA loop x (env x.name)) →
      RelA loop env f ts (ts.map fun t => { kind := t.kind, scal := t.scal, ops := t.tensors.map fun x => initOperandA loop x (env x.name) })
  | [], _ => trivial
  | t :: ts, h => ⟨⟨rfl, rfl, init_opsRelA loop env f t.tensors (h t (by simp))⟩, init_relA loop env f ts (fun u hu => h u (List.mem_cons_of_mem _ hu))⟩

/-- **the dense nest is the affine Einsum's meaning** -/
theorem specA_eq_meaningA (S : EinsumAS) (env : String → Pts) (hnd : S.loop.Nodup) (hlen : S.exts.length = S.loop.length)
    (hin : InputsWFA S env) (τ : List Nat) :
    sumAt τ (specA (levelsA S) (initTermsA S env)) = meaningA (S.loop.zip S.exts) (concord S.loop S.outVars) S.terms env τ := by
  rw [levelsA_eq_lvA]
  exact specA_sumF S.outVars S.terms env S.loop S.exts (initTermsA S env) (fun _ => 0) hnd hlen (init_relA S.loop env _ S.terms hin) τ

/-- all hypotheses of the composed theorem, decidable -/
def HypsA (S : EinsumAS) (env : String → Pts) : Prop :=
  S.loop.Nodup ∧ S.exts.length = S.loop.length ∧
  (∀ t ∈ S.terms, t.kind = .times ∨ (t.kind = .take 0 ∧ t.tensors.length = 1)) ∧
  InputsWFA S env ∧ nestOKb (levelsA S) (initTermsA S env) = true

instance (S : EinsumAS) (env : String → Pts) : Decidable (HypsA S env) := by unfold HypsA; infer_instance

/-- **C04 (loop-variable form)**: for every sum-of-products Einsum with integer-affine accesses (any coefficients, any number of
    variables per access), every loop order in which the accesses of each tensor resolve one after the other, every extent
    and EVERY input: the emitted nest - co-iterating, at each loop, the fibers whose access has just become resolvable, read
    through `project(inverse, interval).prune(integral)` - accumulates at every output point the Einsum's meaning: every
    contribution exactly once, none missing. -/
theorem runA_eq_meaningA (S : EinsumAS) (env : String → Pts) (h : HypsA S env) (τ : List Nat) :
    sumAt τ (runA (levelsA S) (initTermsA S env)) = meaningA (S.loop.zip S.exts) (concord S.loop S.outVars) S.terms env τ := by
  obtain ⟨hnd, hlen, hP, hin, hok⟩ := h
  obtain ⟨hW, hE⟩ := nestOKb_sound _ _ hok
  rw [runA_eq_specA _ _ ?_ hW hE τ, specA_eq_meaningA S env hnd hlen hin τ]
  intro st hst
  simp only [initTermsA, List.mem_map] at hst
  obtain ⟨t, ht, rfl⟩ := hst
  rcases hP t ht with h1 | ⟨h1, h2⟩
  · exact Or.inl h1
  · exact Or.inr ⟨h1, by simp [h2]⟩

/-- non-vacuity: `O[q] = I[2*q + s] * F[s]`, loop order `[Q, S]`, Q = 2, S = 2 -/
def exConv : EinsumAS :=
  { loop := ["q", "s"], exts := [2, 2], outName := "O", outVars := ["q"],
    terms := [{ kind := .times, scal := 1, tensors := [
      { name := "I", ranks := ["W"], idx := [{ e := ⟨[(2, "q"), (1, "s")], 0⟩, proj := true }] },
      { name := "F", ranks := ["S"], idx := [{ e := ⟨[(1, "s")], 0⟩, proj := false }] }] }] }

def exEnv : String → Pts := fun n => if n = "I" then [([0], 1), ([1], 2), ([2], 3), ([3], 4)] else if n = "F" then [([0], 10), ([1], 100)] else []

example : HypsA exConv exEnv ∧ sumAt [1] (runA (levelsA exConv) (initTermsA exConv exEnv)) = 430 := by decide

/-- the hypothesis `LevelWFA` is necessary (known finding): `O[q] = M[q] * I[q+s] * F[s] + J[q+s] * K[s]` - at the loop over `q` the
    first term co-iterates `M` and the second has no fiber yet; the emitted nest visits only `M`'s coordinates and loses the
    second term's contribution at `q = 1` -/
def exMixed : EinsumAS :=
  { loop := ["q", "s"], exts := [2, 1], outName := "O", outVars := ["q"],
    terms := [
      { kind := .times, scal := 1, tensors := [
        { name := "M", ranks := ["Q"], idx := [{ e := ⟨[(1, "q")], 0⟩, proj := false }] },
        { name := "I", ranks := ["W"], idx := [{ e := ⟨[(1, "q"), (1, "s")], 0⟩, proj := true }] },
        { name := "F", ranks := ["S"], idx := [{ e := ⟨[(1, "s")], 0⟩, proj := false }] }] },
      { kind := .times, scal := 1, tensors := [
        { name := "J", ranks := ["W"], idx := [{ e := ⟨[(1, "q"), (1, "s")], 0⟩, proj := true }] },
        { name := "K", ranks := ["S"], idx := [{ e := ⟨[(1, "s")], 0⟩, proj := false }] }] }] }

def exMixedEnv : String → Pts := fun n =>
  if n = "M" then [([0], 1)] else if n = "I" ∨ n = "J" then [([0], 1), ([1], 1)] else if n = "F" ∨ n = "K" then [([0], 1)] else []

theorem mixed_terms_counterexample :
    ¬ LevelWFA (levelsA exMixed) (initTermsA exMixed exMixedEnv) ∧
    sumAt [1] (runA (levelsA exMixed) (initTermsA exMixed exMixedEnv)) = 0 ∧
    sumAt [1] (specA (levelsA exMixed) (initTermsA exMixed exMixedEnv)) = 1 := by
  refine ⟨?_, by decide, by decide⟩
  intro h
  have := h.1
  revert this
  decide

end C04
