import TeaalVerif.Metrics.Store
/-!
# C15 — compilation does not mutate its inputs

`C15.frame`: for **every** heap, every set of cells owned by the caller and **every** sequence of
mutations (any compilation history) performed through handles that are not owned cells, the caller's
view of its object is unchanged.  `C15.copied_handles_fresh`: the handles produced by the repaired
hand-out (`deepcopy`) are never owned cells (when the allocator's base is above them), hence
`C15.pure`.  `C15.shared_counterexample`: with the hand-out of the code as found a single default
write is visible to the caller.
-/
namespace C15
open Store

theorem get_set_ne (h : Heap) (c c' : Nat) (v : List Binding) (hne : c' ≠ c) : (h.set c v).get c' = h.get c' := by
  unfold Heap.get Heap.set
  have : (c' == c) = false := by simpa using hne
  simp [List.lookup, this]

theorem get_set_eq (h : Heap) (c : Nat) (v : List Binding) : (h.set c v).get c = v := by
  unfold Heap.get Heap.set
  simp [List.lookup]

theorem applyMut_frame (h : Heap) (handle : Nat) (m : Mut) (c : Nat) (hne : c ≠ handle) :
    (applyMut h handle m).get c = h.get c := by
  cases m <;> simp [applyMut, get_set_ne _ _ _ _ hne]

/-- **frame property**: mutations through non-owned handles are invisible to the caller -/
theorem frame (h : Heap) (owned : List Nat) (ms : List (Nat × Mut)) (hfresh : ∀ m ∈ ms, m.1 ∉ owned) :
    view (runMuts h ms) owned = view h owned := by
  induction ms generalizing h with
  | nil => rfl
  | cons m ms ih =>
    simp only [runMuts, List.foldl_cons]
    have := ih (applyMut h m.1 m.2) (fun m' hm' => hfresh m' (List.mem_cons_of_mem _ hm'))
    simp only [runMuts] at this
    rw [this]
    unfold view
    apply List.map_congr_left
    intro c hc
    apply applyMut_frame
    intro e
    exact hfresh m (by simp) (e ▸ hc)

theorem foldl_set_frame (h : Heap) (c : Nat) (base : Nat) (hlt : c < base) :
    ∀ (l : List (Nat × Nat)) (acc : Heap), acc.get c = h.get c →
      (l.foldl (fun acc (p : Nat × Nat) => acc.set (base + p.2) (h.get p.1)) acc).get c = h.get c
  | [], acc, ha => by simpa using ha
  | p :: ps, acc, ha => by
    simp only [List.foldl_cons]
    apply foldl_set_frame h c base hlt ps
    rw [get_set_ne _ _ _ _ (by omega)]
    exact ha

/-- the copy itself does not disturb the owned cells, and its handles are fresh -/
theorem copied_handles_fresh (h : Heap) (owned : List Nat) (base : Nat) (hb : ∀ c ∈ owned, c < base) :
    (∀ x ∈ (handOutCopied h owned base).2, x ∉ owned) ∧
    view (handOutCopied h owned base).1 owned = view h owned := by
  constructor
  · intro x hx hxo
    simp only [handOutCopied, List.mem_map] at hx
    obtain ⟨p, _, rfl⟩ := hx
    have := hb _ hxo
    omega
  · unfold view handOutCopied
    apply List.map_congr_left
    intro c hc
    exact foldl_set_frame h c base (hb c hc) _ h rfl

/-- **C15 (purity of the repaired construction)**: whatever the components do with their handles -/
theorem pure (h : Heap) (owned : List Nat) (base : Nat) (hb : ∀ c ∈ owned, c < base)
    (ms : List (Nat × Mut)) (hms : ∀ m ∈ ms, m.1 ∈ (handOutCopied h owned base).2) :
    view (runMuts (handOutCopied h owned base).1 ms) owned = view h owned := by
  obtain ⟨hf, hv⟩ := copied_handles_fresh h owned base hb
  rw [frame _ owned ms (fun m hm => hf _ (hms m hm)), hv]

/-- the code as found: the handle *is* the caller's cell, and a default write shows -/
theorem shared_counterexample :
    ∃ (h : Heap) (owned : List Nat) (ms : List (Nat × Mut)), (∀ m ∈ ms, m.1 ∈ handOutShared owned) ∧
      view (runMuts h ms) owned ≠ view h owned :=
  ⟨[(0, [[("tensor", "A"), ("rank", "K")]])], [0], [(0, .setDefault 0 "style" "lazy")], by decide, by decide⟩

/-- non-vacuity of `pure`: one owned cell, copied to cell 10, defaults written and a binding appended there -/
example : view (runMuts (handOutCopied [(0, [[("tensor", "A")]])] [0] 10).1
    [(10, .setDefault 0 "style" "lazy"), (10, .append [("tensor", "A"), ("rank", "M")])]) [0] = [[[("tensor", "A")]]] := by
  decide

end C15
