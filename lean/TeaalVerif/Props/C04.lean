/-!
# C04 — affine index expressions (arithmetic core; partial)

For an access `I[a·q + r]` (`r` collects the other variables' contribution, already bound) iterated over
the tensor's own rank `w`, the emitted code projects `w ↦ (w − r) / a` and prunes non-integral results.

* `project_inverse`, `project_hits`, `project_injective` — for **every** integer stride `a ≠ 0` and offset
  `r`: the coordinates kept (those with `a ∣ w − r`) correspond one-to-one to the index values `q`
  (`w = a·q + r`): no contribution is missing and none is met twice — in exact arithmetic;
* `tiling` — the intervals `[start_i, end_i)` that `make_interval` computes from the coordinates of the
  upper partition level (first partition from 0, each one up to the next coordinate, the last one up to
  the extent) tile `[lo, Q)`: every `q` is in exactly one — **provided every partition coordinate is below
  the extent** (hypothesis `hb`; without it the partition before an out-of-extent one runs past `Q`:
  known finding "interval not clipped");
* `halo_cover` — for the tile of `size` consecutive `q` starting at `q0`, all `w = a·q + b·s` with `s < S` lie
  in `[a·q0, a·q0 + a·size + b·(S−1))`, the window `splitUniform(a·size, post_halo=b·(S−1))` provides.

Hypotheses under which the property is claimed (outside them it is false of the code: known findings):
`Dyadic` (the emitted lambdas use float division; exact only for power-of-two divisors), at most one
partition level on a rank with a halo, partition coordinates below the extent.  The composition with the
loop nest is decided by execution.
-/
namespace C04

theorem project_inverse (a q r : Int) (ha : a ≠ 0) : (a * q + r - r) / a = q ∧ a ∣ (a * q + r - r) := by
  have : a * q + r - r = a * q := by omega
  rw [this]
  exact ⟨Int.mul_ediv_cancel_left q ha, Int.dvd_mul_right a q⟩

theorem project_hits (a w r : Int) (hd : a ∣ (w - r)) : a * ((w - r) / a) + r = w := by
  rw [Int.mul_ediv_cancel' hd]
  omega

/-- two kept coordinates with the same projection are the same coordinate: nothing is met twice -/
theorem project_injective (a w w' r : Int) (hd : a ∣ (w - r)) (hd' : a ∣ (w' - r))
    (h : (w - r) / a = (w' - r) / a) : w = w' := by
  have h1 := project_hits a w r hd
  have h2 := project_hits a w' r hd'
  rw [h] at h1
  omega

/-! ### interval tiling -/

/-- `[lo, b₁), [b₁, b₂), …, [bₘ, Q)` -/
def ivs (lo : Nat) : List Nat → Nat → List (Nat × Nat)
  | [], Q => [(lo, Q)]
  | b :: bs, Q => (lo, b) :: ivs b bs Q

def inIv (q : Nat) (iv : Nat × Nat) : Bool := decide (iv.1 ≤ q) && decide (q < iv.2)

theorem none_below (q : Nat) : ∀ (lo : Nat) (bs : List Nat) (Q : Nat), q < lo → (lo :: bs).Pairwise (· < ·) →
    (ivs lo bs Q).countP (inIv q) = 0
  | lo, [], Q, h, _ => by
    have : ¬ lo ≤ q := by omega
    simp [ivs, inIv, this]
  | lo, b :: bs, Q, h, hp => by
    rw [List.pairwise_cons] at hp
    have hlb : lo < b := hp.1 b (by simp)
    simp only [ivs, List.countP_cons]
    rw [none_below q b bs Q (by omega) hp.2]
    have : ¬ lo ≤ q := by omega
    simp [inIv, this]

/-- **every `q` of `[lo, Q)` lies in exactly one interval** -/
theorem tiling (q : Nat) : ∀ (lo : Nat) (bs : List Nat) (Q : Nat), (lo :: bs).Pairwise (· < ·) →
    (∀ b ∈ bs, b < Q) → lo ≤ q → q < Q → (ivs lo bs Q).countP (inIv q) = 1
  | lo, [], Q, _, _, h1, h2 => by simp [ivs, inIv, h1, h2]
  | lo, b :: bs, Q, hp, hb, h1, h2 => by
    rw [List.pairwise_cons] at hp
    simp only [ivs, List.countP_cons]
    by_cases hq : q < b
    · rw [none_below q b bs Q hq hp.2]
      simp [inIv, h1, hq]
    · have hbq : b ≤ q := by omega
      rw [tiling q b bs Q hp.2 (fun x hx => hb x (List.mem_cons_of_mem _ hx)) hbq h2]
      simp [inIv, hq]

/-- the hypothesis `hb` is necessary: with a partition coordinate at or beyond the extent the partition
    before it runs past the extent (the known finding) -/
theorem unclipped_counterexample : ∃ q, ¬ q < 3 ∧ (ivs 0 [2, 4] 3).countP (inIv q) = 1 := ⟨3, by decide, by decide⟩

/-! ### halos -/

theorem halo_cover (a b q0 size S q s : Nat) (ha : 0 < a) (hq1 : q0 ≤ q) (hq2 : q < q0 + size) (hs : s < S) :
    a * q0 ≤ a * q + b * s ∧ a * q + b * s < a * q0 + a * size + b * (S - 1) + 1 := by
  constructor
  · exact Nat.le_trans (Nat.mul_le_mul_left a hq1) (Nat.le_add_right _ _)
  · have h1 : a * q ≤ a * (q0 + size - 1) := Nat.mul_le_mul_left a (by omega)
    have h2 : b * s ≤ b * (S - 1) := Nat.mul_le_mul_left b (by omega)
    have h3 : a * (q0 + size - 1) + a = a * (q0 + size) := by
      obtain ⟨m, hm⟩ : ∃ m, q0 + size = m + 1 := ⟨q0 + size - 1, by omega⟩
      rw [hm, Nat.add_sub_cancel, Nat.mul_add, Nat.mul_one]
    have h4 : a * (q0 + size) = a * q0 + a * size := Nat.mul_add _ _ _
    omega

/-- non-vacuity -/
example : ivs 0 [3, 6] 8 = [(0, 3), (3, 6), (6, 8)] ∧ (ivs 0 [3, 6] 8).countP (inIv 5) = 1 := by decide

end C04
