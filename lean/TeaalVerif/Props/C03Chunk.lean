import TeaalVerif.Nest.Chunk
import TeaalVerif.Props.C03Flat
/-!
# C03 — occupancy partitioning of a flattened rank

`C03.chunk_nest`: for every product Einsum with a tuple of ranks of one tensor flattened and ANY NUMBER of `uniform_occupancy`
levels on the flattened rank (any occupancies), the chunk loops and the flattened loop placed anywhere among the other loops
(each chunk level outside the levels it contains): the emitted nest - `splitEqual(n)` of the flattened fiber reached, a loop over
its chunks, inside it the same tensor restricted to the chunk, further loops, possibly a further split, finally the loop over the
flattened elements with every other tensor looked up by coordinate - accumulates at every output point the Einsum's meaning.

The argument: the dense reference nest is *linear in the content of one operand* (`specK_linear`); the chunks of a tensor add up
to the tensor (`sumAt_chunks`: they partition its flattened elements, whatever the chunk size); so the sum over the chunks of
what the inner nest accumulates for the restricted tensor is what it accumulates for the whole tensor.
-/
namespace C03
open Nest C01

def modAt {α : Type} (f : α → α) : Nat → List α → List α
  | _, [] => []
  | 0, a :: l => f a :: l
  | n + 1, a :: l => a :: modAt f n l

def setPts (st : TermSt) (o : Nat) (P : Pts) : TermSt := { st with ops := modAt (fun op => { op with pts := P }) o st.ops }

/-- the tensors `Ps` add up to `P` -/
def Decomp (P : Pts) (Ps : List Pts) : Prop := ∀ τ, sumAt τ P = (Ps.map (sumAt τ)).sum

theorem decomp_slice (c : Nat) (P : Pts) (Ps : List Pts) (h : Decomp P Ps) : Decomp (slice c P) (Ps.map (slice c)) := by
  intro τ
  rw [sumAt_slice, h (c :: τ), List.map_map]
  apply sum_map_congr
  intro Q _
  simp only [Function.comp, sumAt_slice]

theorem prodLeaves_linear : ∀ (ops : List Operand) (o : Nat) (op : Operand), ops[o]? = some op → ∀ (Ps : List Pts),
    leaf op.pts = (Ps.map leaf).sum →
    (Ps.map fun P => prodLeaves (modAt (fun x => { x with pts := P }) o ops)).sum = prodLeaves ops
  | [], _, _, h, _, _ => by simp at h
  | a :: as, 0, op, h, Ps, hl => by
    simp only [List.getElem?_cons_zero, Option.some.injEq] at h
    subst h
    simp only [modAt, prodLeaves]
    rw [sum_map_mul_right, ← hl]
  | a :: as, o + 1, op, h, Ps, hl => by
    simp only [List.getElem?_cons_succ] at h
    simp only [modAt, prodLeaves]
    rw [sum_map_mul_left, prodLeaves_linear as o op h Ps hl]

theorem getElem?_modAt {α : Type} (f : α → α) : ∀ (o : Nat) (l : List α), (modAt f o l)[o]? = l[o]?.map f
  | _, [] => by simp [modAt]
  | 0, a :: l => by simp [modAt]
  | o + 1, a :: l => by simp [modAt, getElem?_modAt f o l]

theorem map_modAt {α β : Type} (g : α → β) (f : α → α) (f' : β → β) (h : ∀ a, g (f a) = f' (g a)) :
    ∀ (o : Nat) (l : List α), (modAt f o l).map g = modAt f' o (l.map g)
  | _, [] => by simp [modAt]
  | 0, a :: l => by simp [modAt, h]
  | o + 1, a :: l => by simp [modAt, map_modAt g f f' h o l]

theorem step_setPts (c : Nat) (st : TermSt) (o : Nat) (op : Operand) (hop : st.ops[o]? = some op) (P : Pts) :
    (setPts st o P).step c = setPts (st.step c) o (if op.active then slice c P else P) := by
  simp only [setPts, TermSt.step]
  congr 1
  -- pointwise on the operand list
  have : ∀ (ops : List Operand) (o : Nat), ops[o]? = some op →
      (modAt (fun x => { x with pts := P }) o ops).map (Operand.step c) =
      modAt (fun x => { x with pts := if op.active then slice c P else P }) o (ops.map (Operand.step c)) := by
    intro ops
    induction ops with
    | nil => intro o h; simp at h
    | cons a as ih =>
      intro o h
      cases o with
      | zero =>
        simp only [List.getElem?_cons_zero, Option.some.injEq] at h
        subst h
        simp [modAt, Operand.step, Operand.active]
      | succ o =>
        simp only [List.getElem?_cons_succ] at h
        simp [modAt, ih o h]
  exact this st.ops o hop

theorem sumAt_single (σ : List Nat) (x : Int) : sumAt σ [([], x)] = if σ = [] then x else 0 := by
  cases σ <;> simp [sumAt]

/-- **the dense reference nest is linear in the content of one operand** (product terms) -/
theorem specK_linear : ∀ (pl : List (Bool × Nat)) (st : TermSt) (o : Nat) (op : Operand), st.kind = .times → st.ops[o]? = some op →
    ∀ (Ps : List Pts), Decomp op.pts Ps → ∀ σ,
    (Ps.map fun P => sumAt σ (specK kMath pl [setPts st o P])).sum = sumAt σ (specK kMath pl [st])
  | [], st, o, op, hk, hop, Ps, hd, σ => by
    simp only [specK, kMath, List.map_cons, List.map_nil, List.sum_cons, List.sum_nil, Int.add_zero, sumAt_single]
    have hm : ∀ st' : TermSt, st'.kind = .times → mathVal st' = st'.scal * prodLeaves st'.ops := by
      intro st' h; simp [mathVal, h]
    have hl : leaf op.pts = (Ps.map leaf).sum := by
      rw [leaf_eq_sumAt, hd []]
      congr 1
      apply List.map_congr_left
      intro Q _
      rw [leaf_eq_sumAt]
    have hlin := prodLeaves_linear st.ops o op hop Ps hl
    by_cases hσ : σ = []
    · simp only [hσ, if_true]
      rw [hm st hk, ← hlin, ← sum_map_mul_left]
      apply sum_map_congr
      intro P _
      rw [hm (setPts st o P) (by simp [setPts, hk])]
      rfl
    · simp only [hσ, if_false]
      exact sum_map_zero _ _ (fun _ _ => rfl)
  | (out, ext) :: pl, st, o, op, hk, hop, Ps, hd, σ => by
    have hstep : ∀ c, ((st.step c).ops)[o]? = some (op.step c) := by
      intro c; simp [TermSt.step, List.getElem?_map, hop]
    have hdec : ∀ c, Decomp (op.step c).pts (Ps.map fun P => if op.active then slice c P else P) := by
      intro c
      by_cases ha : op.active = true
      · simp only [Operand.step, ha, if_true]
        exact decomp_slice c _ _ hd
      · have ha' : op.active = false := by simpa using ha
        simp only [Operand.step, ha', Bool.false_eq_true, if_false, List.map_id']
        exact hd
    have ih : ∀ c σ', (Ps.map fun P => sumAt σ' (specK kMath pl [(setPts st o P).step c])).sum =
        sumAt σ' (specK kMath pl [st.step c]) := by
      intro c σ'
      have := specK_linear pl (st.step c) o (op.step c) (by simp [TermSt.step, hk]) (hstep c) _ (hdec c) σ'
      rw [List.map_map] at this
      rw [← this]
      apply sum_map_congr
      intro P _
      simp only [Function.comp, step_setPts c st o op hop P]
    simp only [specK, List.map_cons, List.map_nil]
    have hL : ∀ P, sumAt σ ((List.range ext).flatMap fun c => (specK kMath pl [(setPts st o P).step c]).map (tag out c)) =
        ((List.range ext).map fun c => sumAt σ ((specK kMath pl [(setPts st o P).step c]).map (tag out c))).sum := by
      intro P; rw [sumAt_flatMap]
    rw [sum_map_congr _ _ _ (fun P _ => hL P), sumAt_flatMap, sum_map_sum_comm]
    apply sum_map_congr
    intro c _
    cases out with
    | false =>
      simp only [sumAt_map_tag_in]
      exact ih c σ
    | true =>
      simp only [sumAt_map_tag_out]
      cases σ with
      | nil => exact sum_map_zero _ _ (fun _ _ => rfl)
      | cons c' σ' =>
        simp only
        by_cases hc : c' = c
        · simp only [hc, if_true]; exact ih c σ'
        · simp only [hc, if_false]; exact sum_map_zero _ _ (fun _ _ => rfl)

/-! ### the nest with chunk levels -/

inductive LevelC where
  | lvl (out : Bool) (ext : Nat) (mode : Mode)
  | chunk (o t n : Nat)
  deriving Repr

def runC (k : List TermSt → List (List Nat × Int)) : List LevelC → List TermSt → List (List Nat × Int)
  | [], sts => k sts
  | .lvl out ext mode :: ls, sts =>
    (visitG mode ext sts).flatMap fun c => (runC k ls (sts.map (TermSt.step c))).map (tag out c)
  | .chunk o t n :: ls, sts =>
    match sts with
    | [st] =>
      match st.ops[o]? with
      | some op => (chunksOf n (prefixes t op.pts)).flatMap fun ch => runC k ls [setPts st o (restrictPfx t ch op.pts)]
      | none => []
    | _ => []

def eraseC : List LevelC → List (Bool × Nat × Mode)
  | [] => []
  | .lvl out ext mode :: ls => (out, ext, mode) :: eraseC ls
  | .chunk _ _ _ :: ls => eraseC ls

def extsC (ls : List LevelC) : List Nat := (eraseC ls).map fun l => l.2.1

/-- static conditions: a driven level's operand carries the loop's rank; a chunk level names an operand -/
def DriveSchedC : List LevelC → List (List Bool) → Prop
  | [], _ => True
  | .lvl _ _ m :: ls, scheds =>
    (match m with
     | .co => True
     | .drive o => (scheds[o]?.bind List.head?) = some true) ∧ DriveSchedC ls (scheds.map List.tail)
  | .chunk o _ _ :: ls, scheds => o < scheds.length ∧ DriveSchedC ls scheds

instance : ∀ (ls : List LevelC) (scheds : List (List Bool)), Decidable (DriveSchedC ls scheds)
  | [], _ => isTrue trivial
  | .lvl _ _ m :: ls, scheds => by
    unfold DriveSchedC
    have := instDecidableDriveSchedC ls (scheds.map List.tail)
    cases m <;> infer_instance
  | .chunk o _ _ :: ls, scheds => by
    unfold DriveSchedC
    have := instDecidableDriveSchedC ls scheds
    infer_instance

theorem map_sched_modAt (P : Pts) : ∀ (o : Nat) (l : List Operand),
    (modAt (fun op => { op with pts := P }) o l).map (·.sched) = l.map (·.sched)
  | _, [] => by simp [modAt]
  | 0, a :: l => by simp [modAt]
  | o + 1, a :: l => by simp [modAt, map_sched_modAt P o l]

theorem setPts_scheds (st : TermSt) (o : Nat) (P : Pts) : (setPts st o P).ops.map (·.sched) = st.ops.map (·.sched) :=
  map_sched_modAt P o st.ops

theorem mem_modAt {α : Type} (f : α → α) : ∀ (o : Nat) (l : List α) (x : α), x ∈ modAt f o l → x ∈ l ∨ ∃ y, l[o]? = some y ∧ x = f y
  | _, [], x, h => by simp [modAt] at h
  | 0, a :: l, x, h => by
    simp only [modAt, List.mem_cons] at h
    rcases h with rfl | h
    · exact Or.inr ⟨a, by simp, rfl⟩
    · exact Or.inl (List.mem_cons_of_mem _ h)
  | o + 1, a :: l, x, h => by
    simp only [modAt, List.mem_cons] at h
    rcases h with rfl | h
    · exact Or.inl (by simp)
    · rcases mem_modAt f o l x h with h' | ⟨y, hy, rfl⟩
      · exact Or.inl (List.mem_cons_of_mem _ h')
      · exact Or.inr ⟨y, by simpa using hy, rfl⟩

theorem kMath_zero (sts : List TermSt) (hd : ∀ st ∈ sts, Dead st) (σ : List Nat) : sumAt σ (kMath sts) = 0 := by
  simp only [kMath]
  have : (sts.map mathVal).sum = 0 := sum_map_zero _ _ (fun st hst' => mathVal_dead st (hd st hst'))
  rw [this]
  cases σ <;> simp [sumAt]

theorem specK_one (k : List TermSt → List (List Nat × Int)) (out : Bool) (ext : Nat) (pl : List (Bool × Nat)) (sts : List TermSt) :
    specK (specK k pl) [(out, ext)] sts = specK k ((out, ext) :: pl) sts := by
  simp [specK]

/-- **core**: the nest with chunk levels accumulates what the dense reference nest (which has no chunk levels) accumulates -/
theorem runC_eq_specK : ∀ (ls : List LevelC) (st : TermSt), st.kind = .times → DriveSchedC ls (st.ops.map (·.sched)) →
    (∀ o ∈ st.ops, OpBounded (extsC ls) o) →
    ∀ σ, sumAt σ (runC kEmit ls [st]) = sumAt σ (specK kMath (plainLevels (eraseC ls)) [st])
  | [], st, hk, _, _, σ => by
    simp only [runC, eraseC, plainLevels, List.map_nil, specK, kEmit, kMath, List.map_cons, List.sum_cons, List.sum_nil]
    rw [emit_eq_math_plain st (Or.inl hk)]
  | .lvl out ext mode :: ls, st, hk, hs, hb, σ => by
    obtain ⟨hs0, hs1⟩ := hs
    have hpl : plainLevels (eraseC (.lvl out ext mode :: ls)) = (out, ext) :: plainLevels (eraseC ls) := rfl
    rw [hpl, ← specK_one]
    have hrun : runC kEmit (.lvl out ext mode :: ls) [st] = runG (runC kEmit ls) [(out, ext, mode)] [st] := by
      simp [runC, runG]
    rw [hrun]
    have hexts : extsC (.lvl out ext mode :: ls) = ext :: extsC ls := rfl
    rw [hexts] at hb
    -- the invariant handed to the one-level instance of `runG_eq_specK`
    let I : List (Bool × Nat × Mode) → List TermSt → Prop := fun l sts =>
      match l with
      | [] => ∃ st', sts = [st'] ∧ st'.kind = .times ∧ DriveSchedC ls (st'.ops.map (·.sched)) ∧ ∀ o ∈ st'.ops, OpBounded (extsC ls) o
      | [_] => sts = [st]
      | _ :: _ :: _ => False
    have hplain1 : plainLevels [(out, ext, mode)] = [(out, ext)] := rfl
    have := runG_eq_specK I (runC kEmit ls) (specK kMath (plainLevels (eraseC ls)))
      (by
        intro sts hI σ'
        obtain ⟨st', rfl, hk', hs', hb'⟩ := hI
        exact runC_eq_specK ls st' hk' hs' hb' σ')
      (by
        intro sts hd σ'
        exact specK_zero kMath kMath_zero _ sts hd σ')
      (by
        intro out' N' mode' l' sts hI c _
        cases l' with
        | cons x xs =>
          -- only the one-level instance is used: the invariant of a longer list is `False`
          simp only [I] at hI
        | nil =>
          simp only [I] at hI ⊢
          subst hI
          refine ⟨st.step c, rfl, by simp [TermSt.step, hk], ?_, ?_⟩
          · have : (st.step c).ops.map (·.sched) = (st.ops.map (·.sched)).map List.tail := by
              simp [TermSt.step, Operand.step, List.map_map, Function.comp_def]
            rw [this]; exact hs1
          · intro o ho
            simp only [TermSt.step, List.mem_map] at ho
            obtain ⟨o0, ho0, rfl⟩ := ho
            exact opBounded_step c ext _ o0 (hb o0 ho0))
      [(out, ext, mode)] [st] rfl
      (by rw [hplain1]; exact levelWF_single _ _)
      (by
        rw [hplain1]
        refine ⟨?_, fun _ => trivial⟩
        intro st' hst' o ho hact c hc
        simp at hst'; subst hst'
        obtain ⟨tl, v, hmem⟩ := mem_heads.1 hc
        have := hb o ho (c :: tl, v) hmem
        have hsx : ∃ s, o.sched = true :: s := by
          cases hsc : o.sched with
          | nil => simp [Operand.active, hsc] at hact
          | cons b s => cases b with
            | true => exact ⟨s, rfl⟩
            | false => simp [Operand.active, hsc] at hact
        obtain ⟨s, hsx⟩ := hsx
        rw [hsx] at this
        exact this.1)
      (by
        refine ⟨?_, fun _ => trivial⟩
        cases mode with
        | co => trivial
        | drive o =>
          simp only at hs0 ⊢
          cases hop : st.ops[o]? with
          | none => simp [hop] at hs0
          | some op =>
            refine ⟨st, op, rfl, hop, ?_⟩
            simp only [List.getElem?_map, hop, Option.map_some, Option.bind_some] at hs0
            simp [Operand.active, hs0])
      σ
    rw [this, hplain1]
  | .chunk o t n :: ls, st, hk, hs, hb, σ => by
    obtain ⟨ho, hs1⟩ := hs
    have hlen : o < st.ops.length := by simpa using ho
    have hop : st.ops[o]? = some st.ops[o] := List.getElem?_eq_getElem hlen
    have hera : plainLevels (eraseC (.chunk o t n :: ls)) = plainLevels (eraseC ls) := rfl
    have hexts : extsC (.chunk o t n :: ls) = extsC ls := rfl
    rw [hera]
    rw [hexts] at hb
    simp only [runC, hop]
    rw [sumAt_flatMap]
    -- every chunk's inner nest is the dense nest on the restricted tensor
    have hin : ∀ ch, sumAt σ (runC kEmit ls [setPts st o (restrictPfx t ch st.ops[o].pts)]) =
        sumAt σ (specK kMath (plainLevels (eraseC ls)) [setPts st o (restrictPfx t ch st.ops[o].pts)]) := by
      intro ch
      apply runC_eq_specK ls _ (by simp [setPts, hk]) (by rw [setPts_scheds]; exact hs1)
      intro x hx
      simp only [setPts] at hx
      rcases mem_modAt _ o st.ops x hx with h' | ⟨y, hy, rfl⟩
      · exact hb x h'
      · -- the restricted operand: its points are points of the operand itself
        rw [hop] at hy
        have hy' : y = st.ops[o] := (Option.some.inj hy).symm
        subst hy'
        intro p hp
        exact hb _ (List.getElem_mem hlen) p (List.mem_filter.1 hp).1
    rw [sum_map_congr _ _ _ (fun ch _ => hin ch)]
    have hdec : Decomp st.ops[o].pts ((chunksOf n (prefixes t st.ops[o].pts)).map fun ch => restrictPfx t ch st.ops[o].pts) := by
      intro τ
      rw [List.map_map]
      exact (sumAt_chunks t τ _ (by rw [flatten_chunksOf]; exact nodup_dedupL _) st.ops[o].pts (by
        intro p hp
        rw [flatten_chunksOf]
        exact mem_dedupL.2 (List.mem_map.2 ⟨p, hp, rfl⟩))).symm
    have := specK_linear (plainLevels (eraseC ls)) st o st.ops[o] hk hop _ hdec σ
    rw [List.map_map] at this
    exact this

/-- hypotheses of `chunk_nest` (decidable) -/
def ChunkHyps (S : EinsumS) (env : String → Pts) (lc : List LevelC) : Prop :=
  match S.terms with
  | [t] => t.kind = .times ∧ plainLevels (eraseC lc) = levels S ∧ S.exts.length = S.loop.length ∧ S.loop.Nodup ∧
      DriveSchedC lc (t.tensors.map fun x => schedOf S.loop x.ranks) ∧ InBounds S env ∧ InputsWF S env ∧
      (∀ r ∈ S.outRanks, r ∈ S.loop)
  | _ => False

instance : DecidableEq Mode := inferInstance

instance (S : EinsumS) (env : String → Pts) (lc : List LevelC) : Decidable (ChunkHyps S env lc) := by
  unfold ChunkHyps
  split <;> infer_instance

theorem extsC_eq (lc : List LevelC) : extsC lc = (plainLevels (eraseC lc)).map (·.2) := by
  simp [extsC, plainLevels, List.map_map, Function.comp_def]

/-- **C03, occupancy partitioning of a flattened rank** -/
theorem chunk_nest (S : EinsumS) (env : String → Pts) (lc : List LevelC) (h : ChunkHyps S env lc) (τ : List Nat) :
    sumAt τ (runC kEmit lc (initTerms S env)) = meaning (S.loop.zip S.exts) (concord S.loop S.outRanks) S.terms env τ := by
  unfold ChunkHyps at h
  split at h
  · rename_i t ht
    obtain ⟨hk, hpl, hlen, hnd, hds, hb, hin, _⟩ := h
    have hst : initTerms S env = [{ kind := t.kind, scal := t.scal, ops := t.tensors.map fun x => initOperand S.loop x (env x.name) }] := by
      simp [initTerms, ht]
    have hexts : (levels S).map (·.2) = S.exts := by
      simp only [levels, List.map_map]
      have : ((fun x : Bool × Nat => x.2) ∘ fun x : String × Nat => (S.outRanks.contains x.1, x.2)) = (·.2) := by funext x; rfl
      rw [this, List.map_snd_zip]; omega
    rw [hst]
    rw [runC_eq_specK lc _ hk (by simpa [initOperand, List.map_map, Function.comp_def] using hds) ?_ τ]
    · rw [hpl, ← hst, ← spec_eq_specK]
      exact spec_eq_meaning S env hnd hlen hin τ
    · intro o ho
      simp only [List.mem_map] at ho
      obtain ⟨x, hx, rfl⟩ := ho
      intro p hp
      simp only [initOperand, List.mem_map] at hp
      obtain ⟨⟨cs, v⟩, hq, rfl⟩ := hp
      rw [extsC_eq, hpl, hexts]
      exact below_init x.ranks (fun r => cs.getD (x.ranks.idxOf r) 0) S.loop S.exts hnd hlen
        (fun r _ hc => hb t (by rw [ht]; simp) x hx (cs, v) hq r (by simpa using hc))
  · exact h.elim

end C03
