import TeaalVerif.HF.PyGrammar
/-!
# C09 — printed text denotes the syntax tree the compiler built

`C09.gen_derives`: for **every** HiFiber expression tree `e` satisfying the decidable side condition
`PrecOK`, Python's expression grammar derives, from the token sequence of the printed text, exactly
the tree `norm e` — `e` without its parenthesis nodes and with unparenthesised right-nested chains of
one associative operator re-associated to the left (the only thing the property allows to differ).

The check evaluates `PrecOK` on every expression of every tree the real compiler built; the theorem
then says what CPython reads from the text.  Independently, CPython's own parse of the text is
compared with `norm` of the tree (this validates the transcription of the grammar and observes the
property directly), and CPython's tokenizer with `toks`.
-/
namespace C09
open HF

theorem derives_le : ∀ (k : Nat) {n : Nat} {ts : List Tok} {e : Expr}, Derives (n + k) ts e → Derives n ts e
  | 0, _, _, _, h => h
  | k + 1, n, _, _, h => derives_le k (Derives.up (by simpa [Nat.add_assoc] using h))

theorem derives_of_le {m n : Nat} {ts : List Tok} {e : Expr} (h : m ≤ n) (d : Derives n ts e) : Derives m ts e := by
  obtain ⟨k, rfl⟩ := Nat.exists_eq_add_of_le h
  exact derives_le k d

theorem level_ge_two (op : Op) (h : (op.level == 1) = false) : 2 ≤ op.level := by
  cases op <;> simp [Op.level] at h ⊢

theorem level_one_not_assoc (op : Op) (h : op.level = 1) : op.assoc = false := by
  cases op <;> simp [Op.level, Op.assoc] at h ⊢

/-- for anything but an application of a binary operator, splicing is a plain application -/
theorem attachN_of_not_binop (A : Expr) (op : Op) (e : Expr) (h : ∀ x o y, e ≠ .binop x o y) :
    attachN A op e = .binop A op (norm e) := by
  cases e <;> first | (exact absurd rfl (h _ _ _)) | (simp [attachN, norm])

theorem chainRight_iff (op : Op) (r : Expr) : chainRight op r = true ↔ ∃ x y, r = .binop x op y ∧ op.assoc = true := by
  cases r <;> simp [chainRight]
  rename_i x o y
  constructor
  · rintro ⟨h1, h2⟩; subst h2; exact ⟨rfl, h1⟩
  · rintro ⟨h1, h2⟩; exact ⟨h2, h1⟩

/-! ### sequences -/

inductive All2 {α β : Type} (R : α → β → Prop) : List α → List β → Prop
  | nil : All2 R [] []
  | cons {a b as bs} : R a b → All2 R as bs → All2 R (a :: as) (b :: bs)

theorem All2.length_eq {α β : Type} {R : α → β → Prop} : ∀ {l1 : List α} {l2 : List β}, All2 R l1 l2 → l1.length = l2.length
  | _, _, .nil => rfl
  | _, _, .cons _ h => by simp [All2.length_eq h]

theorem seq_of_forall : ∀ (tss : List (List Tok)) (es : List Expr),
    All2 (fun ts e => Derives 0 ts e) tss es → DerivesSeq (joinSeq tss) es
  | [], [], _ => DerivesSeq.nil
  | [t], [e], h => by
    cases h with
    | cons h1 _ => exact DerivesSeq.one h1
  | t :: u :: ts, e :: f :: es, h => by
    cases h with
    | cons h1 h2 =>
      simp only [joinSeq]
      exact DerivesSeq.cons h1 (seq_of_forall (u :: ts) (f :: es) h2)
  | [], _ :: _, h => by cases h
  | _ :: _, [], h => by cases h
  | [_], _ :: _ :: _, h => by
    cases h with
    | cons _ h2 => cases h2
  | _ :: _ :: _, [_], h => by
    cases h with
    | cons _ h2 => cases h2

theorem args_of_forall : ∀ (kw : List (Option String)) (tss : List (List Tok)) (es : List Expr),
    All2 (fun ts e => Derives 0 ts e) tss es → DerivesArgs (joinArgs kw tss) kw es
  | _, [], [], _ => DerivesArgs.nil
  | kw, [t], [e], h => by
    cases h with
    | cons h1 _ => exact DerivesArgs.one h1
  | kw, t :: u :: ts, e :: f :: es, h => by
    cases h with
    | cons h1 h2 =>
      simp only [joinArgs]
      exact DerivesArgs.cons h1 (args_of_forall kw.tail (u :: ts) (f :: es) h2)
  | _, [], _ :: _, h => by cases h
  | _, _ :: _, [], h => by cases h
  | _, [_], _ :: _ :: _, h => by
    cases h with
    | cons _ h2 => cases h2
  | _, _ :: _ :: _, [_], h => by
    cases h with
    | cons _ h2 => cases h2

theorem dict_of_forall' {tks : List (List Tok)} {ks : List Expr} (h1 : All2 (fun ts e => Derives 1 ts e) tks ks) :
    ∀ {tvs : List (List Tok)} {vs : List Expr}, All2 (fun ts e => Derives 0 ts e) tvs vs →
      ks.length = vs.length → DerivesDict (joinDict tks tvs) ks vs := by
  induction h1 with
  | nil =>
    intro tvs vs h2 hl
    cases h2 with
    | nil => exact DerivesDict.nil
    | cons _ _ => simp at hl
  | cons a h1' ih =>
    intro tvs vs h2 hl
    cases h2 with
    | nil => simp at hl
    | cons b h2' =>
      cases h1' with
      | nil =>
        cases h2' with
        | nil => exact DerivesDict.one a b
        | cons _ _ => simp at hl
      | cons a2 h1'' =>
        cases h2' with
        | nil => simp at hl
        | cons b2 h2'' =>
          simp only [joinDict]
          exact DerivesDict.cons a b (ih (All2.cons b2 h2'') (by simpa using hl))

theorem dict_of_forall (tks tvs : List (List Tok)) (ks vs : List Expr)
    (h1 : All2 (fun ts e => Derives 1 ts e) tks ks) (h2 : All2 (fun ts e => Derives 0 ts e) tvs vs)
    (hl : ks.length = vs.length) : DerivesDict (joinDict tks tvs) ks vs := dict_of_forall' h1 h2 hl

theorem normL_length : ∀ es : List Expr, (normL es).length = es.length
  | [] => by simp [normL]
  | e :: es => by simp [normL, normL_length es]

/-! ### the main recursion -/

mutual
theorem gen_derives : ∀ (e : Expr), PrecOK e = true → Derives (lvl e) (toks e) (norm e)
  | .access o i, h => by
    simp only [PrecOK, Bool.and_eq_true] at h
    obtain ⟨⟨ho, hpo⟩, hpi⟩ := h
    have hl : lvl o = 8 := by
      cases o <;> simp_all [recvOK, lvl]
    have d1 := gen_derives o hpo
    rw [hl] at d1
    have d2 := derives_of_le (Nat.zero_le _) (gen_derives i hpi)
    simp only [toks, norm, lvl]
    exact Derives.access d1 d2
  | .binop l op r, h => by
    simp only [PrecOK, Bool.and_eq_true] at h
    obtain ⟨⟨hpl, hpr⟩, hc⟩ := h
    have dl := gen_derives l hpl
    simp only [toks, lvl]
    by_cases h1 : (op.level == 1) = true
    · have h1' : op.level = 1 := by simpa using h1
      simp only [h1, if_true, Bool.and_eq_true, decide_eq_true_eq] at hc
      have hna := level_one_not_assoc op h1'
      have hcr : chainRight op r = false := by
        cases r <;> simp [chainRight, hna]
      rw [norm]
      simp only [hcr, Bool.false_eq_true, if_false]
      have dr := gen_derives r hpr
      rw [h1']
      exact Derives.cmp op h1' (derives_of_le hc.1 dl) (derives_of_le hc.2 dr)
    · have h1' : (op.level == 1) = false := by simpa using h1
      simp only [h1', Bool.false_eq_true, if_false, Bool.and_eq_true, decide_eq_true_eq, Bool.or_eq_true] at hc
      have h2 := level_ge_two op h1'
      have dl' := derives_of_le hc.1 dl
      rw [norm]
      by_cases hcr : chainRight op r = true
      · simp only [hcr, if_true]
        obtain ⟨x, y, rfl, hassoc⟩ := (chainRight_iff op r).1 hcr
        have hsp : spineOK op (.binop x op y) = true := by
          rcases hc.2 with h | h
          · simp only [lvl] at h; omega
          · exact h.2
        exact splice op (.binop x op y) hassoc h2 hpr hsp (toks l) (norm l) dl'
      · have hcr' : chainRight op r = false := by simpa using hcr
        simp only [hcr', Bool.false_eq_true, if_false]
        have hr : op.level + 1 ≤ lvl r := by
          rcases hc.2 with h | h
          · exact h
          · rw [hcr'] at h; simp at h
        exact Derives.bin op h2 dl' (derives_of_le hr (gen_derives r hpr))
  | .bool b, _ => by simp only [toks, norm, lvl]; exact Derives.bool
  | .comp e v it, h => by
    simp only [PrecOK, Bool.and_eq_true, decide_eq_true_eq] at h
    obtain ⟨⟨⟨hpe, hpi⟩, hle⟩, hli⟩ := h
    simp only [toks, norm, lvl]
    exact Derives.comp (derives_of_le hle (gen_derives e hpe)) (derives_of_le hli (gen_derives it hpi))
  | .dict ks vs, h => by
    simp only [PrecOK, Bool.and_eq_true, beq_iff_eq, List.all_eq_true, decide_eq_true_eq] at h
    obtain ⟨⟨⟨hk, hv⟩, hlen⟩, hk1⟩ := h
    simp only [toks, norm, lvl]
    apply Derives.dict
    exact dict_of_forall _ _ _ _ (gen_derives_L 1 ks hk hk1) (gen_derives_L 0 vs hv (fun _ _ => Nat.zero_le _))
      (by rw [normL_length, normL_length]; exact hlen)
  | .field o f, _ => by simp only [toks, norm, lvl]; exact Derives.field
  | .float r, _ => by simp only [toks, norm]; exact Derives.flt
  | .func n kw args, h => by
    simp only [PrecOK, Bool.and_eq_true] at h
    simp only [toks, norm, lvl]
    exact Derives.call (args_of_forall kw _ _ (gen_derives_L 0 args h.1 (fun _ _ => Nat.zero_le _)))
  | .int i, _ => by
    simp only [toks, norm, lvl, intToks]
    by_cases hi : i < 0
    · simp only [hi, if_true]; exact Derives.negInt hi
    · simp only [hi, if_false]; exact Derives.posInt hi
  | .lambda ps b, h => by
    simp only [PrecOK] at h
    simp only [toks, norm, lvl]
    exact Derives.lam (derives_of_le (Nat.zero_le _) (gen_derives b h))
  | .list es, h => by
    simp only [PrecOK] at h
    simp only [toks, norm, lvl]
    exact Derives.list (seq_of_forall _ _ (gen_derives_L 0 es h (fun _ _ => Nat.zero_le _)))
  | .method o n kw args, h => by
    simp only [PrecOK, Bool.and_eq_true] at h
    obtain ⟨⟨⟨ho, hpo⟩, hpa⟩, _⟩ := h
    have hl : lvl o = 8 := by
      cases o <;> simp_all [recvOK, lvl]
    have d1 := gen_derives o hpo
    rw [hl] at d1
    simp only [toks, norm, lvl]
    exact Derives.method d1 (args_of_forall kw _ _ (gen_derives_L 0 args hpa (fun _ _ => Nat.zero_le _)))
  | .parens e, h => by
    simp only [PrecOK] at h
    rw [norm]
    simp only [toks, lvl]
    exact Derives.paren (derives_of_le (Nat.zero_le _) (gen_derives e h))
  | .str s, _ => by simp only [toks, norm, lvl]; exact Derives.str
  | .tuple es, h => by
    simp only [PrecOK] at h
    have hL := gen_derives_L 0 es h (fun _ _ => Nat.zero_le _)
    match es, hL with
    | [], hL =>
      simp only [toks, toksL, joinSeq, norm, normL, lvl]
      exact Derives.tuple (by simp) DerivesSeq.nil
    | [e], hL =>
      simp only [toks, norm, normL, lvl]
      simp only [toksL, normL] at hL
      cases hL with
      | cons h1 _ => exact Derives.tuple1 h1
    | e :: f :: es, hL =>
      simp only [toks, norm, lvl]
      exact Derives.tuple (by simp [normL]) (seq_of_forall _ _ hL)
  | .var n, _ => by simp only [toks, norm, lvl]; exact Derives.var
termination_by e => (sizeOf e, 0)
/-- splicing an operand spine in front of which `A op` stands -/
theorem splice : ∀ (op : Op) (e : Expr), op.assoc = true → 2 ≤ op.level → PrecOK e = true → spineOK op e = true →
    ∀ (tl : List Tok) (A : Expr), Derives op.level tl A →
      Derives op.level (tl ++ (op.toks ++ toks e)) (attachN A op e)
  | op, .binop x op' y, ha, h2, hp, hs, tl, A, dA => by
    by_cases ho : op' = op
    · subst ho
      simp only [PrecOK, Bool.and_eq_true] at hp
      simp only [spineOK, if_true, Bool.and_eq_true] at hs
      have d1 := splice op' x ha h2 hp.1.1 hs.1 tl A dA
      have d2 := splice op' y ha h2 hp.1.2 hs.2 _ _ d1
      rw [attachN]
      simp only [if_true, toks]
      have : tl ++ (op'.toks ++ (toks x ++ (op'.toks ++ toks y))) = (tl ++ (op'.toks ++ toks x)) ++ (op'.toks ++ toks y) := by
        simp [List.append_assoc]
      rw [this]
      exact d2
    · simp only [spineOK, ho, if_false, decide_eq_true_eq] at hs
      rw [attachN]
      simp only [ho, if_false]
      have d := gen_derives (.binop x op' y) hp
      exact Derives.bin op h2 dA (derives_of_le (by simpa [lvl] using hs) d)
  | op, .access o i, _, h2, hp, hs, tl, A, dA => by
    rw [attachN_of_not_binop _ _ _ (by intro _ _ _ h; cases h)]
    exact Derives.bin op h2 dA (derives_of_le (by simpa [spineOK] using hs) (gen_derives _ hp))
  | op, .bool b, _, h2, hp, hs, tl, A, dA => by
    rw [attachN_of_not_binop _ _ _ (by intro _ _ _ h; cases h)]
    exact Derives.bin op h2 dA (derives_of_le (by simpa [spineOK] using hs) (gen_derives _ hp))
  | op, .comp e v it, _, h2, hp, hs, tl, A, dA => by
    rw [attachN_of_not_binop _ _ _ (by intro _ _ _ h; cases h)]
    exact Derives.bin op h2 dA (derives_of_le (by simpa [spineOK] using hs) (gen_derives _ hp))
  | op, .dict ks vs, _, h2, hp, hs, tl, A, dA => by
    rw [attachN_of_not_binop _ _ _ (by intro _ _ _ h; cases h)]
    exact Derives.bin op h2 dA (derives_of_le (by simpa [spineOK] using hs) (gen_derives _ hp))
  | op, .field o f, _, h2, hp, hs, tl, A, dA => by
    rw [attachN_of_not_binop _ _ _ (by intro _ _ _ h; cases h)]
    exact Derives.bin op h2 dA (derives_of_le (by simpa [spineOK] using hs) (gen_derives _ hp))
  | op, .float r, _, h2, hp, hs, tl, A, dA => by
    rw [attachN_of_not_binop _ _ _ (by intro _ _ _ h; cases h)]
    exact Derives.bin op h2 dA (derives_of_le (by simpa [spineOK] using hs) (gen_derives _ hp))
  | op, .func n kw args, _, h2, hp, hs, tl, A, dA => by
    rw [attachN_of_not_binop _ _ _ (by intro _ _ _ h; cases h)]
    exact Derives.bin op h2 dA (derives_of_le (by simpa [spineOK] using hs) (gen_derives _ hp))
  | op, .int i, _, h2, hp, hs, tl, A, dA => by
    rw [attachN_of_not_binop _ _ _ (by intro _ _ _ h; cases h)]
    exact Derives.bin op h2 dA (derives_of_le (by simpa [spineOK] using hs) (gen_derives _ hp))
  | op, .lambda ps b, _, h2, hp, hs, tl, A, dA => by
    rw [attachN_of_not_binop _ _ _ (by intro _ _ _ h; cases h)]
    exact Derives.bin op h2 dA (derives_of_le (by simpa [spineOK] using hs) (gen_derives _ hp))
  | op, .list es, _, h2, hp, hs, tl, A, dA => by
    rw [attachN_of_not_binop _ _ _ (by intro _ _ _ h; cases h)]
    exact Derives.bin op h2 dA (derives_of_le (by simpa [spineOK] using hs) (gen_derives _ hp))
  | op, .method o n kw args, _, h2, hp, hs, tl, A, dA => by
    rw [attachN_of_not_binop _ _ _ (by intro _ _ _ h; cases h)]
    exact Derives.bin op h2 dA (derives_of_le (by simpa [spineOK] using hs) (gen_derives _ hp))
  | op, .parens e, _, h2, hp, hs, tl, A, dA => by
    rw [attachN_of_not_binop _ _ _ (by intro _ _ _ h; cases h)]
    exact Derives.bin op h2 dA (derives_of_le (by simpa [spineOK] using hs) (gen_derives _ hp))
  | op, .str s, _, h2, hp, hs, tl, A, dA => by
    rw [attachN_of_not_binop _ _ _ (by intro _ _ _ h; cases h)]
    exact Derives.bin op h2 dA (derives_of_le (by simpa [spineOK] using hs) (gen_derives _ hp))
  | op, .tuple es, _, h2, hp, hs, tl, A, dA => by
    rw [attachN_of_not_binop _ _ _ (by intro _ _ _ h; cases h)]
    exact Derives.bin op h2 dA (derives_of_le (by simpa [spineOK] using hs) (gen_derives _ hp))
  | op, .var n, _, h2, hp, hs, tl, A, dA => by
    rw [attachN_of_not_binop _ _ _ (by intro _ _ _ h; cases h)]
    exact Derives.bin op h2 dA (derives_of_le (by simpa [spineOK] using hs) (gen_derives _ hp))
termination_by _ e => (sizeOf e, 1)
theorem gen_derives_L : ∀ (n : Nat) (es : List Expr), PrecOKL es = true → (∀ e ∈ es, n ≤ lvl e) →
    All2 (fun ts e => Derives n ts e) (toksL es) (normL es)
  | _, [], _, _ => by simp only [toksL, normL]; exact All2.nil
  | n, e :: es, h, hl => by
    simp only [PrecOKL, Bool.and_eq_true] at h
    simp only [toksL, normL]
    exact All2.cons (derives_of_le (hl e (by simp)) (gen_derives e h.1))
      (gen_derives_L n es h.2 (fun e' he' => hl e' (List.mem_cons_of_mem _ he')))
termination_by _ es => (sizeOf es, 0)
end

/-- non-vacuity: `1 / 2 * w0 + -3 / 2 * q0` (as the coordinate builder nests it) is accepted, and the
    substitution of a sum under a product without parentheses is rejected -/
example : PrecOK (.binop (.binop (.binop (.int 1) .div (.int 2)) .mul (.var "w0")) .add
    (.binop (.binop (.int (-3)) .div (.int 2)) .mul (.var "q0"))) = true := by decide
example : PrecOK (.binop (.int 2) .mul (.binop (.binop (.binop (.var "M") .sub (.int 1)) .fdiv (.int 4)) .add (.int 1))) = false := by
  decide

end C09
