import TeaalVerif.FT.Ops
/-!
# C02 — shape-based partitioning (tensor-level algebra; the composition with the loop nest is in Props/C02Nest, C02Model)

Proved here, for **every** tensor, step, depth and extent:

* `split_merge_id`   — `mergeRanks(depth=d, levels=1, "absolute")` undoes `splitUniform(step, depth=d)`
                       exactly (point for point): what the footer does to the output restores the
                       original coordinates;
* `key_bounds`, `key_unique` — every coordinate lies in exactly one partition `[k, k + step)`, `k` a
                       multiple of the step, also when the step does not divide or exceeds the extent;
* `partition_sum`    — summing over the partition rank and the original rank (the two loops the
                       partitioned nest has) with the membership test is the same as summing over the
                       original rank: no element is lost or met twice;
* `nway_cover`       — the step `(N - 1) / n + 1` the compiler computes for `nway_shape(n)` gives at
                       most `n` partitions covering `[0, N)`.

The composition with the loop-nest theorem of C01 for nests over the expanded ranks in an arbitrary level
order is `C02.partitioned_nest` / `C02.model_partitioned` (Props/C02Nest.lean, Props/C02Model.lean).
-/
namespace C02
open FT

theorem eraseIdx_insert {α : Type} (x : α) : ∀ (l1 l2 : List α), (l1 ++ x :: l2).eraseIdx l1.length = l1 ++ l2
  | [], _ => rfl
  | a :: l1, l2 => by simp [List.eraseIdx, eraseIdx_insert x l1 l2]

/-- **`mergeRanks` undoes `splitUniform`** -/
theorem split_merge_id (step d : Nat) (t : Pts) (h : ∀ p ∈ t, d ≤ p.1.length) :
    mergeAbs d (splitUniform step d t) = t := by
  unfold mergeAbs splitUniform
  rw [List.map_map]
  conv => rhs; rw [← List.map_id t]
  apply List.map_congr_left
  intro ⟨p, v⟩ hp
  have hd : d ≤ p.length := h _ hp
  simp only [Function.comp, id]
  congr 1
  have hlen : (p.take d).length = d := by simp [Nat.min_eq_left hd]
  have := eraseIdx_insert (splitCoord step (p.getD d [])) (p.take d) (p.drop d)
  rw [hlen] at this
  rw [this, List.take_append_drop]

theorem key_bounds (step c : Nat) (hs : 0 < step) : c / step * step ≤ c ∧ c < c / step * step + step := by
  constructor
  · exact Nat.div_mul_le_self c step
  · have := Nat.lt_div_mul_add (a := c) hs
    omega

theorem key_unique (step c j : Nat) (hs : 0 < step) (h1 : j * step ≤ c) (h2 : c < j * step + step) :
    j * step = c / step * step := by
  have h3 : j ≤ c / step := (Nat.le_div_iff_mul_le hs).2 h1
  have h4 : c / step < j + 1 := by
    rw [Nat.div_lt_iff_lt_mul hs]
    have : (j + 1) * step = j * step + step := by rw [Nat.add_mul]; simp
    omega
  have : j = c / step := by omega
  rw [this]

theorem sum_zero_of_forall {α : Type} (l : List α) (g : α → Int) (h : ∀ c ∈ l, g c = 0) : (l.map g).sum = 0 := by
  induction l with
  | nil => rfl
  | cons a as ih =>
    simp only [List.map_cons, List.sum_cons]
    rw [h a (by simp), ih (fun c hc => h c (by simp [hc]))]
    rfl

theorem sum_range_single (N k : Nat) (f : Nat → Int) (hk : k < N) :
    ((List.range N).map fun c => if c = k then f c else 0).sum = f k := by
  induction N with
  | zero => omega
  | succ n ih =>
    rw [List.range_succ, List.map_append, List.sum_append]
    by_cases h : k = n
    · subst h
      have : ((List.range k).map fun c => if c = k then f c else 0).sum = 0 := by
        apply sum_zero_of_forall
        intro c hc
        have := List.mem_range.1 hc
        have : c ≠ k := by omega
        simp [this]
      simp [this]
    · rw [ih (by omega)]
      have : n ≠ k := fun e => h e.symm
      simp [this]

theorem sum_add_distrib {α : Type} (l : List α) (g h : α → Int) :
    (l.map fun b => g b + h b).sum = (l.map g).sum + (l.map h).sum := by
  induction l with
  | nil => rfl
  | cons a as ih => simp only [List.map_cons, List.sum_cons, ih]; omega

theorem sum_comm (N M : Nat) (f : Nat → Nat → Int) :
    ((List.range N).map fun a => ((List.range M).map fun b => f a b).sum).sum =
    ((List.range M).map fun b => ((List.range N).map fun a => f a b).sum).sum := by
  induction N with
  | zero =>
    simp only [List.range_zero, List.map_nil, List.sum_nil]
    exact (sum_zero_of_forall _ _ (fun _ _ => rfl)).symm
  | succ n ih =>
    rw [List.range_succ, List.map_append, List.sum_append, ih]
    simp only [List.map_cons, List.map_nil, List.sum_cons, List.sum_nil, Int.add_zero]
    have : ∀ b, ((List.range n ++ [n]).map fun a => f a b).sum = ((List.range n).map fun a => f a b).sum + f n b := by
      intro b
      rw [List.map_append, List.sum_append]
      simp
    simp only [this]
    rw [sum_add_distrib]

/-- **no element is lost or met twice**: the two loops of a partitioned rank (`k1` over the partition
    keys, `k0` over the elements, an element taking part only in its own partition) sum to the loop over
    the original rank -/
theorem partition_sum (N step : Nat) (hs : 0 < step) (f : Nat → Nat → Int) :
    ((List.range N).map fun k1 => ((List.range N).map fun k0 => if k1 = k0 / step * step then f k1 k0 else 0).sum).sum =
    ((List.range N).map fun k0 => f (k0 / step * step) k0).sum := by
  rw [sum_comm]
  congr 1
  apply List.map_congr_left
  intro k0 hk0
  have hlt : k0 / step * step < N := Nat.lt_of_le_of_lt (key_bounds step k0 hs).1 (List.mem_range.1 hk0)
  have := sum_range_single N (k0 / step * step) (fun k1 => f k1 k0) hlt
  simpa using this

/-- `nway_shape(n)`: with the step `(N - 1) / n + 1` the coordinates `< N` fall into at most `n` partitions -/
theorem nway_cover (N n c : Nat) (hn : 0 < n) (hc : c < N) : 0 < (N - 1) / n + 1 ∧ c / ((N - 1) / n + 1) < n := by
  refine ⟨Nat.succ_pos _, ?_⟩
  rw [Nat.div_lt_iff_lt_mul (Nat.succ_pos _)]
  have h1 : N - 1 < (N - 1) / n * n + n := Nat.lt_div_mul_add hn
  have h2 : n * ((N - 1) / n + 1) = (N - 1) / n * n + n := by
    rw [Nat.mul_add, Nat.mul_comm]; simp
  rw [h2]
  omega

/-- non-vacuity: a rank-2 tensor split at depth 1 with a step that does not divide the extent -/
example : splitUniform 3 1 [([[0], [7]], 5), ([[2], [2]], -1)] = [([[0], [6], [7]], 5), ([[2], [0], [2]], -1)] := by decide
example : mergeAbs 1 (splitUniform 3 1 [([[0], [7]], 5), ([[2], [2]], -1)]) = [([[0], [7]], 5), ([[2], [2]], -1)] := by decide

end C02
