import TeaalVerif.Props.C04Part
/-!
# C04 — shape partitioning with a following input rank, the loop orders with interval logic

For loop orders in which the lower output level is reached through a projection (`[Q1, S, Q0]`, `[Q1, W0, Q0]`, `[S, Q1, Q0]`) the
compiler restricts that projection to the interval `(q0_start, q0_end)` computed from the coordinates of the upper level that are
PRESENT (`inputs_q1 = Fiber.fromLazy(...)`): the first present partition starts at 0, every other at its own coordinate, each ends at
the next present coordinate, the last at the extent.  So the tile of a partition depends on the data.

`tileOf P c0` is the partition an output coordinate `c0` is assigned to: the largest present coordinate at or below it, the smallest one
if there is none.  The tile tensor `T''[q1, q0]` (1 where `tileOf q0 = q1`) intersected with the projected lower fiber is the
interval-restricted projection.  `term_partB` / `meaningA_partB`: the partitioned form has the meaning of the Einsum as written,
provided (decidable, checked per sample) every present coordinate is a multiple of the partition size below the extent (the unclipped
last interval is the known finding) and an absent aligned partition really holds no element of some follower in its window - then an
output coordinate whose own partition is absent only meets zeros, and one whose partition is present is assigned to it.
-/
namespace C04
open Nest C01

def maxLe : List Nat → Nat → Option Nat
  | [], _ => none
  | p :: ps, c => match maxLe ps c with
    | some m => if p ≤ c ∧ m < p then some p else some m
    | none => if p ≤ c then some p else none

def minOf : List Nat → Option Nat
  | [] => none
  | p :: ps => match minOf ps with
    | some m => some (min p m)
    | none => some p

/-- the present partition an output coordinate is assigned to -/
def tileOf (P : List Nat) (c0 : Nat) : Option Nat :=
  match maxLe P c0 with
  | some m => some m
  | none => minOf P

theorem maxLe_spec : ∀ (P : List Nat) (c : Nat), (∀ m, maxLe P c = some m → m ∈ P ∧ m ≤ c ∧ ∀ e ∈ P, e ≤ c → e ≤ m) ∧
    (maxLe P c = none → ∀ e ∈ P, ¬ e ≤ c)
  | [], c => ⟨fun m h => by simp [maxLe] at h, fun _ e he => by simp at he⟩
  | p :: ps, c => by
    obtain ⟨ih1, ih2⟩ := maxLe_spec ps c
    constructor
    · intro m h
      simp only [maxLe] at h
      cases hr : maxLe ps c with
      | some m' =>
        simp only [hr] at h
        obtain ⟨hm1, hm2, hm3⟩ := ih1 m' hr
        by_cases hc : p ≤ c ∧ m' < p
        · rw [if_pos hc] at h
          have := Option.some.inj h; subst this
          refine ⟨by simp, hc.1, ?_⟩
          intro e he hec
          rcases List.mem_cons.1 he with rfl | he'
          · exact Nat.le_refl _
          · have := hm3 e he' hec; omega
        · rw [if_neg hc] at h
          have := Option.some.inj h; subst this
          refine ⟨List.mem_cons_of_mem _ hm1, hm2, ?_⟩
          intro e he hec
          rcases List.mem_cons.1 he with rfl | he'
          · by_cases hpc : e ≤ c
            · have : ¬ m' < e := fun hh => hc ⟨hpc, hh⟩
              omega
            · omega
          · exact hm3 e he' hec
      | none =>
        simp only [hr] at h
        by_cases hc : p ≤ c
        · rw [if_pos hc] at h
          have := Option.some.inj h; subst this
          refine ⟨by simp, hc, ?_⟩
          intro e he hec
          rcases List.mem_cons.1 he with rfl | he'
          · exact Nat.le_refl _
          · exact absurd hec (ih2 hr e he')
        · rw [if_neg hc] at h; cases h
    · intro h e he
      simp only [maxLe] at h
      cases hr : maxLe ps c with
      | some m' =>
        simp only [hr] at h
        by_cases hc : p ≤ c ∧ m' < p
        · rw [if_pos hc] at h; cases h
        · rw [if_neg hc] at h; cases h
      | none =>
        simp only [hr] at h
        by_cases hc : p ≤ c
        · rw [if_pos hc] at h; cases h
        · rcases List.mem_cons.1 he with rfl | he'
          · exact hc
          · exact ih2 hr e he'

theorem minOf_mem : ∀ (P : List Nat) (m : Nat), minOf P = some m → m ∈ P
  | [], m, h => by simp [minOf] at h
  | p :: ps, m, h => by
    simp only [minOf] at h
    cases hr : minOf ps with
    | some m' =>
      rw [hr] at h
      have := Option.some.inj h; subst this
      have := minOf_mem ps m' hr
      by_cases hpm : p ≤ m'
      · rw [Nat.min_eq_left hpm]; simp
      · rw [Nat.min_eq_right (by omega)]; exact List.mem_cons_of_mem _ this
    | none =>
      rw [hr] at h
      have := Option.some.inj h; subst this
      simp

theorem tileOf_mem (P : List Nat) (c0 m : Nat) (h : tileOf P c0 = some m) : m ∈ P := by
  unfold tileOf at h
  cases hr : maxLe P c0 with
  | some m' =>
    rw [hr] at h
    have := Option.some.inj h; subst this
    exact ((maxLe_spec P c0).1 m' hr).1
  | none =>
    rw [hr] at h
    exact minOf_mem P m h

/-- a coordinate whose own aligned partition is present is assigned to it -/
theorem tileOf_aligned (P : List Nat) (n c0 : Nat) (hal : ∀ e ∈ P, e % n = 0) (hp : n * (c0 / n) ∈ P) :
    tileOf P c0 = some (n * (c0 / n)) := by
  unfold tileOf
  have hle : n * (c0 / n) ≤ c0 := Nat.mul_div_le c0 n
  cases hr : maxLe P c0 with
  | none => exact absurd hle ((maxLe_spec P c0).2 hr _ hp)
  | some m =>
    obtain ⟨hm1, hm2, hm3⟩ := (maxLe_spec P c0).1 m hr
    have h1 : n * (c0 / n) ≤ m := hm3 _ hp hle
    have hmk : m = m / n * n := (Nat.div_mul_cancel (Nat.dvd_of_mod_eq_zero (hal m hm1))).symm
    have h2 : m / n ≤ c0 / n := Nat.div_le_div_right hm2
    have h3 : m ≤ n * (c0 / n) := by
      rw [hmk, Nat.mul_comm]; exact Nat.mul_le_mul_left n h2
    simp only
    congr 1
    omega

/-- the tile tensor: `(c1, c0) ↦ 1` where `c0` (below the extent) is assigned to the present partition `c1` -/
def tileBPts (P : List Nat) (Q : Nat) : Pts :=
  (List.range Q).filterMap fun c0 => (tileOf P c0).map fun c1 => ([c1, c0], (1 : Int))

theorem sumAt_tileBPts (P : List Nat) (c1 c0 : Nat) : ∀ Q : Nat,
    sumAt [c1, c0] (tileBPts P Q) = if c0 < Q ∧ tileOf P c0 = some c1 then 1 else 0
  | 0 => by simp [tileBPts, sumAt]
  | Q + 1 => by
    have ih := sumAt_tileBPts P c1 c0 Q
    have hsplit : tileBPts P (Q + 1) = tileBPts P Q ++ (match tileOf P Q with | some d => [([d, Q], (1 : Int))] | none => []) := by
      simp only [tileBPts, List.range_succ, List.filterMap_append, List.filterMap_cons, List.filterMap_nil]
      cases tileOf P Q <;> simp
    rw [hsplit, sumAt_append, ih]
    by_cases hq : c0 = Q
    · subst hq
      have h1 : ¬ (c0 < c0 ∧ tileOf P c0 = some c1) := fun h => Nat.lt_irrefl _ h.1
      rw [if_neg h1]
      cases ht : tileOf P c0 with
      | none => simp [sumAt]
      | some d =>
        by_cases hd : d = c1
        · subst hd; simp [sumAt]
        · have : ¬ ([d, c0] = [c1, c0]) := by simp [hd]
          simp [sumAt_cons, sumAt_nil, this, hd]
    · have hz : sumAt [c1, c0] (match tileOf P Q with | some d => [([d, Q], (1 : Int))] | none => []) = 0 := by
        cases tileOf P Q with
        | none => rfl
        | some d =>
          have : ¬ ([d, Q] = [c1, c0]) := by simp; intro _; omega
          simp [sumAt_cons, sumAt_nil, this]
      rw [hz]
      by_cases h : c0 < Q ∧ tileOf P c0 = some c1
      · rw [if_pos h, if_pos ⟨by omega, h.2⟩]; rfl
      · rw [if_neg h, if_neg (fun hh => h ⟨by omega, hh.2⟩)]; rfl

/-! ### the partitioned form with the data-dependent tile tensor -/

def tileBTensor (c : PartCfg) : TensorAS :=
  { name := "tileB__", ranks := ["T1", "T0"],
    idx := [{ e := ⟨[(1, c.q1)], 0⟩, proj := false }, { e := ⟨[(1, c.q0)], 0⟩, proj := false }] }

def convTermB (c : PartCfg) (t : TermAS) : TermAS := { t with tensors := t.tensors.map (convTensor c) ++ [tileBTensor c] }

def convEnvB (c : PartCfg) (P : List Nat) (Q : Nat) (env : String → Pts) : String → Pts := fun nm =>
  if nm = "tileB__" then tileBPts P Q else convEnv c env nm

theorem accessVal_envB (c : PartCfg) (P : List Nat) (Q : Nat) (env : String → Pts) (g : String → Nat) (x : TensorAS)
    (hx : x.name ≠ "tileB__") : accessValA (convEnvB c P Q env) g (convTensor c x) = accessValA (convEnv c env) g (convTensor c x) := by
  unfold accessValA
  have hname : (convTensor c x).name = x.name := by
    unfold convTensor; cases c.fol x.name <;> rfl
  rw [hname]
  simp [convEnvB, hx]

theorem tileB_val (c : PartCfg) (P : List Nat) (Q : Nat) (env : String → Pts) (g1 g0 : String → Nat) (c0 c1 : Nat) (hr : Rel2 c g1 g0 c0 c1) :
    accessValA (convEnvB c P Q env) g1 (tileBTensor c) = if c0 < Q ∧ tileOf P c0 = some c1 then 1 else 0 := by
  unfold accessValA
  have henv : convEnvB c P Q env (tileBTensor c).name = tileBPts P Q := by simp [convEnvB, tileBTensor]
  rw [henv]
  have hidx : (tileBTensor c).idx.map (fun a => a.e.eval g1) = [(c1 : Int), (c0 : Int)] := by
    simp [tileBTensor, AffS.eval, hr.h0, hr.h1]
  rw [hidx]
  unfold valAt
  simp only [List.all_cons, List.all_nil, Bool.and_true, List.map_cons, List.map_nil, Int.toNat_natCast]
  have : (decide ((0 : Int) ≤ (c1 : Int)) && decide ((0 : Int) ≤ (c0 : Int))) = true := by simp
  rw [if_pos this, sumAt_tileBPts]

def noneInWindow (i pre lo hi : Nat) (Pt : Pts) : Bool :=
  Pt.all fun pt => match pt.1[i]? with
    | some w => !(decide (lo ≤ w + pre) && decide (w < hi))
    | none => true

/-- an aligned partition below the extent that is not present holds no element of some follower of the term in its window -/
def absentZeroB (c : PartCfg) (env : String → Pts) (P : List Nat) (Q : Nat) (t : TermAS) : Bool :=
  (List.range Q).all fun k => !(k % c.n == 0) || P.contains k ||
    t.tensors.any fun x => match c.fol x.name with
      | some i =>
        let A := ((x.idx.getD i default).e.coef c.q).toNat
        noneInWindow i (c.preF x.name) (A * k) (A * k + c.stepF x.name + c.haloF x.name) (env x.name)
      | none => false

/-- the element a follower reads for `c0` lies in the window of `c0`'s own aligned partition -/
theorem window_contains (c : PartCfg) (ext : String → Nat) (g0 : String → Nat) (c0 : Nat) (hq : g0 c.q = c0) (hn : 0 < c.n) (x : TensorAS) (i : Nat)
    (hF : FolOK c ext x i) (hrange : ∀ t ∈ (x.idx.getD i default).e.rest c.q, g0 t.2 < ext t.2)
    (A : Nat) (hA : ((x.idx.getD i default).e.coef c.q).toNat = A) :
    ((A * (c.n * (c0 / c.n)) : Nat) : Int) ≤ (x.idx.getD i default).e.eval g0 + (c.preF x.name : Int) ∧
    (x.idx.getD i default).e.eval g0 < ((A * (c.n * (c0 / c.n)) + c.stepF x.name + c.haloF x.name : Nat) : Int) := by
  obtain ⟨hi, haq1, hstep, hconst, hpre, hhalo⟩ := hF
  rw [hA] at hstep
  have haqA : (x.idx.getD i default).e.coef c.q = (A : Int) := by omega
  have hdec := eval_decomp c.q g0 (x.idx.getD i default).e
  rw [hq, hconst, haqA] at hdec
  obtain ⟨hr0, hr1⟩ := rho_bounds g0 ext _ hrange
  rw [← hhalo] at hr1
  rw [← hpre] at hr0
  generalize (((x.idx.getD i default).e.rest c.q).map fun t => t.1 * (g0 t.2 : Int)).sum = ρ at hdec hr0 hr1
  rw [hdec, hstep]
  have h1 : c.n * (c0 / c.n) ≤ c0 := Nat.mul_div_le c0 c.n
  have h2 : c0 + 1 ≤ c.n * (c0 / c.n) + c.n := by
    have := Nat.lt_mul_div_succ c0 hn
    rw [Nat.mul_add, Nat.mul_one] at this; omega
  generalize c.n * (c0 / c.n) = k at h1 h2 ⊢
  have h3 : A * k ≤ A * c0 := Nat.mul_le_mul_left A h1
  have h4 : A * (c0 + 1) ≤ A * (k + c.n) := Nat.mul_le_mul_left A h2
  rw [Nat.mul_add, Nat.mul_add, Nat.mul_one] at h4
  have hA1 : 1 ≤ A := by omega
  have h3' : ((A * k : Nat) : Int) ≤ (A : Int) * (c0 : Int) := by exact_mod_cast h3
  have h4' : (A : Int) * (c0 : Int) + (A : Int) ≤ ((A * k : Nat) : Int) + ((A * c.n : Nat) : Int) := by exact_mod_cast h4
  simp only [Int.natCast_add]
  constructor <;> omega

/-- a follower that stores nothing in a window reads zero at every element of the window -/
theorem accessVal_zero_of_window (env : String → Pts) (g0 : String → Nat) (x : TensorAS) (i pre lo hi : Nat) (hi' : i < x.idx.length)
    (hnone : noneInWindow i pre lo hi (env x.name) = true)
    (hw : (lo : Int) ≤ (x.idx.getD i default).e.eval g0 + (pre : Int) ∧ (x.idx.getD i default).e.eval g0 < (hi : Int)) : accessValA env g0 x = 0 := by
  unfold accessValA valAt
  split
  · rename_i hall
    have hmemI : (x.idx.getD i default).e.eval g0 ∈ x.idx.map (fun a => a.e.eval g0) := by
      have : x.idx.getD i default = x.idx[i] := by simp [List.getD, List.getElem?_eq_getElem hi']
      rw [this]; exact List.mem_map.2 ⟨x.idx[i], List.getElem_mem hi', rfl⟩
    have hnn : (0 : Int) ≤ (x.idx.getD i default).e.eval g0 := by
      have := List.all_eq_true.1 hall _ hmemI
      simpa using this
    apply sumAt_eq_zero
    intro pt hpt e
    have hget : pt.1[i]? = some ((x.idx.getD i default).e.eval g0).toNat := by
      rw [e, List.getElem?_map, List.getElem?_map]
      have : x.idx[i]? = some (x.idx.getD i default) := by simp [List.getD, List.getElem?_eq_getElem hi']
      rw [this]; rfl
    have := List.all_eq_true.1 hnone pt hpt
    rw [hget] at this
    simp only [Bool.not_eq_true', Bool.and_eq_false_iff, decide_eq_false_iff_not] at this
    rcases this with h | h <;> omega
  · rfl

/-- **one term, data-dependent tiles** -/
theorem term_partB (c : PartCfg) (ext : String → Nat) (env : String → Pts) (P : List Nat) (Q : Nat) (t : TermAS) (g0 : String → Nat) (c0 E1 : Nat)
    (gfam : Nat → String → Nat) (hrel : ∀ c1, Rel2 c (gfam c1) g0 c0 c1) (hne : c.q0 ≠ c.q1) (hn : 0 < c.n) (hok : TermOK c ext t)
    (hnmB : ∀ x ∈ t.tensors, x.name ≠ "tileB__")
    (hrange : ∀ x ∈ t.tensors, ∀ i, c.fol x.name = some i → ∀ u ∈ (x.idx.getD i default).e.rest c.q, g0 u.2 < ext u.2)
    (hc0 : c0 < Q) (hPQ : ∀ e ∈ P, e < E1) (hal : ∀ e ∈ P, e % c.n = 0) (habs : absentZeroB c env P Q t = true) :
    ((List.range E1).map fun c1 => termValA (convEnvB c P Q env) (gfam c1) (convTermB c t)).sum = termValA env g0 t := by
  obtain ⟨hk, htens, _⟩ := hok
  -- every summand: the product of the converted accesses times the tile indicator
  have hform : ∀ c1, termValA (convEnvB c P Q env) (gfam c1) (convTermB c t) =
      t.scal * (prodI (t.tensors.map fun x => accessValA (convEnv c env) (gfam c1) (convTensor c x)) *
        (if c0 < Q ∧ tileOf P c0 = some c1 then 1 else 0)) := by
    intro c1
    unfold termValA
    have hkc : (convTermB c t).kind = .times := by simp [convTermB, hk]
    rw [hkc, comb_times]
    have hsc : (convTermB c t).scal = t.scal := rfl
    rw [hsc]
    have hvals : (convTermB c t).tensors.map (accessValA (convEnvB c P Q env) (gfam c1)) =
        (t.tensors.map fun x => accessValA (convEnv c env) (gfam c1) (convTensor c x)) ++
          [if c0 < Q ∧ tileOf P c0 = some c1 then 1 else 0] := by
      simp only [convTermB, List.map_append, List.map_map, List.map_cons, List.map_nil]
      rw [tileB_val c P Q env (gfam c1) g0 c0 c1 (hrel c1)]
      congr 1
      apply List.map_congr_left
      intro x hx
      exact accessVal_envB c P Q env (gfam c1) x (hnmB x hx)
    rw [hvals, prodI_append_one]
  have hrhs : termValA env g0 t = t.scal * prodI (t.tensors.map (accessValA env g0)) := by
    unfold termValA; rw [hk, comb_times]
  -- does `c0`'s own aligned partition exist?
  by_cases hp : c.n * (c0 / c.n) ∈ P
  · -- yes: `c0` is assigned to it, and there every follower reads the original element
    have ht := tileOf_aligned P c.n c0 hal hp
    have hpt : ∀ c1, termValA (convEnvB c P Q env) (gfam c1) (convTermB c t) =
        if c1 = c.n * (c0 / c.n) then termValA env g0 t else 0 := by
      intro c1
      rw [hform c1, ht]
      by_cases hc : c1 = c.n * (c0 / c.n)
      · rw [if_pos hc, if_pos ⟨hc0, by rw [hc]⟩, hrhs]
        have : (t.tensors.map fun x => accessValA (convEnv c env) (gfam c1) (convTensor c x)) = t.tensors.map (accessValA env g0) := by
          apply List.map_congr_left
          intro x hx
          cases hf : c.fol x.name with
          | none => exact accessVal_conv_plain c env (gfam c1) g0 c0 c1 (hrel c1) hne x hf (htens x hx).1 (htens x hx).2.1
          | some i => exact (follower_val c ext env (gfam c1) g0 c0 c1 (hrel c1) hne hn x i hf (htens x hx) (hrange x hx i hf)).1 hc
        rw [this]; simp
      · have : ¬ (c0 < Q ∧ some (c.n * (c0 / c.n)) = some c1) := fun h => hc (Option.some.inj h.2).symm
        rw [if_neg hc, if_neg this]; simp
    rw [sum_map_congr _ _ _ (fun c1 _ => hpt c1)]
    exact sum_single E1 _ _ (hPQ _ hp)
  · -- no: some follower stores nothing in that window, so both sides vanish
    have hk0 : c.n * (c0 / c.n) < Q := by have := Nat.mul_div_le c0 c.n; omega
    have hrow := List.all_eq_true.1 habs (c.n * (c0 / c.n)) (List.mem_range.2 hk0)
    have hmod : (c.n * (c0 / c.n)) % c.n = 0 := Nat.mul_mod_right _ _
    simp only [hmod, beq_self_eq_true, Bool.not_true, Bool.false_or, Bool.or_eq_true, List.contains_iff_mem, List.any_eq_true] at hrow
    rcases hrow with hh | ⟨x0, hx0, hx0w⟩
    · exact absurd (by simpa using hh) hp
    cases hf : c.fol x0.name with
    | none => rw [hf] at hx0w; cases hx0w
    | some i0 =>
      rw [hf] at hx0w
      have hF : FolOK c ext x0 i0 := by
        have := (htens x0 hx0).2.2; unfold folCond at this; rw [hf] at this; exact this
      have hwin := window_contains c ext g0 c0 (hrel 0).hq hn x0 i0 hF (hrange x0 hx0 i0 hf) _ rfl
      have hz0 : accessValA env g0 x0 = 0 :=
        accessVal_zero_of_window env g0 x0 i0 _ _ _ hF.1 hx0w ⟨hwin.1, hwin.2⟩
      have hR : termValA env g0 t = 0 := by
        rw [hrhs, prodI_zero _ (by rw [← hz0]; exact List.mem_map.2 ⟨x0, hx0, rfl⟩)]; simp
      rw [hR]
      apply sum_map_zero
      intro c1 _
      rw [hform c1]
      -- the converted access of `x0` is its original value or zero: zero in both cases
      have hs : 0 < c.stepF x0.name := by rw [hF.2.2.1]; exact Nat.mul_pos (by have := hF.2.1; omega) hn
      have hz1 : accessValA (convEnv c env) (gfam c1) (convTensor c x0) = 0 := by
        rw [accessVal_conv_follower c env (gfam c1) g0 c0 c1 (hrel c1) hne x0 i0 hf (htens x0 hx0).1 (htens x0 hx0).2.1 hF.1 hs
          (by have := hF.2.1; omega), hz0]
        simp
      rw [prodI_zero _ (by rw [← hz1]; exact List.mem_map.2 ⟨x0, hx0, rfl⟩)]
      simp

structure PartHypsB (c : PartCfg) (ext : String → Nat) (R : List (String × Nat)) (Q E1 : Nat) (out0 : List String) (terms : List TermAS)
    (env : String → Pts) (P : List Nat) : Prop where
  base : PartHyps c ext R Q E1 out0 terms
  hnmB : ∀ t ∈ terms, ∀ x ∈ t.tensors, x.name ≠ "tileB__"
  hPQ : ∀ e ∈ P, e < Q
  hal : ∀ e ∈ P, e % c.n = 0
  habs : ∀ t ∈ terms, absentZeroB c env P Q t = true

instance (c : PartCfg) (ext : String → Nat) (R : List (String × Nat)) (Q E1 : Nat) (out0 : List String) (terms : List TermAS)
    (env : String → Pts) (P : List Nat) : Decidable (PartHypsB c ext R Q E1 out0 terms env P) :=
  decidable_of_iff (PartHyps c ext R Q E1 out0 terms ∧ (∀ t ∈ terms, ∀ x ∈ t.tensors, x.name ≠ "tileB__") ∧ (∀ e ∈ P, e < Q) ∧
      (∀ e ∈ P, e % c.n = 0) ∧ (∀ t ∈ terms, absentZeroB c env P Q t = true))
    ⟨fun ⟨a, b, d, e, f⟩ => ⟨a, b, d, e, f⟩, fun ⟨a, b, d, e, f⟩ => ⟨a, b, d, e, f⟩⟩

/-- **shape partitioning with interval logic preserves the meaning** -/
theorem meaningA_partB (c : PartCfg) (ext : String → Nat) (R : List (String × Nat)) (Q E1 : Nat) (out0 : List String)
    (terms : List TermAS) (env : String → Pts) (P : List Nat) (H : PartHypsB c ext R Q E1 out0 terms env P) (τ : List Nat) :
    meaningA (R ++ [(c.q0, Q)] ++ [(c.q1, E1)]) (out0.map fun v => if v = c.q then c.q0 else v) (terms.map (convTermB c)) (convEnvB c P Q env) τ =
    meaningA (R ++ [(c.q, Q)]) out0 terms env τ := by
  have HB := H.base
  unfold meaningA
  rw [sumF_append, sumF_append, sumF_append]
  apply sumF_congr_bounded R HB.hnd
  intro f hrng _
  apply sum_map_congr
  intro c0 hc0m
  have hc0 : c0 < Q := List.mem_range.1 hc0m
  let g0 := upd f c.q c0
  let gfam : Nat → String → Nat := fun c1 => upd (upd f c.q0 c0) c.q1 c1
  have hrel : ∀ c1, Rel2 c (gfam c1) g0 c0 c1 := by
    intro c1
    refine ⟨?_, ?_, ?_, ?_⟩
    · simp [gfam, upd, HB.hne01]
    · simp [gfam, upd]
    · simp [g0, upd]
    · intro v h1 h2 h3
      simp [gfam, g0, upd, h1, h2, h3]
  have hout : ∀ c1, (out0.map fun v => if v = c.q then c.q0 else v).map (gfam c1) = out0.map g0 := by
    intro c1
    rw [List.map_map]
    apply List.map_congr_left
    intro v hv
    simp only [Function.comp]
    by_cases hvq : v = c.q
    · rw [if_pos hvq, (hrel c1).h0, hvq, (hrel c1).hq]
    · rw [if_neg hvq]
      exact (hrel c1).hother v hvq (fun e => HB.hout0 (e ▸ hv)) (fun e => HB.hout1 (e ▸ hv))
  show ((List.range E1).map fun c1 => if (out0.map fun v => if v = c.q then c.q0 else v).map (gfam c1) = τ then
      ((terms.map (convTermB c)).map (termValA (convEnvB c P Q env) (gfam c1))).sum else 0).sum =
    if out0.map g0 = τ then (terms.map (termValA env g0)).sum else 0
  simp only [hout]
  by_cases hτ : out0.map g0 = τ
  · simp only [hτ, if_true, List.map_map]
    rw [sum_map_sum_comm]
    apply sum_map_congr
    intro t ht
    simp only [Function.comp]
    apply term_partB c ext env P Q t g0 c0 E1 gfam hrel HB.hne01 HB.hn (HB.hterms t ht) (H.hnmB t ht)
    · intro x hx i hf u hu
      have hin := HB.hrest t ht x hx
      unfold restIn at hin
      rw [hf] at hin
      have hmem := hin u hu
      have hlt := hrng (u.2, ext u.2) hmem
      have hne : u.2 ≠ c.q := by
        simp only [AffS.rest, List.mem_filter, Bool.not_eq_true', beq_eq_false_iff_ne, ne_eq] at hu
        exact hu.2
      simp only [g0, upd, hne, if_false]
      exact hlt
    · exact hc0
    · intro e he; have := H.hPQ e he; have := HB.hQE; omega
    · exact H.hal
    · exact H.habs t ht
  · simp only [hτ, if_false]
    exact sum_map_zero _ _ (fun _ _ => rfl)

/-- **C04, shape partitioning with the input rank following, loop orders with interval logic**: the emitted nest - the lower output
    level reached through a projection restricted to `(q0_start, q0_end)`, the interval of the present partition - accumulates the
    meaning of the Einsum AS WRITTEN, for every input whose present partitions lie below the extent -/
theorem runA_partB (S1 : EinsumAS) (env : String → Pts) (c : PartCfg) (ext : String → Nat) (R : List (String × Nat)) (Q E1 : Nat)
    (out0 : List String) (terms0 : List TermAS) (P : List Nat)
    (hS1 : S1.terms = terms0.map (convTermB c))
    (hout : concord S1.loop S1.outVars = out0.map fun v => if v = c.q then c.q0 else v)
    (hperm : (S1.loop.zip S1.exts).Perm (R ++ [(c.q0, Q)] ++ [(c.q1, E1)]))
    (hA : HypsA S1 (convEnvB c P Q env)) (H : PartHypsB c ext R Q E1 out0 terms0 env P) (τ : List Nat) :
    sumAt τ (runA (levelsA S1) (initTermsA S1 (convEnvB c P Q env))) = meaningA (R ++ [(c.q, Q)]) out0 terms0 env τ := by
  rw [runA_eq_meaningA S1 (convEnvB c P Q env) hA τ]
  obtain ⟨hnd, hlen, _⟩ := hA
  have hnames : ((S1.loop.zip S1.exts).map (·.1)).Nodup := by
    have : (S1.loop.zip S1.exts).map (·.1) = S1.loop := by
      rw [List.map_fst_zip]; omega
    rw [this]; exact hnd
  have := sumF_perm hperm (fun f => if (concord S1.loop S1.outVars).map f = τ then (S1.terms.map (termValA (convEnvB c P Q env) f)).sum else 0) hnames (fun _ => 0)
  unfold meaningA
  rw [this]
  have h2 := meaningA_partB c ext R Q E1 out0 terms0 env P H τ
  unfold meaningA at h2
  rw [hS1, hout, h2]

end C04
