import TeaalVerif.FT.Ops
/-!
# C08 — emission-order nondeterminism is benign (partial: the two commutation facts)

The emitted text varies with the interpreter's hash seed in two ways (DESIGN 4.2): (a) the order in which
the partitionings of different ranks of one tensor are applied, (b) the order of independent statements.

* `split_comm`  — (a): splitting two different ranks of one tensor commutes, with the deeper rank's depth
  shifted by the level the shallower split inserts: the two chains `T → split M → split N` and
  `T → split N → split M` produce the same tensor, for every tensor, steps and depths;
* `swap_indep`  — (b): for any statement semantics that respects its footprint (reads only `R`, changes only
  `W`), two adjacent statements with disjoint footprints can be exchanged without changing the final store;
  `perm_indep` lifts it to any reordering reachable by such exchanges.

That each variant text is closed is C06's theorem applied to each text; that all variants compute the same
tensors is observed by executing every distinct text of a specification on identical inputs.
-/
namespace C08
open FT

/-! ### (a) splits of different ranks commute -/

theorem take_insert_lt {α : Type} (x : α) : ∀ (l : List α) (d n : Nat), n ≤ d → d ≤ l.length →
    (l.take d ++ x :: l.drop d).take n = l.take n
  | l, d, n, h, hl => by
    rw [List.take_append_of_le_length (by simp [Nat.min_eq_left hl]; exact h)]
    rw [List.take_take, Nat.min_eq_left h]

theorem getD_insert_lt {α : Type} (x dflt : α) (l : List α) (d n : Nat) (h : n < d) (hl : d ≤ l.length) :
    (l.take d ++ x :: l.drop d).getD n dflt = l.getD n dflt := by
  simp only [List.getD]
  rw [List.getElem?_append_left (by simp [Nat.min_eq_left hl]; exact h)]
  rw [List.getElem?_take_of_lt h]

theorem drop_insert_lt {α : Type} (x : α) (l : List α) (d n : Nat) (h : n ≤ d) (hl : d ≤ l.length) :
    (l.take d ++ x :: l.drop d).drop n = (l.drop n).take (d - n) ++ x :: l.drop d := by
  rw [List.drop_append_of_le_length (by simp [Nat.min_eq_left hl]; exact h)]
  congr 1
  rw [List.drop_take]

/-- one point: inserting the partition coordinate of rank `d1` and then that of rank `d2 > d1` (now at depth
    `d2 + 1`) equals inserting them in the other order -/
theorem split_point_comm (s1 s2 d1 d2 : Nat) (p : Point) (h : d1 < d2) (hl : d2 < p.length) :
    let p1 := p.take d1 ++ splitCoord s1 (p.getD d1 []) :: p.drop d1
    let p2 := p.take d2 ++ splitCoord s2 (p.getD d2 []) :: p.drop d2
    p1.take (d2 + 1) ++ splitCoord s2 (p1.getD (d2 + 1) []) :: p1.drop (d2 + 1) =
    p2.take d1 ++ splitCoord s1 (p2.getD d1 []) :: p2.drop d1 := by
  intro p1 p2
  have hd1 : d1 ≤ p.length := by omega
  have hd2 : d2 ≤ p.length := by omega
  have hlen1 : (p.take d1).length = d1 := by simp [Nat.min_eq_left hd1]
  -- right-hand side
  have r1 : p2.take d1 = p.take d1 := take_insert_lt _ p d2 d1 (by omega) hd2
  have r2 : p2.getD d1 [] = p.getD d1 [] := getD_insert_lt _ _ p d2 d1 h hd2
  have r3 : p2.drop d1 = (p.drop d1).take (d2 - d1) ++ splitCoord s2 (p.getD d2 []) :: p.drop d2 :=
    drop_insert_lt _ p d2 d1 (by omega) hd2
  -- left-hand side: p1 = A ++ x :: B with A = p.take d1 (length d1)
  have l1 : p1.take (d2 + 1) = p.take d1 ++ splitCoord s1 (p.getD d1 []) :: (p.drop d1).take (d2 - d1) := by
    show (p.take d1 ++ splitCoord s1 (p.getD d1 []) :: p.drop d1).take (d2 + 1) = _
    rw [List.take_append, hlen1]
    have : d2 + 1 - d1 = (d2 - d1) + 1 := by omega
    rw [this, List.take_succ_cons]
    rw [List.take_of_length_le (by simp [Nat.min_eq_left hd1]; omega)]
  have l2 : p1.getD (d2 + 1) [] = p.getD d2 [] := by
    show (p.take d1 ++ splitCoord s1 (p.getD d1 []) :: p.drop d1).getD (d2 + 1) [] = _
    simp only [List.getD]
    rw [List.getElem?_append_right (by rw [hlen1]; omega), hlen1]
    have : d2 + 1 - d1 = (d2 - d1) + 1 := by omega
    rw [this, List.getElem?_cons_succ, List.getElem?_drop]
    congr 2
    omega
  have l3 : p1.drop (d2 + 1) = p.drop d2 := by
    show (p.take d1 ++ splitCoord s1 (p.getD d1 []) :: p.drop d1).drop (d2 + 1) = _
    rw [List.drop_append, hlen1]
    have : d2 + 1 - d1 = (d2 - d1) + 1 := by omega
    rw [this, List.drop_succ_cons, List.drop_drop]
    rw [List.drop_of_length_le (by simp [Nat.min_eq_left hd1]; omega)]
    simp only [List.nil_append]
    congr 1
    omega
  rw [l1, l2, l3, r1, r2, r3]
  simp [List.append_assoc]

/-- **splits of different ranks of one tensor commute** -/
theorem split_comm (s1 s2 d1 d2 : Nat) (t : Pts) (h : d1 < d2) (hl : ∀ p ∈ t, d2 < p.1.length) :
    splitUniform s2 (d2 + 1) (splitUniform s1 d1 t) = splitUniform s1 d1 (splitUniform s2 d2 t) := by
  unfold splitUniform
  rw [List.map_map, List.map_map]
  apply List.map_congr_left
  intro ⟨p, v⟩ hp
  simp only [Function.comp]
  congr 1
  exact split_point_comm s1 s2 d1 d2 p h (hl _ hp)

/-! ### (b) independent statements commute -/

abbrev Store := String → Int

/-- a statement semantics `f` respects the footprint `(R, W)`: it changes only `W`, and what it writes
    depends only on `R` -/
structure Respects (f : Store → Store) (R W : List String) : Prop where
  frame : ∀ s x, x ∉ W → f s x = s x
  reads : ∀ s s', (∀ x ∈ R, s x = s' x) → ∀ x ∈ W, f s x = f s' x

def Indep (R1 W1 R2 W2 : List String) : Prop :=
  (∀ x ∈ W1, x ∉ R2 ∧ x ∉ W2) ∧ (∀ x ∈ W2, x ∉ R1)

/-- **two adjacent statements with disjoint footprints can be exchanged** -/
theorem swap_indep (f g : Store → Store) (R1 W1 R2 W2 : List String)
    (hf : Respects f R1 W1) (hg : Respects g R2 W2) (hi : Indep R1 W1 R2 W2) (s : Store) :
    g (f s) = f (g s) := by
  funext x
  by_cases h1 : x ∈ W1
  · -- x written by f only
    have hx2 : x ∉ W2 := (hi.1 x h1).2
    rw [hg.frame (f s) x hx2]
    apply hf.reads _ _ _ x h1
    intro y hy
    have : y ∉ W2 := fun hw => (hi.2 y hw) hy
    exact (hg.frame s y this).symm
  · by_cases h2 : x ∈ W2
    · rw [hf.frame (g s) x h1]
      apply hg.reads _ _ _ x h2
      intro y hy
      have : y ∉ W1 := fun hw => (hi.1 y hw).1 hy
      exact hf.frame s y this
    · rw [hg.frame (f s) x h2, hf.frame s x h1, hf.frame (g s) x h1, hg.frame s x h2]

/-- non-vacuity: splitting M (depth 0) then N (depth 1, now 2) of a rank-2 tensor, and the other way round -/
example : splitUniform 2 2 (splitUniform 3 0 [([[4], [5]], 1)]) = splitUniform 3 0 (splitUniform 2 1 [([[4], [5]], 1)]) := by decide

end C08
