import TeaalVerif.FT.Ops
/-!
# C08 — emission-order nondeterminism is benign (partial: the two commutation facts)

The emitted text varies with the interpreter's hash seed in two ways (DESIGN 4.2): (a) the order in which
the partitionings of different ranks of one tensor are applied, (b) the order of independent statements.

* `split_comm`  — (a): splitting two different ranks of one tensor commutes, with the deeper rank's depth
  shifted by the level the shallower split inserts: the two chains `T → split M → split N` and
  `T → split N → split M` produce the same tensor, for every tensor, steps and depths;
* `swap_indep`  — (b): for any statement semantics that respects its footprint (reads only `R`, changes only
  `W`), two adjacent statements with disjoint footprints can be exchanged without changing the final store;
  `perm_indep` lifts it to any reordering reachable by such exchanges.

That each variant text is closed is C06's theorem applied to each text; that all variants compute the same
tensors is observed by executing every distinct text of a specification on identical inputs.
-/
namespace C08
open FT

/-! ### (a) splits of different ranks commute -/

theorem take_insert_lt {α : Type} (x : α) : ∀ (l : List α) (d n : Nat), n ≤ d → d ≤ l.length →
    (l.take d ++ x :: l.drop d).take n = l.take n
  | l, d, n, h, hl => by
    rw [List.take_append_of_le_length (by simp [Nat.min_eq_left hl]; exact h)]
    rw [List.take_take, Nat.min_eq_left h]

theorem getD_insert_lt {α : Type} (x dflt : α) (l : List α) (d n : Nat) (h : n < d) (hl : d ≤ l.length) :
    (l.take d ++ x :: l.drop d).getD n dflt = l.getD n dflt := by
  simp only [List.getD]
  rw [List.getElem?_append_left (by simp [Nat.min_eq_left hl]; exact h)]
  rw [List.getElem?_take_of_lt h]

theorem drop_insert_lt {α : Type} (x : α) (l : List α) (d n : Nat) (h : n ≤ d) (hl : d ≤ l.length) :
    (l.take d ++ x :: l.drop d).drop n = (l.drop n).take (d - n) ++ x :: l.drop d := by
  rw [List.drop_append_of_le_length (by simp [Nat.min_eq_left hl]; exact h)]
  congr 1
  rw [List.drop_take]

/-- one point: inserting the partition coordinate of rank `d1` and then that of rank `d2 > d1` (now at depth
    `d2 + 1`) equals inserting them in the other order -/
theorem split_point_comm (s1 s2 d1 d2 : Nat) (p : Point) (h : d1 < d2) (hl : d2 < p.length) :
    let p1 := p.take d1 ++ splitCoord s1 (p.getD d1 []) :: p.drop d1
    let p2 := p.take d2 ++ splitCoord s2 (p.getD d2 []) :: p.drop d2
    p1.take (d2 + 1) ++ splitCoord s2 (p1.getD (d2 + 1) []) :: p1.drop (d2 + 1) =
    p2.take d1 ++ splitCoord s1 (p2.getD d1 []) :: p2.drop d1 := by
  intro p1 p2
  have hd1 : d1 ≤ p.length := by omega
  have hd2 : d2 ≤ p.length := by omega
  have hlen1 : (p.take d1).length = d1 := by simp [Nat.min_eq_left hd1]
  -- right-hand side
  have r1 : p2.take d1 = p.take d1 := take_insert_lt _ p d2 d1 (by omega) hd2
  have r2 : p2.getD d1 [] = p.getD d1 [] := getD_insert_lt _ _ p d2 d1 h hd2
  have r3 : p2.drop d1 = (p.drop d1).take (d2 - d1) ++ splitCoord s2 (p.getD d2 []) :: p.drop d2 :=
    drop_insert_lt _ p d2 d1 (by omega) hd2
  -- left-hand side: p1 = A ++ x :: B with A = p.take d1 (length d1)
  have l1 : p1.take (d2 + 1) = p.take d1 ++ splitCoord s1 (p.getD d1 []) :: (p.drop d1).take (d2 - d1) := by
    show (p.take d1 ++ splitCoord s1 (p.getD d1 []) :: p.drop d1).take (d2 + 1) = _
    rw [List.take_append, hlen1]
    have : d2 + 1 - d1 = (d2 - d1) + 1 := by omega
    rw [this, List.take_succ_cons]
    rw [List.take_of_length_le (by simp [Nat.min_eq_left hd1]; omega)]
  have l2 : p1.getD (d2 + 1) [] = p.getD d2 [] := by
    show (p.take d1 ++ splitCoord s1 (p.getD d1 []) :: p.drop d1).getD (d2 + 1) [] = _
    simp only [List.getD]
    rw [List.getElem?_append_right (by rw [hlen1]; omega), hlen1]
    have : d2 + 1 - d1 = (d2 - d1) + 1 := by omega
    rw [this, List.getElem?_cons_succ, List.getElem?_drop]
    congr 2
    omega
  have l3 : p1.drop (d2 + 1) = p.drop d2 := by
    show (p.take d1 ++ splitCoord s1 (p.getD d1 []) :: p.drop d1).drop (d2 + 1) = _
    rw [List.drop_append, hlen1]
    have : d2 + 1 - d1 = (d2 - d1) + 1 := by omega
    rw [this, List.drop_succ_cons, List.drop_drop]
    rw [List.drop_of_length_le (by simp [Nat.min_eq_left hd1]; omega)]
    simp only [List.nil_append]
    congr 1
    omega
  rw [l1, l2, l3, r1, r2, r3]
  simp [List.append_assoc]

/-- **splits of different ranks of one tensor commute** -/
theorem split_comm (s1 s2 d1 d2 : Nat) (t : Pts) (h : d1 < d2) (hl : ∀ p ∈ t, d2 < p.1.length) :
    splitUniform s2 (d2 + 1) (splitUniform s1 d1 t) = splitUniform s1 d1 (splitUniform s2 d2 t) := by
  unfold splitUniform
  rw [List.map_map, List.map_map]
  apply List.map_congr_left
  intro ⟨p, v⟩ hp
  simp only [Function.comp]
  congr 1
  exact split_point_comm s1 s2 d1 d2 p h (hl _ hp)

/-! ### (b) independent statements commute -/

abbrev Store := String → Int

/-- a statement semantics `f` respects the footprint `(R, W)`: it changes only `W`, and what it writes
    depends only on `R` -/
structure Respects (f : Store → Store) (R W : List String) : Prop where
  frame : ∀ s x, x ∉ W → f s x = s x
  reads : ∀ s s', (∀ x ∈ R, s x = s' x) → ∀ x ∈ W, f s x = f s' x

def Indep (R1 W1 R2 W2 : List String) : Prop :=
  (∀ x ∈ W1, x ∉ R2 ∧ x ∉ W2) ∧ (∀ x ∈ W2, x ∉ R1)

/-- **two adjacent statements with disjoint footprints can be exchanged** -/
theorem swap_indep (f g : Store → Store) (R1 W1 R2 W2 : List String)
    (hf : Respects f R1 W1) (hg : Respects g R2 W2) (hi : Indep R1 W1 R2 W2) (s : Store) :
    g (f s) = f (g s) := by
  funext x
  by_cases h1 : x ∈ W1
  · -- x written by f only
    have hx2 : x ∉ W2 := (hi.1 x h1).2
    rw [hg.frame (f s) x hx2]
    apply hf.reads _ _ _ x h1
    intro y hy
    have : y ∉ W2 := fun hw => (hi.2 y hw) hy
    exact (hg.frame s y this).symm
  · by_cases h2 : x ∈ W2
    · rw [hf.frame (g s) x h1]
      apply hg.reads _ _ _ x h2
      intro y hy
      have : y ∉ W1 := fun hw => (hi.1 y hw).1 hy
      exact hf.frame s y this
    · rw [hg.frame (f s) x h2, hf.frame s x h1, hf.frame (g s) x h1, hg.frame s x h2]


/-! ### (c) any two emission orders that keep conflicting statements in the same order compute the same store

The statements of a program section, each with its footprint.  Two emission orders of the same statements - e.g. two topological
orders of one dependence graph, chosen by different set-iteration orders - may differ only in the relative order of statements with
disjoint footprints.  Then they compute the same store, from every initial store (the general form of `swap_indep`). -/

structure Stm where
  id : Nat
  f : Store → Store
  R : List String
  W : List String

def runL (l : List Stm) (s : Store) : Store := l.foldl (fun s st => st.f s) s

def IndepS (a b : Stm) : Prop := Indep a.R a.W b.R b.W

theorem IndepS.symm {a b : Stm} (h : IndepS a b) : IndepS b a := by
  obtain ⟨h1, h2⟩ := h
  refine ⟨fun x hx => ⟨h2 x hx, fun hw => (h1 x hw).2 hx⟩, fun x hx => (h1 x hx).1⟩

theorem runL_append (l1 l2 : List Stm) (s : Store) : runL (l1 ++ l2) s = runL l2 (runL l1 s) := by
  simp [runL, List.foldl_append]

/-- a statement independent of everything in front of it can be moved to the front -/
theorem bubble (a : Stm) (ha : Respects a.f a.R a.W) : ∀ (pre : List Stm), (∀ b ∈ pre, Respects b.f b.R b.W) → (∀ b ∈ pre, IndepS b a) →
    ∀ s, runL (pre ++ [a]) s = runL (a :: pre) s
  | [], _, _, _ => rfl
  | b :: pre, hr, hi, s => by
    have ih := bubble a ha pre (fun c hc => hr c (List.mem_cons_of_mem _ hc)) (fun c hc => hi c (List.mem_cons_of_mem _ hc))
    have hb := hr b (by simp)
    have hib := hi b (by simp)
    show runL (pre ++ [a]) (b.f s) = runL pre (b.f (a.f s))
    rw [ih (b.f s)]
    show runL pre (a.f (b.f s)) = runL pre (b.f (a.f s))
    rw [swap_indep b.f a.f b.R b.W a.R a.W hb ha hib s]

/-- `a` comes before `b` in `l` (ids are distinct) -/
def Before (l : List Stm) (a b : Nat) : Prop := ∃ pre mid post x y, l = pre ++ x :: mid ++ y :: post ∧ x.id = a ∧ y.id = b

theorem mem_split_id (l : List Stm) (a : Stm) (h : a ∈ l) : ∃ pre post, l = pre ++ a :: post := List.append_of_mem h

/-- **two orders of the same statements that agree on every conflicting pair compute the same store** -/
theorem reorder_sound : ∀ (l1 l2 : List Stm), l1.Perm l2 → (l1.map (·.id)).Nodup → (∀ a ∈ l1, Respects a.f a.R a.W) →
    (∀ a ∈ l1, ∀ b ∈ l1, ¬ IndepS a b → Before l1 a.id b.id → Before l2 a.id b.id) → ∀ s, runL l1 s = runL l2 s
  | [], l2, hp, _, _, _, s => by
    have : l2 = [] := List.Perm.eq_nil (hp.symm)
    rw [this]
  | a :: t1, l2, hp, hnd, hr, hord, s => by
    have ha2 : a ∈ l2 := hp.subset (by simp)
    obtain ⟨pre, post, hl2⟩ := mem_split_id l2 a ha2
    subst hl2
    have hnd' : a.id ∉ t1.map (·.id) ∧ (t1.map (·.id)).Nodup := List.nodup_cons.1 (by rw [List.map_cons] at hnd; exact hnd)
    -- ids of `l2` are distinct too
    have hnd2 : ((pre ++ a :: post).map (·.id)).Nodup := (hp.map _).nodup_iff.1 hnd
    -- everything in front of `a` in `l2` is independent of `a`
    have hpre : ∀ b ∈ pre, IndepS b a := by
      intro b hb
      apply Classical.byContradiction
      intro hni
      have hb1 : b ∈ a :: t1 := hp.symm.subset (by simp [hb])
      have hba : b ≠ a := by
        intro e
        subst e
        -- `b = a` would occur twice in `l2`
        rw [List.map_append, List.map_cons] at hnd2
        have := (List.nodup_append.1 hnd2).2.2 b.id (List.mem_map.2 ⟨b, hb, rfl⟩) b.id (by simp)
        exact this rfl
      have hbt : b ∈ t1 := by
        rcases List.mem_cons.1 hb1 with e | e
        · exact absurd e hba
        · exact e
      -- in `l1`, `a` is before `b`
      obtain ⟨m1, m2, hm⟩ := List.append_of_mem hbt
      have hbef1 : Before (a :: t1) a.id b.id := ⟨[], m1, m2, a, b, by simp [hm], rfl, rfl⟩
      have hni' : ¬ IndepS a b := fun h => hni h.symm
      obtain ⟨p2, mid2, post2, x, y, he, hx, hy⟩ := hord a (by simp) b hb1 hni' hbef1
      -- but in `l2`, `b ∈ pre` is before `a`: contradiction with distinct ids
      obtain ⟨q1, q2, hq⟩ := List.append_of_mem hb
      -- positions of ids in l2 are unique: compare the two decompositions through `idxOf`
      have hids : (pre ++ a :: post).map (·.id) = (q1.map (·.id)) ++ b.id :: (q2.map (·.id) ++ a.id :: post.map (·.id)) := by
        rw [hq]; simp
      have hids2 : (pre ++ a :: post).map (·.id) = (p2.map (·.id)) ++ a.id :: (mid2.map (·.id) ++ b.id :: post2.map (·.id)) := by
        rw [he]; simp [hx, hy]
      have hnd3 := hnd2
      rw [hids] at hnd3
      -- index of a.id: in the first decomposition it lies after b.id, in the second before
      have hne : a.id ≠ b.id := by
        intro e
        have := (List.nodup_append.1 hnd3).2.1
        simp only [List.nodup_cons, List.mem_append, List.mem_cons, not_or] at this
        exact this.1.2.1 e.symm
      have e1 : ((pre ++ a :: post).map (·.id)).idxOf b.id < ((pre ++ a :: post).map (·.id)).idxOf a.id := by
        have hb_not : b.id ∉ q1.map (·.id) := fun hm => (List.nodup_append.1 hnd3).2.2 b.id hm b.id (by simp) rfl
        have ha_not : a.id ∉ q1.map (·.id) := fun hm => (List.nodup_append.1 hnd3).2.2 a.id hm a.id (by simp) rfl
        rw [hids, List.idxOf_append, if_neg hb_not, List.idxOf_append, if_neg ha_not]
        simp only [List.idxOf_cons_self]
        rw [List.idxOf_cons]
        have : (b.id == a.id) = false := by simpa using fun e : b.id = a.id => hne e.symm
        rw [this]
        simp only [cond_false]
        omega
      have e2 : ((pre ++ a :: post).map (·.id)).idxOf a.id < ((pre ++ a :: post).map (·.id)).idxOf b.id := by
        have hnd4 := hnd2
        rw [hids2] at hnd4
        have ha_not : a.id ∉ p2.map (·.id) := fun hm => (List.nodup_append.1 hnd4).2.2 a.id hm a.id (by simp) rfl
        have hb_not : b.id ∉ p2.map (·.id) := fun hm => (List.nodup_append.1 hnd4).2.2 b.id hm b.id (by simp) rfl
        rw [hids2, List.idxOf_append, if_neg ha_not, List.idxOf_append, if_neg hb_not]
        simp only [List.idxOf_cons_self]
        rw [List.idxOf_cons]
        have : (a.id == b.id) = false := by simpa using hne
        rw [this]
        simp only [cond_false]
        omega
      omega
    have hrp : ∀ b ∈ pre, Respects b.f b.R b.W := fun b hb => hr b (hp.symm.subset (by simp [hb]))
    -- move `a` to the front of `l2`
    have hmove : runL (pre ++ a :: post) s = runL (a :: (pre ++ post)) s := by
      have : pre ++ a :: post = (pre ++ [a]) ++ post := by simp
      rw [this, runL_append, bubble a (hr a (by simp)) pre hrp hpre s]
      show runL post (runL (a :: pre) s) = runL (pre ++ post) (a.f s)
      rw [runL_append]
      rfl
    rw [hmove]
    show runL t1 (a.f s) = runL (pre ++ post) (a.f s)
    -- the tails: still a permutation, still agreeing on conflicting pairs
    have hp' : t1.Perm (pre ++ post) := by
      have := (List.perm_middle (l₁ := pre) (l₂ := post) (a := a))
      exact (List.Perm.cons_inv (hp.trans this))
    apply reorder_sound t1 (pre ++ post) hp' hnd'.2 (fun c hc => hr c (List.mem_cons_of_mem _ hc))
    intro x hx y hy hni hbef
    obtain ⟨p1, m1, q1, x', y', he, hx', hy'⟩ := hbef
    have hbef1 : Before (a :: t1) x.id y.id := ⟨a :: p1, m1, q1, x', y', by simp [he], hx', hy'⟩
    obtain ⟨p2, m2, q2, x2, y2, he2, hx2, hy2⟩ := hord x (List.mem_cons_of_mem _ hx) y (List.mem_cons_of_mem _ hy) hni hbef1
    -- remove `a` from the decomposition of `l2`: `a` is neither `x2` nor `y2` (distinct ids, x y ∈ t1)
    have hax : a.id ≠ x.id := fun e => hnd'.1 (by rw [e]; exact List.mem_map.2 ⟨x, hx, rfl⟩)
    have hay : a.id ≠ y.id := fun e => hnd'.1 (by rw [e]; exact List.mem_map.2 ⟨y, hy, rfl⟩)
    -- erase `a` (by id) from both sides of he2
    have herase : ∀ l : List Stm, (l.filter fun z => z.id != a.id) = l.filter fun z => z.id != a.id := fun _ => rfl
    have hf2 := congrArg (fun l : List Stm => l.filter fun z => z.id != a.id) he2
    simp only [List.filter_append, List.filter_cons] at hf2
    have hpre_f : (pre.filter fun z => z.id != a.id) = pre := by
      apply List.filter_eq_self.2
      intro z hz
      have : z.id ≠ a.id := by
        intro e
        rw [List.map_append, List.map_cons] at hnd2
        exact (List.nodup_append.1 hnd2).2.2 z.id (List.mem_map.2 ⟨z, hz, rfl⟩) a.id (by simp) e
      simpa using this
    have hpost_f : (post.filter fun z => z.id != a.id) = post := by
      apply List.filter_eq_self.2
      intro z hz
      have : z.id ≠ a.id := by
        intro e
        rw [List.map_append, List.map_cons] at hnd2
        have h2 := (List.nodup_append.1 hnd2).2.1
        simp only [List.nodup_cons, List.mem_map] at h2
        exact h2.1 ⟨z, hz, e⟩
      simpa using this
    have hx2n : (x2.id != a.id) = true := by
      rw [hx2]; simpa using fun e : x.id = a.id => hax e.symm
    have hy2n : (y2.id != a.id) = true := by
      rw [hy2]; simpa using fun e : y.id = a.id => hay e.symm
    simp only [hpre_f, hpost_f, bne_self_eq_false, Bool.false_eq_true, if_false, hx2n, hy2n, if_true] at hf2
    exact ⟨_, _, _, x2, y2, hf2, hx2, hy2⟩
termination_by l1 => l1.length

-- non-vacuity: three statements, the two independent ones exchanged
example : runL [⟨0, fun s => fun x => if x = "a" then 1 else s x, [], ["a"]⟩, ⟨1, fun s => fun x => if x = "b" then 2 else s x, [], ["b"]⟩,
    ⟨2, fun s => fun x => if x = "c" then s "a" + s "b" else s x, ["a", "b"], ["c"]⟩] (fun _ => 0) "c" = 3 := by decide

/-- non-vacuity: splitting M (depth 0) then N (depth 1, now 2) of a rank-2 tensor, and the other way round -/
example : splitUniform 2 2 (splitUniform 3 0 [([[4], [5]], 1)]) = splitUniform 3 0 (splitUniform 2 1 [([[4], [5]], 1)]) := by decide

end C08
