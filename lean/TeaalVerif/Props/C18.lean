import TeaalVerif.IR.Legality
/-!
# C18 — stated legality rules are enforced for every instance (guard level)

For every instance of a rule, stated as the property words it, the guard written from the code fires:

* `dup_rejected`      — a declaration that lists a rank twice (any position, any length)
* `terms_rejected`    — some term ranges over a rank another term does not (any term, any rank)
* `nway_rejected`     — an n-way split anywhere after an occupancy split anywhere earlier in the stack
* `flatten_*`         — flatten() combined with other directives / on fewer than two ranks / on an
                        index-math rank / on a rank that is also partitioned on its own / on an already
                        flattened rank; a non-flatten directive on a rank tuple
* `shape_after_flatten_rejected`
-/
namespace C18
open Legality

theorem dedup_length_le : ∀ l : List String, (dedup l).length ≤ l.length
  | [] => by simp [dedup]
  | a :: as => by
    simp only [dedup]
    split
    · have := dedup_length_le as; simp; omega
    · have := dedup_length_le as; simp; omega

theorem dedup_length_lt_of_dup : ∀ l : List String, ¬ l.Nodup → (dedup l).length < l.length
  | [], h => by simp at h
  | a :: as, h => by
    simp only [dedup]
    by_cases ha : as.contains a = true
    · simp only [ha, if_true]
      have := dedup_length_le as
      simp; omega
    · simp only [ha, Bool.false_eq_true, if_false]
      have hnd : ¬ as.Nodup := by
        intro hn
        apply h
        rw [List.nodup_cons]
        exact ⟨by simpa using ha, hn⟩
      have := dedup_length_lt_of_dup as hnd
      simp; omega

/-- duplicate rank in a declaration (or repeated tensor name in an Einsum) -/
theorem dup_rejected (ranks : List String) (h : ¬ ranks.Nodup) : dupGuard ranks = true := by
  simp only [dupGuard, decide_eq_true_eq]
  exact dedup_length_lt_of_dup ranks h

/-- a legal declaration passes (the guard does not over-reject) -/
theorem nodup_accepted : ∀ ranks : List String, ranks.Nodup → dupGuard ranks = false
  | [], _ => by simp [dupGuard, dedup]
  | a :: as, h => by
    have h' := List.nodup_cons.1 h
    have ih := nodup_accepted as h'.2
    simp only [dupGuard, decide_eq_false_iff_not, Nat.not_lt, gt_iff_lt] at ih ⊢
    simp only [dedup]
    have : as.contains a = false := by simpa using h'.1
    simp only [this, Bool.false_eq_true, if_false, List.length_cons]
    omega

/-- terms ranging over different rank sets -/
theorem terms_rejected (t0 : List String) (ts : List (List String))
    (h : ∃ t ∈ ts, ∃ x, (x ∈ t ∧ x ∉ t0) ∨ (x ∈ t0 ∧ x ∉ t)) : termGuard (t0 :: ts) = true := by
  obtain ⟨t, ht, x, hx⟩ := h
  simp only [termGuard, List.any_eq_true]
  refine ⟨t, ht, ?_⟩
  simp only [sameCounter, Bool.not_eq_eq_eq_not, Bool.not_true, decide_eq_false_iff_not]
  intro hp
  rcases hx with ⟨h1, h2⟩ | ⟨h1, h2⟩
  · exact h2 (hp.mem_iff.1 h1)
  · exact h2 (hp.mem_iff.2 h1)

theorem nwayAux_true_of_mem (ds : List Dir) (h : Dir.nway ∈ ds) : nwayAfterDynAux true ds = true := by
  induction ds with
  | nil => simp at h
  | cons d ds ih =>
    simp only [nwayAfterDynAux]
    by_cases hs : d.static = true
    · simp only [hs, Bool.not_true, Bool.false_eq_true, if_false, Bool.and_true]
      by_cases hd : d = .nway
      · simp [hd]
      · simp only [hd, decide_false, Bool.false_eq_true, if_false]
        rcases List.mem_cons.1 h with h | h
        · exact absurd h.symm hd
        · exact ih h
    · have : d ≠ .nway := by intro e; rw [e] at hs; simp [Dir.static] at hs
      simp only [hs, Bool.not_false, if_true]
      rcases List.mem_cons.1 h with h | h
      · exact absurd h.symm this
      · exact ih h

/-- an n-way split after an occupancy split: `pre ++ [occ] ++ mid ++ [nway] ++ post`, any `pre mid post` -/
theorem nway_rejected (pre mid post : List Dir) :
    nwayAfterDyn (pre ++ (.occ :: (mid ++ (.nway :: post)))) = true := by
  unfold nwayAfterDyn
  have key : ∀ (b : Bool) (pre : List Dir), nwayAfterDynAux b (pre ++ (.occ :: (mid ++ (.nway :: post)))) = true := by
    intro b pre
    induction pre generalizing b with
    | nil =>
      simp only [List.nil_append, nwayAfterDynAux, Dir.static, Bool.not_false, if_true]
      exact nwayAux_true_of_mem _ (by simp)
    | cons d ds ih =>
      simp only [List.cons_append, nwayAfterDynAux]
      split
      · exact ih _
      · split
        · rfl
        · exact ih _
  exact key false pre

/-- a non-flatten directive stack on a rank tuple -/
theorem tuple_without_flatten_rejected (key : List String) (ops : List Dir) (im ap : String → Bool) (orig all : List String)
    (hk : key.length ≠ 1) (hf : Dir.flatten ∉ ops) : checkFlatten key ops im ap orig all = some .tupleWithoutFlatten := by
  simp [checkFlatten, hf, hk]

theorem flatten_combined_rejected (key : List String) (ops : List Dir) (im ap : String → Bool) (orig all : List String)
    (hf : Dir.flatten ∈ ops) (hl : ops.length > 1) : checkFlatten key ops im ap orig all = some .combined := by
  simp [checkFlatten, hf, hl]

theorem flatten_few_rejected (key : List String) (im ap : String → Bool) (orig all : List String)
    (hk : key.length < 2) : checkFlatten key [.flatten] im ap orig all = some .fewerThanTwo := by
  simp [checkFlatten, hk]

theorem flatten_index_math_rejected (key : List String) (im ap : String → Bool) (orig all : List String)
    (hk : 2 ≤ key.length) (r : String) (hr : r ∈ key) (hi : im r = true) :
    checkFlatten key [.flatten] im ap orig all = some .indexMath := by
  have h2 : ¬ key.length < 2 := by omega
  have : key.any im = true := List.any_eq_true.2 ⟨r, hr, hi⟩
  simp [checkFlatten, h2, this]

/-- flattening a rank that is also partitioned on its own, or an already flattened rank: rejected
    (with one of the flatten errors) -/
theorem flatten_bad_rank_rejected (key : List String) (im ap : String → Bool) (orig all : List String)
    (r : String) (hr : r ∈ key)
    (hbad : ap r = true ∨ (orig.contains r = false ∧ all.contains r = true)) :
    (checkFlatten key [.flatten] im ap orig all).isSome = true := by
  unfold checkFlatten
  simp only [List.contains_cons, List.contains_nil, Bool.or_false, beq_self_eq_true, Bool.not_true,
    Bool.false_eq_true, if_false, List.length_cons, List.length_nil]
  split
  · rfl
  · split
    · rfl
    · split
      · rfl
      · rw [List.findSome?_isSome_iff]
        refine ⟨r, hr, ?_⟩
        rcases hbad with h | ⟨h1, h2⟩
        · simp [h]
        · by_cases ha : ap r = true
          · simp [ha]
          · have h1' : r ∉ orig := by simpa using h1
            have h2' : r ∈ all := by simpa using h2
            simp [ha, h1', h2']

theorem shape_after_flatten_rejected (source : String) (ops : List Dir) (orig : List String)
    (hs : ∃ d ∈ ops, d = .shape ∨ d = .nway) (hn : source ∉ orig) : staticAfterFlat source ops orig = true := by
  obtain ⟨d, hd, hk⟩ := hs
  simp only [staticAfterFlat, Bool.and_eq_true, List.any_eq_true, Bool.not_eq_eq_eq_not, Bool.not_true]
  refine ⟨⟨d, hd, ?_⟩, by simpa using hn⟩
  rcases hk with rfl | rfl <;> rfl

/-- non-vacuity -/
example : dupGuard ["K", "M", "K"] = true ∧ dupGuard ["K", "M"] = false := by decide
example : nwayAfterDyn [.shape, .occ, .shape, .nway] = true ∧ nwayAfterDyn [.nway, .occ] = false := by decide
example : checkFlatten ["K", "M"] [.flatten] (fun _ => false) (fun _ => false) ["K", "M", "N"] ["K", "M", "N", "KM"] = none := by
  decide

/-! ### undeclared tensors, Einsums without an accelerator configuration -/

/-- an Einsum that names a tensor (at any position) which the declaration does not list is rejected -/
theorem undeclared_rejected (declared used : List String) (t : String) (ht : t ∈ used) (hn : t ∉ declared) :
    undeclGuard declared used = true := by
  simp only [undeclGuard, List.any_eq_true]
  exact ⟨t, ht, by simpa using hn⟩

theorem declared_accepted (declared used : List String) (h : ∀ t ∈ used, t ∈ declared) : undeclGuard declared used = false := by
  simp only [undeclGuard, List.any_eq_false]
  intro t ht
  simpa using h t ht

theorem configLoop_true (bs : List Bool) : configLoop true bs = true := by
  induction bs with
  | nil => rfl
  | cons b bs ih => simpa [configLoop] using ih

theorem configLoop_false_iff : ∀ bs : List Bool, configLoop false bs = false ↔ ∀ b ∈ bs, b = false
  | [] => by simp [configLoop]
  | b :: bs => by
    cases b with
    | true => simp [configLoop, configLoop_true]
    | false => simpa [configLoop] using configLoop_false_iff bs

/-- an Einsum (at any position of the bindings, whatever the other Einsums carry) none of whose entries carries a `config` is
    rejected -/
theorem missing_config_rejected : ∀ (es : List (List Bool)) (e : List Bool), e ∈ es → (∀ b ∈ e, b = false) → configGuard es = true
  | [], _, h, _ => by simp at h
  | e0 :: es, e, h, hf => by
    simp only [configGuard]
    by_cases h0 : configLoop false e0 = false
    · simp [h0]
    · have h0' : configLoop false e0 = true := by simpa using h0
      simp only [h0', Bool.not_true, Bool.false_eq_true, if_false]
      rcases List.mem_cons.1 h with rfl | h'
      · exact absurd ((configLoop_false_iff e).2 hf) h0
      · exact missing_config_rejected es e h' hf

/-- bindings in which every Einsum carries a `config` entry pass -/
theorem configured_accepted : ∀ es : List (List Bool), (∀ e ∈ es, ∃ b ∈ e, b = true) → configGuard es = false
  | [], _ => rfl
  | e0 :: es, h => by
    simp only [configGuard]
    have h0 : configLoop false e0 = true := by
      obtain ⟨b, hb, rfl⟩ := h e0 (by simp)
      cases hc : configLoop false e0 with
      | true => rfl
      | false => exact absurd ((configLoop_false_iff e0).1 hc true hb) (by simp)
    simp only [h0, Bool.not_true, Bool.false_eq_true, if_false]
    exact configured_accepted es (fun e he => h e (List.mem_cons_of_mem _ he))

/-- non-vacuity: the second of three Einsums lacks a configuration -/
example : configGuard [[true, false], [false, false], [false, true]] = true := by decide


/-! ### output ranks must be reached by the loops, in order (a loop order that projects into the output) -/

/-- the rule as a specification: every output rank gets a loop position at which it is available, positions strictly increasing
    in the order of the output's ranks (nondeterministic: at each position the pending rank may be placed, if available, or the
    position skipped) -/
def Emb (ready : String → Nat → Bool) : List String → Nat → Nat → Prop
  | [], _, _ => True
  | _ :: _, _, 0 => False
  | r :: rs, pos, fuel + 1 => (ready r pos = true ∧ Emb ready rs (pos + 1) fuel) ∨ Emb ready (r :: rs) (pos + 1) fuel

/-- fewer ranks are easier to place -/
theorem Emb_tail (ready : String → Nat → Bool) : ∀ (fuel : Nat) (r : String) (rs : List String) (pos : Nat),
    Emb ready (r :: rs) pos fuel → Emb ready rs pos fuel
  | 0, _, _, _, h => by simp [Emb] at h
  | fuel + 1, r, rs, pos, h => by
    -- a window one position longer at the front never hurts
    have grow : ∀ (f : Nat) (l : List String) (p : Nat), Emb ready l (p + 1) f → Emb ready l p (f + 1) := by
      intro f l p hl
      cases l with
      | nil => simp [Emb]
      | cons a as => exact Or.inr hl
    rcases h with ⟨_, h2⟩ | h2
    · exact grow fuel rs pos h2
    · exact grow fuel rs pos (Emb_tail ready fuel r rs (pos + 1) h2)

/-- **the greedy scan of `Header.__make_shape` is complete**: it places every output rank iff a placement exists at all -/
theorem outScan_iff (ready : String → Nat → Bool) : ∀ (fuel : Nat) (rs : List String) (pos : Nat),
    outScan ready rs pos fuel = [] ↔ Emb ready rs pos fuel
  | _, [], _ => by cases ‹Nat› <;> simp [outScan, Emb]
  | 0, r :: rs, pos => by simp [outScan, Emb]
  | fuel + 1, r :: rs, pos => by
    simp only [outScan, Emb]
    by_cases hr : ready r pos = true
    · rw [if_pos hr, outScan_iff ready fuel rs (pos + 1)]
      constructor
      · intro h; exact Or.inl ⟨hr, h⟩
      · rintro (⟨_, h⟩ | h)
        · exact h
        · exact Emb_tail ready fuel r rs (pos + 1) h
    · rw [if_neg hr, outScan_iff ready fuel (r :: rs) (pos + 1)]
      constructor
      · intro h; exact Or.inr h
      · rintro (⟨h, _⟩ | h)
        · exact absurd h hr
        · exact h

/-- every instance of the rule is rejected: no in-order placement of the output's ranks on the loops -/
theorem out_rank_unreached_rejected (ready : String → Nat → Bool) (ranks : List String) (n : Nat) (h : ¬ Emb ready ranks 0 n) :
    outRankGuard ready ranks n = true := by
  simp only [outRankGuard, Bool.not_eq_true', List.isEmpty_eq_false_iff]
  intro e
  exact h ((outScan_iff ready n ranks 0).1 e)

/-- ... and a loop order that reaches every output rank in order passes (the guard does not over-reject) -/
theorem out_rank_reached_accepted (ready : String → Nat → Bool) (ranks : List String) (n : Nat) (h : Emb ready ranks 0 n) :
    outRankGuard ready ranks n = false := by
  simp only [outRankGuard, Bool.not_eq_false', List.isEmpty_iff]
  exact (outScan_iff ready n ranks 0).2 h

-- O[p, q] with loops [W, S, P]: P is available at the third loop, Q at none
example : outRankGuard (fun r pos => r == "P" && pos == 2) ["P", "Q"] 3 = true := by decide
example : outRankGuard (fun r pos => (r == "P" && pos == 0) || (r == "Q" && pos == 1)) ["P", "Q"] 3 = false := by decide
example : Emb (fun r pos => (r == "P" && pos == 0) || (r == "Q" && pos == 1)) ["P", "Q"] 0 3 := by simp [Emb]

end C18
