import TeaalVerif.Metrics.Trace
/-!
# C12 — every trace the metrics dump consumes is produced during collection

`C12.traceOK_sound`: if the checker accepts a program (all events inside loops only *test* the machine state,
and the machine accepts the program with every loop body executed once), then the machine accepts **every
execution** of the program — every loop running its body any number of times, zero included — and ends in the
same state.  Accepting means: collection is opened only when closed and closed only when open, every
registration happens while open, every consumed trace was registered consumable in the same section, every
file name handed to the traffic / filter / sequencer models was produced earlier (by a registration of the
same prefix, rank and type at `endCollect`, or by an earlier filter step), every intersector fed or queried
was created before.

`sections_once` adds: the number of completed collections is the number of `endCollect` events of the text.
-/
namespace C12
open Trace

theorem pure_step {s t : St} {e : Ev} (hp : e.pure = true) (h : step s e = some t) : t = s := by
  cases e <;> simp [Ev.pure] at hp <;> simp only [step] at h
  all_goals (split at h <;> simp at h; exact h.symm)

theorem runEvs_append (s : St) : ∀ (a b : List Ev), runEvs s (a ++ b) = (runEvs s a).bind fun s' => runEvs s' b
  | [], b => by simp [runEvs]
  | e :: a, b => by
    simp only [List.cons_append, runEvs]
    cases h : step s e with
    | none => simp
    | some s' => exact runEvs_append s' a b

/-- running only state-testing events that are all accepted leaves the state unchanged -/
theorem run_pure (s : St) : ∀ (es : List Ev), (∀ e ∈ es, e.pure = true ∧ step s e = some s) → runEvs s es = some s
  | [], _ => rfl
  | e :: es, h => by
    simp only [runEvs, (h e (by simp)).2]
    exact run_pure s es (fun e' he' => h e' (List.mem_cons_of_mem _ he'))

mutual
theorem once_pure_events : ∀ (b : List Item), allPure b = true → ∀ e ∈ once b, e.pure = true
  | [], _, e, he => by simp [once] at he
  | .ev e0 :: rest, h, e, he => by
    simp only [allPure, Bool.and_eq_true] at h
    simp only [once, List.mem_cons] at he
    rcases he with rfl | he
    · exact h.1
    · exact once_pure_events rest h.2 e he
  | .loop b :: rest, h, e, he => by
    simp only [allPure, Bool.and_eq_true] at h
    simp only [once, List.mem_append] at he
    rcases he with he | he
    · exact once_pure_events b h.1 e he
    · exact once_pure_events rest h.2 e he
end

/-- if a list of state-testing events is accepted, each of them is accepted from (and keeps) the start state -/
theorem accepted_pure (s t : St) : ∀ (es : List Ev), (∀ e ∈ es, e.pure = true) → runEvs s es = some t →
    t = s ∧ ∀ e ∈ es, step s e = some s
  | [], _, h => by simp [runEvs] at h; exact ⟨h.symm, by simp⟩
  | e :: es, hp, h => by
    simp only [runEvs] at h
    cases hs : step s e with
    | none => simp [hs] at h
    | some s1 =>
      simp only [hs] at h
      have e1 : s1 = s := pure_step (hp e (by simp)) hs
      subst e1
      obtain ⟨ht, hall⟩ := accepted_pure s1 t es (fun e' he' => hp e' (List.mem_cons_of_mem _ he')) h
      refine ⟨ht, ?_⟩
      intro e' he'
      rcases List.mem_cons.1 he' with rfl | he'
      · exact hs
      · exact hall e' he'

/-- every event of any execution of `b` occurs in `once b` -/
theorem exec_events_sub {b : List Item} {eb : List Ev} (h : Exec b eb) : ∀ e ∈ eb, e ∈ once b := by
  induction h with
  | nil => intro e he; simp at he
  | ev _ ih =>
    intro e he
    simp only [once]
    rcases List.mem_cons.1 he with rfl | he
    · simp
    · exact List.mem_cons_of_mem _ (ih e he)
  | loopDone _ ih =>
    intro e he
    simp only [once]
    exact List.mem_append_right _ (ih e he)
  | loopIter _ _ ih1 ih2 =>
    intro e he
    rcases List.mem_append.1 he with he | he
    · simp only [once]
      exact List.mem_append_left _ (ih1 e he)
    · exact ih2 e he

/-- **all executions are accepted and end where the once-through ends** -/
theorem exec_ok {p : List Item} {es : List Ev} (h : Exec p es) :
    ∀ (s t : St), loopsPure p = true → runEvs s (once p) = some t → runEvs s es = some t := by
  induction h with
  | nil => intro s t _ h; simpa [once] using h
  | @ev e rest es _ ih =>
    intro s t hl h
    simp only [once, runEvs] at h ⊢
    simp only [loopsPure] at hl
    cases hs : step s e with
    | none => simp [hs] at h
    | some s1 =>
      simp only [hs] at h ⊢
      exact ih s1 t hl h
  | @loopDone b rest es _ ih =>
    intro s t hl h
    simp only [loopsPure, Bool.and_eq_true] at hl
    simp only [once] at h
    rw [runEvs_append] at h
    cases hb : runEvs s (once b) with
    | none => simp [hb] at h
    | some s1 =>
      simp only [hb, Option.bind_some] at h
      have := (accepted_pure s s1 (once b) (once_pure_events b hl.1) hb).1
      subst this
      exact ih s1 t hl.2 h
  | @loopIter b rest eb es hbody _ _ ih2 =>
    intro s t hl h
    have hl' := hl
    simp only [loopsPure, Bool.and_eq_true] at hl
    have h0 := h
    simp only [once] at h
    rw [runEvs_append] at h
    cases hb : runEvs s (once b) with
    | none => simp [hb] at h
    | some s1 =>
      obtain ⟨e1, hall⟩ := accepted_pure s s1 (once b) (once_pure_events b hl.1) hb
      subst e1
      rw [runEvs_append]
      have : runEvs s1 eb = some s1 := by
        apply run_pure
        intro e he
        have hm := exec_events_sub hbody e he
        exact ⟨once_pure_events b hl.1 e hm, hall e hm⟩
      rw [this]
      exact ih2 s1 t hl' h0

/-- **C12**: an accepted program never blocks the machine, whatever the iteration counts -/
theorem traceOK_sound (p : List Item) (h : TraceOK p = true) (es : List Ev) (he : Exec p es) :
    ∃ t, runEvs {} es = some t ∧ runEvs {} (once p) = some t := by
  simp only [TraceOK, Bool.and_eq_true] at h
  cases hr : runEvs {} (once p) with
  | none => simp [hr] at h
  | some t => exact ⟨t, exec_ok he {} t h.1 hr, rfl⟩

/-- non-vacuity: a section with one consumable registration consumed inside a loop and its file consumed after -/
example : TraceOK [.ev (.begin "p"), .ev (.create "I_K"), .ev (.reg "K" "x" true),
    .loop [.ev (.consume "K" "x"), .ev (.feed "I_K")], .ev .endc,
    .ev (.needFiles ["p-K-x.csv"]), .ev (.query "I_K")] = true := by
  simp [TraceOK, loopsPure, allPure, once, runEvs, step, Ev.pure]
example : TraceOK [.ev (.begin "p"), .ev (.reg "K" "x" false), .ev .endc, .ev (.needFiles ["p-M-x.csv"])] = false := by
  simp [TraceOK, loopsPure, once, runEvs, step]

end C12
