import TeaalVerif.Props.C03Static
/-!
# C03 — several occupancy levels: a chain of dynamic splits, each executed inside the loops of the previous one

`kinOf out levels rs es` is the emitted computation over the remaining loops `rs`: the loops that precede the next split,
the split of the fibers reached there, and so on; after the last split the remaining loops run to the update.
`C03.chain_equiv`: on every state the enclosing loops can hand over it accumulates what the dense loops of the
(at this point still unsplit) Einsum accumulate.  `C03.chain_nest`: hence the whole nest computes the Einsum's meaning.
-/
namespace C03
open Nest C01 C02

/-- one product term whose operands sit at the rank lists `ranks` relative to the remaining loops -/
def InvR (ranks : List (List String)) (loopN : List String) (loopE : List Nat) (sts : List TermSt) : Prop :=
  ∃ st, sts = [st] ∧ st.kind = .times ∧ st.ops.length = ranks.length ∧
    (∀ (i : Nat) (aR : List String) (o : Operand), ranks[i]? = some aR → st.ops[i]? = some o →
      o.sched = schedOf loopN aR ∧ ∀ p ∈ o.pts, p.1.length = (concord loopN aR).length) ∧
    ∀ o ∈ st.ops, OpBounded loopE o

theorem invR_step (ranks : List (List String)) (r : String) (L : List String) (e : Nat) (E : List Nat)
    (sts : List TermSt) (c : Nat) (h : InvR ranks (r :: L) (e :: E) sts) : InvR ranks L E (sts.map (TermSt.step c)) := by
  obtain ⟨st, rfl, hk, hl, hso, hb⟩ := h
  refine ⟨st.step c, rfl, hk, by simpa [TermSt.step] using hl, ?_, ?_⟩
  · intro i aR o' hx ho'
    simp only [TermSt.step, List.getElem?_map] at ho'
    cases hoi : st.ops[i]? with
    | none => rw [hoi] at ho'; simp at ho'
    | some o =>
      rw [hoi] at ho'
      simp at ho'; subst ho'
      obtain ⟨hs, har⟩ := hso i aR o hx hoi
      have hs' : o.sched = aR.contains r :: schedOf L aR := by rw [hs]; rfl
      refine ⟨by simp [Operand.step, hs'], ?_⟩
      intro p hp
      by_cases hm : aR.contains r = true
      · have hact : o.active = true := by
          unfold Operand.active; rw [hs']; simp only [List.head?_cons]; rw [hm]; rfl
        have hpts : (o.step c).pts = slice c o.pts := by
          show (if o.active then slice c o.pts else o.pts) = slice c o.pts
          rw [hact]; rfl
        rw [hpts] at hp
        obtain ⟨tl, v⟩ := p
        have := har (c :: tl, v) (mem_slice.1 hp)
        rw [concord_cons_mem hm] at this
        simpa using this
      · have hm' : aR.contains r = false := by simpa using hm
        have hact : o.active = false := by
          unfold Operand.active; rw [hs']; simp only [List.head?_cons]; rw [hm']; rfl
        have hpts : (o.step c).pts = o.pts := by
          show (if o.active then slice c o.pts else o.pts) = o.pts
          rw [hact]; rfl
        rw [hpts] at hp
        have := har p hp
        rw [concord_cons_not_mem hm'] at this
        exact this
  · intro o' ho'
    simp only [TermSt.step, List.mem_map] at ho'
    obtain ⟨o, ho, rfl⟩ := ho'
    exact opBounded_step c e _ o (hb o ho)

structure DynLevel where
  preN : List String
  preE : List Nat
  D : DynSpec

def kinOf (out : List String) : List DynLevel → List String → List Nat → List TermSt → List (List Nat × Int)
  | [], rs, es => run (lv out rs es)
  | L :: Ls, _, _ => runK (fun s => kinOf (renameRanks L.D.K L.D.K0 out) Ls L.D.rs' L.D.es' (dynStates L.D s)) (lv out L.preN L.preE)

def ChainOK : List String → List DynLevel → List (List String) → List String → List Nat → Prop
  | _, [], _, rs, es => es.length = rs.length
  | out, L :: Ls, ranks, rs, es =>
      rs = L.preN ++ L.D.rsU ∧ es = L.preE ++ L.D.esU ∧ L.preE.length = L.preN.length ∧
      DynOKd L.D out (ranks.map (concord L.D.rsU)) ∧
      ChainOK (renameRanks L.D.K L.D.K0 out) Ls (ranks.map fun aR => splitRanks L.D.K L.D.K1 L.D.K0 (concord L.D.rsU aR)) L.D.rs' L.D.es'

instance instDecChainOK : ∀ (out : List String) (levels : List DynLevel) (ranks : List (List String)) (rs : List String) (es : List Nat),
    Decidable (ChainOK out levels ranks rs es)
  | _, [], _, _, _ => by unfold ChainOK; infer_instance
  | out, L :: Ls, ranks, rs, es => by
    unfold ChainOK
    have := instDecChainOK (renameRanks L.D.K L.D.K0 out) Ls (ranks.map fun aR => splitRanks L.D.K L.D.K1 L.D.K0 (concord L.D.rsU aR)) L.D.rs' L.D.es'
    infer_instance

theorem chain_equiv : ∀ (out : List String) (levels : List DynLevel) (ranks : List (List String)) (rs : List String) (es : List Nat),
    ChainOK out levels ranks rs es → ∀ sts, InvR ranks rs es sts →
    ∀ τ, sumAt τ (kinOf out levels rs es sts) = sumAt τ (spec (lv out rs es) sts)
  | out, [], ranks, rs, es, hlen, sts, hinv, τ => by
    obtain ⟨st, rfl, hk, _, _, hb⟩ := hinv
    exact run_inner out rs es hlen st hk hb τ
  | out, L :: Ls, ranks, rs, es, hc, sts, hinv, τ => by
    obtain ⟨hrs, hes, hpre, hd, hrest⟩ := hc
    subst hrs; subst hes
    have H := dynOK_of_d hd
    let D := L.D
    let ranks0 := ranks.map (concord D.rsU)
    let ranks' := ranks.map fun aR => splitRanks D.K D.K1 D.K0 (concord D.rsU aR)
    have ih := chain_equiv (renameRanks D.K D.K0 out) Ls ranks' D.rs' D.es' hrest
    let I : List (Bool × Nat) → List TermSt → Prop := fun ls s =>
      ∃ rem remE, ls = lv out rem remE ∧ remE.length = rem.length ∧ InvR ranks (rem ++ D.rsU) (remE ++ D.esU) s
    have hmain := runK_eq_specK I (fun s => kinOf (renameRanks D.K D.K0 out) Ls D.rs' D.es' (dynStates D s)) (spec (lv out D.rsU D.esU))
      (by
        intro s ⟨rem, remE, hl, hlen', hinv'⟩ σ
        have hrem : rem = [] := by
          cases rem with
          | nil => rfl
          | cons r rem' =>
            cases remE with
            | nil => simp at hlen'
            | cons e remE' => simp [lv] at hl
        subst hrem
        have : remE = [] := List.length_eq_zero_iff.1 (by simpa using hlen')
        subst this
        obtain ⟨st, rfl, hk, hlops, hso, hbd⟩ := hinv'
        have R : Res D ranks0 st :=
          { kind := hk, len := by simp [ranks0, hlops],
            sched := by
              intro i aR o h1 h2
              simp only [ranks0, List.getElem?_map] at h1
              cases hx : ranks[i]? with
              | none => rw [hx] at h1; simp at h1
              | some x =>
                rw [hx] at h1; simp at h1; subst h1
                have := (hso i x o hx h2).1
                simp only [List.nil_append] at this
                rw [this, schedOf_concord],
            arity := by
              intro i aR o h1 h2
              simp only [ranks0, List.getElem?_map] at h1
              cases hx : ranks[i]? with
              | none => rw [hx] at h1; simp at h1
              | some x =>
                rw [hx] at h1; simp at h1; subst h1
                have := (hso i x o hx h2).2
                simpa using this,
            bounded := by simpa using hbd }
        apply inner_equiv_gen D out ranks0 H (kinOf (renameRanks D.K D.K0 out) Ls D.rs' D.es') ?_ st R σ
        intro st' hk' hl' hso' hb' τ'
        apply ih [st'] ?_ τ'
        refine ⟨st', rfl, hk', by simp [ranks', ranks0] at hl' ⊢; exact hl', ?_, hb'⟩
        intro i aR' o' h1 h2
        simp only [ranks', List.getElem?_map] at h1
        cases hx : ranks[i]? with
        | none => rw [hx] at h1; simp at h1
        | some x =>
          rw [hx] at h1; simp at h1; subst h1
          exact hso' i (concord D.rsU x) o' (by simp [ranks0, hx]) h2)
      (fun s hd σ => spec_zero _ s hd σ)
      (by
        intro o N ls s ⟨rem, remE, hl, hlen', hinv'⟩ c _
        obtain ⟨r, rem', remE', rfl, rfl, hls, hlen''⟩ := lv_eq_cons hlen' hl
        exact ⟨rem', remE', hls, hlen'', invR_step ranks r (rem' ++ D.rsU) N (remE' ++ D.esU) s c hinv'⟩)
      (lv out L.preN L.preE) sts ⟨L.preN, L.preE, rfl, hpre, hinv⟩
      (by obtain ⟨st, rfl, _⟩ := hinv; exact levelWF_single _ _)
      (by
        obtain ⟨st, rfl, _, _, _, hb⟩ := hinv
        have hE : Ext (lv out (L.preN ++ D.rsU) (L.preE ++ D.esU)) [st] := by
          apply ext_of_opBounded
          intro s hs o ho
          simp at hs; subst hs
          rw [lv_snd out _ _ (by have hlu : D.esU.length = D.rsU.length := H.lenU; simp only [List.length_append, hpre, hlu])]
          exact hb o ho
        rw [lv_append out L.preN D.rsU L.preE D.esU hpre] at hE
        exact ext_prefix _ _ _ hE)
      τ
    show sumAt τ (runK (fun s => kinOf (renameRanks D.K D.K0 out) Ls D.rs' D.es' (dynStates D s)) (lv out L.preN L.preE) sts) = _
    rw [hmain, ← spec_append, ← lv_append out L.preN D.rsU L.preE D.esU hpre]

/-- the states the model compiler starts from satisfy the invariant -/
theorem invR_init (S : EinsumS) (env : String → Pts) (t : TermS) (hterms : S.terms = [t]) (hkind : t.kind = .times)
    (hnd : S.loop.Nodup) (hlen : S.exts.length = S.loop.length) (hb : InBounds S env) :
    InvR (t.tensors.map (·.ranks)) S.loop S.exts (initTerms S env) := by
  have hst : initTerms S env = [{ kind := t.kind, scal := t.scal, ops := t.tensors.map fun x => initOperand S.loop x (env x.name) }] := by
    simp [initTerms, hterms]
  refine ⟨_, hst, hkind, by simp, ?_, ?_⟩
  · intro i aR o hx ho
    simp only [List.getElem?_map] at hx ho
    cases hxi : t.tensors[i]? with
    | none => rw [hxi] at hx; simp at hx
    | some x =>
      rw [hxi] at hx ho
      simp at hx ho; subst hx; subst ho
      refine ⟨rfl, ?_⟩
      intro p hp
      simp only [initOperand, List.mem_map] at hp
      obtain ⟨q, _, rfl⟩ := hp
      simp [reorder]
  · intro o ho
    exact opBounded_init S env hnd hlen hb _ (by rw [hst]; simp) o ho

/-- **C03, any number of occupancy levels**: the nest with a chain of dynamic splits computes the Einsum's meaning -/
theorem chain_nest (S : EinsumS) (env : String → Pts) (t : TermS) (levels : List DynLevel)
    (hterms : S.terms = [t]) (hkind : t.kind = .times)
    (hchain : ChainOK S.outRanks levels (t.tensors.map (·.ranks)) S.loop S.exts)
    (hnd : S.loop.Nodup) (hlen : S.exts.length = S.loop.length) (hb : InBounds S env) (hin : InputsWF S env) (τ : List Nat) :
    sumAt τ (kinOf S.outRanks levels S.loop S.exts (initTerms S env)) =
      meaning (S.loop.zip S.exts) (concord S.loop S.outRanks) S.terms env τ := by
  rw [chain_equiv S.outRanks levels _ S.loop S.exts hchain _ (invR_init S env t hterms hkind hnd hlen hb) τ, ← levels_eq_lv]
  exact spec_eq_meaning S env hnd hlen hin τ

end C03

namespace C03
open Nest C01 C02

/-- hypotheses of `static_then_chain` (decidable) -/
def StatChainHyps (S : EinsumS) (env : String → Pts) (sps : List SplitSpec) (L1 : List String) (levels : List DynLevel) (σ0 : List Nat) : Prop :=
  let B := applySplits sps ⟨S.loop.zip S.exts, concord L1 S.outRanks, S.terms, env, σ0⟩
  let S1 := partEinsum S B L1
  StaticHyps S env sps L1 σ0 ∧
  (match S1.terms with
   | [t] => t.kind = .times ∧ ChainOK S1.outRanks levels (t.tensors.map (·.ranks)) S1.loop S1.exts
   | _ => False) ∧
  S1.loop.Nodup ∧ InBounds S1 B.env ∧ InputsWF S1 B.env

instance (S : EinsumS) (env : String → Pts) (sps : List SplitSpec) (L1 : List String) (levels : List DynLevel) (σ0 : List Nat) :
    Decidable (StatChainHyps S env sps L1 levels σ0) := by
  unfold StatChainHyps
  simp only
  split <;> infer_instance

/-- **C03: static splits in the header, then any number of occupancy levels split inside the loops** - product Einsums, any
    leaders, any occupancies, any loop order keeping each rank's levels outermost to innermost, every input -/
theorem static_then_chain (S : EinsumS) (env : String → Pts) (sps : List SplitSpec) (L1 : List String) (levels : List DynLevel)
    (σ0 : List Nat) (h : StatChainHyps S env sps L1 levels σ0) (τ : List Nat) (hτ : τ.length = σ0.length) :
    let B := applySplits sps ⟨S.loop.zip S.exts, concord L1 S.outRanks, S.terms, env, σ0⟩
    let S1 := partEinsum S B L1
    sumAt τ (kinOf S1.outRanks levels S1.loop S1.exts (initTerms S1 B.env)) =
      meaning (S.loop.zip S.exts) (concord L1 S.outRanks) S.terms env τ := by
  intro B S1
  obtain ⟨hst, hterm, hnd, hb, hin⟩ := h
  have hlen : S1.exts.length = S1.loop.length := by simp [S1, partEinsum]
  rw [← static_meaning S env sps L1 σ0 hst τ hτ]
  split at hterm
  · rename_i t ht
    exact chain_nest S1 B.env t levels ht hterm.1 hterm.2 hnd hlen hb hin τ
  · exact hterm.elim

end C03
