import TeaalVerif.Props.C04Var
/-!
# C04 — shape partitioning of the output rank with the input rank following: the partitioned form has the meaning of the Einsum

`uniform_shape(n)` on the output rank `Q` with `W: follow(Q)` for an access `I[a*q + ρ]` emits
`I.splitUniform(a*n, depth, post_halo=H)` (`H` = the largest value of `ρ`), loops `Q1`, `Q0` and reads `I_W1W0` at
`(a*q1, a*q0 + ρ)`; the lower output level is iterated by `iterRangeShapeRef(q1, min(q1 + n, Q))`.

`splitHaloAt` is the halo split on point lists (an element at `w` lands in every partition `p`, a multiple of the step, whose window
`[p, p + step + halo)` contains it).  `sumAt_splitHaloAt` reads it back.  `meaningA_part`: the Einsum written in `(q1, q0)` with the
halo-split followers and the tile tensor `T'[q0 - q1]` (the range loop) has, at every output point, the meaning of the Einsum as
written: for every `q0` exactly one `q1` - the multiple of `n` below it - passes both the tile and the alignment of the partitions, and
its window contains `a*q0 + ρ` because `0 ≤ ρ ≤ H` (no contribution is lost at a partition boundary, none is counted in two partitions).
-/
namespace C04
open Nest C01

/-- `splitUniform(step, depth=d, pre_halo=pre, post_halo=halo)` on points: the element at `w` lands in every partition `j*step`
    (`j ≥ 0`) whose window `[j*step - pre, j*step + step + halo)` contains it -/
def splitHaloAt (d step pre halo : Nat) (P : Pts) : Pts :=
  P.flatMap fun (cs, v) =>
    match cs[d]? with
    | none => []
    | some w =>
      (List.range ((w + pre) / step + 1)).filterMap fun j =>
        if j * step ≤ w + pre ∧ w < j * step + step + halo then some (cs.take d ++ [j * step, w] ++ cs.drop (d + 1), v) else none

theorem sumAt_filterMap_range (τ : List Nat) (m : Nat) (g : Nat → Option (List Nat × Int)) :
    sumAt τ ((List.range m).filterMap g) =
      ((List.range m).map fun j => match g j with | some pt => if pt.1 = τ then pt.2 else 0 | none => 0).sum := by
  induction (List.range m) with
  | nil => rfl
  | cons j js ih =>
    cases hg : g j with
    | none => simp [List.filterMap_cons, hg, ih]
    | some pt =>
      obtain ⟨cs, v⟩ := pt
      simp only [List.filterMap_cons, hg, List.map_cons, List.sum_cons]
      rw [sumAt_cons, ih]

theorem take_drop_decomp (cs pre post : List Nat) (d w : Nat) (hd : pre.length = d) :
    (cs[d]? = some w ∧ cs.take d = pre ∧ cs.drop (d + 1) = post) ↔ cs = pre ++ w :: post := by
  constructor
  · rintro ⟨h1, h2, h3⟩
    have hlt : d < cs.length := by
      rcases Nat.lt_or_ge d cs.length with h | h
      · exact h
      · rw [List.getElem?_eq_none h] at h1; cases h1
    have := List.take_append_drop d cs
    rw [← this, h2]
    congr 1
    have hdrop : cs.drop d = cs[d] :: cs.drop (d + 1) := (List.drop_eq_getElem_cons hlt)
    rw [hdrop, h3]
    have : cs[d] = w := by
      have := List.getElem?_eq_getElem hlt
      rw [this] at h1
      exact Option.some.inj h1
    rw [this]
  · intro h
    subst h
    subst hd
    refine ⟨by simp, by simp, by simp⟩

theorem img_eq_iff (cs pre post : List Nat) (d x w' p w : Nat) (hd : pre.length = d) (hw' : cs[d]? = some w') :
    (cs.take d ++ [x, w'] ++ cs.drop (d + 1) = pre ++ p :: w :: post) ↔ (cs = pre ++ w :: post ∧ x = p) := by
  have hlt : d < cs.length := by
    rcases Nat.lt_or_ge d cs.length with h | h
    · exact h
    · rw [List.getElem?_eq_none h] at hw'; cases hw'
  constructor
  · intro e
    have hl : (cs.take d).length = pre.length := by rw [List.length_take, hd]; omega
    simp only [List.append_assoc, List.cons_append, List.nil_append] at e
    obtain ⟨e1, e2⟩ := List.append_inj e hl
    simp only [List.cons.injEq] at e2
    obtain ⟨exp, eww, epost⟩ := e2
    subst eww
    exact ⟨(take_drop_decomp cs pre post d w' hd).1 ⟨hw', e1, epost⟩, exp⟩
  · rintro ⟨hcs, rfl⟩
    obtain ⟨h1, h2, h3⟩ := (take_drop_decomp cs pre post d w hd).2 hcs
    have : w' = w := by rw [h1] at hw'; exact (Option.some.inj hw').symm
    subst this
    rw [h2, h3]
    simp

/-- reading the halo-split tensor: partition `p`, element `w` -/
theorem sumAt_splitHaloAt (d step pre0 halo : Nat) (hs : 0 < step) (pre post : List Nat) (p w : Nat) (hd : pre.length = d) :
    ∀ P : Pts, sumAt (pre ++ p :: w :: post) (splitHaloAt d step pre0 halo P) =
      if p % step = 0 ∧ p ≤ w + pre0 ∧ w < p + step + halo then sumAt (pre ++ w :: post) P else 0
  | [] => by simp [splitHaloAt, sumAt]
  | (cs, v) :: ps => by
    have ih := sumAt_splitHaloAt d step pre0 halo hs pre post p w hd ps
    have hcons : splitHaloAt d step pre0 halo ((cs, v) :: ps) =
        (match cs[d]? with
         | none => []
         | some w' => (List.range ((w' + pre0) / step + 1)).filterMap fun j =>
            if j * step ≤ w' + pre0 ∧ w' < j * step + step + halo then some (cs.take d ++ [j * step, w'] ++ cs.drop (d + 1), v) else none) ++
        splitHaloAt d step pre0 halo ps := by
      simp [splitHaloAt]
    rw [hcons, sumAt_append, ih, sumAt_cons]
    -- the images of the single point `(cs, v)`
    have himg : sumAt (pre ++ p :: w :: post)
        (match cs[d]? with
         | none => []
         | some w' => (List.range ((w' + pre0) / step + 1)).filterMap fun j =>
            if j * step ≤ w' + pre0 ∧ w' < j * step + step + halo then some (cs.take d ++ [j * step, w'] ++ cs.drop (d + 1), v) else none) =
        if cs = pre ++ w :: post ∧ (p % step = 0 ∧ p ≤ w + pre0 ∧ w < p + step + halo) then v else 0 := by
      cases hw' : cs[d]? with
      | none =>
        simp only [sumAt_nil]
        have : ¬ cs = pre ++ w :: post := by
          intro e
          have := (take_drop_decomp cs pre post d w hd).2 e
          rw [hw'] at this; cases this.1
        simp [this]
      | some w' =>
        simp only
        rw [sumAt_filterMap_range]
        -- per partition index `j`: the image matches iff the point is the target element and `j*step = p`
        have hterm : ∀ j, (match (if j * step ≤ w' + pre0 ∧ w' < j * step + step + halo then
              some (cs.take d ++ [j * step, w'] ++ cs.drop (d + 1), v) else none : Option (List Nat × Int)) with
            | some pt => if pt.1 = pre ++ p :: w :: post then pt.2 else 0
            | none => 0) =
            if (j * step ≤ w' + pre0 ∧ w' < j * step + step + halo) ∧ (cs = pre ++ w :: post ∧ j * step = p) then v else 0 := by
          intro j
          by_cases hv : j * step ≤ w' + pre0 ∧ w' < j * step + step + halo
          · rw [if_pos hv]
            simp only
            by_cases he : cs = pre ++ w :: post ∧ j * step = p
            · rw [if_pos ((img_eq_iff cs pre post d (j * step) w' p w hd hw').2 he), if_pos ⟨hv, he⟩]
            · rw [if_neg (fun e => he ((img_eq_iff cs pre post d (j * step) w' p w hd hw').1 e)), if_neg (fun h => he h.2)]
          · rw [if_neg hv, if_neg (fun h => hv h.1)]
        rw [sum_map_congr _ _ _ (fun j _ => hterm j)]
        by_cases hmatch : cs = pre ++ w :: post ∧ (p % step = 0 ∧ p ≤ w + pre0 ∧ w < p + step + halo)
        · obtain ⟨hcs, hp0, hp1, hp2⟩ := hmatch
          have hdec := (take_drop_decomp cs pre post d w hd).2 hcs
          have hww : w' = w := by rw [hdec.1] at hw'; exact (Option.some.inj hw').symm
          subst hww
          rw [if_pos ⟨hcs, hp0, hp1, hp2⟩]
          have hj : p / step < (w' + pre0) / step + 1 := by
            have := Nat.div_le_div_right (c := step) hp1
            omega
          have hpj : p / step * step = p := Nat.div_mul_cancel (Nat.dvd_of_mod_eq_zero hp0)
          exact sum_pred_single ((w' + pre0) / step + 1) (p / step)
            (fun j => (j * step ≤ w' + pre0 ∧ w' < j * step + step + halo) ∧ (cs = pre ++ w' :: post ∧ j * step = p)) (fun _ => v) hj
            ⟨⟨by rw [hpj]; exact hp1, by rw [hpj]; exact hp2⟩, hcs, hpj⟩
            (fun c _ hc => by
              have : c * step = p / step * step := by rw [hpj]; exact hc.2.2
              exact Nat.eq_of_mul_eq_mul_right hs this)
        · rw [if_neg hmatch]
          apply sum_map_zero
          intro j _
          have : ¬ ((j * step ≤ w' + pre0 ∧ w' < j * step + step + halo) ∧ (cs = pre ++ w :: post ∧ j * step = p)) := by
            rintro ⟨hv, hcs, hjp⟩
            apply hmatch
            have hdec := (take_drop_decomp cs pre post d w hd).2 hcs
            have hww : w' = w := by rw [hdec.1] at hw'; exact (Option.some.inj hw').symm
            subst hww
            refine ⟨hcs, ?_, ?_, ?_⟩
            · rw [← hjp]; exact Nat.mul_mod_left j step
            · rw [← hjp]; exact hv.1
            · rw [← hjp]; exact hv.2
          rw [if_neg this]
    rw [himg]
    by_cases hc : p % step = 0 ∧ p ≤ w + pre0 ∧ w < p + step + halo
    · simp only [hc, and_self, and_true, if_true, sumAt_cons]
    · simp only [hc, and_false, if_false]; omega

/-! ### the partitioned form -/

def renameVar (q q' : String) (e : AffS) : AffS := ⟨e.terms.map fun t => (t.1, if t.2 == q then q' else t.2), e.const⟩

theorem eval_renameVar (q q' : String) (e : AffS) (g1 g0 : String → Nat) (hq : g1 q' = g0 q)
    (hother : ∀ v, v ≠ q → v ≠ q' → g1 v = g0 v) (hfresh : e.mentions q' = false) : (renameVar q q' e).eval g1 = e.eval g0 := by
  unfold renameVar AffS.eval
  simp only [List.map_map]
  congr 1
  apply sum_map_congr
  intro t ht
  simp only [Function.comp]
  by_cases h : t.2 = q
  · simp [h, hq]
  · have hne : t.2 ≠ q' := by
      intro e'
      have : e.mentions q' = true := by
        simp only [AffS.mentions, List.any_eq_true]
        exact ⟨t, ht, by simp [e']⟩
      rw [hfresh] at this; cases this
    have hb : (t.2 == q) = false := by simpa using h
    simp [hb, hother t.2 h hne]

def tilePts (n : Nat) : Pts := (List.range n).map fun d => ([d], (1 : Int))

theorem sumAt_tilePts (n k : Nat) : sumAt [k] (tilePts n) = if k < n then 1 else 0 := by
  induction n with
  | zero => simp [tilePts, sumAt]
  | succ m ih =>
    have : tilePts (m + 1) = tilePts m ++ [([m], 1)] := by simp [tilePts, List.range_succ]
    rw [this, sumAt_append, ih, sumAt_cons, sumAt_nil]
    by_cases h1 : k < m
    · have : ¬ ([m] = [k]) := by simp; omega
      simp [h1, this]; omega
    · by_cases h2 : k = m
      · subst h2; simp
      · have : ¬ ([m] = [k]) := by simp; omega
        have h3 : ¬ k < m + 1 := by omega
        simp [h1, this, h3]

/-- the tile tensor read at `c0 - c1`: 1 exactly on `c1 ≤ c0 < c1 + n` -/
theorem valAt_tile (n c0 c1 : Nat) : valAt [(c0 : Int) - (c1 : Int)] (tilePts n) = if c1 ≤ c0 ∧ c0 < c1 + n then 1 else 0 := by
  unfold valAt
  by_cases h : c1 ≤ c0
  · have hnn : (0 : Int) ≤ (c0 : Int) - (c1 : Int) := by omega
    have htn : ((c0 : Int) - (c1 : Int)).toNat = c0 - c1 := by omega
    simp only [List.all_cons, List.all_nil, Bool.and_true, decide_eq_true_eq, hnn, if_true, List.map_cons, List.map_nil, htn]
    rw [sumAt_tilePts]
    by_cases h2 : c0 < c1 + n
    · have : c0 - c1 < n := by omega
      simp [h, h2, this]
    · have : ¬ c0 - c1 < n := by omega
      simp [h2, this]
  · have hneg : ¬ ((0 : Int) ≤ (c0 : Int) - (c1 : Int)) := by omega
    simp [hneg, h]

theorem prodI_append_one (l : List Int) (x : Int) : prodI (l ++ [x]) = prodI l * x := by
  induction l with
  | nil => simp [prodI]
  | cons a as ih => simp only [List.cons_append, prodI, ih, Int.mul_assoc]

/-- reading a halo-split tensor through a two-coordinate access in place of the one-coordinate access of the original -/
theorem valAt_split (d step pre0 halo : Nat) (hs : 0 < step) (pre post : List Int) (pI wI : Int) (hd : pre.length = d) (hp : 0 ≤ pI) (P : Pts) :
    valAt (pre ++ pI :: wI :: post) (splitHaloAt d step pre0 halo P) =
      if pI.toNat % step = 0 ∧ pI ≤ wI + (pre0 : Int) ∧ wI < pI + (step : Int) + (halo : Int) then valAt (pre ++ wI :: post) P else 0 := by
  unfold valAt
  by_cases hall : (pre ++ wI :: post).all (fun i => decide (0 ≤ i)) = true
  · have hall' : (pre ++ pI :: wI :: post).all (fun i => decide (0 ≤ i)) = true := by
      simp only [List.all_append, List.all_cons, Bool.and_eq_true, decide_eq_true_eq] at hall ⊢
      exact ⟨hall.1, hp, hall.2⟩
    rw [if_pos hall, if_pos hall']
    have hw : 0 ≤ wI := by
      simp only [List.all_append, List.all_cons, Bool.and_eq_true, decide_eq_true_eq] at hall
      exact hall.2.1
    simp only [List.map_append, List.map_cons]
    rw [sumAt_splitHaloAt d step pre0 halo hs (pre.map Int.toNat) (post.map Int.toNat) pI.toNat wI.toNat (by simp [hd])]
    have hiff : (pI.toNat % step = 0 ∧ pI.toNat ≤ wI.toNat + pre0 ∧ wI.toNat < pI.toNat + step + halo) ↔
        (pI.toNat % step = 0 ∧ pI ≤ wI + (pre0 : Int) ∧ wI < pI + (step : Int) + (halo : Int)) := by
      constructor
      · rintro ⟨h1, h2, h3⟩; exact ⟨h1, by omega, by omega⟩
      · rintro ⟨h1, h2, h3⟩; exact ⟨h1, by omega, by omega⟩
    by_cases hc : pI.toNat % step = 0 ∧ pI ≤ wI + (pre0 : Int) ∧ wI < pI + (step : Int) + (halo : Int)
    · rw [if_pos hc, if_pos (hiff.2 hc)]
    · rw [if_neg hc, if_neg (fun h => hc (hiff.1 h))]
  · have hall' : ¬ ((pre ++ pI :: wI :: post).all (fun i => decide (0 ≤ i)) = true) := by
      intro h
      apply hall
      simp only [List.all_append, List.all_cons, Bool.and_eq_true, decide_eq_true_eq] at h ⊢
      exact ⟨h.1, h.2.2⟩
    rw [if_neg hall, if_neg hall']
    simp

structure PartCfg where
  q : String
  q0 : String
  q1 : String
  n : Nat
  fol : String → Option Nat          -- tensor ↦ index of the rank that follows the partitioned output rank
  stepF : String → Nat               -- its splitUniform step  (stride * n)
  haloF : String → Nat               -- its post-halo
  preF : String → Nat := fun _ => 0  -- its pre-halo

def convAcc (c : PartCfg) (a : AccA) : AccA := { e := renameVar c.q c.q0 a.e, proj := a.proj, ivl := a.ivl }
def upAcc (c : PartCfg) (a : AccA) : AccA := { e := ⟨[(a.e.coef c.q, c.q1)], 0⟩, proj := isProjE a.e, ivl := false }
def loAcc (c : PartCfg) (a : AccA) : AccA := { e := renameVar c.q c.q0 a.e, proj := isProjE (renameVar c.q c.q0 a.e) }

def convIdx (c : PartCfg) (i : Nat) (idx : List AccA) : List AccA :=
  (idx.take i).map (convAcc c) ++ [upAcc c (idx.getD i default), loAcc c (idx.getD i default)] ++ (idx.drop (i + 1)).map (convAcc c)

def convTensor (c : PartCfg) (x : TensorAS) : TensorAS :=
  match c.fol x.name with
  | some i =>
    { name := x.name,
      ranks := x.ranks.take i ++ [x.ranks.getD i "?" ++ "1", x.ranks.getD i "?" ++ "0"] ++ x.ranks.drop (i + 1),
      idx := convIdx c i x.idx }
  | none => { x with idx := x.idx.map (convAcc c) }

def tileTensor (c : PartCfg) : TensorAS :=
  { name := "tile__", ranks := ["T"], idx := [{ e := ⟨[(1, c.q0), (-1, c.q1)], 0⟩, proj := true }] }

def convTerm (c : PartCfg) (t : TermAS) : TermAS := { t with tensors := t.tensors.map (convTensor c) ++ [tileTensor c] }

def convEnv (c : PartCfg) (env : String → Pts) : String → Pts := fun nm =>
  if nm = "tile__" then tilePts c.n
  else match c.fol nm with
    | some i => splitHaloAt i (c.stepF nm) (c.preF nm) (c.haloF nm) (env nm)
    | none => env nm

/-- the two assignments: `g1` of the partitioned form (q0 = c0, q1 = c1), `g0` of the Einsum as written (q = c0) -/
structure Rel2 (c : PartCfg) (g1 g0 : String → Nat) (c0 c1 : Nat) : Prop where
  h0 : g1 c.q0 = c0
  h1 : g1 c.q1 = c1
  hq : g0 c.q = c0
  hother : ∀ v, v ≠ c.q → v ≠ c.q0 → v ≠ c.q1 → g1 v = g0 v

def FreshIn (c : PartCfg) (x : TensorAS) : Prop := ∀ a ∈ x.idx, a.e.mentions c.q0 = false ∧ a.e.mentions c.q1 = false

instance (c : PartCfg) (x : TensorAS) : Decidable (FreshIn c x) := by unfold FreshIn; infer_instance

theorem eval_conv (c : PartCfg) (g1 g0 : String → Nat) (c0 c1 : Nat) (hr : Rel2 c g1 g0 c0 c1) (hne : c.q0 ≠ c.q1) (e : AffS)
    (hf0 : e.mentions c.q0 = false) (hf1 : e.mentions c.q1 = false) : (renameVar c.q c.q0 e).eval g1 = e.eval g0 := by
  -- first move from g1 to an assignment that agrees with g0 on q1 as well (e does not mention q1)
  have hm : (renameVar c.q c.q0 e).mentions c.q1 = false := by
    simp only [renameVar, AffS.mentions, List.any_map, List.any_eq_false, Function.comp] at hf1 ⊢
    intro t ht
    by_cases h : t.2 = c.q
    · simp [h, hne]
    · have hb : (t.2 == c.q) = false := by simpa using h
      simpa [hb] using hf1 t ht
  have := eval_upd_not_mentions (renameVar c.q c.q0 e) g1 c.q1 (g0 c.q1) hm
  rw [← this]
  apply eval_renameVar c.q c.q0 e _ g0 _ _ hf0
  · simp only [upd, hne, if_false]; rw [hr.h0, hr.hq]
  · intro v hv hv0
    by_cases hv1 : v = c.q1
    · simp [upd, hv1]
    · simp only [upd, hv1, if_false]; exact hr.hother v hv hv0 hv1

/-- a tensor that does not follow: renaming `q` to `q0` is all that happens -/
theorem accessVal_conv_plain (c : PartCfg) (env : String → Pts) (g1 g0 : String → Nat) (c0 c1 : Nat) (hr : Rel2 c g1 g0 c0 c1)
    (hne : c.q0 ≠ c.q1) (x : TensorAS) (hfol : c.fol x.name = none) (hnm : x.name ≠ "tile__") (hfr : FreshIn c x) :
    accessValA (convEnv c env) g1 (convTensor c x) = accessValA env g0 x := by
  unfold accessValA
  have hname : (convTensor c x).name = x.name := by simp [convTensor, hfol]
  have hidx : (convTensor c x).idx = x.idx.map (convAcc c) := by simp [convTensor, hfol]
  rw [hname, hidx]
  have henv : convEnv c env x.name = env x.name := by simp [convEnv, hnm, hfol]
  rw [henv, List.map_map]
  congr 1
  apply List.map_congr_left
  intro a ha
  simp only [Function.comp, convAcc]
  exact eval_conv c g1 g0 c0 c1 hr hne a.e (hfr a ha).1 (hfr a ha).2

theorem idx_decomp (idx : List AccA) (i : Nat) (hi : i < idx.length) : idx = idx.take i ++ idx.getD i default :: idx.drop (i + 1) := by
  have h1 := List.take_append_drop i idx
  have h2 : idx.drop i = idx[i] :: idx.drop (i + 1) := List.drop_eq_getElem_cons hi
  have h3 : idx.getD i default = idx[i] := by simp [List.getD, List.getElem?_eq_getElem hi]
  rw [h3, ← h2, h1]

/-- a follower: the halo-split tensor read at `(stride*c1, stride*c0 + ρ)` is the tensor read at `stride*c0 + ρ` when partition
    `stride*c1` is aligned and its window contains the element, and nothing otherwise -/
theorem accessVal_conv_follower (c : PartCfg) (env : String → Pts) (g1 g0 : String → Nat) (c0 c1 : Nat) (hr : Rel2 c g1 g0 c0 c1)
    (hne : c.q0 ≠ c.q1) (x : TensorAS) (i : Nat) (hfol : c.fol x.name = some i) (hnm : x.name ≠ "tile__") (hfr : FreshIn c x)
    (hi : i < x.idx.length) (hs : 0 < c.stepF x.name) (haq : 0 ≤ (x.idx.getD i default).e.coef c.q) :
    accessValA (convEnv c env) g1 (convTensor c x) =
      if ((x.idx.getD i default).e.coef c.q * (c1 : Int)).toNat % c.stepF x.name = 0 ∧
         (x.idx.getD i default).e.coef c.q * (c1 : Int) ≤ (x.idx.getD i default).e.eval g0 + (c.preF x.name : Int) ∧
         (x.idx.getD i default).e.eval g0 < (x.idx.getD i default).e.coef c.q * (c1 : Int) + (c.stepF x.name : Int) + (c.haloF x.name : Int)
      then accessValA env g0 x else 0 := by
  unfold accessValA
  have hname : (convTensor c x).name = x.name := by simp [convTensor, hfol]
  have hidx : (convTensor c x).idx = convIdx c i x.idx := by simp [convTensor, hfol]
  rw [hname, hidx]
  have henv : convEnv c env x.name = splitHaloAt i (c.stepF x.name) (c.preF x.name) (c.haloF x.name) (env x.name) := by simp [convEnv, hnm, hfol]
  rw [henv]
  have hmem : x.idx.getD i default ∈ x.idx := by
    have : x.idx.getD i default = x.idx[i] := by simp [List.getD, List.getElem?_eq_getElem hi]
    rw [this]; exact List.getElem_mem hi
  have hev : ∀ a ∈ x.idx, (renameVar c.q c.q0 a.e).eval g1 = a.e.eval g0 :=
    fun a ha => eval_conv c g1 g0 c0 c1 hr hne a.e (hfr a ha).1 (hfr a ha).2
  have h1 : (convIdx c i x.idx).map (fun a => a.e.eval g1) =
      (x.idx.take i).map (fun a => a.e.eval g0) ++
        ((x.idx.getD i default).e.coef c.q * (c1 : Int)) :: (x.idx.getD i default).e.eval g0 :: (x.idx.drop (i + 1)).map (fun a => a.e.eval g0) := by
    simp only [convIdx, List.map_append, List.map_map, List.map_cons, List.map_nil, List.append_assoc, List.cons_append, List.nil_append]
    congr 1
    · apply List.map_congr_left
      intro a ha
      exact hev a (List.mem_of_mem_take ha)
    · congr 1
      · simp [upAcc, AffS.eval, hr.h1]
      · congr 1
        · exact hev _ hmem
        · apply List.map_congr_left
          intro a ha
          exact hev a (List.mem_of_mem_drop ha)
  have h0 : x.idx.map (fun a => a.e.eval g0) =
      (x.idx.take i).map (fun a => a.e.eval g0) ++ (x.idx.getD i default).e.eval g0 :: (x.idx.drop (i + 1)).map (fun a => a.e.eval g0) := by
    conv => lhs; rw [idx_decomp x.idx i hi]
    simp
  rw [h1, h0]
  have hc1 : (0 : Int) ≤ (x.idx.getD i default).e.coef c.q * (c1 : Int) := Int.mul_nonneg haq (Int.natCast_nonneg c1)
  exact valAt_split i _ _ _ hs _ _ _ _ (by simp [List.length_take]; omega) hc1 _

/-! ### one term: summing out the upper coordinate -/

/-- what the partitioning directive must satisfy for a follower access `stride*q + ρ` at rank index `i` of tensor `x` -/
def FolOK (c : PartCfg) (ext : String → Nat) (x : TensorAS) (i : Nat) : Prop :=
  i < x.idx.length ∧ 1 ≤ (x.idx.getD i default).e.coef c.q ∧
  c.stepF x.name = ((x.idx.getD i default).e.coef c.q).toNat * c.n ∧
  (x.idx.getD i default).e.const = 0 ∧
  c.preF x.name = (((x.idx.getD i default).e.rest c.q).map fun t => (-t.1).toNat * (ext t.2 - 1)).sum ∧
  c.haloF x.name = (((x.idx.getD i default).e.rest c.q).map fun t => t.1.toNat * (ext t.2 - 1)).sum

instance (c : PartCfg) (ext : String → Nat) (x : TensorAS) (i : Nat) : Decidable (FolOK c ext x i) := by unfold FolOK; infer_instance

def folCond (c : PartCfg) (ext : String → Nat) (x : TensorAS) : Prop :=
  match c.fol x.name with
  | some i => FolOK c ext x i
  | none => True

instance (c : PartCfg) (ext : String → Nat) (x : TensorAS) : Decidable (folCond c ext x) := by
  unfold folCond; split <;> infer_instance

def TensorOK (c : PartCfg) (ext : String → Nat) (x : TensorAS) : Prop :=
  x.name ≠ "tile__" ∧ FreshIn c x ∧ folCond c ext x

instance (c : PartCfg) (ext : String → Nat) (x : TensorAS) : Decidable (TensorOK c ext x) := by unfold TensorOK; infer_instance

def TermOK (c : PartCfg) (ext : String → Nat) (t : TermAS) : Prop :=
  t.kind = .times ∧ (∀ x ∈ t.tensors, TensorOK c ext x) ∧ (∃ x ∈ t.tensors, (c.fol x.name).isSome = true)

instance (c : PartCfg) (ext : String → Nat) (t : TermAS) : Decidable (TermOK c ext t) := by unfold TermOK; infer_instance

/-- the offset `ρ` of a follower access lies between minus the pre-halo and the post-halo when every variable is inside its extent
    (a term with a positive coefficient adds to the post-halo, one with a negative coefficient to the pre-halo) -/
theorem rho_bounds (g : String → Nat) (ext : String → Nat) : ∀ ts : List (Int × String), (∀ t ∈ ts, g t.2 < ext t.2) →
    -((ts.map fun t => (-t.1).toNat * (ext t.2 - 1)).sum : Nat) ≤ (ts.map fun t => t.1 * (g t.2 : Int)).sum ∧
    (ts.map fun t => t.1 * (g t.2 : Int)).sum ≤ ((ts.map fun t => t.1.toNat * (ext t.2 - 1)).sum : Nat)
  | [], _ => by simp
  | t :: ts, hr => by
    obtain ⟨ih1, ih2⟩ := rho_bounds g ext ts (fun u hu => hr u (List.mem_cons_of_mem _ hu))
    have hg := hr t (by simp)
    simp only [List.map_cons, List.sum_cons, Int.natCast_add, Int.natCast_mul]
    have hgI : (g t.2 : Int) ≤ ((ext t.2 - 1 : Nat) : Int) := by omega
    have hg0 : (0 : Int) ≤ (g t.2 : Int) := Int.natCast_nonneg _
    have he0 : (0 : Int) ≤ ((ext t.2 - 1 : Nat) : Int) := Int.natCast_nonneg _
    rcases Int.le_total 0 t.1 with h0 | h0
    · have hk : ((t.1.toNat : Nat) : Int) = t.1 := by omega
      have hk' : (((-t.1).toNat : Nat) : Int) = 0 := by omega
      have h1 : 0 ≤ t.1 * (g t.2 : Int) := Int.mul_nonneg h0 hg0
      have h2 : t.1 * (g t.2 : Int) ≤ t.1 * ((ext t.2 - 1 : Nat) : Int) := Int.mul_le_mul_of_nonneg_left hgI h0
      rw [hk, hk']
      constructor <;> omega
    · have hk : ((t.1.toNat : Nat) : Int) = 0 := by omega
      have hk' : (((-t.1).toNat : Nat) : Int) = -t.1 := by omega
      have h1 : t.1 * (g t.2 : Int) ≤ 0 := Int.mul_nonpos_of_nonpos_of_nonneg h0 hg0
      have h2 : (-t.1) * (g t.2 : Int) ≤ (-t.1) * ((ext t.2 - 1 : Nat) : Int) := Int.mul_le_mul_of_nonneg_left hgI (by omega)
      rw [Int.neg_mul] at h2
      rw [hk, hk']
      constructor <;> omega

theorem div_tile_unique (n c0 c1 : Nat) (hn : 0 < n) (h1 : c1 ≤ c0) (h2 : c0 < c1 + n) (hm : c1 % n = 0) : c1 = n * (c0 / n) := by
  have hk : c1 = c1 / n * n := (Nat.div_mul_cancel (Nat.dvd_of_mod_eq_zero hm)).symm
  have : c0 / n = c1 / n := by
    apply Nat.div_eq_of_lt_le
    · rw [← hk]; exact h1
    · rw [Nat.add_mul, ← hk]; simpa using h2
  rw [this, Nat.mul_comm]; exact hk

theorem follower_val (c : PartCfg) (ext : String → Nat) (env : String → Pts) (g1 g0 : String → Nat) (c0 c1 : Nat)
    (hr : Rel2 c g1 g0 c0 c1) (hne : c.q0 ≠ c.q1) (hn : 0 < c.n) (x : TensorAS) (i : Nat) (hfol : c.fol x.name = some i)
    (hok : TensorOK c ext x) (hrange : ∀ t ∈ (x.idx.getD i default).e.rest c.q, g0 t.2 < ext t.2) :
    (c1 = c.n * (c0 / c.n) → accessValA (convEnv c env) g1 (convTensor c x) = accessValA env g0 x) ∧
    (c1 ≤ c0 → c0 < c1 + c.n → c1 ≠ c.n * (c0 / c.n) → accessValA (convEnv c env) g1 (convTensor c x) = 0) := by
  obtain ⟨hnm, hfr, hfc⟩ := hok
  have hF : FolOK c ext x i := by
    have := hfc; unfold folCond at this; rw [hfol] at this; exact this
  obtain ⟨hi, haq1, hstep, hconst, hpre, hhalo⟩ := hF
  have haq0 : 0 ≤ (x.idx.getD i default).e.coef c.q := by omega
  have hs : 0 < c.stepF x.name := by
    rw [hstep]; exact Nat.mul_pos (by omega) hn
  rw [accessVal_conv_follower c env g1 g0 c0 c1 hr hne x i hfol hnm hfr hi hs haq0]
  -- notation
  generalize hA : ((x.idx.getD i default).e.coef c.q).toNat = A at hstep
  have haqA : (x.idx.getD i default).e.coef c.q = (A : Int) := by omega
  have hA1 : 1 ≤ A := by omega
  have hdec := eval_decomp c.q g0 (x.idx.getD i default).e
  rw [hr.hq, hconst, haqA] at hdec
  obtain ⟨hr0, hr1⟩ := rho_bounds g0 ext _ hrange
  rw [← hhalo] at hr1
  rw [← hpre] at hr0
  generalize hρ : (((x.idx.getD i default).e.rest c.q).map fun t => t.1 * (g0 t.2 : Int)).sum = ρ at hdec hr0 hr1
  rw [haqA, hdec, hstep]
  have htn : ((A : Int) * (c1 : Int)).toNat = A * c1 := by
    rw [← Int.natCast_mul]; exact Int.toNat_natCast _
  rw [htn]
  constructor
  · intro hc1
    rw [if_pos]
    refine ⟨?_, ?_, ?_⟩
    · rw [hc1, ← Nat.mul_assoc]; exact Nat.mul_mod_right _ _
    · have h1 : c1 ≤ c0 := by rw [hc1]; exact Nat.mul_div_le c0 c.n
      have : (A : Int) * (c1 : Int) ≤ (A : Int) * (c0 : Int) := Int.mul_le_mul_of_nonneg_left (by omega) (by omega)
      omega
    · have h2 : c0 + 1 ≤ c1 + c.n := by
        have := Nat.lt_mul_div_succ c0 hn
        rw [hc1]; rw [Nat.mul_add, Nat.mul_one] at this; omega
      have h3 : A * (c0 + 1) ≤ A * (c1 + c.n) := Nat.mul_le_mul_left A h2
      rw [Nat.mul_add, Nat.mul_add, Nat.mul_one] at h3
      have h4 : ((A * c0 + A : Nat) : Int) ≤ ((A * c1 + A * c.n : Nat) : Int) := by exact_mod_cast h3
      simp only [Int.natCast_add, Int.natCast_mul] at h4 ⊢
      omega
  · intro h1 h2 hne1
    rw [if_neg]
    rintro ⟨hm, _, _⟩
    apply hne1
    apply div_tile_unique c.n c0 c1 hn h1 h2
    rw [Nat.mul_mod_mul_left] at hm
    rcases Nat.mul_eq_zero.1 hm with h | h
    · omega
    · exact h

theorem tile_val (c : PartCfg) (env : String → Pts) (g1 g0 : String → Nat) (c0 c1 : Nat) (hr : Rel2 c g1 g0 c0 c1) :
    accessValA (convEnv c env) g1 (tileTensor c) = if c1 ≤ c0 ∧ c0 < c1 + c.n then 1 else 0 := by
  unfold accessValA
  have henv : convEnv c env (tileTensor c).name = tilePts c.n := by simp [convEnv, tileTensor]
  rw [henv]
  have hidx : (tileTensor c).idx.map (fun a => a.e.eval g1) = [(c0 : Int) - (c1 : Int)] := by
    simp only [tileTensor, List.map_cons, List.map_nil, AffS.eval, List.sum_cons, List.sum_nil, hr.h0, hr.h1]
    congr 1
    omega
  rw [hidx, valAt_tile]

theorem comb_times (scal : Int) (vals : List Int) : comb .times scal vals = scal * prodI vals := rfl

/-- **one term**: summing the partitioned term over the upper coordinate gives the term of the Einsum as written -/
theorem term_part (c : PartCfg) (ext : String → Nat) (env : String → Pts) (t : TermAS) (g0 : String → Nat) (c0 E1 : Nat)
    (gfam : Nat → String → Nat) (hrel : ∀ c1, Rel2 c (gfam c1) g0 c0 c1) (hne : c.q0 ≠ c.q1) (hn : 0 < c.n) (hok : TermOK c ext t)
    (hrange : ∀ x ∈ t.tensors, ∀ i, c.fol x.name = some i → ∀ u ∈ (x.idx.getD i default).e.rest c.q, g0 u.2 < ext u.2)
    (hE : c.n * (c0 / c.n) < E1) :
    ((List.range E1).map fun c1 => termValA (convEnv c env) (gfam c1) (convTerm c t)).sum = termValA env g0 t := by
  obtain ⟨hk, htens, x0, hx0, hx0f⟩ := hok
  have hpt : ∀ c1, termValA (convEnv c env) (gfam c1) (convTerm c t) =
      if c1 = c.n * (c0 / c.n) then termValA env g0 t else 0 := by
    intro c1
    have hr := hrel c1
    unfold termValA
    have hkc : (convTerm c t).kind = .times := by simp [convTerm, hk]
    rw [hkc, hk, comb_times, comb_times]
    have hsc : (convTerm c t).scal = t.scal := rfl
    rw [hsc]
    have hvals : (convTerm c t).tensors.map (accessValA (convEnv c env) (gfam c1)) =
        (t.tensors.map fun x => accessValA (convEnv c env) (gfam c1) (convTensor c x)) ++
          [if c1 ≤ c0 ∧ c0 < c1 + c.n then 1 else 0] := by
      simp only [convTerm, List.map_append, List.map_map, List.map_cons, List.map_nil]
      rw [tile_val c env (gfam c1) g0 c0 c1 hr]
      rfl
    rw [hvals, prodI_append_one]
    by_cases hc : c1 = c.n * (c0 / c.n)
    · rw [if_pos hc]
      have h1 : c1 ≤ c0 := by rw [hc]; exact Nat.mul_div_le c0 c.n
      have h2 : c0 < c1 + c.n := by
        have := Nat.lt_mul_div_succ c0 hn
        rw [hc]; rw [Nat.mul_add, Nat.mul_one] at this; exact this
      rw [if_pos ⟨h1, h2⟩]
      have : (t.tensors.map fun x => accessValA (convEnv c env) (gfam c1) (convTensor c x)) = t.tensors.map (accessValA env g0) := by
        apply List.map_congr_left
        intro x hx
        cases hf : c.fol x.name with
        | none => exact accessVal_conv_plain c env (gfam c1) g0 c0 c1 hr hne x hf (htens x hx).1 (htens x hx).2.1
        | some i => exact (follower_val c ext env (gfam c1) g0 c0 c1 hr hne hn x i hf (htens x hx) (hrange x hx i hf)).1 hc
      rw [this]; simp
    · rw [if_neg hc]
      by_cases htile : c1 ≤ c0 ∧ c0 < c1 + c.n
      · rw [if_pos htile]
        obtain ⟨i0, hi0⟩ := Option.isSome_iff_exists.1 hx0f
        have hz := (follower_val c ext env (gfam c1) g0 c0 c1 hr hne hn x0 i0 hi0 (htens x0 hx0) (hrange x0 hx0 i0 hi0)).2 htile.1 htile.2 hc
        have : prodI (t.tensors.map fun x => accessValA (convEnv c env) (gfam c1) (convTensor c x)) = 0 := by
          apply prodI_zero
          rw [← hz]
          exact List.mem_map.2 ⟨x0, hx0, rfl⟩
        rw [this]; simp
      · rw [if_neg htile]; simp
  rw [sum_map_congr _ _ _ (fun c1 _ => hpt c1)]
  exact sum_single E1 _ _ hE

/-! ### the whole Einsum -/

theorem sumF_congr_bounded : ∀ (R : List (String × Nat)), (R.map (·.1)).Nodup → ∀ (F G : (String → Nat) → Int) (f0 : String → Nat),
    (∀ f, (∀ p ∈ R, f p.1 < p.2) → (∀ s, s ∉ R.map (·.1) → f s = f0 s) → F f = G f) → sumF R F f0 = sumF R G f0
  | [], _, F, G, f0, h => h f0 (by simp) (fun _ _ => rfl)
  | (r, e) :: R, hnd, F, G, f0, h => by
    have hnd' : r ∉ R.map (·.1) ∧ (R.map (·.1)).Nodup := by
      have : ((r, e) :: R).map (·.1) = r :: R.map (·.1) := rfl
      rw [this] at hnd
      exact List.nodup_cons.1 hnd
    simp only [sumF]
    apply sum_map_congr
    intro c hc
    apply sumF_congr_bounded R hnd'.2 F G (upd f0 r c)
    intro f hr ha
    have hfr : f r = c := by rw [ha r hnd'.1]; simp [upd]
    apply h f
    · intro p hp
      rcases List.mem_cons.1 hp with rfl | hp'
      · simp only; rw [hfr]; exact List.mem_range.1 hc
      · exact hr p hp'
    · intro s hs
      have hs' : s ∉ R.map (·.1) := fun hm => hs (by simp only [List.map_cons, List.mem_cons]; exact Or.inr hm)
      have hsr : s ≠ r := fun e' => hs (by simp [e'])
      rw [ha s hs']; simp [upd, hsr]

/-- the variables of a follower's offset are loop variables with the extents `ext` -/
def restIn (c : PartCfg) (ext : String → Nat) (R : List (String × Nat)) (x : TensorAS) : Prop :=
  match c.fol x.name with
  | some i => ∀ u ∈ (x.idx.getD i default).e.rest c.q, (u.2, ext u.2) ∈ R
  | none => True

instance (c : PartCfg) (ext : String → Nat) (R : List (String × Nat)) (x : TensorAS) : Decidable (restIn c ext R x) := by
  unfold restIn; split <;> infer_instance

structure PartHyps (c : PartCfg) (ext : String → Nat) (R : List (String × Nat)) (Q E1 : Nat) (out0 : List String) (terms : List TermAS) : Prop where
  hne01 : c.q0 ≠ c.q1
  hn : 0 < c.n
  hQE : Q ≤ E1
  hnd : (R.map (·.1)).Nodup
  hRq : c.q ∉ R.map (·.1)
  hout0 : c.q0 ∉ out0
  hout1 : c.q1 ∉ out0
  hterms : ∀ t ∈ terms, TermOK c ext t
  hrest : ∀ t ∈ terms, ∀ x ∈ t.tensors, restIn c ext R x

instance (c : PartCfg) (ext : String → Nat) (R : List (String × Nat)) (Q E1 : Nat) (out0 : List String) (terms : List TermAS) :
    Decidable (PartHyps c ext R Q E1 out0 terms) :=
  decidable_of_iff (c.q0 ≠ c.q1 ∧ 0 < c.n ∧ Q ≤ E1 ∧ (R.map (·.1)).Nodup ∧ c.q ∉ R.map (·.1) ∧ c.q0 ∉ out0 ∧ c.q1 ∉ out0 ∧
      (∀ t ∈ terms, TermOK c ext t) ∧ (∀ t ∈ terms, ∀ x ∈ t.tensors, restIn c ext R x))
    ⟨fun ⟨a, b, d, e, f, g, h, i, j⟩ => ⟨a, b, d, e, f, g, h, i, j⟩, fun ⟨a, b, d, e, f, g, h, i, j⟩ => ⟨a, b, d, e, f, g, h, i, j⟩⟩

/-- **shape partitioning with a following input rank preserves the meaning**: the Einsum written in `(q1, q0)` over the halo-split
    followers, with the tile tensor standing for the range loop, has the meaning of the Einsum as written, at every output point -/
theorem meaningA_part (c : PartCfg) (ext : String → Nat) (R : List (String × Nat)) (Q E1 : Nat) (out0 : List String)
    (terms : List TermAS) (env : String → Pts) (H : PartHyps c ext R Q E1 out0 terms) (τ : List Nat) :
    meaningA (R ++ [(c.q0, Q)] ++ [(c.q1, E1)]) (out0.map fun v => if v = c.q then c.q0 else v) (terms.map (convTerm c)) (convEnv c env) τ =
    meaningA (R ++ [(c.q, Q)]) out0 terms env τ := by
  unfold meaningA
  rw [sumF_append, sumF_append, sumF_append]
  apply sumF_congr_bounded R H.hnd
  intro f hrng _
  apply sum_map_congr
  intro c0 hc0m
  have hc0 : c0 < Q := List.mem_range.1 hc0m
  -- the two families of assignments
  let g0 := upd f c.q c0
  let gfam : Nat → String → Nat := fun c1 => upd (upd f c.q0 c0) c.q1 c1
  have hrel : ∀ c1, Rel2 c (gfam c1) g0 c0 c1 := by
    intro c1
    refine ⟨?_, ?_, ?_, ?_⟩
    · simp [gfam, upd, H.hne01]
    · simp [gfam, upd]
    · simp [g0, upd]
    · intro v h1 h2 h3
      simp [gfam, g0, upd, h1, h2, h3]
  have hout : ∀ c1, (out0.map fun v => if v = c.q then c.q0 else v).map (gfam c1) = out0.map g0 := by
    intro c1
    rw [List.map_map]
    apply List.map_congr_left
    intro v hv
    simp only [Function.comp]
    by_cases hvq : v = c.q
    · rw [if_pos hvq, (hrel c1).h0, hvq, (hrel c1).hq]
    · rw [if_neg hvq]
      exact (hrel c1).hother v hvq (fun e => H.hout0 (e ▸ hv)) (fun e => H.hout1 (e ▸ hv))
  show ((List.range E1).map fun c1 => if (out0.map fun v => if v = c.q then c.q0 else v).map (gfam c1) = τ then
      ((terms.map (convTerm c)).map (termValA (convEnv c env) (gfam c1))).sum else 0).sum =
    if out0.map g0 = τ then (terms.map (termValA env g0)).sum else 0
  simp only [hout]
  show ((List.range E1).map fun c1 => if out0.map g0 = τ then ((terms.map (convTerm c)).map (termValA (convEnv c env) (gfam c1))).sum else 0).sum =
    if out0.map g0 = τ then (terms.map (termValA env g0)).sum else 0
  by_cases hτ : out0.map g0 = τ
  · simp only [hτ, if_true, List.map_map]
    rw [sum_map_sum_comm]
    apply sum_map_congr
    intro t ht
    simp only [Function.comp]
    apply term_part c ext env t g0 c0 E1 gfam hrel H.hne01 H.hn (H.hterms t ht)
    · intro x hx i hf u hu
      have hin := H.hrest t ht x hx
      unfold restIn at hin
      rw [hf] at hin
      have hmem := hin u hu
      have hlt := hrng (u.2, ext u.2) hmem
      have hne : u.2 ≠ c.q := by
        simp only [AffS.rest, List.mem_filter, Bool.not_eq_true', beq_eq_false_iff_ne, ne_eq] at hu
        exact hu.2
      simp only [g0, upd, hne, if_false]
      exact hlt
    · have := Nat.mul_div_le c0 c.n
      have := H.hQE
      omega
  · simp only [hτ, if_false]
    exact sum_map_zero _ _ (fun _ _ => rfl)

/-- **C04, shape partitioning of the output rank with the input rank following** (output-stationary loop orders): the emitted
    partitioned nest - the header's `splitUniform(stride*n, post_halo=H)` of every follower, the loop over the upper level co-iterating
    the projected upper fibers, the range loop `iterRangeShapeRef(q1, min(q1+n, Q))` over the lower output level, the remaining loops with
    the followers read through `project(inverse of stride*q0 + ρ, interval)` - accumulates, at every output point, the meaning of the
    Einsum AS WRITTEN, for every input: nothing is lost at a partition boundary and nothing is counted in two partitions. -/
theorem runA_part (S1 : EinsumAS) (env : String → Pts) (c : PartCfg) (ext : String → Nat) (R : List (String × Nat)) (Q E1 : Nat)
    (out0 : List String) (terms0 : List TermAS)
    (hS1 : S1.terms = terms0.map (convTerm c))
    (hout : concord S1.loop S1.outVars = out0.map fun v => if v = c.q then c.q0 else v)
    (hperm : (S1.loop.zip S1.exts).Perm (R ++ [(c.q0, Q)] ++ [(c.q1, E1)]))
    (hA : HypsA S1 (convEnv c env)) (H : PartHyps c ext R Q E1 out0 terms0) (τ : List Nat) :
    sumAt τ (runA (levelsA S1) (initTermsA S1 (convEnv c env))) = meaningA (R ++ [(c.q, Q)]) out0 terms0 env τ := by
  rw [runA_eq_meaningA S1 (convEnv c env) hA τ]
  obtain ⟨hnd, hlen, _⟩ := hA
  have hnames : ((S1.loop.zip S1.exts).map (·.1)).Nodup := by
    have : (S1.loop.zip S1.exts).map (·.1) = S1.loop := by
      rw [List.map_fst_zip]; omega
    rw [this]; exact hnd
  have := sumF_perm hperm (fun f => if (concord S1.loop S1.outVars).map f = τ then (S1.terms.map (termValA (convEnv c env) f)).sum else 0) hnames (fun _ => 0)
  unfold meaningA
  rw [this]
  have h2 := meaningA_part c ext R Q E1 out0 terms0 env H τ
  unfold meaningA at h2
  rw [hS1, hout, h2]

end C04
