import TeaalVerif.Props.C01Den
/-!
# C01 — the extent hypothesis follows from a decidable condition on the inputs

`C01.Ext` (every coordinate an emitted loop meets is below the loop's extent) is implied by `InBounds`: every stored point
of every input has, for each rank of the access, a coordinate below that rank's extent.  `InBounds`, `InputsWF`, `S.WF`,
`Nodup` … are all decidable, so the driver evaluates the hypotheses of `C01.resultAt_eq_meaning` on every sampled input.
-/
namespace C01
open Nest

def bnds : List Bool → List Nat → List Nat
  | true :: s, e :: es => e :: bnds s es
  | false :: s, _ :: es => bnds s es
  | _, _ => []

def Below : List Nat → List Nat → Prop
  | c :: cs, b :: bs => c < b ∧ Below cs bs
  | _, _ => True

def OpBounded (es : List Nat) (o : Operand) : Prop := ∀ p ∈ o.pts, Below p.1 (bnds o.sched es)

theorem opBounded_step (c e : Nat) (es : List Nat) (o : Operand) (h : OpBounded (e :: es) o) : OpBounded es (o.step c) := by
  intro p hp
  cases hs : o.sched with
  | nil =>
    have : (o.step c).sched = [] := by simp [Operand.step, hs]
    rw [this]; cases p.1 <;> simp [bnds, Below]
  | cons b s =>
    have hsched : (o.step c).sched = s := by simp [Operand.step, hs]
    rw [hsched]
    cases b with
    | true =>
      have hact : o.active = true := by simp [Operand.active, hs]
      have hpts : (o.step c).pts = slice c o.pts := by simp [Operand.step, hact]
      rw [hpts] at hp
      obtain ⟨tl, v⟩ := p
      have := h (c :: tl, v) (mem_slice.1 hp)
      rw [hs] at this
      exact this.2
    | false =>
      have hact : o.active = false := by simp [Operand.active, hs]
      have hpts : (o.step c).pts = o.pts := by simp [Operand.step, hact]
      rw [hpts] at hp
      have := h p hp
      rw [hs] at this
      exact this

theorem ext_of_opBounded : ∀ (ls : List (Bool × Nat)) (sts : List TermSt),
    (∀ st ∈ sts, ∀ o ∈ st.ops, OpBounded (ls.map (·.2)) o) → Ext ls sts
  | [], _, _ => trivial
  | (ob, e) :: ls, sts, h => by
    refine ⟨?_, fun c => ext_of_opBounded ls _ ?_⟩
    · intro st hst o ho hact c hc
      obtain ⟨tl, v, hmem⟩ := mem_heads.1 hc
      have := h st hst o ho (c :: tl, v) hmem
      have hs : ∃ s, o.sched = true :: s := by
        cases hsc : o.sched with
        | nil => simp [Operand.active, hsc] at hact
        | cons b s => cases b with
          | true => exact ⟨s, rfl⟩
          | false => simp [Operand.active, hsc] at hact
      obtain ⟨s, hs⟩ := hs
      rw [hs] at this
      exact this.1
    · intro st hst o ho
      obtain ⟨st0, hst0, rfl⟩ := List.mem_map.1 hst
      simp only [TermSt.step, List.mem_map] at ho
      obtain ⟨o0, ho0, rfl⟩ := ho
      exact opBounded_step c e _ o0 (h st0 hst0 o0 ho0)

/-- extent of a loop rank -/
def extOf (loop : List String) (exts : List Nat) (r : String) : Nat := ((loop.zip exts).lookup r).getD 0

/-- every stored coordinate is below the extent of its rank (decidable) -/
def InBounds (S : EinsumS) (env : String → Pts) : Prop :=
  ∀ t ∈ S.terms, ∀ x ∈ t.tensors, ∀ p ∈ env x.name, ∀ r ∈ x.ranks, p.1.getD (x.ranks.idxOf r) 0 < extOf S.loop S.exts r

instance (S : EinsumS) (env : String → Pts) : Decidable (InBounds S env) := by unfold InBounds; infer_instance
instance (S : EinsumS) (env : String → Pts) : Decidable (InputsWF S env) := by unfold InputsWF; infer_instance

theorem below_init (xr : List String) (h : String → Nat) :
    ∀ (loop : List String) (exts : List Nat), loop.Nodup → exts.length = loop.length →
      (∀ r ∈ loop, xr.contains r = true → h r < extOf loop exts r) →
      Below ((concord loop xr).map h) (bnds (schedOf loop xr) exts)
  | [], _, _, _, _ => by simp [concord, Below]
  | r :: loop, [], _, hl, _ => by simp at hl
  | r :: loop, e :: exts, hnd, hl, hb => by
    have hnd' := List.nodup_cons.1 hnd
    have ih := below_init xr h loop exts hnd'.2 (by simpa using hl) (by
      intro r' hr' hc
      have := hb r' (List.mem_cons_of_mem _ hr') hc
      have hne : r ≠ r' := fun e => hnd'.1 (e ▸ hr')
      have hb' : (r' == r) = false := by simp [Ne.symm hne]
      simpa [extOf, List.zip_cons_cons, List.lookup_cons, hb'] using this)
    by_cases hm : xr.contains r = true
    · have h0 := hb r (by simp) hm
      have : extOf (r :: loop) (e :: exts) r = e := by simp [extOf, List.zip_cons_cons, List.lookup_cons]
      rw [this] at h0
      rw [concord_cons_mem hm]
      have hs : schedOf (r :: loop) xr = true :: schedOf loop xr := by
        show xr.contains r :: schedOf loop xr = _; rw [hm]
      rw [hs]
      exact ⟨h0, ih⟩
    · have hm' : xr.contains r = false := by simpa using hm
      rw [concord_cons_not_mem hm']
      have hs : schedOf (r :: loop) xr = false :: schedOf loop xr := by
        show xr.contains r :: schedOf loop xr = _; rw [hm']
      rw [hs]
      exact ih

/-- **`Ext` from the decidable input condition** -/
theorem ext_of_inBounds (S : EinsumS) (env : String → Pts) (hnd : S.loop.Nodup) (hlen : S.exts.length = S.loop.length)
    (hb : InBounds S env) : Ext (levels S) (initTerms S env) := by
  apply ext_of_opBounded
  intro st hst o ho
  simp only [initTerms, List.mem_map] at hst
  obtain ⟨t, ht, rfl⟩ := hst
  simp only [List.mem_map] at ho
  obtain ⟨x, hx, rfl⟩ := ho
  intro p hp
  simp only [initOperand, List.mem_map] at hp
  obtain ⟨⟨cs, v⟩, hq, rfl⟩ := hp
  have hexts : (levels S).map (·.2) = S.exts := by
    simp only [levels, List.map_map]
    have : ((fun x : Bool × Nat => x.2) ∘ fun x : String × Nat => (S.outRanks.contains x.1, x.2)) = (·.2) := by funext x; rfl
    rw [this, List.map_snd_zip]; omega
  rw [hexts]
  exact below_init x.ranks (fun r => cs.getD (x.ranks.idxOf r) 0) S.loop S.exts hnd hlen
    (fun r _ hc => hb t ht x hx (cs, v) hq r (by simpa using hc))

/-- **C01 with checkable hypotheses only** -/
theorem resultAt_eq_meaning' (S : EinsumS) (env : String → Pts) (hS : S.WF) (hnd : S.loop.Nodup) (hlen : S.exts.length = S.loop.length)
    (hP : ∀ t ∈ S.terms, t.kind = .times ∨ (t.kind = .take 0 ∧ t.tensors.length = 1))
    (hb : InBounds S env) (hin : InputsWF S env)
    (hout : S.outRanks.Nodup) (houtin : ∀ r ∈ S.outRanks, r ∈ S.loop) (σ : List Nat) (hl : σ.length = S.outRanks.length) :
    resultAt S env σ = meaning (S.loop.zip S.exts) S.outRanks S.terms env σ :=
  resultAt_eq_meaning S env hS hnd hlen hP (ext_of_inBounds S env hnd hlen hb) hin hout houtin σ hl

end C01

namespace C01
open Nest

/-- **C01 for a single `take` term, order-free form**: the emitted nest of `Z[..] = take(A, B, …, sel)` (any number of
    operands, inputs without stored zeros or duplicates, no empty rank-0 operand) computes the Einsum's meaning:
    the selected operand where all operands are non-zero -/
theorem run_eq_meaning_take (S : EinsumS) (env : String → Pts) (t : TermS) (hterms : S.terms = [t])
    (hnd : S.loop.Nodup) (hlen : S.exts.length = S.loop.length)
    (hT : TakeInv (levels S) { kind := t.kind, scal := t.scal, ops := t.tensors.map fun x => initOperand S.loop x (env x.name) })
    (hb : InBounds S env) (hin : InputsWF S env) (τ : List Nat) :
    sumAt τ (run (levels S) (initTerms S env)) = meaning (S.loop.zip S.exts) (concord S.loop S.outRanks) S.terms env τ := by
  have hst : initTerms S env = [{ kind := t.kind, scal := t.scal, ops := t.tensors.map fun x => initOperand S.loop x (env x.name) }] := by
    simp [initTerms, hterms]
  have hE := ext_of_inBounds S env hnd hlen hb
  have hW : LevelWF (levels S) (initTerms S env) := by
    rw [hst]
    -- a single term: every level is trivially uniform
    have : ∀ (ls : List (Bool × Nat)) (st : TermSt), LevelWF ls [st] := by
      intro ls
      induction ls with
      | nil => intro _; trivial
      | cons l ls ih =>
        intro st
        refine ⟨?_, fun c => ih (st.step c)⟩
        cases h : hasActive st.ops
        · exact Or.inr (fun st' hst' => by simp at hst'; subst hst'; exact h)
        · exact Or.inl (fun st' hst' => by simp at hst'; subst hst'; exact h)
    exact this _ _
  rw [hst] at hE hW ⊢
  rw [run_eq_spec_single (levels S) _ hT hW hE τ, ← hst]
  exact spec_eq_meaning S env hnd hlen hin τ

end C01
