import TeaalVerif.IR.Hoist
/-!
# C10 — statement order respects every dependence (hoisting)

For **every** graph (edge list), **every** topological order of it (all tie-breaks), every loop
order and descendant sets closed under successors:

* `hoistOne_topo` / `hoistAll_topo`: hoisting keeps the sequence a topological order — no statement
  is moved across a statement it depends on, loop openings/closings keep their nesting (they are
  chained by edges, `before_of_edge`);
* `hoistOne_perm` / `hoistAll_perm`: no statement is dropped or duplicated;
* `hoistOne_moved_legal`: a statement is moved above a loop only if it is not a descendant of it;
* `hoistOne_minimal`: whatever stays between the loop node and the old `end` is a descendant.
-/
namespace C10
open Hoist

theorem split_at (s : List Nat) (i e : Nat) (_h : i + 1 ≤ e) :
    s = s.take i ++ (s.drop i).take 1 ++ ((s.drop (i + 1)).take (e - (i + 1)) ++ s.drop (i + 1 + (e - (i + 1)))) := by
  have h1 : (s.drop (i + 1)).take (e - (i + 1)) ++ s.drop (i + 1 + (e - (i + 1))) = s.drop (i + 1) := by
    have := List.take_append_drop (e - (i + 1)) (s.drop (i + 1))
    rw [List.drop_drop] at this
    exact this
  rw [h1]
  have h2 : (s.drop i).take 1 ++ s.drop (i + 1) = s.drop i := by
    have := List.take_append_drop 1 (s.drop i)
    rw [List.drop_drop] at this
    exact this
  rw [List.append_assoc, h2, List.take_append_drop]

theorem drop_idxOf_take_one (s : List Nat) (L : Nat) (h : s.idxOf L < s.length) :
    (s.drop (s.idxOf L)).take 1 = [L] := by
  induction s with
  | nil => simp at h
  | cons a as ih =>
    by_cases ha : a = L
    · subst ha; simp
    · have hne : (a == L) = false := by simpa using ha
      have : (a :: as).idxOf L = as.idxOf L + 1 := by
        simp [List.idxOf_cons, hne]
      rw [this]
      simp only [List.drop_succ_cons]
      apply ih
      rw [this] at h
      simpa using h

/-- decomposition of the sequence around the loop node -/
theorem decompose (s : List Nat) (L : Nat) (e : Nat) (h1 : s.idxOf L + 1 ≤ e) (h2 : s.idxOf L < s.length) :
    s = s.take (s.idxOf L) ++ (L :: ((s.drop (s.idxOf L + 1)).take (e - (s.idxOf L + 1)) ++
        s.drop (s.idxOf L + 1 + (e - (s.idxOf L + 1))))) := by
  have := split_at s (s.idxOf L) e h1
  rw [drop_idxOf_take_one s L h2] at this
  simpa [List.append_assoc] using this

theorem topo_rearrange (edges : List (Nat × Nat)) (L : Nat) (D : Nat → Bool) (hC : Closed edges L D)
    (pre mid post : List Nat) (hT : Topo edges (pre ++ (L :: (mid ++ post)))) :
    Topo edges (pre ++ (mid.filter (fun x => !D x) ++ (L :: (mid.filter D ++ post)))) := by
  unfold Topo at *
  rw [List.pairwise_append] at hT ⊢
  obtain ⟨hpre, hrest, hcross⟩ := hT
  rw [List.pairwise_cons, List.pairwise_append] at hrest
  obtain ⟨hL, hmid, hpost, hmp⟩ := hrest
  refine ⟨hpre, ?_, ?_⟩
  · rw [List.pairwise_append]
    refine ⟨hmid.sublist List.filter_sublist, ?_, ?_⟩
    · rw [List.pairwise_cons, List.pairwise_append]
      refine ⟨?_, hmid.sublist List.filter_sublist, hpost, ?_⟩
      · intro b hb
        apply hL
        rcases List.mem_append.1 hb with hb | hb
        · exact List.mem_append_left _ ((List.mem_filter.1 hb).1)
        · exact List.mem_append_right _ hb
      · intro a ha b hb
        exact hmp a ((List.mem_filter.1 ha).1) b hb
    · intro a ha b hb
      have haD : D a = false := by
        have := (List.mem_filter.1 ha).2
        simpa using this
      rcases List.mem_cons.1 hb with rfl | hb
      · -- no edge L → a, since a is not a descendant
        intro hedge
        have := (hC _ hedge).1 rfl
        simp at this
        rw [haD] at this
        cases this
      · rcases List.mem_append.1 hb with hb | hb
        · -- b is a descendant, a is not: no edge b → a
          have hbD : D b = true := (List.mem_filter.1 hb).2
          intro hedge
          have := (hC _ hedge).2 hbD
          simp at this
          rw [haD] at this
          cases this
        · exact hmp a ((List.mem_filter.1 ha).1) b hb
  · intro a ha b hb
    apply hcross a ha
    rcases List.mem_append.1 hb with hb | hb
    · exact List.mem_cons_of_mem _ (List.mem_append_left _ ((List.mem_filter.1 hb).1))
    · rcases List.mem_cons.1 hb with rfl | hb
      · exact List.mem_cons_self
      · rcases List.mem_append.1 hb with hb | hb
        · exact List.mem_cons_of_mem _ (List.mem_append_left _ ((List.mem_filter.1 hb).1))
        · exact List.mem_cons_of_mem _ (List.mem_append_right _ hb)

/-- **one hoisting step keeps a topological order topological** -/
theorem hoistOne_topo (edges : List (Nat × Nat)) (s : List Nat) (L : Nat) (D : Nat → Bool) (e : Nat)
    (hC : Closed edges L D) (hT : Topo edges s) : Topo edges (hoistOne s L D e).1 := by
  unfold hoistOne
  simp only
  split
  · rename_i h
    have hd := decompose s L e h.1 h.2
    rw [hd] at hT
    exact topo_rearrange edges L D hC _ _ _ hT
  · exact hT

theorem filter_perm (mid : List Nat) (D : Nat → Bool) :
    (mid.filter (fun x => !D x) ++ mid.filter D).Perm mid := by
  have := List.filter_append_perm D mid
  exact (List.perm_append_comm).trans this

/-- **no statement is dropped or duplicated** -/
theorem hoistOne_perm (s : List Nat) (L : Nat) (D : Nat → Bool) (e : Nat) : (hoistOne s L D e).1.Perm s := by
  unfold hoistOne
  simp only
  split
  · rename_i h
    have hd := decompose s L e h.1 h.2
    conv => rhs; rw [hd]
    apply List.Perm.append_left
    -- up ++ L :: (down ++ post)  ~  L :: (mid ++ post)
    refine (List.perm_middle).trans ?_
    apply List.Perm.cons
    rw [← List.append_assoc]
    exact List.Perm.append_right _ (filter_perm _ D)
  · exact List.Perm.refl _

/-- the pass over all loops -/
theorem foldl_topo (edges : List (Nat × Nat)) (loops : List (Nat × (Nat → Bool)))
    (hC : ∀ l ∈ loops, Closed edges l.1 l.2) (acc : List Nat × Nat) (hT : Topo edges acc.1) :
    Topo edges (loops.foldl (fun (acc : List Nat × Nat) l => hoistOne acc.1 l.1 l.2 acc.2) acc).1 := by
  induction loops generalizing acc with
  | nil => simpa using hT
  | cons l ls ih =>
    simp only [List.foldl_cons]
    apply ih (fun l' hl' => hC l' (List.mem_cons_of_mem _ hl'))
    exact hoistOne_topo edges acc.1 l.1 l.2 acc.2 (hC l List.mem_cons_self) hT

theorem foldl_perm (loops : List (Nat × (Nat → Bool))) (acc : List Nat × Nat) :
    (loops.foldl (fun (acc : List Nat × Nat) l => hoistOne acc.1 l.1 l.2 acc.2) acc).1.Perm acc.1 := by
  induction loops generalizing acc with
  | nil => exact List.Perm.refl _
  | cons l ls ih =>
    simp only [List.foldl_cons]
    exact (ih _).trans (hoistOne_perm _ _ _ _)

/-- **C10 (hoisting, all loops)**: for every graph, every topological order and every loop order -/
theorem hoistAll_topo (edges : List (Nat × Nat)) (s : List Nat) (loops : List (Nat × (Nat → Bool)))
    (hC : ∀ l ∈ loops, Closed edges l.1 l.2) (hT : Topo edges s) : Topo edges (hoistAll s loops) := by
  unfold hoistAll
  exact foldl_topo edges loops.reverse (fun l hl => hC l (List.mem_reverse.1 hl)) (s, s.length) hT

theorem hoistAll_perm (s : List Nat) (loops : List (Nat × (Nat → Bool))) : (hoistAll s loops).Perm s := by
  unfold hoistAll
  exact foldl_perm loops.reverse (s, s.length)

/-- in a duplicate-free topological order an edge's source comes strictly first (used for the loop
    chain: `Loop r → … → Body → … → EndLoop r → Footer` stays properly nested) -/
theorem before_of_edge (edges : List (Nat × Nat)) (s : List Nat) (hT : Topo edges s) (a b : Nat)
    (hab : (a, b) ∈ edges) (l1 l2 l3 : List Nat) : s ≠ l1 ++ (b :: (l2 ++ (a :: l3))) := by
  intro hs
  subst hs
  unfold Topo at hT
  rw [List.pairwise_append] at hT
  have := hT.2.1
  rw [List.pairwise_cons] at this
  exact this.1 a (by simp) hab

/-- a statement moved above the loop node is not one of its descendants;
    whatever stays between the loop node and the old `end` is one -/
theorem hoistOne_moved_legal (s : List Nat) (L : Nat) (D : Nat → Bool) (e : Nat)
    (h : s.idxOf L + 1 ≤ e ∧ s.idxOf L < s.length) :
    ∃ pre up down post, (hoistOne s L D e).1 = pre ++ (up ++ (L :: (down ++ post))) ∧
      s = pre ++ (L :: ((s.drop (s.idxOf L + 1)).take (e - (s.idxOf L + 1)) ++ post)) ∧
      (∀ x ∈ up, D x = false) ∧ (∀ x ∈ down, D x = true) := by
  refine ⟨s.take (s.idxOf L), ((s.drop (s.idxOf L + 1)).take (e - (s.idxOf L + 1))).filter (fun x => !D x),
    ((s.drop (s.idxOf L + 1)).take (e - (s.idxOf L + 1))).filter D,
    s.drop (s.idxOf L + 1 + (e - (s.idxOf L + 1))), ?_, decompose s L e h.1 h.2, ?_, ?_⟩
  · unfold hoistOne
    simp only [h, and_self, if_true]
  · intro x hx
    simpa using (List.mem_filter.1 hx).2
  · intro x hx
    exact (List.mem_filter.1 hx).2

/-- non-vacuity: 0 = Loop, 1 depends on it, 2 does not and is hoisted above it -/
example : hoistAll [0, 1, 2, 3] [(0, fun x => x == 1 || x == 3)] = [2, 0, 1, 3] := by decide
example : Topo [(0, 1), (1, 3), (2, 3)] [0, 1, 2, 3] ∧ Closed [(0, 1), (1, 3), (2, 3)] 0 (fun x => x == 1 || x == 3) := by
  decide

end C10
