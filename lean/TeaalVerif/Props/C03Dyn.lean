import TeaalVerif.Nest.Dyn
import TeaalVerif.Props.C01DenP
import TeaalVerif.Props.C01Ext
import TeaalVerif.Props.C01K
/-!
# C03 — dynamic (occupancy) partitioning inside the loop nest: general lemmas
-/
namespace C03
open Nest C01

/-! ### small facts on `sumAt` -/

theorem sumAt_eq_zero_of_ne (τ : List Nat) (P : Pts) (h : ∀ p ∈ P, p.1 ≠ τ) : sumAt τ P = 0 := by
  induction P with
  | nil => rfl
  | cons p ps ih =>
    obtain ⟨cs, v⟩ := p
    rw [sumAt_cons, if_neg (h (cs, v) (by simp)), ih (fun q hq => h q (by simp [hq]))]; rfl

theorem sumAt_filter (τ : List Nat) (P : Pts) (q : List Nat × Int → Bool) (h : ∀ p ∈ P, p.1 = τ → q p = true) :
    sumAt τ (P.filter q) = sumAt τ P := by
  induction P with
  | nil => rfl
  | cons p ps ih =>
    obtain ⟨cs, v⟩ := p
    have ih' := ih (fun p hp => h p (by simp [hp]))
    by_cases hq : q (cs, v) = true
    · rw [List.filter_cons_of_pos hq, sumAt_cons, sumAt_cons, ih']
    · have hne : cs ≠ τ := fun e => hq (h (cs, v) (by simp) e)
      rw [List.filter_cons_of_neg hq, sumAt_cons, if_neg hne, ih']; simp

/-! ### splitting a point: lengths and bounds by rank name -/

theorem length_splitPt (K K1 K0 : String) (g : Nat → Nat) : ∀ (rs : List String) (cs : List Nat), cs.length = rs.length →
    (splitPt K g rs cs).length = (splitRanks K K1 K0 rs).length
  | [], cs, h => by
    have : cs = [] := List.length_eq_zero_iff.1 (by simpa using h)
    subst this; rfl
  | r :: rs, [], h => by simp at h
  | r :: rs, c :: cs, h => by
    have ih := length_splitPt K K1 K0 g rs cs (by simpa using h)
    by_cases hr : r = K <;> simp [splitPt, splitRanks, hr, ih]

theorem split_bound (K K1 K0 : String) (g : Nat → Nat) (extU ext' : String → Nat)
    (hg : ∀ k, k < extU K → g k < ext' K1) (h0 : ext' K0 = extU K) :
    ∀ (aR : List String) (cs : List Nat), cs.length = aR.length → (splitRanks K K1 K0 aR).Nodup →
      Below cs (aR.map extU) → (∀ r ∈ aR, r ≠ K → ext' r = extU r) →
      ∀ r ∈ splitRanks K K1 K0 aR, (splitPt K g aR cs).getD ((splitRanks K K1 K0 aR).idxOf r) 0 < ext' r
  | [], _, _, _, _, _ => by intro r hr; simp [splitRanks] at hr
  | a :: aR, [], hl, _, _, _ => by simp at hl
  | a :: aR, c :: cs, hl, hnd, hb, he => by
    have hl' : cs.length = aR.length := by simpa using hl
    simp only [List.map_cons, Below] at hb
    by_cases ha : a = K
    · subst ha
      have hsr : splitRanks a K1 K0 (a :: aR) = K1 :: K0 :: splitRanks a K1 K0 aR := by simp [splitRanks]
      have hsp : splitPt a g (a :: aR) (c :: cs) = g c :: c :: splitPt a g aR cs := by simp [splitPt]
      rw [hsr] at hnd ⊢
      rw [hsp]
      have hnd1 := List.nodup_cons.1 hnd
      have hnd2 := List.nodup_cons.1 hnd1.2
      have ih := split_bound a K1 K0 g extU ext' hg h0 aR cs hl' hnd2.2 hb.2 (fun r hr => he r (List.mem_cons_of_mem _ hr))
      intro r hr
      rcases List.mem_cons.1 hr with e | hr
      · subst e; simp; exact hg c hb.1
      · have h1r : (K1 == r) = false := by
          have : K1 ≠ r := fun e => hnd1.1 (e ▸ hr)
          simp [this]
        rcases List.mem_cons.1 hr with e | hr
        · subst e
          simp [List.idxOf_cons, h1r]
          rw [h0]; exact hb.1
        · have h0r : (K0 == r) = false := by
            have : K0 ≠ r := fun e => hnd2.1 (e ▸ hr)
            simp [this]
          have := ih r hr
          simpa [List.idxOf_cons, h1r, h0r] using this
    · have hsr : splitRanks K K1 K0 (a :: aR) = a :: splitRanks K K1 K0 aR := by simp [splitRanks, ha]
      have hsp : splitPt K g (a :: aR) (c :: cs) = c :: splitPt K g aR cs := by simp [splitPt, ha]
      rw [hsr] at hnd ⊢
      rw [hsp]
      have hnd1 := List.nodup_cons.1 hnd
      have ih := split_bound K K1 K0 g extU ext' hg h0 aR cs hl' hnd1.2 hb.2 (fun r hr => he r (List.mem_cons_of_mem _ hr))
      intro r hr
      rcases List.mem_cons.1 hr with e | hr
      · subst e; simp; rw [he r (by simp) ha]; exact hb.1
      · have har : (a == r) = false := by
          have : a ≠ r := fun e => hnd1.1 (e ▸ hr)
          simp [this]
        have := ih r hr
        simpa [List.idxOf_cons, har] using this

/-- the extents of the active loops, by name -/
theorem bnds_schedOf (xr : List String) : ∀ (loop : List String) (exts : List Nat), loop.Nodup → exts.length = loop.length →
    bnds (schedOf loop xr) exts = (concord loop xr).map (extOf loop exts)
  | [], _, _, _ => by simp [schedOf, bnds, concord]
  | r :: loop, [], _, hl => by simp at hl
  | r :: loop, e :: exts, hnd, hl => by
    have hnd' := List.nodup_cons.1 hnd
    have ih := bnds_schedOf xr loop exts hnd'.2 (by simpa using hl)
    have hext : ∀ s ∈ loop, extOf (r :: loop) (e :: exts) s = extOf loop exts s := by
      intro s hs
      have hne : (s == r) = false := by
        have : s ≠ r := fun e => hnd'.1 (e ▸ hs)
        simp [this]
      simp [extOf, List.zip_cons_cons, List.lookup_cons, hne]
    have hmap : (concord loop xr).map (extOf (r :: loop) (e :: exts)) = (concord loop xr).map (extOf loop exts) := by
      apply List.map_congr_left
      intro s hs
      exact hext s (mem_concord.1 hs).1
    by_cases hm : xr.contains r = true
    · have hs : schedOf (r :: loop) xr = true :: schedOf loop xr := by
        show xr.contains r :: schedOf loop xr = _; rw [hm]
      rw [hs, concord_cons_mem hm]
      simp only [bnds, List.map_cons, ih, hmap]
      congr 1
      simp [extOf, List.zip_cons_cons, List.lookup_cons]
    · have hm' : xr.contains r = false := by simpa using hm
      have hs : schedOf (r :: loop) xr = false :: schedOf loop xr := by
        show xr.contains r :: schedOf loop xr = _; rw [hm']
      rw [hs, concord_cons_not_mem hm']
      simp only [bnds, ih, hmap]

end C03

namespace C03
open Nest C01

/-- static side conditions of a dynamic split in a single-term (product) Einsum — all decidable -/
structure DynOK (D : DynSpec) (out : List String) (ranks0 : List (List String)) : Prop where
  ranks_eq : D.ranks = [ranks0]
  leadT0 : D.leadT = 0
  headU : D.rsU.head? = some D.K
  ndU : D.rsU.Nodup
  nd' : D.rs'.Nodup
  lenU : D.esU.length = D.rsU.length
  len' : D.es'.length = D.rs'.length
  memK : (D.K, extOf D.rsU D.esU D.K) ∈ D.rsU.zip D.esU
  perm' : (D.rs'.zip D.es').Perm ((D.K1, extOf D.rsU D.esU D.K) :: (D.K0, extOf D.rsU D.esU D.K) :: (D.rsU.zip D.esU).erase (D.K, extOf D.rsU D.esU D.K))
  ne10 : D.K1 ≠ D.K0
  freshU : D.K1 ∉ D.rsU ∧ D.K0 ∉ D.rsU
  outc : concord D.rs' (renameRanks D.K D.K0 out) = renameRanks D.K D.K0 (concord D.rsU out)
  conc : ∀ aR ∈ ranks0, concord D.rsU aR = aR
  headK : ∀ aR ∈ ranks0, D.K ∈ aR → aR.head? = some D.K
  nd2 : ∀ aR ∈ ranks0, (splitRanks D.K D.K1 D.K0 aR).Nodup
  sub2 : ∀ aR ∈ ranks0, ∀ r ∈ splitRanks D.K D.K1 D.K0 aR, r ∈ D.rs'
  lead : ∃ aL, ranks0[D.leadO]? = some aL ∧ D.K ∈ aL
  ext2 : ∀ aR ∈ ranks0, ∀ r ∈ aR, r ≠ D.K → extOf D.rs' D.es' r = extOf D.rsU D.esU r
  extK1 : extOf D.rs' D.es' D.K1 = extOf D.rsU D.esU D.K
  extK0 : extOf D.rs' D.es' D.K0 = extOf D.rsU D.esU D.K

/-- what the outer loops hand to the split: one product term whose operands sit at the ranks `ranks0`, with points of the
    right arity inside the extents -/
structure Res (D : DynSpec) (ranks0 : List (List String)) (st : TermSt) : Prop where
  kind : st.kind = .times
  len : st.ops.length = ranks0.length
  sched : ∀ (i : Nat) (aR : List String) (o : Operand), ranks0[i]? = some aR → st.ops[i]? = some o → o.sched = schedOf D.rsU aR
  arity : ∀ (i : Nat) (aR : List String) (o : Operand), ranks0[i]? = some aR → st.ops[i]? = some o → ∀ p ∈ o.pts, p.1.length = aR.length
  bounded : ∀ o ∈ st.ops, OpBounded D.esU o

def accsU : List (List String) → List Operand → List AccessP
  | aR :: rk, o :: os => ⟨aR, o.pts⟩ :: accsU rk os
  | _, _ => []

def accsR (K : String) (keep : Nat → Bool) : List (List String) → List Operand → List AccessP
  | aR :: rk, o :: os => ⟨aR, restrictPts K keep aR o.pts⟩ :: accsR K keep rk os
  | _, _ => []

theorem zipWith2_index {α β γ : Type} (f : α → β → γ) : ∀ (as : List α) (bs : List β) (i : Nat) (c : γ),
    (zipWith2 f as bs)[i]? = some c → ∃ a b, as[i]? = some a ∧ bs[i]? = some b ∧ c = f a b
  | [], _, i, c, h => by simp [zipWith2] at h
  | _ :: _, [], i, c, h => by simp [zipWith2] at h
  | a :: as, b :: bs, 0, c, h => by simp [zipWith2] at h; exact ⟨a, b, rfl, rfl, h.symm⟩
  | a :: as, b :: bs, i + 1, c, h => by
    simp only [zipWith2, List.getElem?_cons_succ] at h ⊢
    exact zipWith2_index f as bs i c h

/-- the unsplit states represent the accesses `accsU` (whatever the outer coordinates were) -/
theorem opsRelP_U (D : DynSpec) (f : String → Nat) : ∀ (rk : List (List String)) (os : List Operand), os.length = rk.length →
    (∀ (i : Nat) (aR : List String) (o : Operand), rk[i]? = some aR → os[i]? = some o → o.sched = schedOf D.rsU aR) → (∀ aR ∈ rk, concord D.rsU aR = aR) →
    OpsRelP D.rsU f (accsU rk os) os
  | [], [], _, _, _ => trivial
  | [], _ :: _, h, _, _ => by simp at h
  | _ :: _, [], h, _, _ => by simp at h
  | aR :: rk, o :: os, hl, hs, hc => by
    refine ⟨⟨hs 0 aR o rfl rfl, ?_⟩, opsRelP_U D f rk os (by simpa using hl)
      (fun i a o' h1 h2 => hs (i + 1) a o' (by simpa using h1) (by simpa using h2)) (fun a ha => hc a (List.mem_cons_of_mem _ ha))⟩
    intro f' _
    show sumAt ((concord D.rsU aR).map f') o.pts = sumAt (aR.map f') o.pts
    rw [hc aR (by simp)]

end C03

namespace C03
open Nest C01

theorem restrictPts_subset (K : String) (keep : Nat → Bool) (aR : List String) (P : Pts) : ∀ p ∈ restrictPts K keep aR P, p ∈ P := by
  intro p hp
  unfold restrictPts at hp
  split at hp
  · exact (List.mem_filter.1 hp).1
  · exact hp

/-- the split states represent the split (restricted) accesses -/
theorem opsRelP_S (D : DynSpec) (g : Nat → Nat) (keep : Nat → Bool) (f : String → Nat) :
    ∀ (rk : List (List String)) (os : List Operand), os.length = rk.length →
    (∀ (i : Nat) (aR : List String) (o : Operand), rk[i]? = some aR → os[i]? = some o → ∀ p ∈ o.pts, p.1.length = aR.length) →
    (∀ aR ∈ rk, (splitRanks D.K D.K1 D.K0 aR).Nodup) → (∀ aR ∈ rk, ∀ r ∈ splitRanks D.K D.K1 D.K0 aR, r ∈ D.rs') →
    OpsRelP D.rs' f ((accsR D.K keep rk os).map (splitAccess D.K D.K1 D.K0 g)) (zipWith2 (dynOperand D g keep) rk os)
  | [], [], _, _, _, _ => trivial
  | [], _ :: _, h, _, _, _ => by simp at h
  | _ :: _, [], h, _, _, _ => by simp at h
  | aR :: rk, o :: os, hl, har, hnd, hsub => by
    refine ⟨⟨rfl, ?_⟩, opsRelP_S D g keep f rk os (by simpa using hl)
      (fun i a o' h1 h2 => har (i + 1) a o' (by simpa using h1) (by simpa using h2))
      (fun a ha => hnd a (List.mem_cons_of_mem _ ha)) (fun a ha => hsub a (List.mem_cons_of_mem _ ha))⟩
    intro f' _
    let aR' := splitRanks D.K D.K1 D.K0 aR
    let PR := restrictPts D.K keep aR o.pts
    show sumAt ((concord D.rs' aR').map f') (PR.map fun p => (reorder aR' (concord D.rs' aR') (splitPt D.K g aR p.1), p.2)) =
      sumAt (aR'.map f') (splitPts D.K g aR PR)
    have hmm : (PR.map fun p => (reorder aR' (concord D.rs' aR') (splitPt D.K g aR p.1), p.2)) =
        (splitPts D.K g aR PR).map fun (cs, v) => (reorder aR' (concord D.rs' aR') cs, v) := by
      simp [splitPts, List.map_map, Function.comp_def]
    rw [hmm]
    apply sumAt_reorder f' aR' (concord D.rs' aR') _ (hnd aR (by simp))
    · intro r hr; exact mem_concord.2 ⟨hsub aR (by simp) r hr, hr⟩
    · intro r hr; exact (mem_concord.1 hr).2
    · intro q hq
      simp only [splitPts, List.mem_map] at hq
      obtain ⟨p, hp, rfl⟩ := hq
      exact length_splitPt D.K D.K1 D.K0 g aR p.1 (har 0 aR o rfl rfl p (restrictPts_subset _ _ _ _ p hp))

end C03

namespace C03
open Nest C01

theorem opBounded_S (D : DynSpec) (g : Nat → Nat) (keep : Nat → Bool) (aR : List String) (o : Operand)
    (hs : o.sched = schedOf D.rsU aR) (hb : OpBounded D.esU o) (har : ∀ p ∈ o.pts, p.1.length = aR.length)
    (hc : concord D.rsU aR = aR) (ndU : D.rsU.Nodup) (lenU : D.esU.length = D.rsU.length)
    (nd' : D.rs'.Nodup) (len' : D.es'.length = D.rs'.length)
    (hnd : (splitRanks D.K D.K1 D.K0 aR).Nodup)
    (he : ∀ r ∈ aR, r ≠ D.K → extOf D.rs' D.es' r = extOf D.rsU D.esU r)
    (hg : ∀ k, k < extOf D.rsU D.esU D.K → g k < extOf D.rs' D.es' D.K1) (h0 : extOf D.rs' D.es' D.K0 = extOf D.rsU D.esU D.K) :
    OpBounded D.es' (dynOperand D g keep aR o) := by
  intro q hq
  simp only [dynOperand, List.mem_map] at hq
  obtain ⟨p, hp, rfl⟩ := hq
  have hpo : p ∈ o.pts := restrictPts_subset _ _ _ _ p hp
  have hbp : Below p.1 (aR.map (extOf D.rsU D.esU)) := by
    have := hb p hpo
    rw [hs, bnds_schedOf aR D.rsU D.esU ndU lenU, hc] at this
    exact this
  have hsb := split_bound D.K D.K1 D.K0 g (extOf D.rsU D.esU) (extOf D.rs' D.es') hg h0 aR p.1 (har p hpo) hnd hbp he
  show Below (reorder _ _ _) (bnds (schedOf D.rs' (splitRanks D.K D.K1 D.K0 aR)) D.es')
  unfold reorder
  apply below_init (splitRanks D.K D.K1 D.K0 aR) _ D.rs' D.es' nd' len'
  intro r _ hcr
  exact hsb r (by simpa using hcr)

theorem opsBounded_S (D : DynSpec) (g : Nat → Nat) (keep : Nat → Bool)
    (ndU : D.rsU.Nodup) (lenU : D.esU.length = D.rsU.length) (nd' : D.rs'.Nodup) (len' : D.es'.length = D.rs'.length)
    (hg : ∀ k, k < extOf D.rsU D.esU D.K → g k < extOf D.rs' D.es' D.K1) (h0 : extOf D.rs' D.es' D.K0 = extOf D.rsU D.esU D.K) :
    ∀ (rk : List (List String)) (os : List Operand),
    (∀ (i : Nat) (aR : List String) (o : Operand), rk[i]? = some aR → os[i]? = some o → o.sched = schedOf D.rsU aR) →
    (∀ (i : Nat) (aR : List String) (o : Operand), rk[i]? = some aR → os[i]? = some o → ∀ p ∈ o.pts, p.1.length = aR.length) →
    (∀ o ∈ os, OpBounded D.esU o) → (∀ aR ∈ rk, concord D.rsU aR = aR) →
    (∀ aR ∈ rk, (splitRanks D.K D.K1 D.K0 aR).Nodup) →
    (∀ aR ∈ rk, ∀ r ∈ aR, r ≠ D.K → extOf D.rs' D.es' r = extOf D.rsU D.esU r) →
    ∀ o' ∈ zipWith2 (dynOperand D g keep) rk os, OpBounded D.es' o'
  | [], _, _, _, _, _, _, _ => by intro o' ho'; simp [zipWith2] at ho'
  | _ :: _, [], _, _, _, _, _, _ => by intro o' ho'; simp [zipWith2] at ho'
  | aR :: rk, o :: os, hs, har, hb, hc, hnd, he => by
    intro o' ho'
    simp only [zipWith2, List.mem_cons] at ho'
    rcases ho' with e | ho'
    · subst e
      exact opBounded_S D g keep aR o (hs 0 aR o rfl rfl) (hb o (by simp)) (har 0 aR o rfl rfl) (hc aR (by simp)) ndU lenU nd' len'
        (hnd aR (by simp)) (he aR (by simp)) hg h0
    · exact opsBounded_S D g keep ndU lenU nd' len' hg h0 rk os
        (fun i a o'' h1 h2 => hs (i + 1) a o'' (by simpa using h1) (by simpa using h2))
        (fun i a o'' h1 h2 => har (i + 1) a o'' (by simpa using h1) (by simpa using h2))
        (fun o'' ho'' => hb o'' (List.mem_cons_of_mem _ ho'')) (fun a ha => hc a (List.mem_cons_of_mem _ ha))
        (fun a ha => hnd a (List.mem_cons_of_mem _ ha)) (fun a ha => he a (List.mem_cons_of_mem _ ha)) o' ho'

end C03

namespace C03
open Nest C01

theorem accsU_mem : ∀ (rk : List (List String)) (os : List Operand) (i : Nat) (aR : List String) (o : Operand),
    rk[i]? = some aR → os[i]? = some o → (⟨aR, o.pts⟩ : AccessP) ∈ accsU rk os
  | [], _, i, _, _, h, _ => by simp at h
  | _ :: _, [], i, _, _, _, h => by simp at h
  | a :: rk, b :: os, 0, aR, o, h1, h2 => by
    simp at h1 h2; subst h1; subst h2; simp [accsU]
  | a :: rk, b :: os, i + 1, aR, o, h1, h2 => by
    simp only [accsU, List.mem_cons]
    exact Or.inr (accsU_mem rk os i aR o (by simpa using h1) (by simpa using h2))

theorem accsR_mem (K : String) (keep : Nat → Bool) : ∀ (rk : List (List String)) (os : List Operand) (i : Nat) (aR : List String) (o : Operand),
    rk[i]? = some aR → os[i]? = some o → (⟨aR, restrictPts K keep aR o.pts⟩ : AccessP) ∈ accsR K keep rk os
  | [], _, i, _, _, h, _ => by simp at h
  | _ :: _, [], i, _, _, _, h => by simp at h
  | a :: rk, b :: os, 0, aR, o, h1, h2 => by
    simp at h1 h2; subst h1; subst h2; simp [accsR]
  | a :: rk, b :: os, i + 1, aR, o, h1, h2 => by
    simp only [accsR, List.mem_cons]
    exact Or.inr (accsR_mem K keep rk os i aR o (by simpa using h1) (by simpa using h2))

theorem accs_vals_eq (K : String) (keep : Nat → Bool) (f : String → Nat) :
    ∀ (rk : List (List String)) (os : List Operand),
      (∀ aR ∈ rk, ∀ P : Pts, accessValP f ⟨aR, restrictPts K keep aR P⟩ = accessValP f ⟨aR, P⟩) →
      (accsR K keep rk os).map (accessValP f) = (accsU rk os).map (accessValP f)
  | [], _, _ => by simp [accsR, accsU]
  | _ :: _, [], _ => by simp [accsR, accsU]
  | aR :: rk, o :: os, h => by
    simp only [accsR, accsU, List.map_cons]
    rw [h aR (by simp) o.pts, accs_vals_eq K keep f rk os (fun a ha => h a (List.mem_cons_of_mem _ ha))]

/-- an access whose top rank is `K`: the points on the access `f` names have top coordinate `f K` -/
theorem head_of_eq_map (K : String) (aR : List String) (hh : aR.head? = some K) (f : String → Nat) (cs : List Nat)
    (h : cs = aR.map f) : cs.headD 0 = f K := by
  cases aR with
  | nil => simp at hh
  | cons a rest =>
    simp at hh; subst hh
    simp [h]

/-- dropping the elements below the first boundary does not change the product, because the leader is absent there -/
theorem termVal_restrict (K : String) (keep : Nat → Bool) (f : String → Nat) (scal : Int)
    (rk : List (List String)) (os : List Operand) (iL : Nat) (aL : List String) (oL : Operand)
    (hL1 : rk[iL]? = some aL) (hL2 : os[iL]? = some oL) (hLh : aL.head? = some K)
    (hkeepL : ∀ p ∈ oL.pts, keep (p.1.headD 0) = true) :
    termValP f ⟨.times, scal, accsR K keep rk os⟩ = termValP f ⟨.times, scal, accsU rk os⟩ := by
  unfold termValP
  simp only
  by_cases hk : keep (f K) = true
  · congr 1
    apply accs_vals_eq
    intro aR _ P
    unfold accessValP restrictPts
    simp only
    by_cases hh : aR.head? = some K
    · rw [if_pos hh]
      apply sumAt_filter
      intro p _ hp
      rw [head_of_eq_map K aR hh f p.1 hp]; exact hk
    · rw [if_neg hh]
  · have zL : ∀ P : Pts, (∀ p ∈ P, p ∈ oL.pts) → accessValP f ⟨aL, P⟩ = 0 := by
      intro P hP
      apply sumAt_eq_zero_of_ne
      intro p hp he
      have := hkeepL p (hP p hp)
      rw [head_of_eq_map K aL hLh f p.1 he] at this
      exact hk this
    rw [comb_zero_of_mem, comb_zero_of_mem]
    · apply List.mem_map.2
      exact ⟨⟨aL, oL.pts⟩, accsU_mem rk os iL aL oL hL1 hL2, zL oL.pts (fun _ h => h)⟩
    · apply List.mem_map.2
      exact ⟨⟨aL, restrictPts K keep aL oL.pts⟩, accsR_mem K keep rk os iL aL oL hL1 hL2,
        zL _ (restrictPts_subset K keep aL oL.pts)⟩

end C03

namespace C03
open Nest C01

theorem levelWF_single : ∀ (ls : List (Bool × Nat)) (st : TermSt), LevelWF ls [st]
  | [], _ => trivial
  | _ :: ls, st => by
    refine ⟨?_, fun c => levelWF_single ls (st.step c)⟩
    cases h : hasActive st.ops
    · exact Or.inr (fun st' hst' => by simp at hst'; subst hst'; exact h)
    · exact Or.inl (fun st' hst' => by simp at hst'; subst hst'; exact h)

theorem accsR_index (K : String) (keep : Nat → Bool) : ∀ (rk : List (List String)) (os : List Operand) (a : AccessP),
    a ∈ accsR K keep rk os → ∃ (i : Nat) (aR : List String) (o : Operand), rk[i]? = some aR ∧ os[i]? = some o ∧ a = ⟨aR, restrictPts K keep aR o.pts⟩
  | [], _, a, h => by simp [accsR] at h
  | _ :: _, [], a, h => by simp [accsR] at h
  | aR :: rk, o :: os, a, h => by
    simp only [accsR, List.mem_cons] at h
    rcases h with e | h
    · exact ⟨0, aR, o, rfl, rfl, e⟩
    · obtain ⟨i, aR', o', h1, h2, h3⟩ := accsR_index K keep rk os a h
      exact ⟨i + 1, aR', o', by simpa using h1, by simpa using h2, h3⟩

theorem lv_snd (out rs : List String) (es : List Nat) (h : es.length = rs.length) : (lv out rs es).map (·.2) = es := by
  simp only [lv, List.map_map]
  have : ((fun x : Bool × Nat => x.2) ∘ fun x : String × Nat => (out.contains x.1, x.2)) = (·.2) := by funext x; rfl
  rw [this, List.map_snd_zip]; omega

theorem summandP_len (out : List String) (terms : List TermP) (τ : List Nat) (h : τ.length ≠ out.length) (f : String → Nat) :
    summandP out terms τ f = 0 := by
  unfold summandP
  rw [if_neg]
  intro e
  apply h
  rw [← e]; simp

theorem splitRanks_id (K K1 K0 : String) (rs : List String) (h : K ∉ rs) : splitRanks K K1 K0 rs = rs :=
  splitRanks_of_not_mem K K1 K0 rs h

/-- **the split at the dense level**: the dense inner loops over the split states accumulate what the dense inner loops of
    the unpartitioned Einsum accumulate over the states handed over — whatever boundaries the leader's fiber defines -/
theorem spec_split_equiv (D : DynSpec) (out : List String) (ranks0 : List (List String)) (H : DynOK D out ranks0)
    (st : TermSt) (R : Res D ranks0 st) (τ : List Nat) :
    sumAt τ (spec (lv (renameRanks D.K D.K0 out) D.rs' D.es') (dynStates D [st])) = sumAt τ (spec (lv out D.rsU D.esU) [st]) := by
  let g := D.g [st]
  let keep := D.keep [st]
  let e := extOf D.rsU D.esU D.K
  let z : String → Nat := fun _ => 0
  let tU : TermP := ⟨st.kind, st.scal, accsU ranks0 st.ops⟩
  let tR : TermP := ⟨st.kind, st.scal, accsR D.K keep ranks0 st.ops⟩
  let st' : TermSt := { st with ops := zipWith2 (dynOperand D g keep) ranks0 st.ops }
  have hdyn : dynStates D [st] = [st'] := by
    simp only [dynStates, H.ranks_eq, zipWith2]
    rfl
  -- the leader
  obtain ⟨aL, haL, hKL⟩ := H.lead
  have hiL : D.leadO < st.ops.length := by
    rw [R.len]
    exact (List.getElem?_eq_some_iff.1 haL).1
  let oL := st.ops[D.leadO]
  have hoL : st.ops[D.leadO]? = some oL := List.getElem?_eq_getElem hiL
  have haLm : aL ∈ ranks0 := List.mem_of_getElem? haL
  have hLh : aL.head? = some D.K := H.headK aL haLm hKL
  have hbs : D.bs [st] = bounds D.n (heads oL.pts) := by
    simp [DynSpec.bs, H.leadT0, hoL]
  -- the leader's coordinates of K are below the extent; every one of them has a boundary at or below it
  have hLsched : oL.sched = schedOf D.rsU aL := R.sched D.leadO aL oL haL hoL
  have hheads : ∀ c ∈ heads oL.pts, c < e := by
    intro c hc
    obtain ⟨tl, v, hm⟩ := mem_heads.1 hc
    have hb := R.bounded oL (List.getElem_mem hiL) (c :: tl, v) hm
    rw [hLsched, bnds_schedOf aL D.rsU D.esU H.ndU H.lenU, H.conc aL haLm] at hb
    cases aL with
    | nil => simp at hLh
    | cons a rest =>
      simp at hLh; subst hLh
      exact hb.1
  have hg : ∀ k, k < e → g k < e := by
    intro k hk
    show (maxLe (D.bs [st]) k).getD 0 < e
    cases hm : maxLe (D.bs [st]) k with
    | none => simp; omega
    | some m =>
      simp only [Option.getD_some]
      have := (maxLe_some hm).1
      rw [hbs] at this
      exact hheads m (bounds_subset D.n _ m this)
  have hkeepL : ∀ p ∈ oL.pts, keep (p.1.headD 0) = true := by
    intro p hp
    have hlen := R.arity D.leadO aL oL haL hoL p hp
    obtain ⟨cs, v⟩ := p
    cases cs with
    | nil =>
      cases aL with
      | nil => simp at hLh
      | cons a rest => simp at hlen
    | cons c tl =>
      have hc : c ∈ heads oL.pts := mem_heads.2 ⟨tl, v, hp⟩
      obtain ⟨b, hb, hle⟩ := bounds_cover D.n (heads oL.pts) c hc
      show (maxLe (D.bs [st]) c).isSome = true
      rw [hbs]
      exact maxLe_isSome_of_le hb hle
  -- (i) the dense inner nest of the unpartitioned Einsum
  have relU : RelP D.rsU z [tU] [st] := ⟨⟨rfl, rfl, opsRelP_U D z ranks0 st.ops R.len R.sched H.conc⟩, trivial⟩
  have hU := spec_sumF_P out [tU] D.rsU D.esU [st] z H.ndU H.lenU relU τ
  -- (ii) the dense inner nest over the split states
  have relS : RelP D.rs' z [splitTermP D.K D.K1 D.K0 g tR] [st'] :=
    ⟨⟨rfl, rfl, opsRelP_S D g keep z ranks0 st.ops R.len R.arity H.nd2 H.sub2⟩, trivial⟩
  have hS := spec_sumF_P (renameRanks D.K D.K0 out) [splitTermP D.K D.K1 D.K0 g tR] D.rs' D.es' [st'] z H.nd' H.len' relS τ
  rw [hdyn, hS, hU]
  -- (iv)-(vii) the sums over the assignments
  have hperm := List.perm_cons_erase H.memK
  have hkeysU : (D.rsU.zip D.esU).map (·.1) = D.rsU := by rw [List.map_fst_zip]; have := H.lenU; omega
  have hkeys' : (D.rs'.zip D.es').map (·.1) = D.rs' := by rw [List.map_fst_zip]; have := H.len'; omega
  have hnd2 : (((D.K, e) :: (D.rsU.zip D.esU).erase (D.K, e)).map (·.1)).Nodup :=
    (hperm.map (·.1)).nodup_iff.1 (by rw [hkeysU]; exact H.ndU)
  have hK : D.K ∉ ((D.rsU.zip D.esU).erase (D.K, e)).map (·.1) := (List.nodup_cons.1 hnd2).1
  have hsub : ∀ s, s ∈ ((D.rsU.zip D.esU).erase (D.K, e)).map (·.1) → s ∈ D.rsU := by
    intro s hs
    obtain ⟨p, hp, rfl⟩ := List.mem_map.1 hs
    have := List.mem_of_mem_erase hp
    exact (List.of_mem_zip (a := p.1) (b := p.2) this).1
  rw [sumF_perm H.perm' _ (by rw [hkeys']; exact H.nd'), sumF_perm hperm _ (by rw [hkeysU]; exact H.ndU), H.outc]
  let outc := concord D.rsU out
  change sumF ((D.K1, e) :: (D.K0, e) :: (D.rsU.zip D.esU).erase (D.K, e)) (summandP (renameRanks D.K D.K0 outc) [splitTermP D.K D.K1 D.K0 g tR] τ) z =
    sumF ((D.K, e) :: (D.rsU.zip D.esU).erase (D.K, e)) (summandP outc [tU] τ) z
  have Hs : SplitHypP D.K D.K1 D.K0 outc [tR] :=
    { fresh_out := ⟨fun h => H.freshU.1 (mem_concord.1 h).1, fun h => H.freshU.2 (mem_concord.1 h).1⟩,
      fresh := by
        intro t ht a ha
        simp at ht; subst ht
        obtain ⟨i, aR, o, h1, _, rfl⟩ := accsR_index D.K keep ranks0 st.ops a ha
        have hm : aR ∈ ranks0 := List.mem_of_getElem? h1
        have hc := H.conc aR hm
        exact ⟨fun h => H.freshU.1 (by rw [← hc] at h; exact (mem_concord.1 h).1),
               fun h => H.freshU.2 (by rw [← hc] at h; exact (mem_concord.1 h).1)⟩,
      arity := by
        intro t ht a ha p hp
        simp at ht; subst ht
        obtain ⟨i, aR, o, h1, h2, rfl⟩ := accsR_index D.K keep ranks0 st.ops a ha
        exact R.arity i aR o h1 h2 p (restrictPts_subset _ _ _ _ p hp),
      cover := by
        intro _ t ht
        simp at ht; subst ht
        exact ⟨⟨aL, restrictPts D.K keep aL oL.pts⟩, accsR_mem D.K keep ranks0 st.ops D.leadO aL oL haL hoL, hKL⟩ }
  have hcov : ∀ t ∈ [tR], ∃ a ∈ t.accs, D.K ∈ a.ranks := by
    intro t ht
    simp at ht; subst ht
    exact ⟨⟨aL, restrictPts D.K keep aL oL.pts⟩, accsR_mem D.K keep ranks0 st.ops D.leadO aL oL haL hoL, hKL⟩
  have hsp := sumF_splitP_merged D.K D.K1 D.K0 g e e ((D.rsU.zip D.esU).erase (D.K, e)) outc [tR] τ z hg hK
    (fun h => H.freshU.1 (hsub _ h)) (fun h => H.freshU.2 (hsub _ h)) H.ne10 Hs hcov
  simp only [List.map_cons, List.map_nil] at hsp
  rw [hsp]
  apply sumF_congr
  intro f
  unfold summandP
  simp only [List.map_cons, List.map_nil]
  have hk : st.kind = .times := R.kind
  have := termVal_restrict D.K keep f st.scal ranks0 st.ops D.leadO aL oL haL hoL hLh hkeepL
  show (if outc.map f = τ then [termValP f ⟨st.kind, st.scal, accsR D.K keep ranks0 st.ops⟩].sum else 0) =
    (if outc.map f = τ then [termValP f ⟨st.kind, st.scal, accsU ranks0 st.ops⟩].sum else 0)
  rw [hk, this]

theorem zipWith2_length {α β γ : Type} (f : α → β → γ) : ∀ (as : List α) (bs : List β), bs.length = as.length →
    (zipWith2 f as bs).length = as.length
  | [], [], _ => rfl
  | [], _ :: _, h => by simp at h
  | _ :: _, [], h => by simp at h
  | a :: as, b :: bs, h => by simp [zipWith2, zipWith2_length f as bs (by simpa using h)]

/-- the state the split hands to the inner loops: scheduled for them, points of the right arity, inside the extents -/
theorem split_state (D : DynSpec) (out : List String) (ranks0 : List (List String)) (H : DynOK D out ranks0)
    (st : TermSt) (R : Res D ranks0 st) :
    ∃ st', dynStates D [st] = [st'] ∧ st'.kind = .times ∧ st'.ops.length = ranks0.length ∧
      (∀ (i : Nat) (aR : List String) (o' : Operand), ranks0[i]? = some aR → st'.ops[i]? = some o' →
        o'.sched = schedOf D.rs' (splitRanks D.K D.K1 D.K0 aR) ∧
        ∀ p ∈ o'.pts, p.1.length = (concord D.rs' (splitRanks D.K D.K1 D.K0 aR)).length) ∧
      ∀ o' ∈ st'.ops, OpBounded D.es' o' := by
  let g := D.g [st]
  let keep := D.keep [st]
  let e := extOf D.rsU D.esU D.K
  let st' : TermSt := { st with ops := zipWith2 (dynOperand D g keep) ranks0 st.ops }
  have hdyn : dynStates D [st] = [st'] := by
    simp only [dynStates, H.ranks_eq, zipWith2]
    rfl
  obtain ⟨aL, haL, hKL⟩ := H.lead
  have hiL : D.leadO < st.ops.length := by
    rw [R.len]
    exact (List.getElem?_eq_some_iff.1 haL).1
  let oL := st.ops[D.leadO]
  have hoL : st.ops[D.leadO]? = some oL := List.getElem?_eq_getElem hiL
  have haLm : aL ∈ ranks0 := List.mem_of_getElem? haL
  have hLh : aL.head? = some D.K := H.headK aL haLm hKL
  have hbs : D.bs [st] = bounds D.n (heads oL.pts) := by
    simp [DynSpec.bs, H.leadT0, hoL]
  have hLsched : oL.sched = schedOf D.rsU aL := R.sched D.leadO aL oL haL hoL
  have hheads : ∀ c ∈ heads oL.pts, c < e := by
    intro c hc
    obtain ⟨tl, v, hm⟩ := mem_heads.1 hc
    have hb := R.bounded oL (List.getElem_mem hiL) (c :: tl, v) hm
    rw [hLsched, bnds_schedOf aL D.rsU D.esU H.ndU H.lenU, H.conc aL haLm] at hb
    cases aL with
    | nil => simp at hLh
    | cons a rest =>
      simp at hLh; subst hLh
      exact hb.1
  have hg : ∀ k, k < e → g k < e := by
    intro k hk
    show (maxLe (D.bs [st]) k).getD 0 < e
    cases hm : maxLe (D.bs [st]) k with
    | none => simp; omega
    | some m =>
      simp only [Option.getD_some]
      have := (maxLe_some hm).1
      rw [hbs] at this
      exact hheads m (bounds_subset D.n _ m this)
  refine ⟨st', hdyn, R.kind, ?_, ?_, ?_⟩
  · exact zipWith2_length _ ranks0 st.ops R.len
  · intro i aR o' h1 h2
    obtain ⟨aR2, o, ha, ho, rfl⟩ := zipWith2_index (dynOperand D g keep) ranks0 st.ops i o' h2
    rw [h1] at ha
    simp at ha; subst ha
    refine ⟨rfl, ?_⟩
    intro p hp
    simp only [dynOperand, List.mem_map] at hp
    obtain ⟨q, _, rfl⟩ := hp
    simp [reorder]
  · exact opsBounded_S D g keep H.ndU H.lenU H.nd' H.len' (by rw [H.extK1]; exact hg) H.extK0 ranks0 st.ops
      R.sched R.arity R.bounded H.conc H.nd2 H.ext2

/-- **the inner equivalence**, for any inner computation `kin` that agrees with the dense inner loops on the states the
    split can produce (the emitted inner loops; or further loops with a further split inside) -/
theorem inner_equiv_gen (D : DynSpec) (out : List String) (ranks0 : List (List String)) (H : DynOK D out ranks0)
    (kin : List TermSt → List (List Nat × Int))
    (hkin : ∀ st', st'.kind = .times → st'.ops.length = ranks0.length →
      (∀ (i : Nat) (aR : List String) (o' : Operand), ranks0[i]? = some aR → st'.ops[i]? = some o' →
        o'.sched = schedOf D.rs' (splitRanks D.K D.K1 D.K0 aR) ∧
        ∀ p ∈ o'.pts, p.1.length = (concord D.rs' (splitRanks D.K D.K1 D.K0 aR)).length) →
      (∀ o' ∈ st'.ops, OpBounded D.es' o') →
      ∀ τ, sumAt τ (kin [st']) = sumAt τ (spec (lv (renameRanks D.K D.K0 out) D.rs' D.es') [st']))
    (st : TermSt) (R : Res D ranks0 st) (τ : List Nat) :
    sumAt τ (kin (dynStates D [st])) = sumAt τ (spec (lv out D.rsU D.esU) [st]) := by
  obtain ⟨st', hdyn, hk, hl, hso, hb⟩ := split_state D out ranks0 H st R
  rw [← spec_split_equiv D out ranks0 H st R τ, hdyn]
  exact hkin st' hk hl hso hb τ

/-- the emitted inner loops agree with the dense ones on such states (C01) -/
theorem run_inner (out : List String) (rs : List String) (es : List Nat) (hlen : es.length = rs.length)
    (st : TermSt) (hk : st.kind = .times) (hb : ∀ o ∈ st.ops, OpBounded es o) (τ : List Nat) :
    sumAt τ (run (lv out rs es) [st]) = sumAt τ (spec (lv out rs es) [st]) := by
  apply run_eq_spec_times
  · intro s hs
    simp at hs; subst hs
    exact Or.inl hk
  · exact levelWF_single _ _
  · apply ext_of_opBounded
    intro s hs o ho
    simp at hs; subst hs
    rw [lv_snd out rs es hlen]
    exact hb o ho

theorem inner_equiv (D : DynSpec) (out : List String) (ranks0 : List (List String)) (H : DynOK D out ranks0)
    (st : TermSt) (R : Res D ranks0 st) (τ : List Nat) :
    sumAt τ (run (lv (renameRanks D.K D.K0 out) D.rs' D.es') (dynStates D [st])) = sumAt τ (spec (lv out D.rsU D.esU) [st]) :=
  inner_equiv_gen D out ranks0 H (run (lv (renameRanks D.K D.K0 out) D.rs' D.es'))
    (fun st' hk _ _ hb τ => run_inner (renameRanks D.K D.K0 out) D.rs' D.es' H.len' st' hk hb τ) st R τ

end C03
