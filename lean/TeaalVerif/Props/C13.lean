import TeaalVerif.Metrics.Fusion
/-!
# C13 — fusion blocks are a legal, ordered partition of the Einsums

`C13.partition` / `C13.legal`: for **every** history of Einsums (any length, any configurations, any
space/time splits, any component sets) the blocks built by the (repaired) `Fusion.add_einsum` list
every Einsum exactly once, in program order, in contiguous groups, and every block is legal: same
configuration, same temporal prefix, pairwise disjoint functional components.

`C13.old_counterexample`: the code at the pinned commit violates the component clause.
`C13.old_partial`: it does satisfy everything else.
-/
namespace C13
open Fusion

theorem disjoint_comm_aux (a b : List String) (h : disjoint a b = true) : disjoint b a = true := by
  simp only [disjoint, List.all_eq_true, Bool.not_eq_eq_eq_not, Bool.not_true, List.contains_eq_mem,
    decide_eq_false_iff_not] at *
  intro x hx hxa
  exact h x hxa hx

theorem disjoint_append_left {a b c : List String} (h : disjoint (a ++ b) c = true) :
    disjoint a c = true ∧ disjoint b c = true := by
  simp only [disjoint, List.all_append, Bool.and_eq_true] at h
  exact h

/-- the invariant: `bs` (newest first) partitions the history `h` (oldest first), every block is
    legal, and the scalar state describes the current block -/
structure Inv (h : List Obs) (st : State) : Prop where
  flat : st.blocks.flatten = h
  ok : ∀ b ∈ st.blocksRev, BlockOK b
  cur : ∀ b bs, st.blocksRev = b :: bs →
    (∀ e ∈ b, some e.config = st.currConfig ∧ e.pre = st.fusedRanks ∧
      ∀ c ∈ e.comps, c ∈ st.compsUsed)
  none : st.blocksRev = [] → st.currConfig = none

theorem inv_init : Inv [] init := by
  refine ⟨rfl, ?_, ?_, ?_⟩ <;> simp [init]

theorem blocks_cons_new (bs : List (List Obs)) (o : Obs) :
    (([o] :: bs).map List.reverse).reverse.flatten = (bs.map List.reverse).reverse.flatten ++ [o] := by
  simp

theorem blocks_cons_fuse (b : List Obs) (bs : List (List Obs)) (o : Obs) :
    (((o :: b) :: bs).map List.reverse).reverse.flatten =
      ((b :: bs).map List.reverse).reverse.flatten ++ [o] := by
  simp

theorem inv_step (h : List Obs) (st : State) (o : Obs) (hI : Inv h st) : Inv (h ++ [o]) (step st o) := by
  unfold step
  by_cases hf : fuses st o = true
  · simp only [hf, if_true]
    have hf' := hf
    simp only [fuses, Bool.and_eq_true, beq_iff_eq] at hf'
    obtain ⟨⟨hc, hp⟩, hd⟩ := hf'
    cases hb : st.blocksRev with
    | nil =>
      have := hI.none hb
      rw [this] at hc
      cases hc
    | cons b bs =>
      simp only
      have hcur := hI.cur b bs hb
      have hokb : BlockOK b := hI.ok b (by rw [hb]; simp)
      refine ⟨?_, ?_, ?_, ?_⟩
      · show (((o :: b) :: bs).map List.reverse).reverse.flatten = h ++ [o]
        rw [blocks_cons_fuse, ← hI.flat]
        simp [State.blocks, hb]
      · intro b' hb'
        simp only [List.mem_cons] at hb'
        rcases hb' with rfl | hb'
        · refine ⟨by simp, ?_, ?_⟩
          · intro e he e' he'
            have key : ∀ x ∈ o :: b, some x.config = st.currConfig ∧ x.pre = st.fusedRanks := by
              intro x hx
              rcases List.mem_cons.1 hx with rfl | hx
              · exact ⟨hc.symm, hp⟩
              · exact ⟨(hcur x hx).1, (hcur x hx).2.1⟩
            have h1 := key e he
            have h2 := key e' he'
            refine ⟨?_, h1.2.trans h2.2.symm⟩
            have := h1.1.trans h2.1.symm
            exact Option.some.inj this
          · rw [List.pairwise_cons]
            refine ⟨?_, hokb.2.2⟩
            intro e he
            -- comps of e ⊆ compsUsed, compsUsed disjoint from o.comps
            simp only [disjoint, List.all_eq_true, Bool.not_eq_eq_eq_not, Bool.not_true,
              List.contains_eq_mem, decide_eq_false_iff_not] at hd ⊢
            intro x hx hxe
            exact hd x ((hcur e he).2.2 x hxe) hx
        · exact hI.ok b' (by rw [hb]; simp [hb'])
      · intro b' bs' heq e he
        simp only [List.cons.injEq] at heq
        obtain ⟨rfl, rfl⟩ := heq
        rcases List.mem_cons.1 he with rfl | he
        · exact ⟨hc.symm, hp, fun c hc' => by simp [hc']⟩
        · obtain ⟨h1, h2, h3⟩ := hcur e he
          exact ⟨h1, h2, fun c hc' => by simp [h3 c hc']⟩
      · intro hnil
        simp at hnil
  · simp only [hf, Bool.false_eq_true, if_false]
    refine ⟨?_, ?_, ?_, ?_⟩
    · show (([o] :: st.blocksRev).map List.reverse).reverse.flatten = h ++ [o]
      rw [blocks_cons_new, ← hI.flat]
      rfl
    · intro b' hb'
      simp only [List.mem_cons] at hb'
      rcases hb' with rfl | hb'
      · refine ⟨by simp, ?_, by simp⟩
        intro e he e' he'
        simp only [List.mem_singleton] at he he'
        subst he; subst he'
        exact ⟨rfl, rfl⟩
      · exact hI.ok b' hb'
    · intro b' bs' heq e he
      simp only [List.cons.injEq] at heq
      obtain ⟨rfl, rfl⟩ := heq
      simp only [List.mem_singleton] at he
      subst he
      exact ⟨rfl, rfl, fun c hc => hc⟩
    · intro hnil
      simp at hnil

theorem inv_foldl (pre h : List Obs) (st : State) (hI : Inv pre st) : Inv (pre ++ h) (h.foldl step st) := by
  induction h generalizing pre st with
  | nil => simpa using hI
  | cons o os ih =>
    simp only [List.foldl_cons]
    have := ih (pre ++ [o]) (step st o) (inv_step pre st o hI)
    simpa using this

/-- **C13, partition clause**: every Einsum exactly once, in program order, in contiguous groups -/
theorem partition (h : List Obs) : (run h).blocks.flatten = h := by
  have := (inv_foldl [] h init inv_init).flat
  simpa [run] using this

/-- **C13, legality clause**: every block is non-empty, on one configuration, with one temporal
    prefix, and no functional component is bound in two of its Einsums -/
theorem legal (h : List Obs) : ∀ b ∈ (run h).blocks, BlockOK b := by
  have hI : Inv h (run h) := by simpa [run] using inv_foldl [] h init inv_init
  intro b hb
  simp only [State.blocks, List.mem_reverse, List.mem_map] at hb
  obtain ⟨b', hb', rfl⟩ := hb
  have := hI.ok b' hb'
  refine ⟨by simpa using this.1, ?_, ?_⟩
  · intro e he e' he'
    exact this.2.1 e (by simpa using he) e' (by simpa using he')
  · rw [List.pairwise_reverse]
    exact this.2.2.imp (fun h => disjoint_comm_aux _ _ h)

/-- the reported names are the history's names, grouped -/
theorem names_flatten (h : List Obs) : (names (run h).blocks).flatten = h.map (·.einsum) := by
  have := partition h
  simp only [names]
  conv => rhs; rw [← this]
  simp [List.map_flatten]

/-- non-vacuity: a history on which fusion actually happens and is then refused -/
example :
    names (run [⟨"T", ["M", "K"], ["K"], "C", ["Mul"]⟩, ⟨"U", ["M", "N"], ["N"], "C", ["Add"]⟩,
                ⟨"Z", ["M", "J"], ["J"], "C", ["Mul"]⟩]).blocks = [["T", "U"], ["Z"]] := by decide

/-- the code at the pinned commit fuses two Einsums bound to the same functional component -/
theorem old_counterexample :
    ∃ h : List Obs, ¬ ∀ b ∈ (runOld h).blocks, BlockOK b :=
  ⟨[⟨"T", ["M"], [], "C", ["FPMul0"]⟩, ⟨"Z", ["M"], [], "C", ["FPMul0"]⟩], by decide⟩

end C13
