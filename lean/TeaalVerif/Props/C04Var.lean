import TeaalVerif.Props.C04Den
/-!
# C04 — looping over the accessed tensor's own rank is a re-indexing of the sum

A loop order such as `[W, Q]` for `O[q] = I[2*q + s] * F[s]` iterates `w`, the coordinate of `I`'s own rank, instead of the index
variable `s`; `s` is then determined (`s = w - 2*q`) and `F` is read through a projection.  `Props/C04Den.lean` proves that the
emitted nest computes the meaning of the Einsum *written in the loop variables* (`O[q] = I[w] * F[w - 2*q]`, `w < W`).  This file
proves that this is the meaning of the Einsum as the user wrote it:

`C04.meaningA_subst`: let the own-rank access be `c0*s + ρ` with `c0 = ±1` and `ρ` an affine expression in the other variables;
replace `s` everywhere by `c0*(w - ρ)` and sum over `w < W` instead of `s < S`.  If, in every term, the tensor carrying the
own-rank access stores nothing at or beyond `W` on that rank and some tensor is accessed by the plain variable `s` and stores
nothing at or beyond `S` there (the inputs are inside their declared extents), the two meanings agree at every output point:
`(s ↦ c0*s + ρ)` is a bijection between the contributing `s` and the contributing `w`.
-/
namespace C04
open Nest C01

/-! ### a one-dimensional re-indexing of a finite sum -/

def validI (i : Int) (N : Nat) : Prop := 0 ≤ i ∧ i < (N : Int)

instance (i : Int) (N : Nat) : Decidable (validI i N) := by unfold validI; infer_instance

theorem sum_single (N a : Nat) (x : Int) (ha : a < N) : ((List.range N).map fun c => if c = a then x else 0).sum = x := by
  rw [sum_range_eq_sum_list N _ [a] (by simp) (by simpa using ha) (by intro c _ hc; simp at hc; simp [hc])]
  simp

theorem sum_pred_single (N a : Nat) (P : Nat → Prop) [DecidablePred P] (F : Nat → Int) (ha : a < N) (hP : P a)
    (huniq : ∀ c, c < N → P c → c = a) : ((List.range N).map fun c => if P c then F c else 0).sum = F a := by
  rw [← sum_single N a (F a) ha]
  apply sum_map_congr
  intro c hc
  by_cases h : c = a
  · subst h; simp [hP]
  · have : ¬ P c := fun hp => h (huniq c (List.mem_range.1 hc) hp)
    simp [h, this]

theorem reindex (Se We : Nat) (φ ψ : Nat → Int) (H G : Nat → Int)
    (h1 : ∀ s, s < Se → validI (φ s) We → G (φ s).toNat = H s)
    (h2 : ∀ s, s < Se → ¬ validI (φ s) We → H s = 0)
    (h3 : ∀ w, w < We → validI (ψ w) Se → φ (ψ w).toNat = (w : Int))
    (h4 : ∀ w, w < We → ¬ validI (ψ w) Se → G w = 0)
    (h5 : ∀ s, s < Se → validI (φ s) We → ψ (φ s).toNat = (s : Int)) :
    ((List.range Se).map H).sum = ((List.range We).map G).sum := by
  -- both sides equal the double sum of H s over the pairs (s, w) with w = φ s
  let K : Nat → Nat → Int := fun s w => if validI (φ s) We ∧ (φ s).toNat = w then H s else 0
  have hL : ∀ s, s ∈ List.range Se → H s = ((List.range We).map fun w => K s w).sum := by
    intro s hs
    have hs' := List.mem_range.1 hs
    by_cases hv : validI (φ s) We
    · have hlt : (φ s).toNat < We := by have := hv.1; have := hv.2; omega
      have := sum_pred_single We (φ s).toNat (fun w => validI (φ s) We ∧ (φ s).toNat = w) (fun _ => H s) hlt ⟨hv, rfl⟩
        (fun c _ hc => hc.2.symm)
      simp only [K]
      rw [this]
    · simp only [K]
      rw [h2 s hs' hv]
      symm
      apply sum_map_zero
      intro w _
      simp [hv]
  have hR : ∀ w, w ∈ List.range We → G w = ((List.range Se).map fun s => K s w).sum := by
    intro w hw
    have hw' := List.mem_range.1 hw
    by_cases hv : validI (ψ w) Se
    · have hlt : (ψ w).toNat < Se := by have := hv.1; have := hv.2; omega
      have hφ := h3 w hw' hv
      have hvφ : validI (φ (ψ w).toNat) We := by rw [hφ]; exact ⟨by omega, by omega⟩
      have := sum_pred_single Se (ψ w).toNat (fun s => validI (φ s) We ∧ (φ s).toNat = w) H hlt ⟨hvφ, by rw [hφ]; simp⟩
        (fun c hc hP => by
          have h5' := h5 c hc hP.1
          rw [hP.2] at h5'
          have := hv.1
          omega)
      simp only [K]
      rw [this, ← h1 _ hlt hvφ, hφ]
      simp
    · rw [h4 w hw' hv]
      symm
      apply sum_map_zero
      intro s hs
      have hs' := List.mem_range.1 hs
      simp only [K]
      by_cases hP : validI (φ s) We ∧ (φ s).toNat = w
      · exfalso
        have h5' := h5 s hs' hP.1
        rw [hP.2] at h5'
        exact hv ⟨by omega, by omega⟩
      · simp [hP]
  rw [sum_map_congr _ _ _ hL, sum_map_congr _ _ _ hR, sum_map_sum_comm]

/-! ### substituting an expression for a variable -/

def substE (s : String) (r e : AffS) : AffS :=
  { terms := e.rest s ++ r.terms.map (fun t => (e.coef s * t.1, t.2)), const := e.const + e.coef s * r.const }

theorem eval_upd_not_mentions (e : AffS) (f : String → Nat) (v : String) (c : Nat) (h : e.mentions v = false) :
    e.eval (upd f v c) = e.eval f := by
  unfold AffS.eval
  congr 1
  apply sum_map_congr
  intro t ht
  have : t.2 ≠ v := by
    intro e'
    have : e.mentions v = true := by
      simp only [AffS.mentions, List.any_eq_true]
      exact ⟨t, ht, by simp [e']⟩
    rw [h] at this; cases this
  simp [upd, this]

theorem eval_substE (s : String) (r e : AffS) (f : String → Nat) (n : Nat) (h : r.eval f = (n : Int)) :
    (substE s r e).eval f = e.eval (upd f s n) := by
  rw [eval_decomp s (upd f s n) e]
  have hrest : ((e.rest s).map fun t => t.1 * ((upd f s n) t.2 : Int)).sum = ((e.rest s).map fun t => t.1 * (f t.2 : Int)).sum := by
    apply sum_map_congr
    intro t ht
    have : t.2 ≠ s := by
      simp only [AffS.rest, List.mem_filter, Bool.not_eq_true', beq_eq_false_iff_ne, ne_eq] at ht
      exact ht.2
    simp [upd, this]
  have hs : ((upd f s n) s : Int) = (n : Int) := by simp [upd]
  rw [hrest, hs]
  have hr : (r.terms.map fun t => t.1 * (f t.2 : Int)).sum = (n : Int) - r.const := by
    unfold AffS.eval at h; omega
  have hsc : ((r.terms.map fun t => (e.coef s * t.1, t.2)).map fun t => t.1 * (f t.2 : Int)).sum =
      e.coef s * (r.terms.map fun t => t.1 * (f t.2 : Int)).sum := by
    rw [List.map_map, ← sum_map_mul_left]
    apply sum_map_congr
    intro t _
    simp [Int.mul_assoc]
  simp only [substE, AffS.eval, List.map_append, List.sum_append]
  rw [hsc, hr, Int.mul_sub]
  omega

def substAcc (s : String) (r : AffS) (a : AccA) : AccA := { a with e := substE s r a.e }
def substTensor (s : String) (r : AffS) (x : TensorAS) : TensorAS := { x with idx := x.idx.map (substAcc s r) }
def substTerm (s : String) (r : AffS) (t : TermAS) : TermAS := { t with tensors := t.tensors.map (substTensor s r) }

def NoMention (v : String) (t : TermAS) : Prop := ∀ x ∈ t.tensors, ∀ a ∈ x.idx, a.e.mentions v = false

instance (v : String) (t : TermAS) : Decidable (NoMention v t) := by unfold NoMention; infer_instance

theorem accessValA_subst (env : String → Pts) (f : String → Nat) (s w : String) (r : AffS) (x : TensorAS) (n wn : Nat)
    (hsw : s ≠ w) (hr : r.eval (upd f w wn) = (n : Int)) (hw : ∀ a ∈ x.idx, a.e.mentions w = false) :
    accessValA env (upd f w wn) (substTensor s r x) = accessValA env (upd f s n) x := by
  unfold accessValA
  simp only [substTensor, List.map_map]
  congr 1
  apply List.map_congr_left
  intro a ha
  simp only [Function.comp, substAcc]
  rw [eval_substE s r a.e (upd f w wn) n hr, upd_comm f w s wn n (Ne.symm hsw), eval_upd_not_mentions _ _ w wn (hw a ha)]

theorem termValA_subst (env : String → Pts) (f : String → Nat) (s w : String) (r : AffS) (t : TermAS) (n wn : Nat)
    (hsw : s ≠ w) (hr : r.eval (upd f w wn) = (n : Int)) (hw : NoMention w t) :
    termValA env (upd f w wn) (substTerm s r t) = termValA env (upd f s n) t := by
  unfold termValA
  simp only [substTerm, List.map_map]
  congr 1
  apply List.map_congr_left
  intro x hx
  exact accessValA_subst env f s w r x n wn hsw hr (hw x hx)

/-! ### a term vanishes when one of its accesses falls outside the stored extent -/

theorem sumAt_eq_zero (τ : List Nat) (P : Pts) (h : ∀ p ∈ P, p.1 ≠ τ) : sumAt τ P = 0 := by
  induction P with
  | nil => rfl
  | cons p ps ih =>
    obtain ⟨cs, v⟩ := p
    rw [sumAt_cons, ih (fun q hq => h q (List.mem_cons_of_mem _ hq))]
    have : cs ≠ τ := h (cs, v) (by simp)
    simp [this]

def boundedAt (i N : Nat) (P : Pts) : Prop := ∀ p ∈ P, ∀ c, p.1[i]? = some c → c < N

def boundedAtb (i N : Nat) (P : Pts) : Bool :=
  P.all fun p => match p.1[i]? with
    | some c => decide (c < N)
    | none => true

theorem boundedAtb_iff (i N : Nat) (P : Pts) : boundedAtb i N P = true ↔ boundedAt i N P := by
  unfold boundedAtb boundedAt
  rw [List.all_eq_true]
  constructor
  · intro h p hp c hc
    have := h p hp
    rw [hc] at this
    simpa using this
  · intro h p hp
    cases hc : p.1[i]? with
    | none => rfl
    | some c => simpa using h p hp c hc

instance (i N : Nat) (P : Pts) : Decidable (boundedAt i N P) := decidable_of_iff _ (boundedAtb_iff i N P)

theorem valAt_zero_of_invalid (is : List Int) (P : Pts) (i N : Nat) (v : Int) (hi : is[i]? = some v) (hbad : ¬ validI v N)
    (hb : boundedAt i N P) : valAt is P = 0 := by
  unfold valAt
  split
  · rename_i hall
    apply sumAt_eq_zero
    intro p hp e
    have hv0 : 0 ≤ v := by
      have := List.all_eq_true.1 hall v (List.mem_of_getElem? hi)
      simpa using this
    have hpi : p.1[i]? = some v.toNat := by
      rw [e, List.getElem?_map, hi]; rfl
    have := hb p hp _ hpi
    exact hbad ⟨hv0, by omega⟩
  · rfl

theorem prodI_zero : ∀ vals : List Int, (0 : Int) ∈ vals → prodI vals = 0
  | [], h => by simp at h
  | v :: vs, h => by
    simp only [prodI]
    rcases List.mem_cons.1 h with e | e
    · rw [← e]; simp
    · rw [prodI_zero vs e]; simp

theorem comb_zero (k : Kind) (scal : Int) (vals : List Int) (h : (0 : Int) ∈ vals) : comb k scal vals = 0 := by
  unfold comb
  cases k with
  | times => simp [prodI_zero vals h]
  | take sel =>
    have : vals.all (fun v => v != 0) = false := by
      rw [List.all_eq_false]
      exact ⟨0, h, by simp⟩
    simp [this]

/-! ### the re-indexing of the Einsum -/

/-- `s` expressed through the own-rank coordinate `w`: `s = c0 * (w - ρ)` (for `c0 = ±1`) -/
def rOf (c0 : Int) (w : String) (ρ : AffS) : AffS :=
  ⟨(c0, w) :: ρ.terms.map (fun t => (-c0 * t.1, t.2)), -c0 * ρ.const⟩

theorem rOf_eval (c0 : Int) (w : String) (ρ : AffS) (f : String → Nat) :
    (rOf c0 w ρ).eval f = c0 * (f w : Int) - c0 * ρ.eval f := by
  have hsc : ((ρ.terms.map fun t => (-c0 * t.1, t.2)).map fun t => t.1 * (f t.2 : Int)).sum =
      -c0 * (ρ.terms.map fun t => t.1 * (f t.2 : Int)).sum := by
    rw [List.map_map, ← sum_map_mul_left]
    apply sum_map_congr
    intro t _
    simp [Int.mul_assoc]
  simp only [rOf, AffS.eval, List.map_cons, List.sum_cons]
  rw [hsc, Int.mul_add, Int.neg_mul, Int.neg_mul]
  omega

/-- the access `a` is `c0*s + ρ` -/
def OwnAcc (s : String) (c0 : Int) (ρ : AffS) (a : AccA) : Prop := a.e.coef s = c0 ∧ a.e.rest s = ρ.terms ∧ a.e.const = ρ.const

instance (s : String) (c0 : Int) (ρ : AffS) (a : AccA) : Decidable (OwnAcc s c0 ρ a) := by unfold OwnAcc; infer_instance

theorem own_eval (s : String) (c0 : Int) (ρ : AffS) (a : AccA) (f : String → Nat) (n : Nat) (h : OwnAcc s c0 ρ a)
    (hρ : ρ.mentions s = false) : a.e.eval (upd f s n) = c0 * (n : Int) + ρ.eval f := by
  obtain ⟨h1, h2, h3⟩ := h
  rw [eval_decomp s (upd f s n) a.e, h1, h2, h3]
  have := eval_upd_not_mentions ρ f s n hρ
  unfold AffS.eval at this
  have hs : ((upd f s n) s : Int) = (n : Int) := by simp [upd]
  rw [hs]
  unfold AffS.eval
  omega

/-- the access `a` is the plain variable `s` -/
def PlainAcc (s : String) (a : AccA) : Prop := a.e.terms = [(1, s)] ∧ a.e.const = 0

instance (s : String) (a : AccA) : Decidable (PlainAcc s a) := by unfold PlainAcc; infer_instance

theorem plain_subst_eval (s : String) (r : AffS) (a : AccA) (g : String → Nat) (h : PlainAcc s a) :
    (substE s r a.e).eval g = r.eval g := by
  obtain ⟨h1, h2⟩ := h
  simp only [substE, AffS.rest, AffS.coef, h1, h2, AffS.eval]
  simp [List.map_map, Function.comp_def]

def HasOwn (s : String) (c0 : Int) (ρ : AffS) (We : Nat) (env : String → Pts) (t : TermAS) : Prop :=
  ∃ x ∈ t.tensors, ∃ i, i < x.idx.length ∧ OwnAcc s c0 ρ (x.idx.getD i default) ∧ boundedAt i We (env x.name)

def HasPlain (s : String) (Se : Nat) (env : String → Pts) (t : TermAS) : Prop :=
  ∃ y ∈ t.tensors, ∃ j, j < y.idx.length ∧ PlainAcc s (y.idx.getD j default) ∧ boundedAt j Se (env y.name)

instance (s : String) (c0 : Int) (ρ : AffS) (We : Nat) (env : String → Pts) (t : TermAS) : Decidable (HasOwn s c0 ρ We env t) := by
  unfold HasOwn; infer_instance

instance (s : String) (Se : Nat) (env : String → Pts) (t : TermAS) : Decidable (HasPlain s Se env t) := by
  unfold HasPlain; infer_instance

structure VarHyps (s w : String) (c0 : Int) (ρ : AffS) (Se We : Nat) (out : List String) (terms : List TermAS) (env : String → Pts) : Prop where
  hsw : s ≠ w
  hc0 : c0 = 1 ∨ c0 = -1
  hρs : ρ.mentions s = false
  hρw : ρ.mentions w = false
  houts : s ∉ out
  houtw : w ∉ out
  hnow : ∀ t ∈ terms, NoMention w t
  hown : ∀ t ∈ terms, HasOwn s c0 ρ We env t
  hplain : ∀ t ∈ terms, HasPlain s Se env t

instance (s w : String) (c0 : Int) (ρ : AffS) (Se We : Nat) (out : List String) (terms : List TermAS) (env : String → Pts) :
    Decidable (VarHyps s w c0 ρ Se We out terms env) :=
  decidable_of_iff (s ≠ w ∧ (c0 = 1 ∨ c0 = -1) ∧ ρ.mentions s = false ∧ ρ.mentions w = false ∧ s ∉ out ∧ w ∉ out ∧
      (∀ t ∈ terms, NoMention w t) ∧ (∀ t ∈ terms, HasOwn s c0 ρ We env t) ∧ (∀ t ∈ terms, HasPlain s Se env t))
    ⟨fun ⟨a, b, c, d, e, f, g, h, i⟩ => ⟨a, b, c, d, e, f, g, h, i⟩, fun ⟨a, b, c, d, e, f, g, h, i⟩ => ⟨a, b, c, d, e, f, g, h, i⟩⟩

def summandA (out : List String) (terms : List TermAS) (env : String → Pts) (τ : List Nat) (g : String → Nat) : Int :=
  if out.map g = τ then (terms.map (termValA env g)).sum else 0

theorem getD_getElemOpt {α : Type} (l : List α) (i : Nat) (d : α) (h : i < l.length) : l[i]? = some (l.getD i d) := by
  simp [List.getD, List.getElem?_eq_getElem h]

theorem inner_subst (s w : String) (c0 : Int) (ρ : AffS) (Se We : Nat) (out : List String) (terms : List TermAS) (env : String → Pts)
    (H : VarHyps s w c0 ρ Se We out terms env) (f' : String → Nat) (τ : List Nat) :
    ((List.range Se).map fun c => summandA out terms env τ (upd f' s c)).sum =
    ((List.range We).map fun c => summandA out (terms.map (substTerm s (rOf c0 w ρ))) env τ (upd f' w c)).sum := by
  let P := ρ.eval f'
  have hψeval : ∀ m : Nat, (rOf c0 w ρ).eval (upd f' w m) = c0 * (m : Int) - c0 * P := by
    intro m
    rw [rOf_eval, eval_upd_not_mentions ρ f' w m H.hρw]
    simp [upd, P]
  apply reindex Se We (fun n => c0 * (n : Int) + P) (fun m => c0 * (m : Int) - c0 * P)
  · -- matching
    intro n _ hv
    have hwn : (((c0 * (n : Int) + P).toNat : Nat) : Int) = c0 * (n : Int) + P := by have := hv.1; omega
    have hr : (rOf c0 w ρ).eval (upd f' w (c0 * (n : Int) + P).toNat) = (n : Int) := by
      rw [hψeval, hwn]
      rcases H.hc0 with e | e <;> subst e <;> omega
    simp only [summandA]
    rw [map_upd_of_not_mem f' w _ out H.houtw, map_upd_of_not_mem f' s n out H.houts]
    split
    · rw [List.map_map]
      congr 1
      apply List.map_congr_left
      intro t ht
      exact termValA_subst env f' s w _ t n _ H.hsw hr (H.hnow t ht)
    · rfl
  · -- the original summand vanishes where the own-rank coordinate falls outside the stored extent
    intro n _ hv
    simp only [summandA]
    split
    · apply sum_map_zero
      intro t ht
      obtain ⟨x, hx, i, hi, hown, hb⟩ := H.hown t ht
      unfold termValA
      apply comb_zero
      apply List.mem_map.2
      refine ⟨x, hx, ?_⟩
      unfold accessValA
      apply valAt_zero_of_invalid _ _ i We (c0 * (n : Int) + P) _ hv hb
      rw [List.getElem?_map, getD_getElemOpt x.idx i default hi]
      simp only [Option.map_some]
      rw [own_eval s c0 ρ _ f' n hown H.hρs]
    · rfl
  · -- inverse
    intro m _ hv
    have : (((c0 * (m : Int) - c0 * P).toNat : Nat) : Int) = c0 * (m : Int) - c0 * P := by have := hv.1; omega
    simp only [this]
    rcases H.hc0 with e | e <;> subst e <;> omega
  · -- the re-indexed summand vanishes where `s` would fall outside its extent
    intro m _ hv
    simp only [summandA]
    split
    · apply sum_map_zero
      intro t ht
      obtain ⟨t0, ht0, rfl⟩ := List.mem_map.1 ht
      obtain ⟨y, hy, j, hj, hpl, hb⟩ := H.hplain t0 ht0
      unfold termValA
      apply comb_zero
      apply List.mem_map.2
      refine ⟨substTensor s (rOf c0 w ρ) y, ?_, ?_⟩
      · simp only [substTerm, List.mem_map]; exact ⟨y, hy, rfl⟩
      · unfold accessValA
        apply valAt_zero_of_invalid _ _ j Se (c0 * (m : Int) - c0 * P) _ hv hb
        simp only [substTensor, List.map_map, List.getElem?_map, getD_getElemOpt y.idx j default hj, Option.map_some, Function.comp, substAcc]
        rw [plain_subst_eval s _ _ _ hpl, hψeval]
    · rfl
  · -- inverse, other direction
    intro n _ hv
    have : (((c0 * (n : Int) + P).toNat : Nat) : Int) = c0 * (n : Int) + P := by have := hv.1; omega
    simp only [this]
    rcases H.hc0 with e | e <;> subst e <;> omega

theorem sumF_append (v : String) (e : Nat) (F : (String → Nat) → Int) : ∀ (R : List (String × Nat)) (f : String → Nat),
    sumF (R ++ [(v, e)]) F f = sumF R (fun f' => ((List.range e).map fun c => F (upd f' v c)).sum) f
  | [], f => by simp [sumF]
  | (r, n) :: R, f => by
    simp only [List.cons_append, sumF]
    apply sum_map_congr
    intro c _
    exact sumF_append v e F R _

/-- **looping over the own rank `w` instead of the index variable `s` is a re-indexing**: the Einsum rewritten in the loop
    variables has the meaning of the Einsum as written, at every output point, for every input inside its extents -/
theorem meaningA_subst (s w : String) (c0 : Int) (ρ : AffS) (Se We : Nat) (R : List (String × Nat)) (out : List String)
    (terms : List TermAS) (env : String → Pts) (H : VarHyps s w c0 ρ Se We out terms env) (τ : List Nat) :
    meaningA (R ++ [(s, Se)]) out terms env τ =
    meaningA (R ++ [(w, We)]) out (terms.map (substTerm s (rOf c0 w ρ))) env τ := by
  unfold meaningA
  rw [sumF_append, sumF_append]
  apply sumF_congr
  intro f'
  exact inner_subst s w c0 ρ Se We out terms env H f' τ

/-! ### normal form of an affine expression (like terms merged, zero coefficients dropped) -/

theorem restT_length_le (v : String) (ts : List (Int × String)) : (restT v ts).length ≤ ts.length := by
  unfold restT; exact List.length_filter_le _ _

def normT : List (Int × String) → List (Int × String)
  | [] => []
  | (c, v) :: ts =>
    let k := c + coefT v ts
    let rest := normT (restT v ts)
    if k = 0 then rest else (k, v) :: rest
termination_by ts => ts.length
decreasing_by
  simp only [List.length_cons]
  have := restT_length_le v ts
  omega

def sumT (f : String → Nat) (ts : List (Int × String)) : Int := (ts.map fun t => t.1 * (f t.2 : Int)).sum

theorem sumT_split (f : String → Nat) (v : String) (ts : List (Int × String)) :
    sumT f ts = sumT f (restT v ts) + coefT v ts * (f v : Int) := by
  unfold sumT restT coefT
  rw [sum_filter_split v _ ts, sum_eq_coef]

theorem sumT_normT (f : String → Nat) : ∀ ts : List (Int × String), sumT f (normT ts) = sumT f ts
  | [] => by simp [normT]
  | (c, v) :: ts => by
    have ih := sumT_normT f (restT v ts)
    rw [normT]
    have hcons : sumT f ((c, v) :: ts) = c * (f v : Int) + sumT f ts := by simp [sumT]
    rw [hcons, sumT_split f v ts]
    split
    · rename_i hk
      rw [ih]
      have : (c + coefT v ts) * (f v : Int) = 0 := by rw [hk]; simp
      rw [Int.add_mul] at this
      omega
    · have : sumT f ((c + coefT v ts, v) :: normT (restT v ts)) = (c + coefT v ts) * (f v : Int) + sumT f (normT (restT v ts)) := by
        simp [sumT]
      rw [this, ih, Int.add_mul]
      omega
termination_by ts => ts.length
decreasing_by
  simp only [List.length_cons]
  have := restT_length_le v ts
  omega

def normE (e : AffS) : AffS := ⟨normT e.terms, e.const⟩

theorem eval_normE (e : AffS) (f : String → Nat) : (normE e).eval f = e.eval f := by
  have := sumT_normT f e.terms
  unfold sumT at this
  simp only [normE, AffS.eval, this]

/-- anything but a plain variable is read through `project` -/
def isProjE (e : AffS) : Bool :=
  match e.terms, e.const with
  | [(1, _)], 0 => false
  | _, _ => true

def normAcc (a : AccA) : AccA := { e := normE a.e, proj := isProjE (normE a.e) }
def normTensor (x : TensorAS) : TensorAS := { x with idx := x.idx.map normAcc }
def normTerm (t : TermAS) : TermAS := { t with tensors := t.tensors.map normTensor }

theorem termValA_norm (env : String → Pts) (f : String → Nat) (t : TermAS) : termValA env f (normTerm t) = termValA env f t := by
  unfold termValA
  simp only [normTerm, List.map_map]
  congr 1
  apply List.map_congr_left
  intro x _
  simp only [Function.comp, accessValA, normTensor, List.map_map]
  congr 1
  apply List.map_congr_left
  intro a _
  simp only [Function.comp, normAcc, eval_normE]

theorem meaningA_congr (R : List (String × Nat)) (out : List String) (terms terms' : List TermAS) (env : String → Pts) (τ : List Nat)
    (h : ∀ f, terms.map (termValA env f) = terms'.map (termValA env f)) : meaningA R out terms env τ = meaningA R out terms' env τ := by
  unfold meaningA
  apply sumF_congr
  intro f
  rw [h f]

/-- the Einsum rewritten in the loop variables, as the model compiler uses it -/
def loopFormTerms (s w : String) (c0 : Int) (ρ : AffS) (terms : List TermAS) : List TermAS :=
  terms.map fun t => normTerm (substTerm s (rOf c0 w ρ) t)

theorem meaningA_loopForm (s w : String) (c0 : Int) (ρ : AffS) (Se We : Nat) (R : List (String × Nat)) (out : List String)
    (terms : List TermAS) (env : String → Pts) (H : VarHyps s w c0 ρ Se We out terms env) (τ : List Nat) :
    meaningA (R ++ [(w, We)]) out (loopFormTerms s w c0 ρ terms) env τ = meaningA (R ++ [(s, Se)]) out terms env τ := by
  rw [meaningA_subst s w c0 ρ Se We R out terms env H τ]
  apply meaningA_congr
  intro f
  simp only [loopFormTerms, List.map_map]
  apply List.map_congr_left
  intro t _
  simp only [Function.comp, termValA_norm]

/-- **C04, own-rank loops**: the nest emitted for a loop order that iterates the accessed tensor's own rank `w` in place of the index
    variable `s` (model compiler applied to the Einsum rewritten in the loop variables by `loopFormTerms`) accumulates, at every
    output point, the meaning of the Einsum AS WRITTEN (sum over `s < S`), for every input inside its extents. -/
theorem runA_own_rank (S1 : EinsumAS) (env : String → Pts) (s w : String) (c0 : Int) (ρ : AffS) (Se We : Nat)
    (R : List (String × Nat)) (terms0 : List TermAS)
    (hS1 : S1.terms = loopFormTerms s w c0 ρ terms0) (hperm : (S1.loop.zip S1.exts).Perm (R ++ [(w, We)]))
    (hA : HypsA S1 env) (H : VarHyps s w c0 ρ Se We (concord S1.loop S1.outVars) terms0 env) (τ : List Nat) :
    sumAt τ (runA (levelsA S1) (initTermsA S1 env)) = meaningA (R ++ [(s, Se)]) (concord S1.loop S1.outVars) terms0 env τ := by
  rw [runA_eq_meaningA S1 env hA τ]
  obtain ⟨hnd, hlen, _⟩ := hA
  have hnames : ((S1.loop.zip S1.exts).map (·.1)).Nodup := by
    have : (S1.loop.zip S1.exts).map (·.1) = S1.loop := by
      rw [List.map_fst_zip]; omega
    rw [this]; exact hnd
  have := sumF_perm hperm (fun f => if (concord S1.loop S1.outVars).map f = τ then (S1.terms.map (termValA env f)).sum else 0) hnames (fun _ => 0)
  unfold meaningA
  rw [this]
  have h2 := meaningA_loopForm s w c0 ρ Se We R (concord S1.loop S1.outVars) terms0 env H τ
  unfold meaningA at h2
  rw [hS1, h2]

end C04
