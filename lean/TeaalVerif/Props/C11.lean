import TeaalVerif.Nest.Lemmas
import TeaalVerif.FT.Ops
/-!
# C11 — metrics instrumentation does not change what is computed (partial: the rewrites)

Metrics mode differs from plain mode, as far as tensors are concerned, in three rewrites:

* `Fiber.intersection(leader, followers…, style="leader-follower")` replaces `a & (b & …)` with the leader
  moved to the front.  `mem_coiterT` / `coiterT_perm`: the coordinates co-iterated are exactly those present
  in **every** participating operand, so any re-ordering of the operands visits the same coordinates;
* an extra `swizzleRanks` to the hardware merger's initial order before the loop-order swizzle:
  `swizzle_comp` — two swizzles compose into one;
* an explicit `shape=` on the output constructor: shapes are not part of a tensor's points (`FT.Pts`).

That the observer statements (`Metrics.*`, `Traffic.*`, `.trace(...)`, dump) do not touch tensors, and that
the payload pattern matches the re-ordered arguments, is observed by executing the metrics-mode program with
inert observer stand-ins against the plain compile and the oracle.
-/
namespace C11
open Nest

theorem mem_coiterT (ops : List Operand) (cs : List Nat) (h : coiterT ops = some cs) (c : Nat) :
    c ∈ cs ↔ ∀ o ∈ ops, o.active = true → c ∈ heads o.pts := by
  obtain ⟨_, hs, hc⟩ := coiterT_spec ops cs h
  constructor
  · intro hm o ho ha; exact hs c hm o ho ha
  · intro hall
    by_cases hm : c ∈ cs
    · exact hm
    · obtain ⟨o, ho, ha, hn⟩ := hc c hm
      exact absurd (hall o ho ha) hn

/-- **any re-ordering of the operands (leader first, followers after) co-iterates the same coordinates** -/
theorem coiterT_perm (ops ops' : List Operand) (hp : ops.Perm ops') (cs : List Nat) (h : coiterT ops = some cs) :
    ∃ cs', coiterT ops' = some cs' ∧ ∀ c, c ∈ cs' ↔ c ∈ cs := by
  have hact : hasActive ops' = hasActive ops := by
    simp only [hasActive]
    exact (hp.symm.any_eq)
  cases h' : coiterT ops' with
  | none =>
    have := (coiterT_none_iff ops').1 h'
    rw [hact] at this
    rw [(coiterT_none_iff ops).2 this] at h
    cases h
  | some cs' =>
    refine ⟨cs', rfl, fun c => ?_⟩
    rw [mem_coiterT ops' cs' h' c, mem_coiterT ops cs h c]
    constructor
    · intro hall o ho ha; exact hall o (hp.mem_iff.1 ho) ha
    · intro hall o ho ha; exact hall o (hp.mem_iff.2 ho) ha

/-- **two swizzles compose into one** (the merger's extra swizzle followed by the loop-order swizzle) -/
theorem swizzle_comp (p1 p2 : List Nat) (t : FT.Pts) (h : ∀ i ∈ p2, i < p1.length) :
    FT.swizzle p2 (FT.swizzle p1 t) = FT.swizzle (p2.map fun i => p1.getD i 0) t := by
  unfold FT.swizzle
  rw [List.map_map]
  apply List.map_congr_left
  intro ⟨p, v⟩ _
  simp only [Function.comp, List.map_map]
  congr 1
  apply List.map_congr_left
  intro i hi
  have hlt := h i hi
  simp only [Function.comp, List.getD, List.getElem?_map, List.getElem?_eq_getElem hlt, Option.map_some, Option.getD_some]

/-- non-vacuity: leader `b` moved in front of `a` -/
example : coiterT [⟨[true], [([1], 2), ([3], 4)]⟩, ⟨[true], [([3], 5), ([7], 1)]⟩] = some [3] ∧
    coiterT [⟨[true], [([3], 5), ([7], 1)]⟩, ⟨[true], [([1], 2), ([3], 4)]⟩] = some [3] := by decide

end C11
