import TeaalVerif.Nest.Lemmas
import TeaalVerif.FT.Ops
/-!
# C11 — metrics instrumentation does not change what is computed (partial: the rewrites)

Metrics mode differs from plain mode, as far as tensors are concerned, in three rewrites:

* `Fiber.intersection(leader, followers…, style="leader-follower")` replaces `a & (b & …)` with the leader
  moved to the front.  `mem_coiterT` / `coiterT_perm`: the coordinates co-iterated are exactly those present
  in **every** participating operand, so any re-ordering of the operands visits the same coordinates;
* an extra `swizzleRanks` to the hardware merger's initial order before the loop-order swizzle:
  `swizzle_comp` — two swizzles compose into one;
* an explicit `shape=` on the output constructor: shapes are not part of a tensor's points (`FT.Pts`).

That the observer statements (`Metrics.*`, `Traffic.*`, `.trace(...)`, dump) do not touch tensors, and that
the payload pattern matches the re-ordered arguments, is observed by executing the metrics-mode program with
inert observer stand-ins against the plain compile and the oracle.
-/
namespace C11
open Nest

theorem mem_coiterT (ops : List Operand) (cs : List Nat) (h : coiterT ops = some cs) (c : Nat) :
    c ∈ cs ↔ ∀ o ∈ ops, o.active = true → c ∈ heads o.pts := by
  obtain ⟨_, hs, hc⟩ := coiterT_spec ops cs h
  constructor
  · intro hm o ho ha; exact hs c hm o ho ha
  · intro hall
    by_cases hm : c ∈ cs
    · exact hm
    · obtain ⟨o, ho, ha, hn⟩ := hc c hm
      exact absurd (hall o ho ha) hn

/-- **any re-ordering of the operands (leader first, followers after) co-iterates the same coordinates** -/
theorem coiterT_perm (ops ops' : List Operand) (hp : ops.Perm ops') (cs : List Nat) (h : coiterT ops = some cs) :
    ∃ cs', coiterT ops' = some cs' ∧ ∀ c, c ∈ cs' ↔ c ∈ cs := by
  have hact : hasActive ops' = hasActive ops := by
    simp only [hasActive]
    exact (hp.symm.any_eq)
  cases h' : coiterT ops' with
  | none =>
    have := (coiterT_none_iff ops').1 h'
    rw [hact] at this
    rw [(coiterT_none_iff ops).2 this] at h
    cases h
  | some cs' =>
    refine ⟨cs', rfl, fun c => ?_⟩
    rw [mem_coiterT ops' cs' h' c, mem_coiterT ops cs h c]
    constructor
    · intro hall o ho ha; exact hall o (hp.mem_iff.1 ho) ha
    · intro hall o ho ha; exact hall o (hp.mem_iff.2 ho) ha

/-- **two swizzles compose into one** (the merger's extra swizzle followed by the loop-order swizzle) -/
theorem swizzle_comp (p1 p2 : List Nat) (t : FT.Pts) (h : ∀ i ∈ p2, i < p1.length) :
    FT.swizzle p2 (FT.swizzle p1 t) = FT.swizzle (p2.map fun i => p1.getD i 0) t := by
  unfold FT.swizzle
  rw [List.map_map]
  apply List.map_congr_left
  intro ⟨p, v⟩ _
  simp only [Function.comp, List.map_map]
  congr 1
  apply List.map_congr_left
  intro i hi
  have hlt := h i hi
  simp only [Function.comp, List.getD, List.getElem?_map, List.getElem?_eq_getElem hlt, Option.map_some, Option.getD_some]

/-! ### observers do not interfere

A program over a state with a tensor part `T` (every tensor, fiber, coordinate and value variable) and an observer part `O`
(the `Metrics`/`Traffic`/canvas objects, trace sets, `*_iter_num`, `timestamps`, the `metrics` dictionary).  A *tensor statement*
reads and writes `T` only; an *observer statement* may read both parts and writes `O` only; a loop runs its body a number of
times that depends on `T` only (coordinates come from fibers).  Erasing every observer statement leaves the tensor part of the
final state unchanged - whatever the observer statements do, wherever they stand, however often the loops run.  This is what
justifies reading the metrics-mode / spacetime-mode loops through their observer wrappers when they are compared with the model
nests of C01-C04 (`HF.loopSkeleton`).  Which statements are observers (their classification) is trusted, not proved. -/

inductive Prog (T O : Type) where
  | skip
  | tensor (h : T → T)
  | observer (g : T → O → O)
  | seq (p q : Prog T O)
  | loop (n : T → Nat) (body : Prog T O)

def iter {α : Type} (f : α → α) : Nat → α → α
  | 0, a => a
  | k + 1, a => iter f k (f a)

def Prog.run {T O : Type} : Prog T O → T × O → T × O
  | .skip, s => s
  | .tensor h, s => (h s.1, s.2)
  | .observer g, s => (s.1, g s.1 s.2)
  | .seq p q, s => q.run (p.run s)
  | .loop n body, s => iter body.run (n s.1) s

def Prog.erase {T O : Type} : Prog T O → Prog T O
  | .skip => .skip
  | .tensor h => .tensor h
  | .observer _ => .skip
  | .seq p q => .seq p.erase q.erase
  | .loop n body => .loop n body.erase

theorem iter_fst {T O : Type} (f g : T × O → T × O) (h : ∀ s s', s.1 = s'.1 → (f s).1 = (g s').1) :
    ∀ (k : Nat) (s s' : T × O), s.1 = s'.1 → (iter f k s).1 = (iter g k s').1
  | 0, _, _, e => e
  | k + 1, s, s', e => iter_fst f g h k (f s) (g s') (h s s' e)

/-- **erasing the observer statements does not change any tensor**, from any observer state -/
theorem erase_observers {T O : Type} : ∀ (p : Prog T O) (s s' : T × O), s.1 = s'.1 → (p.run s).1 = (p.erase.run s').1
  | .skip, _, _, e => e
  | .tensor h, s, s', e => by simp [Prog.run, Prog.erase, e]
  | .observer _, _, _, e => e
  | .seq p q, s, s', e => erase_observers q _ _ (erase_observers p s s' e)
  | .loop n body, s, s', e => by
    simp only [Prog.run, Prog.erase]
    rw [e]
    exact iter_fst _ _ (erase_observers body) (n s'.1) s s' e

/-- non-vacuity: a loop whose body counts iterations in the observer part -/
example : ((Prog.loop (fun t : Nat => t) (.seq (.observer fun _ o => o + 1) (.tensor fun t => t + 2))).run (3, 0)).1 =
    ((Prog.loop (fun t : Nat => t) (.seq (.observer fun _ o => o + 1) (.tensor fun t => t + 2))).erase.run (3, 7)).1 := by decide

/-- non-vacuity: leader `b` moved in front of `a` -/
example : coiterT [⟨[true], [([1], 2), ([3], 4)]⟩, ⟨[true], [([3], 5), ([7], 1)]⟩] = some [3] ∧
    coiterT [⟨[true], [([3], 5), ([7], 1)]⟩, ⟨[true], [([1], 2), ([3], 4)]⟩] = some [3] := by decide

end C11
