import TeaalVerif.HF.Scope
/-!
# C06 — every emitted program is closed

`C06.DA_sound`: if the definite-assignment analysis accepts a program from the user-supplied names
`U`, then **every** execution (every number of iterations of every loop, every branch of every `if`)
from any bound set `B ⊇ U` finishes without reading an unbound name, and the guaranteed set is bound
at the end.  `C06.closed` is the corollary used by the check: accepted programs never produce
`none` (NameError / unmodelled statement) on any path.

The check evaluates `DA (userNames spec) (tree of the real compiler)` on every examined program; the
quantifier over *paths* is therefore settled by this theorem, the quantifier over programs by the
generators (sampled).
-/
namespace C06
open HF

def Sub (a b : List String) : Prop := ∀ x, x ∈ a → x ∈ b

theorem allIn_iff {B xs : List String} : allIn B xs = true ↔ ∀ x ∈ xs, x ∈ B := by
  simp [allIn, List.all_eq_true]

theorem allIn_mono {U B xs : List String} (h : Sub U B) (hx : allIn U xs = true) : allIn B xs = true := by
  rw [allIn_iff] at *
  exact fun x hxs => h x (hx x hxs)

theorem mem_inter {a b : List String} {x : String} : x ∈ inter a b ↔ x ∈ a ∧ x ∈ b := by
  simp [inter, List.mem_filter]

theorem sub_refl (a : List String) : Sub a a := fun _ h => h
theorem sub_trans {a b c : List String} (h1 : Sub a b) (h2 : Sub b c) : Sub a c := fun x h => h2 x (h1 x h)
theorem sub_append_right (a b : List String) : Sub b (a ++ b) := fun x h => by simp [h]
theorem sub_append_mono (a : List String) {b c : List String} (h : Sub b c) : Sub (a ++ b) (a ++ c) := by
  intro x hx
  rcases List.mem_append.1 hx with h1 | h1
  · simp [h1]
  · simp [h x h1]

/-- elif bodies: membership version of `DAB` -/
theorem DAB_mem {U : List String} : ∀ {es : List Stmt} {acc D : List String}, DAB U acc es = some D →
    Sub D acc ∧ ∀ s ∈ es, ∃ Ds, DA U s = some Ds ∧ Sub D Ds
  | [], acc, D, h => by
    simp only [DAB, Option.some.injEq] at h
    subst h
    exact ⟨sub_refl _, by simp⟩
  | s :: ss, acc, D, h => by
    simp only [DAB] at h
    cases h1 : DA U s with
    | none => simp [h1] at h
    | some D1 =>
      simp only [h1] at h
      obtain ⟨hs, hm⟩ := DAB_mem h
      refine ⟨fun x hx => (mem_inter.1 (hs x hx)).1, ?_⟩
      intro s' hs'
      rcases List.mem_cons.1 hs' with rfl | hs'
      · exact ⟨D1, h1, fun x hx => (mem_inter.1 (hs x hx)).2⟩
      · exact hm s' hs'

/-- what acceptance of an `if` statement means -/
theorem DA_if {U D : List String} {c : Expr} {t : Stmt} {ec : List Expr} {es : List Stmt} {el : Option Stmt}
    (h : DA U (.if_ c t ec es el) = some D) :
    allIn U (c.reads ++ Expr.readsL ec) = true ∧ ∃ D1 D2, DA U t = some D1 ∧ DAB U D1 es = some D2 ∧
      Sub D D2 ∧
      ((∀ s, el = some s → ∃ D3, DA U s = some D3 ∧ Sub D D3) ∧ (el = none → Sub D U)) := by
  simp only [DA] at h
  split at h
  · rename_i hu
    refine ⟨hu, ?_⟩
    cases h1 : DA U t with
    | none => simp [h1] at h
    | some D1 =>
      cases h2 : DAB U D1 es with
      | none => simp [h1, h2] at h
      | some D2 =>
        cases h3 : DAE U el with
        | none => simp [h1, h2, h3] at h
        | some D3 =>
          simp only [h1, h2, h3, Option.bind_some, Option.some.injEq] at h
          subst h
          refine ⟨D1, D2, rfl, h2, fun x hx => (mem_inter.1 hx).1, ?_, ?_⟩
          · intro s hs
            subst hs
            simp only [DAE] at h3
            exact ⟨D3, h3, fun x hx => (mem_inter.1 hx).2⟩
          · intro hn
            subst hn
            simp only [DAE, Option.some.injEq] at h3
            subst h3
            exact fun x hx => (mem_inter.1 hx).2
  · cases h

/-- **soundness of the analysis for every execution path** -/
theorem DA_sound {B : List String} {s : Stmt} {r : Option (List String)} (hr : Run B s r) :
    ∀ {U D : List String}, DA U s = some D → Sub U B → ∃ B', r = some B' ∧ Sub D B' ∧ Sub B B' := by
  induction hr with
  | @assign_ok B a e h =>
    intro U D hd hs
    simp only [DA] at hd
    split at hd
    · simp only [Option.some.injEq] at hd
      subst hd
      exact ⟨_, rfl, sub_append_mono _ hs, sub_append_right _ _⟩
    · cases hd
  | @assign_err B a e h =>
    intro U D hd hs
    simp only [DA] at hd
    split at hd
    · rename_i hu
      rw [allIn_mono hs hu] at h
      cases h
    · cases hd
  | @expr_ok B e h =>
    intro U D hd hs
    simp only [DA] at hd
    split at hd
    · simp only [Option.some.injEq] at hd
      subst hd
      exact ⟨_, rfl, hs, sub_refl _⟩
    · cases hd
  | @expr_err B e h =>
    intro U D hd hs
    simp only [DA] at hd
    split at hd
    · rename_i hu
      rw [allIn_mono hs hu] at h
      cases h
    · cases hd
  | @iassign_ok B a op e h =>
    intro U D hd hs
    simp only [DA] at hd
    split at hd
    · simp only [Option.some.injEq] at hd
      subst hd
      exact ⟨_, rfl, hs, sub_refl _⟩
    · cases hd
  | @iassign_err B a op e h =>
    intro U D hd hs
    simp only [DA] at hd
    split at hd
    · rename_i hu
      rw [allIn_mono hs hu] at h
      cases h
    · cases hd
  | @block_nil B =>
    intro U D hd hs
    simp only [DA, DAL, Option.some.injEq] at hd
    subst hd
    exact ⟨_, rfl, hs, sub_refl _⟩
  | @block_ok B B' s ss r _ _ ih1 ih2 =>
    intro U D hd hs
    simp only [DA, DAL] at hd
    cases h1 : DA U s with
    | none => simp [h1] at hd
    | some D1 =>
      simp only [h1] at hd
      obtain ⟨B1, hB1, hD1, hBB1⟩ := ih1 h1 hs
      cases hB1
      have hd' : DA D1 (.block ss) = some D := by simpa [DA] using hd
      obtain ⟨B2, hB2, hD2, hBB2⟩ := ih2 hd' hD1
      exact ⟨B2, hB2, hD2, sub_trans hBB1 hBB2⟩
  | @block_err B s ss _ ih =>
    intro U D hd hs
    simp only [DA, DAL] at hd
    cases h1 : DA U s with
    | none => simp [h1] at hd
    | some D1 =>
      obtain ⟨B1, hB1, _, _⟩ := ih h1 hs
      cases hB1
  | @for_err B p e b h =>
    intro U D hd hs
    simp only [DA] at hd
    split at hd
    · rename_i hu
      rw [allIn_mono hs hu] at h
      cases h
    · cases hd
  | @for_done B p e b h =>
    intro U D hd hs
    simp only [DA] at hd
    split at hd
    · split at hd
      · simp only [Option.some.injEq] at hd
        subst hd
        exact ⟨_, rfl, hs, sub_refl _⟩
      · cases hd
    · cases hd
  | @for_step B B' p e b r h _ _ ih1 ih2 =>
    intro U D hd hs
    have hd0 := hd
    simp only [DA] at hd
    split at hd
    · split at hd
      · rename_i Db hb
        simp only [Option.some.injEq] at hd
        subst hd
        obtain ⟨B1, hB1, _, hBB1⟩ := ih1 hb (sub_append_mono _ hs)
        cases hB1
        have hUB' : Sub U B' := sub_trans hs (sub_trans (sub_append_right _ _) hBB1)
        obtain ⟨B2, hB2, hD2, hBB2⟩ := ih2 hd0 hUB'
        exact ⟨B2, hB2, hD2, sub_trans (sub_trans (sub_append_right _ _) hBB1) hBB2⟩
      · cases hd
    · cases hd
  | @for_body_err B p e b h _ ih =>
    intro U D hd hs
    simp only [DA] at hd
    split at hd
    · split at hd
      · rename_i Db hb
        obtain ⟨B1, hB1, _, _⟩ := ih hb (sub_append_mono _ hs)
        cases hB1
      · cases hd
    · cases hd
  | @if_err B c t ec es el h =>
    intro U D hd hs
    have hu := (DA_if hd).1
    rw [allIn_mono hs hu] at h
    cases h
  | @if_then B c t ec es el r h _ ih =>
    intro U D hd hs
    obtain ⟨_, D1, D2, h1, h2, hsub, _⟩ := DA_if hd
    obtain ⟨B1, hB1, hD1, hBB1⟩ := ih h1 hs
    exact ⟨B1, hB1, fun x hx => hD1 x ((DAB_mem h2).1 x (hsub x hx)), hBB1⟩
  | @if_elif B c t ec es el s r h hmem _ ih =>
    intro U D hd hs
    obtain ⟨_, D1, D2, _, h2, hsub, _⟩ := DA_if hd
    obtain ⟨_, hm⟩ := DAB_mem h2
    obtain ⟨Ds, hds, hsub2⟩ := hm s hmem
    obtain ⟨B1, hB1, hD1, hBB1⟩ := ih hds hs
    exact ⟨B1, hB1, fun x hx => hD1 x (hsub2 x (hsub x hx)), hBB1⟩
  | @if_else B c t ec es s r h _ ih =>
    intro U D hd hs
    obtain ⟨_, D1, D2, _, _, _, hel⟩ := DA_if hd
    obtain ⟨D3, h3, hsub3⟩ := hel.1 s rfl
    obtain ⟨B1, hB1, hD1, hBB1⟩ := ih h3 hs
    exact ⟨B1, hB1, fun x hx => hD1 x (hsub3 x hx), hBB1⟩
  | @if_skip B c t ec es h =>
    intro U D hd hs
    obtain ⟨_, D1, D2, _, _, _, hel⟩ := DA_if hd
    exact ⟨B, rfl, fun x hx => hs x (hel.2 rfl x hx), sub_refl _⟩
  | func =>
    intro U D hd _
    simp [DA] at hd
  | ret =>
    intro U D hd _
    simp [DA] at hd

/-- an accepted program reads no unbound name on any path -/
theorem closed {U D : List String} {p : Stmt} (h : DA U p = some D) {r : Option (List String)}
    (hr : Run U p r) : r ≠ none := by
  obtain ⟨B', hB', _, _⟩ := DA_sound hr h (sub_refl _)
  simp [hB']

/-- non-vacuity: a loop nest that is accepted, and the same nest reading a loop variable after the loop rejected -/
example : DA ["A_K", "Tensor"]
    (.block [.assign (.var "a_k") (.method (.var "A_K") "getRoot" [] []),
             .for_ (.tuple [.var "k", .var "a_val"]) (.var "a_k") (.block [.expr (.var "a_val")])]) =
    some ["a_k", "A_K", "Tensor"] := by decide
example : DA ["A_K"]
    (.block [.for_ (.var "k") (.var "A_K") (.block []), .expr (.var "k")]) = none := by decide

end C06
