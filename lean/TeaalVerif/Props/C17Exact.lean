import TeaalVerif.Props.C17
/-!
# C17 — exactness for Einsum expressions: the reader accepts a token sequence only if it is the rendering of what it returns

`einsum_exact`: `parseEinsum ts = some e → ts = e.toks`, for every token sequence, provided `e` carries no coefficient `0`
(the one place where two texts denote one structure: `EquationParser` rewrites `- 0 * s` to the coefficient `0`, which is also what
`0 * s` gives).  Together with `C17.einsum_roundtrip` the token sequences accepted by the reader and the well-formed Einsums without
zero coefficients are in bijection: nothing outside the grammar is accepted, nothing is read partially, no two texts (up to
insignificant white space, which is below the token level) give the same structure.
-/
namespace C17
open Grammar

theorem sepBy_cons_ne (sep : Tok) (t : List Tok) : ∀ (ts : List (List Tok)), ts ≠ [] → sepBy sep (t :: ts) = t ++ sep :: sepBy sep ts
  | [], h => absurd rfl h
  | _ :: _, _ => rfl

/-- separated lists, generically: if the element reader is exact (on the elements satisfying `Q`), so is the list reader -/
theorem parseSep_exact {α : Type} (p : Nat → List Tok → Option (α × List Tok)) (tk : α → List Tok) (sep : Tok) (Q : α → Prop)
    (hp : ∀ f ts x r, p f ts = some (x, r) → Q x → ts = tk x ++ r) :
    ∀ (fuel : Nat) (ts : List Tok) (xs : List α) (r : List Tok), parseSep p sep fuel ts = some (xs, r) → (∀ x ∈ xs, Q x) →
      ts = sepBy sep (xs.map tk) ++ r ∧ xs ≠ []
  | 0, _, _, _, h, _ => by simp [parseSep] at h
  | fuel + 1, ts, xs, r, h, hq => by
    simp only [parseSep] at h
    cases hpx : p (fuel + 1) ts with
    | none => rw [hpx] at h; cases h
    | some pr =>
      obtain ⟨x, rest0⟩ := pr
      rw [hpx] at h
      cases rest0 with
      | nil =>
        simp only [Option.some.injEq, Prod.mk.injEq] at h
        obtain ⟨h1, h2⟩ := h
        subst h1; subst h2
        have := hp _ _ _ _ hpx (hq x (by simp))
        exact ⟨by simpa [sepBy] using this, by simp⟩
      | cons t rest =>
        simp only at h
        by_cases hts : t = sep
        · rw [if_pos hts] at h
          cases hrec : parseSep p sep fuel rest with
          | none => rw [hrec] at h; cases h
          | some pr2 =>
            obtain ⟨xs', r'⟩ := pr2
            rw [hrec] at h
            simp only [Option.some.injEq, Prod.mk.injEq] at h
            obtain ⟨h1, h2⟩ := h
            subst h1; subst h2
            obtain ⟨ih1, ih2⟩ := parseSep_exact p tk sep Q hp fuel rest xs' r' hrec (fun y hy => hq y (List.mem_cons_of_mem _ hy))
            have hx := hp _ _ _ _ hpx (hq x (by simp))
            refine ⟨?_, by simp⟩
            rw [List.map_cons, sepBy_cons_ne sep (tk x) (xs'.map tk) (by simpa using ih2), hx, hts, ih1]
            simp
        · rw [if_neg hts] at h
          simp only [Option.some.injEq, Prod.mk.injEq] at h
          obtain ⟨h1, h2⟩ := h
          subst h1; subst h2
          have := hp _ _ _ _ hpx (hq x (by simp))
          exact ⟨by simpa [sepBy] using this, by simp⟩

/-! ### no zero coefficient -/

def NZTerm (t : ITerm) : Prop := t.coef ≠ some 0
def NZAccess (a : Access) : Prop := ∀ e ∈ a.idx, ∀ t ∈ e, NZTerm t
def NZFactor : Factor → Prop
  | .scalar _ => True
  | .tensor a => NZAccess a
def NZTermT : Term → Prop
  | .times fs => ∀ f ∈ fs, NZFactor f
  | .take fs _ => ∀ f ∈ fs, NZFactor f
def NZEinsum (e : Einsum) : Prop := NZAccess e.out ∧ ∀ t ∈ e.terms, NZTermT t

theorem iterm_exact (ts : List Tok) (t : ITerm) (r : List Tok) (h : parseITerm ts = some (t, r)) (hz : NZTerm t) : ts = t.toks ++ r := by
  unfold parseITerm at h
  split at h
  · simp only [Option.some.injEq, Prod.mk.injEq] at h
    obtain ⟨h1, h2⟩ := h
    subst h1; subst h2
    simp [ITerm.toks]
  · simp only [Option.some.injEq, Prod.mk.injEq] at h
    obtain ⟨h1, h2⟩ := h
    subst h1; subst h2
    rename_i n v rest
    have hn : n ≠ 0 := by
      intro e; subst e; exact hz rfl
    simp only [ITerm.toks, coefToks]
    have : ¬ ((Int.ofNat n) < 0) := by simp
    rw [if_neg this]
    simp
  · simp only [Option.some.injEq, Prod.mk.injEq] at h
    obtain ⟨h1, h2⟩ := h
    subst h1; subst h2
    rename_i n v rest
    have hn : n ≠ 0 := by
      intro e; subst e; exact hz (by simp)
    simp only [ITerm.toks, coefToks]
    have : (-(Int.ofNat n)) < 0 := by
      have : 0 < n := Nat.pos_of_ne_zero hn
      simp only [Int.ofNat_eq_natCast]; omega
    rw [if_pos this]
    simp
  · cases h

theorem iexpr_exact (fuel : Nat) (ts : List Tok) (e : IExpr) (r : List Tok) (h : parseIExpr fuel ts = some (e, r))
    (hz : ∀ t ∈ e, NZTerm t) : ts = IExpr.toks e ++ r ∧ e ≠ [] := by
  unfold parseIExpr at h
  exact parseSep_exact (fun _ => parseITerm) ITerm.toks (.sym "+") NZTerm (fun _ ts x r hh hq => iterm_exact ts x r hh hq) fuel ts e r h hz

theorem access_exact (fuel : Nat) (ts : List Tok) (a : Access) (r : List Tok) (h : parseAccess fuel ts = some (a, r)) (hz : NZAccess a) :
    ts = a.toks ++ r := by
  unfold parseAccess at h
  split at h
  · rename_i n rest
    by_cases hh : rest.head? = some (.sym "]")
    · rw [if_pos hh] at h
      simp only [Option.some.injEq, Prod.mk.injEq] at h
      obtain ⟨h1, h2⟩ := h
      subst h1; subst h2
      cases rest with
      | nil => simp at hh
      | cons t rest' =>
        simp only [List.head?_cons, Option.some.injEq] at hh
        subst hh
        simp [Access.toks, sepBy]
    · rw [if_neg hh] at h
      cases hs : parseSep parseIExpr (.sym ",") fuel rest with
      | none => rw [hs] at h; cases h
      | some pr =>
        obtain ⟨idx, r1⟩ := pr
        rw [hs] at h
        simp only at h
        by_cases h2 : r1.head? = some (.sym "]")
        · rw [if_pos h2] at h
          simp only [Option.some.injEq, Prod.mk.injEq] at h
          obtain ⟨e1, e2⟩ := h
          subst e1; subst e2
          have hq : ∀ e ∈ idx, (∀ t ∈ e, NZTerm t) := fun e he => hz e he
          obtain ⟨hx, _⟩ := parseSep_exact parseIExpr IExpr.toks (.sym ",") (fun e => ∀ t ∈ e, NZTerm t)
            (fun f ts x r hh hq => (iexpr_exact f ts x r hh hq).1) fuel rest idx r1 hs hq
          cases r1 with
          | nil => simp at h2
          | cons t r1' =>
            simp only [List.head?_cons, Option.some.injEq] at h2
            subst h2
            simp only [Access.toks, List.tail_cons, hx]
            simp
        · rw [if_neg h2] at h; cases h
  · cases h

theorem factor_exact (fuel : Nat) (ts : List Tok) (f : Factor) (r : List Tok) (h : parseFactor fuel ts = some (f, r)) (hz : NZFactor f) :
    ts = f.toks ++ r := by
  unfold parseFactor at h
  split at h
  · rename_i n rest
    by_cases hb : rest.head? = some (.sym "[")
    · rw [if_pos hb] at h
      cases ha : parseAccess fuel (.name n :: rest) with
      | none => rw [ha] at h; cases h
      | some pr =>
        obtain ⟨a, r'⟩ := pr
        rw [ha] at h
        simp only [Option.some.injEq, Prod.mk.injEq] at h
        obtain ⟨e1, e2⟩ := h
        subst e1; subst e2
        exact access_exact fuel _ a r' ha hz
    · rw [if_neg hb] at h
      simp only [Option.some.injEq, Prod.mk.injEq] at h
      obtain ⟨e1, e2⟩ := h
      subst e1; subst e2
      simp [Factor.toks]
  · cases h

theorem takeArgs_exact : ∀ (fuel : Nat) (ts : List Tok) (fs : List Factor) (sel : Nat) (r : List Tok),
    parseTakeArgs fuel ts = some (fs, sel, r) → (∀ f ∈ fs, NZFactor f) →
      ts = sepBy (.sym ",") (fs.map Factor.toks) ++ [.sym ",", .num sel, .sym ")"] ++ r ∧ fs ≠ []
  | 0, _, _, _, _, h, _ => by simp [parseTakeArgs] at h
  | fuel + 1, ts, fs, sel, r, h, hz => by
    simp only [parseTakeArgs] at h
    cases hf : parseFactor (fuel + 1) ts with
    | none => rw [hf] at h; cases h
    | some pr =>
      obtain ⟨f, r0⟩ := pr
      rw [hf] at h
      simp only at h
      by_cases hc : r0.head? = some (.sym ",")
      · rw [if_pos hc] at h
        cases r0 with
        | nil => simp at hc
        | cons c r0' =>
          simp only [List.head?_cons, Option.some.injEq] at hc
          subst hc
          simp only [List.tail_cons] at h
          split at h
          · rename_i sel' r'
            by_cases hp : r'.head? = some (.sym ")")
            · rw [if_pos hp] at h
              simp only [Option.some.injEq, Prod.mk.injEq] at h
              obtain ⟨e1, e2, e3⟩ := h
              subst e1; subst e2; subst e3
              have hx := factor_exact _ _ f _ hf (hz f (by simp))
              cases r' with
              | nil => simp at hp
              | cons t r'' =>
                simp only [List.head?_cons, Option.some.injEq] at hp
                subst hp
                refine ⟨?_, by simp⟩
                rw [hx]
                simp [sepBy]
            · rw [if_neg hp] at h; cases h
          · rename_i hnot
            cases hrec : parseTakeArgs fuel r0' with
            | none => rw [hrec] at h; cases h
            | some pr2 =>
              obtain ⟨fs', sel', rest'⟩ := pr2
              rw [hrec] at h
              simp only [Option.some.injEq, Prod.mk.injEq] at h
              obtain ⟨e1, e2, e3⟩ := h
              subst e1; subst e2; subst e3
              obtain ⟨ih1, ih2⟩ := takeArgs_exact fuel r0' fs' sel' rest' hrec (fun g hg => hz g (List.mem_cons_of_mem _ hg))
              have hx := factor_exact _ _ f _ hf (hz f (by simp))
              refine ⟨?_, by simp⟩
              rw [List.map_cons, sepBy_cons_ne _ _ _ (by simpa using ih2), hx, ih1]
              simp
      · rw [if_neg hc] at h; cases h

theorem term_exact (fuel : Nat) (ts : List Tok) (t : Term) (r : List Tok) (h : parseTerm fuel ts = some (t, r)) (hz : NZTermT t) :
    ts = t.toks ++ r := by
  unfold parseTerm at h
  by_cases hk : ts.head? = some (.sym "take(")
  · rw [if_pos hk] at h
    cases ha : parseTakeArgs fuel ts.tail with
    | none => rw [ha] at h; cases h
    | some pr =>
      obtain ⟨fs, sel, rest'⟩ := pr
      rw [ha] at h
      simp only [Option.some.injEq, Prod.mk.injEq] at h
      obtain ⟨e1, e2⟩ := h
      subst e1; subst e2
      obtain ⟨hx, _⟩ := takeArgs_exact fuel ts.tail fs sel rest' ha hz
      cases ts with
      | nil => simp at hk
      | cons t0 ts' =>
        simp only [List.head?_cons, Option.some.injEq] at hk
        subst hk
        simp only [List.tail_cons] at hx
        simp only [Term.toks, hx]
        simp
  · rw [if_neg hk] at h
    cases ha : parseTimes fuel ts with
    | none => rw [ha] at h; cases h
    | some pr =>
      obtain ⟨fs, rest⟩ := pr
      rw [ha] at h
      simp only [Option.some.injEq, Prod.mk.injEq] at h
      obtain ⟨e1, e2⟩ := h
      subst e1; subst e2
      unfold parseTimes at ha
      exact (parseSep_exact parseFactor Factor.toks (.sym "*") NZFactor (fun f ts x r hh hq => factor_exact f ts x r hh hq) fuel ts fs rest ha hz).1

/-- **C17, Einsum expressions, exactness**: what the reader accepts is the rendering of what it returns -/
theorem einsum_exact (ts : List Tok) (e : Einsum) (h : parseEinsum ts = some e) (hz : NZEinsum e) : ts = e.toks := by
  unfold parseEinsum at h
  cases ha : parseAccess ts.length ts with
  | none => rw [ha] at h; cases h
  | some pr =>
    obtain ⟨out, r⟩ := pr
    rw [ha] at h
    simp only at h
    by_cases he : r.head? = some (.sym "=")
    · rw [if_pos he] at h
      cases ht : parseTerms ts.length r.tail with
      | none => rw [ht] at h; cases h
      | some pr2 =>
        obtain ⟨terms, rest⟩ := pr2
        rw [ht] at h
        cases rest with
        | cons _ _ => cases h
        | nil =>
          simp only [Option.some.injEq] at h
          subst h
          have hx := access_exact _ _ out r ha hz.1
          unfold parseTerms at ht
          obtain ⟨hy, _⟩ := parseSep_exact parseTerm Term.toks (.sym "+") NZTermT (fun f ts x r hh hq => term_exact f ts x r hh hq)
            _ _ terms [] ht hz.2
          cases r with
          | nil => simp at he
          | cons t0 r' =>
            simp only [List.head?_cons, Option.some.injEq] at he
            subst he
            simp only [List.tail_cons] at hy
            rw [hx, hy]
            simp [Einsum.toks]
    · rw [if_neg he] at h; cases h

/-- the bijection, in one statement: on well-formed Einsums without zero coefficients reading and rendering are mutually inverse -/
theorem einsum_bijection (ts : List Tok) (e : Einsum) (hw : WfEinsum e) (hz : NZEinsum e) : parseEinsum ts = some e ↔ ts = e.toks :=
  ⟨fun h => einsum_exact ts e h hz, fun h => h ▸ einsum_roundtrip e hw⟩

/-- the side condition is needed: `- 0 * s` and `0 * s` are two texts for one structure -/
theorem neg_zero_two_texts :
    parseEinsum [.name "Z", .sym "[", .sym "]", .sym "=", .name "A", .sym "[", .sym "-", .num 0, .sym "*", .name "s", .sym "]"] =
    parseEinsum [.name "Z", .sym "[", .sym "]", .sym "=", .name "A", .sym "[", .num 0, .sym "*", .name "s", .sym "]"] := by decide

-- non-vacuity: a token sequence with a negative coefficient, a scalar and a take() is accepted, and it is the rendering of the result
example : (parseEinsum [.name "Z", .sym "[", .name "m", .sym "]", .sym "=", .name "A", .sym "[", .sym "-", .num 3, .sym "*", .name "s", .sym "+",
    .name "m", .sym "]", .sym "*", .name "b", .sym "+", .sym "take(", .name "B", .sym "[", .name "m", .sym "]", .sym ",", .name "c", .sym ",", .num 0,
    .sym ")"]).map Einsum.toks =
    some [.name "Z", .sym "[", .name "m", .sym "]", .sym "=", .name "A", .sym "[", .sym "-", .num 3, .sym "*", .name "s", .sym "+",
    .name "m", .sym "]", .sym "*", .name "b", .sym "+", .sym "take(", .name "B", .sym "[", .name "m", .sym "]", .sym ",", .name "c", .sym ",", .num 0,
    .sym ")"] := by decide

end C17
