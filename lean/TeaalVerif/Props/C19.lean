import TeaalVerif.IR.DefaultOrder
/-!
# C19 — omitted loop order means the canonical default

`C19.default_order`: for every Einsum (output ranks `out`, first-term ranks `term`), every set of
single-rank partitionings `parts` (distinct keys; level names fresh and pairwise distinct) and
**every order `sched` in which the implementation may iterate that set** (`sched.Perm parts`), the
loop order the implementation computes equals the canonical one: output ranks as written, then the
remaining ranks in order of first appearance, each partitioned rank replaced in place by its levels.
-/
namespace C19
open DefaultOrder

theorem appendNew_spec : ∀ (term acc : List String),
    appendNew acc term = acc ++ ((firstAppearance term).filter fun r => !acc.contains r)
  | [], acc => by simp [appendNew, firstAppearance]
  | a :: as, acc => by
    simp only [appendNew, firstAppearance]
    by_cases ha : acc.contains a = true
    · simp only [ha, if_true]
      rw [appendNew_spec as acc]
      congr 1
      rw [List.filter_cons]
      simp only [ha, Bool.not_true, Bool.false_eq_true, if_false, List.filter_filter]
      apply List.filter_congr
      intro x _
      by_cases hx : x = a
      · subst hx; simpa using ha
      · simp [hx]
    · simp only [ha, Bool.false_eq_true, if_false]
      rw [appendNew_spec as (acc ++ [a])]
      rw [List.filter_cons]
      simp only [ha, Bool.not_false, if_true, List.filter_filter, List.append_assoc, List.singleton_append]
      congr 2
      apply List.filter_congr
      intro x _
      by_cases hx : x = a
      · subst hx; simp
      · simp [hx]

theorem flatMap_id_of_not_mem (r : String) (lv : List String) : ∀ (xs : List String), r ∉ xs →
    xs.flatMap (fun x => if x = r then lv else [x]) = xs
  | [], _ => rfl
  | y :: ys, h => by
    have hy : y ≠ r := fun e => h (by simp [e])
    simp only [List.flatMap_cons, hy, if_false, List.singleton_append]
    rw [flatMap_id_of_not_mem r lv ys (fun hm => h (List.mem_cons_of_mem _ hm))]

theorem replace1_flatMap (r : String) (lv : List String) : ∀ (ranks : List String), ranks.Nodup →
    replace1 r lv ranks = ranks.flatMap (fun x => if x = r then lv else [x])
  | [], _ => rfl
  | x :: xs, h => by
    have h' := List.nodup_cons.1 h
    simp only [replace1, List.flatMap_cons]
    by_cases hx : x = r
    · subst hx
      simp only [if_true]
      rw [flatMap_id_of_not_mem x lv xs h'.1]
    · simp only [hx, if_false, List.singleton_append]
      rw [replace1_flatMap r lv xs h'.2]

theorem flatMap_congr_mem {f g : String → List String} : ∀ (l : List String), (∀ x ∈ l, f x = g x) →
    l.flatMap f = l.flatMap g
  | [], _ => rfl
  | x :: xs, h => by
    simp only [List.flatMap_cons]
    rw [h x (by simp), flatMap_congr_mem xs (fun y hy => h y (List.mem_cons_of_mem _ hy))]

theorem count_le_one_of_nodup : ∀ (l : List String), l.Nodup → ∀ a, l.count a ≤ 1
  | [], _, _ => by simp
  | x :: xs, h, a => by
    have h' := List.nodup_cons.1 h
    rw [List.count_cons]
    by_cases hx : x = a
    · subst hx
      have : xs.count x = 0 := List.count_eq_zero.2 h'.1
      simp [this]
    · have hb : (x == a) = false := by simpa using hx
      have := count_le_one_of_nodup xs h'.2 a
      simp [hb, this]

theorem count_replace1 (k r : String) (lv : List String) (hk : k ≠ r) (hlv : k ∉ lv) :
    ∀ ranks : List String, (replace1 r lv ranks).count k = ranks.count k
  | [] => rfl
  | x :: xs => by
    simp only [replace1]
    by_cases hx : x = r
    · subst hx
      simp only [if_true, List.count_append, List.count_cons]
      have h1 : lv.count k = 0 := List.count_eq_zero.2 hlv
      have h2 : (x == k) = false := by simpa using fun e : x = k => hk e.symm
      simp [h1, h2]
    · simp only [hx, if_false, List.count_cons, count_replace1 k r lv hk hlv xs]

theorem flatMap_single_of_no_key (ps : List (String × List String)) : ∀ (lv : List String),
    (∀ x ∈ lv, x ∉ ps.map Prod.fst) → lv.flatMap (levelsOf ps) = lv
  | [], _ => rfl
  | y :: ys, h => by
    have hy : ps.lookup y = none := by
      rw [List.lookup_eq_none_iff]
      intro p hp
      have : y ≠ p.1 := by
        intro heq
        apply h y (by simp)
        simp only [List.mem_map]
        exact ⟨p, hp, heq.symm⟩
      simpa using this
    have hl : levelsOf ps y = [y] := by simp [levelsOf, hy]
    simp only [List.flatMap_cons, hl, List.singleton_append]
    rw [flatMap_single_of_no_key ps ys (fun x hx => h x (List.mem_cons_of_mem _ hx))]

/-- the iteration over the parts, in the order `sched`, computes the in-place expansion -/
theorem expand_spec : ∀ (sched : List (String × List String)) (ranks : List String),
    (sched.map Prod.fst).Nodup →
    (∀ p ∈ sched, ∀ x ∈ p.2, x ∉ sched.map Prod.fst) →
    (∀ p ∈ sched, ranks.count p.1 ≤ 1) →
    expand sched ranks = ranks.flatMap (levelsOf sched)
  | [], ranks, _, _, _ => by
    simp only [expand, List.foldl_nil]
    induction ranks with
    | nil => rfl
    | cons x xs ih => simp [List.flatMap_cons, levelsOf, List.lookup, ← ih]
  | p :: ps, ranks, hk, hf, hc => by
    have hk' : p.1 ∉ ps.map Prod.fst ∧ (ps.map Prod.fst).Nodup := by
      simpa only [List.map_cons, List.nodup_cons] using hk
    have hstep : expand (p :: ps) ranks = expand ps (replace1 p.1 p.2 ranks) := rfl
    rw [hstep]
    have hfps : ∀ q ∈ ps, ∀ x ∈ q.2, x ∉ ps.map Prod.fst := by
      intro q hq x hx hm
      exact hf q (List.mem_cons_of_mem _ hq) x hx (by simp only [List.map_cons]; exact List.mem_cons_of_mem _ hm)
    have hcps : ∀ q ∈ ps, (replace1 p.1 p.2 ranks).count q.1 ≤ 1 := by
      intro q hq
      have hne : q.1 ≠ p.1 := by
        intro e
        apply hk'.1
        simp only [List.mem_map]
        exact ⟨q, hq, e⟩
      have hnl : q.1 ∉ p.2 := by
        intro hm
        exact hf p (by simp) q.1 hm (by simp only [List.map_cons]; exact List.mem_cons_of_mem _ (List.mem_map.2 ⟨q, hq, rfl⟩))
      rw [count_replace1 q.1 p.1 p.2 hne hnl]
      exact hc q (List.mem_cons_of_mem _ hq)
    rw [expand_spec ps _ hk'.2 hfps hcps]
    -- replace1 is a flatMap because p.1 occurs at most once
    have hrep : replace1 p.1 p.2 ranks = ranks.flatMap (fun x => if x = p.1 then p.2 else [x]) := by
      have hc1 := hc p (by simp)
      clear hstep hcps
      induction ranks with
      | nil => rfl
      | cons x xs ih =>
        simp only [replace1, List.flatMap_cons]
        by_cases hx : x = p.1
        · simp only [hx, if_true]
          rw [flatMap_id_of_not_mem]
          intro hm
          have : (x :: xs).count p.1 ≥ 2 := by
            rw [hx, List.count_cons_self]
            have := List.count_pos_iff.2 hm
            omega
          omega
        · simp only [hx, if_false, List.singleton_append]
          rw [ih]
          · intro q hq
            have := hc q hq
            rw [List.count_cons] at this
            omega
          · rw [List.count_cons] at hc1
            omega
    rw [hrep, List.flatMap_assoc]
    apply flatMap_congr_mem
    intro x _
    by_cases hx : x = p.1
    · simp only [hx, if_true]
      rw [flatMap_single_of_no_key ps p.2 (fun y hy hm => hf p (by simp) y hy (by simp only [List.map_cons]; exact List.mem_cons_of_mem _ hm))]
      simp [levelsOf, List.lookup]
    · have hb : (x == p.1) = false := by simpa using hx
      simp [hx, levelsOf, List.lookup, hb]

theorem lookup_of_mem : ∀ (l : List (String × List String)), (l.map Prod.fst).Nodup →
    ∀ k v, (k, v) ∈ l → l.lookup k = some v
  | [], _, _, _, h => by simp at h
  | (a, b) :: ps, hn, k, v, h => by
    have hn' : a ∉ ps.map Prod.fst ∧ (ps.map Prod.fst).Nodup := by
      simpa only [List.map_cons, List.nodup_cons] using hn
    rcases List.mem_cons.1 h with h | h
    · cases h; simp [List.lookup]
    · have hne : k ≠ a := by
        intro e
        apply hn'.1
        simp only [List.mem_map]
        exact ⟨(k, v), h, e⟩
      have hb : (k == a) = false := by simpa using hne
      simp only [List.lookup, hb]
      exact lookup_of_mem ps hn'.2 k v h

theorem mem_of_lookup : ∀ (l : List (String × List String)) k v, l.lookup k = some v → (k, v) ∈ l
  | [], _, _, h => by simp [List.lookup] at h
  | (a, b) :: ps, k, v, h => by
    simp only [List.lookup] at h
    by_cases hb : (k == a) = true
    · simp only [hb] at h
      have : k = a := by simpa using hb
      subst this
      cases h
      simp
    · have hb' : (k == a) = false := by simpa using hb
      simp only [hb'] at h
      exact List.mem_cons_of_mem _ (mem_of_lookup ps k v h)

/-- the iteration order of the set of partitionings does not matter -/
theorem levelsOf_perm (parts sched : List (String × List String)) (hk : (parts.map Prod.fst).Nodup)
    (hp : sched.Perm parts) (r : String) : levelsOf sched r = levelsOf parts r := by
  have hks : (sched.map Prod.fst).Nodup := (hp.map Prod.fst).nodup_iff.2 hk
  unfold levelsOf
  cases h : parts.lookup r with
  | some v =>
    have := lookup_of_mem sched hks r v (hp.mem_iff.2 (mem_of_lookup parts r v h))
    rw [this]
  | none =>
    cases h2 : sched.lookup r with
    | none => rfl
    | some v =>
      have := lookup_of_mem parts hk r v (hp.mem_iff.1 (mem_of_lookup sched r v h2))
      rw [this] at h
      cases h

/-- **C19 (default loop order)**: every Einsum, every set of single-rank partitionings, every
    iteration order of that set -/
theorem default_order (parts sched : List (String × List String)) (out term : List String)
    (hp : sched.Perm parts)
    (hk : (parts.map Prod.fst).Nodup)
    (hfresh : ∀ p ∈ parts, ∀ x ∈ p.2, x ∉ parts.map Prod.fst)
    (hout : out.Nodup) :
    implOrder sched out term = specOrder parts out term := by
  unfold implOrder specOrder einsumRanks
  rw [appendNew_spec]
  have hks : (sched.map Prod.fst).Nodup := (hp.map Prod.fst).nodup_iff.2 hk
  have hfs : ∀ p ∈ sched, ∀ x ∈ p.2, x ∉ sched.map Prod.fst := by
    intro p hpm x hx hm
    exact hfresh p (hp.mem_iff.1 hpm) x hx ((hp.map Prod.fst).mem_iff.1 hm)
  rw [expand_spec sched _ hks hfs]
  · apply flatMap_congr_mem
    intro x _
    exact levelsOf_perm parts sched hk hp x
  · intro p _
    -- the Einsum ranks carry no rank twice
    have hnd : (out ++ (firstAppearance term).filter fun r => !out.contains r).Nodup := by
      rw [List.nodup_append]
      refine ⟨hout, ?_, ?_⟩
      · refine List.Pairwise.sublist List.filter_sublist ?_
        induction term with
        | nil => simp [firstAppearance]
        | cons a as ih =>
          simp only [firstAppearance]
          rw [List.pairwise_cons]
          refine ⟨?_, List.Pairwise.sublist List.filter_sublist ih⟩
          intro b hb
          have := (List.mem_filter.1 hb).2
          simpa using fun e : a = b => (by simpa using this : b ≠ a) e.symm
      · intro a ha b hb hab
        subst hab
        have := (List.mem_filter.1 hb).2
        simp at this
        exact this ha
    exact count_le_one_of_nodup _ hnd p.1

/-- non-vacuity: Z[m, n] = A[k, m] * B[k, n] with K and M partitioned; two schedules of the set -/
example : implOrder [("K", ["K2", "K1", "K0"]), ("M", ["M1", "M0"])] ["M", "N"] ["K", "M", "K", "N"] =
    ["M1", "M0", "N", "K2", "K1", "K0"] := by decide
example : implOrder [("M", ["M1", "M0"]), ("K", ["K2", "K1", "K0"])] ["M", "N"] ["K", "M", "K", "N"] =
    specOrder [("K", ["K2", "K1", "K0"]), ("M", ["M1", "M0"])] ["M", "N"] ["K", "M", "K", "N"] := by decide

end C19
