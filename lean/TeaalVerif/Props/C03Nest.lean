import TeaalVerif.Props.C03Dyn
/-!
# C03 — the nest with a dynamic occupancy split computes the (unpartitioned) Einsum

`C03.dynamic_nest`: for every product Einsum, every leader tensor holding the partitioned rank `K` (contracted), every
occupancy `n`, every choice of outer loops and every order of the inner loops `K1 … K0 …`, and **every input** inside the
extents: the emitted nest — outer loops, `splitEqual(n)` of the leader's fiber reached there and `splitNonUniform` of every
other tensor carrying `K` at the leader's boundaries, swizzles, inner loops — accumulates at every output point the value
the Einsum means (`meaning`: no partitioning, no loop order).  The boundaries are recomputed from the leader's current
fiber at every iteration of the outer loops; the theorem covers whatever they turn out to be.
-/
namespace C03
open Nest C01

theorem ext_prefix : ∀ (a b : List (Bool × Nat)) (sts : List TermSt), Ext (a ++ b) sts → Ext a sts
  | [], _, _, _ => trivial
  | (o, e) :: a, b, sts, h => ⟨h.1, fun c => ext_prefix a b _ (h.2 c)⟩

theorem lv_append (out : List String) : ∀ (r1 r2 : List String) (e1 e2 : List Nat), e1.length = r1.length →
    lv out (r1 ++ r2) (e1 ++ e2) = lv out r1 e1 ++ lv out r2 e2
  | [], _, e1, _, h => by
    have : e1 = [] := List.length_eq_zero_iff.1 (by simpa using h)
    subst this; rfl
  | r :: r1, r2, [], e2, h => by simp at h
  | r :: r1, r2, e :: e1, e2, h => by
    have ih := lv_append out r1 r2 e1 e2 (by simpa using h)
    simp only [lv, List.cons_append, List.zip_cons_cons, List.map_cons] at ih ⊢
    rw [ih]

theorem opBounded_init (S : EinsumS) (env : String → Pts) (hnd : S.loop.Nodup) (hlen : S.exts.length = S.loop.length)
    (hb : InBounds S env) : ∀ st ∈ initTerms S env, ∀ o ∈ st.ops, OpBounded S.exts o := by
  intro st hst o ho
  simp only [initTerms, List.mem_map] at hst
  obtain ⟨t, ht, rfl⟩ := hst
  simp only [List.mem_map] at ho
  obtain ⟨x, hx, rfl⟩ := ho
  intro p hp
  simp only [initOperand, List.mem_map] at hp
  obtain ⟨⟨cs, v⟩, hq, rfl⟩ := hp
  exact below_init x.ranks (fun r => cs.getD (x.ranks.idxOf r) 0) S.loop S.exts hnd hlen
    (fun r _ hc => hb t ht x hx (cs, v) hq r (by simpa using hc))

theorem schedOf_concord (loop xr : List String) : schedOf loop (concord loop xr) = schedOf loop xr := by
  unfold schedOf
  apply List.map_congr_left
  intro r hr
  rw [Bool.eq_iff_iff]
  simp [mem_concord, hr]

/-- the states the outer loops pass on: one product term, operands scheduled for the remaining loops, points of the right
    arity, coordinates inside the extents -/
def Inv (t : TermS) (rsU : List String) (esU : List Nat) (rem : List String) (remE : List Nat) (sts : List TermSt) : Prop :=
  ∃ st, sts = [st] ∧ st.kind = .times ∧ st.ops.length = t.tensors.length ∧
    (∀ (i : Nat) (x : TensorS) (o : Operand), t.tensors[i]? = some x → st.ops[i]? = some o →
      o.sched = schedOf (rem ++ rsU) x.ranks ∧ ∀ p ∈ o.pts, p.1.length = (concord (rem ++ rsU) x.ranks).length) ∧
    ∀ o ∈ st.ops, OpBounded (remE ++ esU) o

theorem inv_step (t : TermS) (rsU : List String) (esU : List Nat) (r : String) (rem : List String) (e : Nat) (remE : List Nat)
    (sts : List TermSt) (c : Nat) (h : Inv t rsU esU (r :: rem) (e :: remE) sts) : Inv t rsU esU rem remE (sts.map (TermSt.step c)) := by
  obtain ⟨st, rfl, hk, hl, hso, hb⟩ := h
  refine ⟨st.step c, rfl, hk, by simpa [TermSt.step] using hl, ?_, ?_⟩
  · intro i x o' hx ho'
    simp only [TermSt.step, List.getElem?_map] at ho'
    cases hoi : st.ops[i]? with
    | none => rw [hoi] at ho'; simp at ho'
    | some o =>
      rw [hoi] at ho'
      simp at ho'; subst ho'
      obtain ⟨hs, har⟩ := hso i x o hx hoi
      have hs' : o.sched = x.ranks.contains r :: schedOf (rem ++ rsU) x.ranks := by rw [hs]; rfl
      refine ⟨by simp [Operand.step, hs'], ?_⟩
      intro p hp
      by_cases hm : x.ranks.contains r = true
      · have hact : o.active = true := by
          unfold Operand.active; rw [hs']; simp only [List.head?_cons]; rw [hm]; rfl
        have hpts : (o.step c).pts = slice c o.pts := by
          show (if o.active then slice c o.pts else o.pts) = slice c o.pts
          rw [hact]; rfl
        rw [hpts] at hp
        obtain ⟨tl, v⟩ := p
        have := har (c :: tl, v) (mem_slice.1 hp)
        rw [List.cons_append, concord_cons_mem hm] at this
        simpa using this
      · have hm' : x.ranks.contains r = false := by simpa using hm
        have hact : o.active = false := by
          unfold Operand.active; rw [hs']; simp only [List.head?_cons]; rw [hm']; rfl
        have hpts : (o.step c).pts = o.pts := by
          show (if o.active then slice c o.pts else o.pts) = o.pts
          rw [hact]; rfl
        rw [hpts] at hp
        have := har p hp
        rw [List.cons_append, concord_cons_not_mem hm'] at this
        exact this
  · intro o' ho'
    simp only [TermSt.step, List.mem_map] at ho'
    obtain ⟨o, ho, rfl⟩ := ho'
    exact opBounded_step c e _ o (hb o ho)

theorem lv_eq_cons {out : List String} {rem : List String} {remE : List Nat} {o : Bool} {N : Nat} {ls : List (Bool × Nat)}
    (hl : remE.length = rem.length) (h : (o, N) :: ls = lv out rem remE) :
    ∃ r rem' remE', rem = r :: rem' ∧ remE = N :: remE' ∧ ls = lv out rem' remE' ∧ remE'.length = rem'.length := by
  cases rem with
  | nil => simp [lv] at h
  | cons r rem' =>
    cases remE with
    | nil => simp at hl
    | cons e remE' =>
      simp only [lv, List.zip_cons_cons, List.map_cons, List.cons.injEq, Prod.mk.injEq] at h
      exact ⟨r, rem', remE', rfl, by rw [h.1.2], h.2, by simpa using hl⟩

/-- **C03, dynamic occupancy partitioning** -/
theorem dynamic_nest (D : DynSpec) (S : EinsumS) (env : String → Pts) (t : TermS) (preN : List String) (preE : List Nat)
    (hterms : S.terms = [t]) (hkind : t.kind = .times)
    (hloop : S.loop = preN ++ D.rsU) (hexts : S.exts = preE ++ D.esU) (hpre : preE.length = preN.length)
    (H : DynOK D S.outRanks (t.tensors.map fun x => concord D.rsU x.ranks))
    (hnd : S.loop.Nodup) (hb : InBounds S env) (hin : InputsWF S env) (τ : List Nat) :
    sumAt τ (runDyn D S.outRanks (lv S.outRanks preN preE) (initTerms S env)) =
      meaning (S.loop.zip S.exts) (concord S.loop S.outRanks) S.terms env τ := by
  have hlen : S.exts.length = S.loop.length := by rw [hloop, hexts]; simp [hpre, H.lenU]
  let ranks0 := t.tensors.map fun x => concord D.rsU x.ranks
  let I : List (Bool × Nat) → List TermSt → Prop := fun ls sts =>
    ∃ rem remE, ls = lv S.outRanks rem remE ∧ remE.length = rem.length ∧ Inv t D.rsU D.esU rem remE sts
  have hmain := runK_eq_specK I
    (fun s => run ((D.rs'.zip D.es').map fun (r, e) => ((renameRanks D.K D.K0 S.outRanks).contains r, e)) (dynStates D s)) (spec (lv S.outRanks D.rsU D.esU))
    (by
      intro sts ⟨rem, remE, hl, hlen', hinv⟩ σ
      have hrem : rem = [] := by
        cases rem with
        | nil => rfl
        | cons r rem' =>
          cases remE with
          | nil => simp at hlen'
          | cons e remE' => simp [lv] at hl
      subst hrem
      have : remE = [] := List.length_eq_zero_iff.1 (by simpa using hlen')
      subst this
      obtain ⟨st, rfl, hk, hlops, hso, hbd⟩ := hinv
      have R : Res D ranks0 st :=
        { kind := hk, len := by simp [ranks0, hlops],
          sched := by
            intro i aR o h1 h2
            simp only [ranks0, List.getElem?_map] at h1
            cases hx : t.tensors[i]? with
            | none => rw [hx] at h1; simp at h1
            | some x =>
              rw [hx] at h1; simp at h1; subst h1
              have := (hso i x o hx h2).1
              simp only [List.nil_append] at this
              rw [this, schedOf_concord],
          arity := by
            intro i aR o h1 h2
            simp only [ranks0, List.getElem?_map] at h1
            cases hx : t.tensors[i]? with
            | none => rw [hx] at h1; simp at h1
            | some x =>
              rw [hx] at h1; simp at h1; subst h1
              have := (hso i x o hx h2).2
              simpa using this,
          bounded := by simpa using hbd }
      exact inner_equiv D S.outRanks ranks0 H st R σ)
    (fun sts hd σ => spec_zero _ sts hd σ)
    (by
      intro o N ls sts ⟨rem, remE, hl, hlen', hinv⟩ c _
      obtain ⟨r, rem', remE', rfl, rfl, hls, hlen''⟩ := lv_eq_cons hlen' hl
      exact ⟨rem', remE', hls, hlen'', inv_step t D.rsU D.esU r rem' N remE' sts c hinv⟩)
    (lv S.outRanks preN preE) (initTerms S env)
    (by
      refine ⟨preN, preE, rfl, hpre, ?_⟩
      have hst : initTerms S env = [{ kind := t.kind, scal := t.scal, ops := t.tensors.map fun x => initOperand S.loop x (env x.name) }] := by
        simp [initTerms, hterms]
      refine ⟨_, hst, hkind, by simp, ?_, ?_⟩
      · intro i x o hx ho
        simp only [List.getElem?_map, hx, Option.map_some, Option.some.injEq] at ho
        subst ho
        refine ⟨by simp [initOperand, hloop], ?_⟩
        intro p hp
        simp only [initOperand, List.mem_map] at hp
        obtain ⟨q, _, rfl⟩ := hp
        simp [reorder, hloop]
      · intro o ho
        have := opBounded_init S env hnd hlen hb _ (by rw [hst]; simp) o ho
        rw [hexts] at this
        exact this)
    (by
      have hst : initTerms S env = [{ kind := t.kind, scal := t.scal, ops := t.tensors.map fun x => initOperand S.loop x (env x.name) }] := by
        simp [initTerms, hterms]
      rw [hst]; exact levelWF_single _ _)
    (by
      have := ext_of_inBounds S env hnd hlen hb
      rw [levels_eq_lv, hloop, hexts, lv_append S.outRanks preN D.rsU preE D.esU hpre] at this
      exact ext_prefix _ _ _ this)
    τ
  unfold runDyn
  rw [hmain, ← spec_append, ← lv_append S.outRanks preN D.rsU preE D.esU hpre, ← hloop, ← hexts, ← levels_eq_lv]
  exact spec_eq_meaning S env hnd hlen hin τ

end C03

namespace C03
open Nest C01

/-- `DynOK` as one decidable proposition -/
def DynOKd (D : DynSpec) (out : List String) (ranks0 : List (List String)) : Prop :=
  D.ranks = [ranks0] ∧ D.leadT = 0 ∧ D.rsU.head? = some D.K ∧ D.rsU.Nodup ∧ D.rs'.Nodup ∧
  D.esU.length = D.rsU.length ∧ D.es'.length = D.rs'.length ∧
  (D.K, extOf D.rsU D.esU D.K) ∈ D.rsU.zip D.esU ∧
  (D.rs'.zip D.es').Perm ((D.K1, extOf D.rsU D.esU D.K) :: (D.K0, extOf D.rsU D.esU D.K) :: (D.rsU.zip D.esU).erase (D.K, extOf D.rsU D.esU D.K)) ∧
  D.K1 ≠ D.K0 ∧ (D.K1 ∉ D.rsU ∧ D.K0 ∉ D.rsU) ∧ concord D.rs' (renameRanks D.K D.K0 out) = renameRanks D.K D.K0 (concord D.rsU out) ∧
  (∀ aR ∈ ranks0, concord D.rsU aR = aR) ∧ (∀ aR ∈ ranks0, D.K ∈ aR → aR.head? = some D.K) ∧
  (∀ aR ∈ ranks0, (splitRanks D.K D.K1 D.K0 aR).Nodup) ∧ (∀ aR ∈ ranks0, ∀ r ∈ splitRanks D.K D.K1 D.K0 aR, r ∈ D.rs') ∧
  (match ranks0[D.leadO]? with | some aL => D.K ∈ aL | none => False) ∧
  (∀ aR ∈ ranks0, ∀ r ∈ aR, r ≠ D.K → extOf D.rs' D.es' r = extOf D.rsU D.esU r) ∧
  extOf D.rs' D.es' D.K1 = extOf D.rsU D.esU D.K ∧ extOf D.rs' D.es' D.K0 = extOf D.rsU D.esU D.K

instance (D : DynSpec) (out : List String) (ranks0 : List (List String)) : Decidable (DynOKd D out ranks0) := by
  unfold DynOKd
  cases ranks0[D.leadO]? <;> infer_instance

theorem dynOK_of_d {D : DynSpec} {out : List String} {ranks0 : List (List String)} (h : DynOKd D out ranks0) : DynOK D out ranks0 := by
  obtain ⟨h1, h2, h3, h4, h5, h6, h7, h8, h9, h10, h11, h13, h14, h15, h16, h17, h18, h19, h20, h21⟩ := h
  refine { ranks_eq := h1, leadT0 := h2, headU := h3, ndU := h4, nd' := h5, lenU := h6, len' := h7, memK := h8, perm' := h9, ne10 := h10,
           freshU := h11, outc := h13, conc := h14, headK := h15, nd2 := h16, sub2 := h17, lead := ?_, ext2 := h19,
           extK1 := h20, extK0 := h21 }
  cases hl : ranks0[D.leadO]? with
  | none => rw [hl] at h18; exact h18.elim
  | some aL => rw [hl] at h18; exact ⟨aL, rfl, h18⟩

/-- all hypotheses of `dynamic_nest`, decidable: evaluated by the driver on every sampled specification and input -/
def DynHyps (D : DynSpec) (S : EinsumS) (env : String → Pts) (npre : Nat) : Prop :=
  match S.terms with
  | [t] => t.kind = .times ∧ S.loop = S.loop.take npre ++ D.rsU ∧ S.exts = S.exts.take npre ++ D.esU ∧
      (S.exts.take npre).length = (S.loop.take npre).length ∧
      DynOKd D S.outRanks (t.tensors.map fun x => concord D.rsU x.ranks) ∧ S.loop.Nodup ∧ InBounds S env ∧ InputsWF S env ∧
      (∀ r ∈ S.outRanks, r ∈ S.loop)
  | _ => False

instance (D : DynSpec) (S : EinsumS) (env : String → Pts) (npre : Nat) : Decidable (DynHyps D S env npre) := by
  unfold DynHyps
  split <;> infer_instance

/-- **C03, dynamic occupancy partitioning, with decidable hypotheses only** -/
theorem dynamic_nest' (D : DynSpec) (S : EinsumS) (env : String → Pts) (npre : Nat) (h : DynHyps D S env npre) (τ : List Nat) :
    sumAt τ (runDyn D S.outRanks (lv S.outRanks (S.loop.take npre) (S.exts.take npre)) (initTerms S env)) =
      meaning (S.loop.zip S.exts) (concord S.loop S.outRanks) S.terms env τ := by
  unfold DynHyps at h
  split at h
  · rename_i t ht
    obtain ⟨hk, hl, he, hp, hd, hnd, hb, hin, _⟩ := h
    exact dynamic_nest D S env t _ _ ht hk hl he hp (dynOK_of_d hd) hnd hb hin τ
  · exact h.elim

end C03

namespace C03
open Nest C01
/-- non-vacuity: `Z[m] = A[k,m] * B[k]`, `K: uniform_occupancy(A.2)`, loop order `[M, K1, K0]` (the split runs inside the `M` loop) -/
example :
    let S : EinsumS := { loop := ["M", "K"], exts := [2, 4], outName := "Z", outRanks := ["M"], terms := [{ kind := .times, scal := 1, tensors := [⟨"A", ["K", "M"]⟩, ⟨"B", ["K"]⟩] }] }
    let env : String → Pts := fun n => if n = "A" then [([0, 1], 2), ([2, 1], 3), ([3, 1], 4), ([1, 0], 5)] else if n = "B" then [([0], 5), ([2], 7), ([3], 1)] else []
    let D : DynSpec := { K := "K", K1 := "K1", K0 := "K0", n := 2, leadT := 0, leadO := 0, rsU := ["K"], esU := [4], rs' := ["K1", "K0"], es' := [4, 4],
                         ranks := [[["K"], ["K"]]] }
    DynHyps D S env 1 := by
  decide
end C03
