import Lean.Data.Json
import TeaalVerif.HF.Ast
/-!
# JSON bridge for HiFiber trees (not part of any proof)

Every node is a JSON array whose head is the Python class name. A wrong serialisation on the Python
side cannot make a check pass silently: the driver re-prints the decoded tree with `HF.Expr.gen` /
`HF.Stmt.gen` and the harness compares that with the text the compiler returned.
-/
open Lean

namespace HF

def opOfString : String → Except String Op
  | "+" => pure .add | "&" => pure .and | "/" => pure .div | "==" => pure .eqeq | "//" => pure .fdiv
  | "in" => pure .in | "<" => pure .lt | "<<" => pure .ltlt | "%" => pure .mod | "*" => pure .mul
  | "not in" => pure .notin | "|" => pure .or | "-" => pure .sub
  | s => throw s!"unknown operator {s}"

def arr (j : Json) : Except String (Array Json) :=
  match j with
  | .arr a => pure a
  | _ => throw s!"expected array, got {j.compress.take 80}"

def strOf (j : Json) : Except String String :=
  match j with
  | .str s => pure s
  | _ => throw s!"expected string, got {j.compress.take 80}"

def optStr (j : Json) : Except String (Option String) :=
  match j with
  | .null => pure none
  | .str s => pure (some s)
  | _ => throw "expected string or null"

def intOf (j : Json) : Except String Int :=
  match j.getInt? with
  | .ok i => pure i
  | .error e => throw e

def strs (j : Json) : Except String (List String) := do
  (← arr j).toList.mapM strOf

partial def exprOfJson (j : Json) : Except String Expr := do
  let a ← arr j
  let tag ← strOf (a[0]!)
  let es (k : Json) : Except String (List Expr) := do (← arr k).toList.mapM exprOfJson
  match tag with
  | "EAccess" => return .access (← exprOfJson a[1]!) (← exprOfJson a[2]!)
  | "EBinOp" => return .binop (← exprOfJson a[1]!) (← opOfString (← strOf a[2]!)) (← exprOfJson a[3]!)
  | "EBool" => match a[1]! with
    | .bool b => return .bool b
    | _ => throw "EBool"
  | "EComp" => return .comp (← exprOfJson a[1]!) (← strOf a[2]!) (← exprOfJson a[3]!)
  | "EDict" => return .dict (← es a[1]!) (← es a[2]!)
  | "EField" => return .field (← strOf a[1]!) (← strOf a[2]!)
  | "EFloat" => return .float (← strOf a[1]!)
  | "EFunc" => return .func (← strOf a[1]!) (← (← arr a[2]!).toList.mapM optStr) (← es a[3]!)
  | "EInt" => return .int (← intOf a[1]!)
  | "ELambda" => return .lambda (← strs a[1]!) (← exprOfJson a[2]!)
  | "EList" => return .list (← es a[1]!)
  | "EMethod" => return .method (← exprOfJson a[1]!) (← strOf a[2]!) (← (← arr a[3]!).toList.mapM optStr) (← es a[4]!)
  | "EParens" => return .parens (← exprOfJson a[1]!)
  | "EString" => return .str (← strOf a[1]!)
  | "ETuple" => return .tuple (← es a[1]!)
  | "EVar" => return .var (← strOf a[1]!)
  | t => throw s!"unknown expression node {t}"

partial def payloadOfJson (j : Json) : Except String Payload := do
  let a ← arr j
  match ← strOf a[0]! with
  | "PTuple" => return .tuple (← (← arr a[1]!).toList.mapM payloadOfJson)
  | "PVar" => return .var (← strOf a[1]!)
  | t => throw s!"unknown payload node {t}"

def assnOfJson (j : Json) : Except String Assn := do
  let a ← arr j
  match ← strOf a[0]! with
  | "AAccess" => return .access (← exprOfJson a[1]!) (← exprOfJson a[2]!)
  | "AField" => return .field (← strOf a[1]!) (← strOf a[2]!)
  | "AVar" => return .var (← strOf a[1]!)
  | t => throw s!"unknown assignable node {t}"

partial def stmtOfJson (j : Json) : Except String Stmt := do
  let a ← arr j
  match ← strOf a[0]! with
  | "SAssign" => return .assign (← assnOfJson a[1]!) (← exprOfJson a[2]!)
  | "SBlock" => return .block (← (← arr a[1]!).toList.mapM stmtOfJson)
  | "SExpr" => return .expr (← exprOfJson a[1]!)
  | "SFor" => return .for_ (← payloadOfJson a[1]!) (← exprOfJson a[2]!) (← stmtOfJson a[3]!)
  | "SFunc" => return .func (← strOf a[1]!) (← strs a[2]!) (← stmtOfJson a[3]!)
  | "SIAssign" => return .iassign (← assnOfJson a[1]!) (← opOfString (← strOf a[2]!)) (← exprOfJson a[3]!)
  | "SIf" =>
    let els ← match a[5]! with
      | .null => pure none
      | k => some <$> stmtOfJson k
    return .if_ (← exprOfJson a[1]!) (← stmtOfJson a[2]!) (← (← arr a[3]!).toList.mapM exprOfJson)
      (← (← arr a[4]!).toList.mapM stmtOfJson) els
  | "SReturn" => return .ret (← exprOfJson a[1]!)
  | t => throw s!"unknown statement node {t}"

end HF
