import TeaalVerif.HF.Ast
/-!
# Name-binding semantics of HiFiber programs and the definite-assignment analysis `DA`   (C06)

`Run B s r`: starting with the names `B` bound, statement `s` can finish with the names `B'` bound
(`r = some B'`) or die with a `NameError` / leave the modelled fragment (`r = none`).  The relation is
nondeterministic exactly where control flow depends on data: a `for` loop runs its body any number
of times (0, 1, 2, …), an `if` takes any of its branches.  Python's rules are the ones modelled:
module-level code, names are never unbound, loop targets are bound at the start of every iteration
and *stay* bound afterwards, a `lambda`/comprehension binds its parameters only inside itself and
its free names are looked up when it is called (no name is ever unbound, so "bound at creation"
implies "bound at call").

`DA U s = some D`: the analysis accepts `s` from the bound set `U` and guarantees `D` afterwards.
It is deliberately stricter than Python where the property demands it: names bound inside a loop
body (including the loop targets) are **not** available after the loop, names bound on only some
branches are not available after the `if`.

`DA_sound` (Props/C06.lean): `DA U s = some D → U ⊆ B → Run B s r → ∃ B', r = some B' ∧ D ⊆ B' ∧ B ⊆ B'`.
-/
namespace HF

mutual
def Expr.reads : Expr → List String
  | .access o i => o.reads ++ i.reads
  | .binop l _ r => l.reads ++ r.reads
  | .bool _ => []
  | .comp e v it => it.reads ++ (e.reads.filter (· ≠ v))
  | .dict ks vs => Expr.readsL ks ++ Expr.readsL vs
  | .field o _ => [o]
  | .float _ => []
  | .func n _ args => n :: Expr.readsL args
  | .int _ => []
  | .lambda ps b => b.reads.filter (fun x => !ps.contains x)
  | .list es => Expr.readsL es
  | .method o _ _ args => o.reads ++ Expr.readsL args
  | .parens e => e.reads
  | .str _ => []
  | .tuple es => Expr.readsL es
  | .var n => [n]
def Expr.readsL : List Expr → List String
  | [] => []
  | e :: es => e.reads ++ Expr.readsL es
end

mutual
def Payload.vars : Payload → List String
  | .var n => [n]
  | .tuple ps => Payload.varsL ps
def Payload.varsL : List Payload → List String
  | [] => []
  | p :: ps => p.vars ++ Payload.varsL ps
end

/-- names read when an assignable is the target of `=` -/
def Assn.reads : Assn → List String
  | .access o i => o.reads ++ i.reads
  | .field o _ => [o]
  | .var _ => []

/-- names read when an assignable is the target of an augmented assignment -/
def Assn.readsAug : Assn → List String
  | .access o i => o.reads ++ i.reads
  | .field o _ => [o]
  | .var n => [n]

def Assn.binds : Assn → List String
  | .var n => [n]
  | _ => []

def allIn (B : List String) (xs : List String) : Bool := xs.all fun x => B.contains x

inductive Run : List String → Stmt → Option (List String) → Prop
  | assign_ok {B a e} : allIn B (a.reads ++ e.reads) = true → Run B (.assign a e) (some (a.binds ++ B))
  | assign_err {B a e} : allIn B (a.reads ++ e.reads) = false → Run B (.assign a e) none
  | expr_ok {B e} : allIn B e.reads = true → Run B (.expr e) (some B)
  | expr_err {B e} : allIn B e.reads = false → Run B (.expr e) none
  | iassign_ok {B a op e} : allIn B (a.readsAug ++ e.reads) = true → Run B (.iassign a op e) (some B)
  | iassign_err {B a op e} : allIn B (a.readsAug ++ e.reads) = false → Run B (.iassign a op e) none
  | block_nil {B} : Run B (.block []) (some B)
  | block_ok {B B' s ss r} : Run B s (some B') → Run B' (.block ss) r → Run B (.block (s :: ss)) r
  | block_err {B s ss} : Run B s none → Run B (.block (s :: ss)) none
  | for_err {B p e b} : allIn B e.reads = false → Run B (.for_ p e b) none
  | for_done {B p e b} : allIn B e.reads = true → Run B (.for_ p e b) (some B)
  | for_step {B B' p e b r} : allIn B e.reads = true → Run (p.vars ++ B) b (some B') →
      Run B' (.for_ p e b) r → Run B (.for_ p e b) r
  | for_body_err {B p e b} : allIn B e.reads = true → Run (p.vars ++ B) b none → Run B (.for_ p e b) none
  | if_err {B c t ec es el} : allIn B (c.reads ++ Expr.readsL ec) = false → Run B (.if_ c t ec es el) none
  | if_then {B c t ec es el r} : allIn B (c.reads ++ Expr.readsL ec) = true → Run B t r → Run B (.if_ c t ec es el) r
  | if_elif {B c t ec es el s r} : allIn B (c.reads ++ Expr.readsL ec) = true → s ∈ es → Run B s r →
      Run B (.if_ c t ec es el) r
  | if_else {B c t ec es s r} : allIn B (c.reads ++ Expr.readsL ec) = true → Run B s r →
      Run B (.if_ c t ec es (some s)) r
  | if_skip {B c t ec es} : allIn B (c.reads ++ Expr.readsL ec) = true → Run B (.if_ c t ec es none) (some B)
  | func {B n ps b} : Run B (.func n ps b) none        -- outside the modelled fragment (never emitted)
  | ret {B e} : Run B (.ret e) none                   -- outside the modelled fragment (never emitted)

def inter (a b : List String) : List String := a.filter fun x => b.contains x

mutual
def DA : List String → Stmt → Option (List String)
  | U, .assign a e => if allIn U (a.reads ++ e.reads) then some (a.binds ++ U) else none
  | U, .expr e => if allIn U e.reads then some U else none
  | U, .iassign a _ e => if allIn U (a.readsAug ++ e.reads) then some U else none
  | U, .block ss => DAL U ss
  | U, .for_ p e b =>
    if allIn U e.reads then
      match DA (p.vars ++ U) b with
      | some _ => some U
      | none => none
    else none
  | U, .if_ c t ec es el =>
    if allIn U (c.reads ++ Expr.readsL ec) then
      (DA U t).bind fun D1 => (DAB U D1 es).bind fun D2 => (DAE U el).bind fun D3 => some (inter D2 D3)
    else none
  | _, .func _ _ _ => none
  | _, .ret _ => none
/-- a block: thread the guaranteed set through -/
def DAL : List String → List Stmt → Option (List String)
  | U, [] => some U
  | U, s :: ss =>
    match DA U s with
    | some D => DAL D ss
    | none => none
/-- the `else` branch (no `else`: the entry set itself) -/
def DAE : List String → Option Stmt → Option (List String)
  | U, none => some U
  | U, some s => DA U s
/-- `elif` bodies: all analysed from `U`; `acc` is intersected with what each guarantees -/
def DAB : List String → List String → List Stmt → Option (List String)
  | _, acc, [] => some acc
  | U, acc, s :: ss =>
    match DA U s with
    | some D => DAB U (inter acc D) ss
    | none => none
end

end HF
