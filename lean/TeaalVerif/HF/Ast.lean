/-!
# HiFiber syntax (mirror of `teaal/hifiber/*.py`) and its printer

Constructor for constructor the classes of `teaal/hifiber/{expr,stmt,payload,arg,assn,op}.py`.
`Arg`s are carried as two parallel lists (keyword names, expressions) and dictionaries as parallel
key/value lists so that the only nesting is `List Expr`. Floats are carried as the text Python's
`EFloat.gen` prints for them (never computed with).

`gen` mirrors every `gen()` method: `", "` joins, the one-element tuple comma, 4-space indentation,
`"\n"` joins of blocks. The correspondence `gen T_impl = str(HiFiber(...))` is evaluated on every
run of every check that looks at emitted programs.
-/
namespace HF

inductive Op
  | add | and | div | eqeq | fdiv | «in» | lt | ltlt | mod | mul | notin | or | sub
  deriving DecidableEq, Repr, Inhabited

def Op.gen : Op → String
  | .add => "+" | .and => "&" | .div => "/" | .eqeq => "==" | .fdiv => "//" | .in => "in"
  | .lt => "<" | .ltlt => "<<" | .mod => "%" | .mul => "*" | .notin => "not in" | .or => "|"
  | .sub => "-"

inductive Expr
  | access (obj ind : Expr)
  | binop (l : Expr) (op : Op) (r : Expr)
  | bool (b : Bool)
  | comp (elem : Expr) (var : String) (iter : Expr)
  | dict (keys vals : List Expr)
  | field (obj fld : String)
  | float (repr : String)
  | func (name : String) (kw : List (Option String)) (args : List Expr)
  | int (i : Int)
  | lambda (params : List String) (body : Expr)
  | list (es : List Expr)
  | method (obj : Expr) (name : String) (kw : List (Option String)) (args : List Expr)
  | parens (e : Expr)
  | str (s : String)
  | tuple (es : List Expr)
  | var (name : String)
  deriving Repr, Inhabited

inductive Payload
  | tuple (ps : List Payload)
  | var (name : String)
  deriving Repr, Inhabited

inductive Assn
  | access (obj ind : Expr)
  | field (obj fld : String)
  | var (name : String)
  deriving Repr, Inhabited

inductive Stmt
  | assign (a : Assn) (e : Expr)
  | block (ss : List Stmt)
  | expr (e : Expr)
  | for_ (p : Payload) (e : Expr) (body : Stmt)
  | func (name : String) (params : List String) (body : Stmt)
  | iassign (a : Assn) (op : Op) (e : Expr)
  | if_ (cond : Expr) (thn : Stmt) (elifC : List Expr) (elifS : List Stmt) (els : Option Stmt)
  | ret (e : Expr)
  deriving Repr, Inhabited

def joinWith (sep : String) : List String → String
  | [] => ""
  | [a] => a
  | a :: b :: rest => a ++ sep ++ joinWith sep (b :: rest)

def genArg (kw : Option String) (s : String) : String :=
  match kw with
  | none => s
  | some k => k ++ "=" ++ s

def zipArgs : List (Option String) → List String → List String
  | k :: ks, s :: ss => genArg k s :: zipArgs ks ss
  | [], s :: ss => s :: zipArgs [] ss
  | _, [] => []

def zipDict : List String → List String → List String
  | k :: ks, v :: vs => (k ++ ": " ++ v) :: zipDict ks vs
  | _, _ => []

mutual
def Expr.gen : Expr → String
  | .access o i => o.gen ++ "[" ++ i.gen ++ "]"
  | .binop l op r => l.gen ++ " " ++ op.gen ++ " " ++ r.gen
  | .bool b => if b then "True" else "False"
  | .comp e v i => "[" ++ e.gen ++ " for " ++ v ++ " in " ++ i.gen ++ "]"
  | .dict ks vs => "{" ++ joinWith ", " (zipDict (Expr.genL ks) (Expr.genL vs)) ++ "}"
  | .field o f => o ++ "." ++ f
  | .float r => r
  | .func n kw args => n ++ "(" ++ joinWith ", " (zipArgs kw (Expr.genL args)) ++ ")"
  | .int i => toString i
  | .lambda ps b => "lambda " ++ joinWith ", " ps ++ ": " ++ b.gen
  | .list es => "[" ++ joinWith ", " (Expr.genL es) ++ "]"
  | .method o n kw args => o.gen ++ "." ++ n ++ "(" ++ joinWith ", " (zipArgs kw (Expr.genL args)) ++ ")"
  | .parens e => "(" ++ e.gen ++ ")"
  | .str s => "\"" ++ s ++ "\""
  | .tuple [e] => "(" ++ e.gen ++ ",)"
  | .tuple es => "(" ++ joinWith ", " (Expr.genL es) ++ ")"
  | .var n => n
def Expr.genL : List Expr → List String
  | [] => []
  | e :: es => e.gen :: Expr.genL es
end

mutual
def Payload.gen : Payload → Bool → String
  | .var n, _ => n
  | .tuple ps, parens =>
    let s := joinWith ", " (Payload.genL ps)
    if parens then "(" ++ s ++ ")" else s
def Payload.genL : List Payload → List String
  | [] => []
  | p :: ps => p.gen true :: Payload.genL ps
end

def Assn.gen : Assn → String
  | .access o i => o.gen ++ "[" ++ i.gen ++ "]"
  | .field o f => o ++ "." ++ f
  | .var n => n

def indent : Nat → String
  | 0 => ""
  | n + 1 => "    " ++ indent n

mutual
def Stmt.gen : Stmt → Nat → String
  | .assign a e, d => indent d ++ a.gen ++ " = " ++ e.gen
  | .block ss, d => joinWith "\n" (Stmt.genL ss d)
  | .expr e, d => indent d ++ e.gen
  | .for_ p e b, d => indent d ++ "for " ++ p.gen false ++ " in " ++ e.gen ++ ":\n" ++ b.gen (d + 1)
  | .func n ps b, d => indent d ++ "def " ++ n ++ "(" ++ joinWith ", " ps ++ "):\n" ++ b.gen (d + 1)
  | .iassign a op e, d => indent d ++ a.gen ++ " " ++ op.gen ++ "= " ++ e.gen
  | .if_ c t ec es el, d =>
    indent d ++ "if " ++ c.gen ++ ":\n" ++ t.gen (d + 1) ++ Stmt.genElifs ec es d ++
      (match el with
       | none => ""
       | some s => "\n" ++ indent d ++ "else:\n" ++ s.gen (d + 1))
  | .ret e, d => indent d ++ "return " ++ e.gen
def Stmt.genL : List Stmt → Nat → List String
  | [], _ => []
  | s :: ss, d => s.gen d :: Stmt.genL ss d
def Stmt.genElifs : List Expr → List Stmt → Nat → String
  | c :: cs, s :: ss, d => "\n" ++ indent d ++ "elif " ++ c.gen ++ ":\n" ++ s.gen (d + 1) ++ Stmt.genElifs cs ss d
  | _, _, _ => ""
end

end HF
