import TeaalVerif.HF.Ast
/-!
# Python's expression grammar over the printer's tokens, and `PrecOK`   (C09)

* `Tok`, `toks`: the token sequence of `Expr.gen` (white space between tokens is insignificant to
  Python's lexer; that `toks e` *is* what CPython's tokenizer makes of `e.gen` is compared with the real
  `tokenize` module on every emitted text by the check).
* `Derives n ts e`: Python's expression grammar, transcribed as a derivation relation stratified by
  binding strength

      0 lambda / test    1 comparison (`==` `<` `in` `not in`, no chaining)    2 `|`    3 `&`    4 `<<`
      5 `+ -`            6 `* / // %`     7 unary minus on a literal            8 postfix and atoms

  Binary operators are left-associative (left operand at the same level, right operand one level up),
  comparisons take both operands from level 2.  `e` is the tree Python builds (no parenthesis nodes).
* `norm`: what the property allows the comparison to ignore: parenthesis nodes are dropped, and a chain
  of **one associative operator** (`+ * & |`) whose right operand was built nested *without* parentheses
  is re-associated to the left (that is how Python reads the flat text).
* `PrecOK`: the decidable side condition under which the printed text denotes the tree.

`C09.gen_derives` (Props/C09.lean): `PrecOK e → Derives (lvl e) (toks e) (norm e)`.
-/
namespace HF

inductive Tok
  | name (s : String)       -- identifiers and keywords (`lambda`, `for`, `in`, `not`, `True`, …)
  | lit (s : String)        -- numeric literal text
  | str (s : String)        -- string literal contents
  | sym (s : String)        -- punctuation and operators
  deriving DecidableEq, Repr, Inhabited

def Op.level : Op → Nat
  | .eqeq | .lt | .in | .notin => 1
  | .or => 2
  | .and => 3
  | .ltlt => 4
  | .add | .sub => 5
  | .mul | .div | .fdiv | .mod => 6

def Op.assoc : Op → Bool
  | .add | .mul | .and | .or => true
  | _ => false

def Op.toks : Op → List Tok
  | .notin => [.name "not", .name "in"]
  | .in => [.name "in"]
  | o => [.sym o.gen]

/-- binding strength of the printed form -/
def lvl : Expr → Nat
  | .binop _ op _ => op.level
  | .int i => if i < 0 then 7 else 8
  | .float r => if r.startsWith "-" then 7 else 8
  | .lambda _ _ => 0
  | _ => 8

def intToks (i : Int) : List Tok :=
  if i < 0 then [.sym "-", .lit (toString (-i))] else [.lit (toString i)]

def floatToks (r : String) : List Tok :=
  if r = "float(\"inf\")" then [.name "float", .sym "(", .str "inf", .sym ")"]
  else if r = "-float(\"inf\")" then [.sym "-", .name "float", .sym "(", .str "inf", .sym ")"]
  else if r.startsWith "-" then [.sym "-", .lit (r.drop 1).toString] else [.lit r]

def paramToks : List String → List Tok
  | [] => []
  | [p] => [.name p]
  | p :: q :: ps => .name p :: .sym "," :: paramToks (q :: ps)

def kwToks (kw : Option String) (ts : List Tok) : List Tok :=
  match kw with
  | none => ts
  | some k => .name k :: .sym "=" :: ts

def joinSeq : List (List Tok) → List Tok
  | [] => []
  | [t] => t
  | t :: u :: ts => t ++ .sym "," :: joinSeq (u :: ts)

def joinArgs : List (Option String) → List (List Tok) → List Tok
  | _, [] => []
  | kw, [t] => kwToks kw.head?.join t
  | kw, t :: u :: ts => kwToks kw.head?.join t ++ .sym "," :: joinArgs kw.tail (u :: ts)

def joinDict : List (List Tok) → List (List Tok) → List Tok
  | [k], [v] => k ++ .sym ":" :: v
  | k :: k2 :: ks, v :: v2 :: vs => k ++ .sym ":" :: (v ++ .sym "," :: joinDict (k2 :: ks) (v2 :: vs))
  | _, _ => []

mutual
def toks : Expr → List Tok
  | .access o i => toks o ++ .sym "[" :: (toks i ++ [.sym "]"])
  | .binop l op r => toks l ++ (op.toks ++ toks r)
  | .bool b => [.name (if b then "True" else "False")]
  | .comp e v it => .sym "[" :: (toks e ++ .name "for" :: .name v :: .name "in" :: (toks it ++ [.sym "]"]))
  | .dict ks vs => .sym "{" :: (joinDict (toksL ks) (toksL vs) ++ [.sym "}"])
  | .field o f => [.name o, .sym ".", .name f]
  | .float r => floatToks r
  | .func n kw args => .name n :: .sym "(" :: (joinArgs kw (toksL args) ++ [.sym ")"])
  | .int i => intToks i
  | .lambda ps b => .name "lambda" :: (paramToks ps ++ .sym ":" :: toks b)
  | .list es => .sym "[" :: (joinSeq (toksL es) ++ [.sym "]"])
  | .method o n kw args => toks o ++ .sym "." :: .name n :: .sym "(" :: (joinArgs kw (toksL args) ++ [.sym ")"])
  | .parens e => .sym "(" :: (toks e ++ [.sym ")"])
  | .str s => [.str s]
  | .tuple [e] => .sym "(" :: (toks e ++ [.sym ",", .sym ")"])
  | .tuple es => .sym "(" :: (joinSeq (toksL es) ++ [.sym ")"])
  | .var n => [.name n]
def toksL : List Expr → List (List Tok)
  | [] => []
  | e :: es => toks e :: toksL es
end

/-- the right operand is an unparenthesised application of the same associative operator -/
def chainRight (op : Op) : Expr → Bool
  | .binop _ op' _ => op.assoc && op' == op
  | _ => false

mutual
/-- what Python reads: parenthesis nodes dropped; `l op r` with `r` an unparenthesised application of the
    same associative operator is read as the flat chain `l op r₁ op r₂ …`, i.e. nested to the left -/
def norm : Expr → Expr
  | .access o i => .access (norm o) (norm i)
  | .binop l op r => if chainRight op r then attachN (norm l) op r else .binop (norm l) op (norm r)
  | .bool b => .bool b
  | .comp e v it => .comp (norm e) v (norm it)
  | .dict ks vs => .dict (normL ks) (normL vs)
  | .field o f => .field o f
  | .float r => .float r
  | .func n kw args => .func n kw (normL args)
  | .int i => .int i
  | .lambda ps b => .lambda ps (norm b)
  | .list es => .list (normL es)
  | .method o n kw args => .method (norm o) n kw (normL args)
  | .parens e => norm e
  | .str s => .str s
  | .tuple es => .tuple (normL es)
  | .var n => .var n
termination_by e => (sizeOf e, 0)
/-- `A op e` as Python reads the flat text when `e` is spliced in without parentheses -/
def attachN (A : Expr) (op : Op) : Expr → Expr
  | .binop x op' y => if op' = op then attachN (attachN A op x) op y else .binop A op (norm (.binop x op' y))
  | .access o i => .binop A op (norm (.access o i))
  | .bool b => .binop A op (.bool b)
  | .comp e v it => .binop A op (norm (.comp e v it))
  | .dict ks vs => .binop A op (norm (.dict ks vs))
  | .field o f => .binop A op (.field o f)
  | .float r => .binop A op (.float r)
  | .func n kw args => .binop A op (norm (.func n kw args))
  | .int i => .binop A op (.int i)
  | .lambda ps b => .binop A op (norm (.lambda ps b))
  | .list es => .binop A op (norm (.list es))
  | .method o n kw args => .binop A op (norm (.method o n kw args))
  | .parens e => .binop A op (norm e)
  | .str s => .binop A op (.str s)
  | .tuple es => .binop A op (norm (.tuple es))
  | .var n => .binop A op (.var n)
termination_by e => (sizeOf e, 1)
def normL : List Expr → List Expr
  | [] => []
  | e :: es => norm e :: normL es
termination_by es => (sizeOf es, 0)
end

/-! ### the grammar -/

mutual
inductive Derives : Nat → List Tok → Expr → Prop
  /-- an expression of higher binding strength may stand where a lower one is expected -/
  | up {n ts e} : Derives (n + 1) ts e → Derives n ts e
  /-- left-associative binary operators of levels 2–6 -/
  | bin {tl tr a b} (op : Op) : 2 ≤ op.level → Derives op.level tl a → Derives (op.level + 1) tr b →
      Derives op.level (tl ++ (op.toks ++ tr)) (.binop a op b)
  /-- comparisons (a single one; Python would read `a < b < c` as a chain) -/
  | cmp {tl tr a b} (op : Op) : op.level = 1 → Derives 2 tl a → Derives 2 tr b →
      Derives 1 (tl ++ (op.toks ++ tr)) (.binop a op b)
  | lam {ps tb b} : Derives 0 tb b → Derives 0 (.name "lambda" :: (paramToks ps ++ .sym ":" :: tb)) (.lambda ps b)
  | negInt {i : Int} : i < 0 → Derives 7 [.sym "-", .lit (toString (-i))] (.int i)
  | posInt {i : Int} : ¬ i < 0 → Derives 8 [.lit (toString i)] (.int i)
  | flt {r} : Derives (lvl (.float r)) (floatToks r) (.float r)
  | var {n} : Derives 8 [.name n] (.var n)
  | bool {b} : Derives 8 [.name (if b then "True" else "False")] (.bool b)
  | str {s} : Derives 8 [.str s] (.str s)
  | field {o f} : Derives 8 [.name o, .sym ".", .name f] (.field o f)
  | paren {ts e} : Derives 0 ts e → Derives 8 (.sym "(" :: (ts ++ [.sym ")"])) e
  | tuple1 {ts e} : Derives 0 ts e → Derives 8 (.sym "(" :: (ts ++ [.sym ",", .sym ")"])) (.tuple [e])
  | tuple {ts es} : es.length ≠ 1 → DerivesSeq ts es → Derives 8 (.sym "(" :: (ts ++ [.sym ")"])) (.tuple es)
  | list {ts es} : DerivesSeq ts es → Derives 8 (.sym "[" :: (ts ++ [.sym "]"])) (.list es)
  | dict {ts ks vs} : DerivesDict ts ks vs → Derives 8 (.sym "{" :: (ts ++ [.sym "}"])) (.dict ks vs)
  | comp {te ti e v it} : Derives 1 te e → Derives 2 ti it →
      Derives 8 (.sym "[" :: (te ++ .name "for" :: .name v :: .name "in" :: (ti ++ [.sym "]"]))) (.comp e v it)
  | access {to ti o i} : Derives 8 to o → Derives 0 ti i → Derives 8 (to ++ .sym "[" :: (ti ++ [.sym "]"])) (.access o i)
  | call {n kw ts args} : DerivesArgs ts kw args → Derives 8 (.name n :: .sym "(" :: (ts ++ [.sym ")"])) (.func n kw args)
  | method {to o n kw ts args} : Derives 8 to o → DerivesArgs ts kw args →
      Derives 8 (to ++ .sym "." :: .name n :: .sym "(" :: (ts ++ [.sym ")"])) (.method o n kw args)
inductive DerivesSeq : List Tok → List Expr → Prop
  | nil : DerivesSeq [] []
  | one {ts e} : Derives 0 ts e → DerivesSeq ts [e]
  | cons {ts rest e f es} : Derives 0 ts e → DerivesSeq rest (f :: es) → DerivesSeq (ts ++ .sym "," :: rest) (e :: f :: es)
inductive DerivesArgs : List Tok → List (Option String) → List Expr → Prop
  | nil {kw} : DerivesArgs [] kw []
  | one {kw ts e} : Derives 0 ts e → DerivesArgs (kwToks kw.head?.join ts) kw [e]
  | cons {kw ts rest e f es} : Derives 0 ts e → DerivesArgs rest kw.tail (f :: es) →
      DerivesArgs (kwToks kw.head?.join ts ++ .sym "," :: rest) kw (e :: f :: es)
inductive DerivesDict : List Tok → List Expr → List Expr → Prop
  | nil : DerivesDict [] [] []
  | one {tk tv k v} : Derives 1 tk k → Derives 0 tv v → DerivesDict (tk ++ .sym ":" :: tv) [k] [v]
  | cons {tk tv rest k v k2 v2 ks vs} : Derives 1 tk k → Derives 0 tv v → DerivesDict rest (k2 :: ks) (v2 :: vs) →
      DerivesDict (tk ++ .sym ":" :: (tv ++ .sym "," :: rest)) (k :: k2 :: ks) (v :: v2 :: vs)
end

/-! ### the side condition -/

def strOK (s : String) : Bool := s.toList.all fun c => c != '"' && c != '\\' && c != '\n' && c != '\r'

/-- a receiver of `.name(...)` / `[...]` must print as a postfix expression that is not a bare number -/
def recvOK : Expr → Bool
  | .int _ => false
  | .float _ => false
  | e => lvl e == 8

/-- every operand on the unparenthesised `op`-spine of `e` binds tighter than `op` -/
def spineOK (op : Op) : Expr → Bool
  | .binop x op' y => if op' = op then spineOK op x && spineOK op y else decide (op.level + 1 ≤ op'.level)
  | e => decide (op.level + 1 ≤ lvl e)

mutual
def PrecOK : Expr → Bool
  | .access o i => recvOK o && PrecOK o && PrecOK i
  | .binop l op r =>
    PrecOK l && PrecOK r &&
    (if op.level == 1 then decide (2 ≤ lvl l) && decide (2 ≤ lvl r)
     else decide (op.level ≤ lvl l) && (decide (op.level + 1 ≤ lvl r) || (chainRight op r && spineOK op r)))
  | .bool _ => true
  | .comp e _ it => PrecOK e && PrecOK it && decide (1 ≤ lvl e) && decide (2 ≤ lvl it)
  | .dict ks vs => PrecOKL ks && PrecOKL vs && ks.length == vs.length && ks.all (fun k => decide (1 ≤ lvl k))
  | .field _ _ => true
  | .float _ => true
  | .func _ kw args => PrecOKL args && kw.length == args.length
  | .int _ => true
  | .lambda _ b => PrecOK b
  | .list es => PrecOKL es
  | .method o _ kw args => recvOK o && PrecOK o && PrecOKL args && kw.length == args.length
  | .parens e => PrecOK e
  | .str s => strOK s
  | .tuple es => PrecOKL es
  | .var _ => true
def PrecOKL : List Expr → Bool
  | [] => true
  | e :: es => PrecOK e && PrecOKL es
end

end HF
