import TeaalVerif.Grammar.Spec
/-!
# The architecture tree and the instance count of a component   (C14, third clause)

`Architecture.__init__` (teaal/parse/arch.py) rewrites every level `{name: "PE[0..7]", local: [...], subtree: [...]}`
into `name = "PE"`, `num = 8`; `Hardware.__build_level` (teaal/ir/hardware.py) then builds every local component of a
level with `num_instances = tree["num"]` - the level's OWN count, not a product along the path - locals first, then
the subtrees in order, and records each under its name in a dictionary of the configuration (a later assignment to
the same name replaces the earlier one).  `Collector` divides by `get_num_instances()` of what that dictionary holds.
-/
namespace Arch
open Grammar

/-- a level as written: the level name (`Grammar.Level`: bare name or `NAME[0..N]`), the names of the local
components, the sub-levels -/
inductive Tree where
  | node (lvl : Level) (locals : List String) (subs : List Tree)

mutual
/-- the dictionary assignments `config_components[cfg][name] = component(num_instances)` in the order
`Hardware.__build_level` performs them -/
def assigns : Tree → List (String × Nat)
  | .node lvl locals subs => locals.map (fun c => (c, lvl.instances)) ++ assignsL subs
def assignsL : List Tree → List (String × Nat)
  | [] => []
  | t :: ts => assigns t ++ assignsL ts
end

/-- what the dictionary holds for `c` when the tree has been built: the LAST assignment wins -/
def instances (t : Tree) (c : String) : Option Nat := (assigns t).reverse.lookup c

/-- `c` is written as a local component of a level whose name gives `n` instances, anywhere in the tree -/
inductive LocalAt : Tree → String → Nat → Prop
  | here {lvl locals subs c} : c ∈ locals → LocalAt (.node lvl locals subs) c lvl.instances
  | sub {lvl locals subs s c n} : s ∈ subs → LocalAt s c n → LocalAt (.node lvl locals subs) c n

end Arch
