/-!
# Model of `teaal/ir/fusion.py` (`Fusion.add_einsum`)

`Obs` is what `add_einsum` reads from the `Program`/`Hardware` for one Einsum. `step` mirrors the
method statement by statement. Blocks are kept newest-first (the current block is the head, the most
recently added Einsum is the head of the current block); `State.blocks` converts to program order.

`stepOld` is the code as found at the pinned commit (the branch that opens a new block does not
record the components of the Einsum that opens it); `step` is the code after the repair
(`self.components_used = components_used` in that branch).
-/
namespace Fusion

structure Obs where
  einsum : String
  loopRanks : List String
  spaceRanks : List String
  config : String
  comps : List String
  deriving DecidableEq, Repr

/-- the temporal loop ranks ahead of the first spatial rank (`loop_ranks[:loop_ranks.index(space_ranks[0])]`) -/
def Obs.pre (o : Obs) : List String :=
  match o.spaceRanks with
  | [] => o.loopRanks
  | s :: _ => o.loopRanks.takeWhile (· ≠ s)

structure State where
  blocksRev : List (List Obs) := []
  fusedRanks : List String := []
  currConfig : Option String := none
  compsUsed : List String := []
  deriving Repr

def init : State := {}

def disjoint (a b : List String) : Bool := a.all fun x => !b.contains x

def fuses (st : State) (o : Obs) : Bool :=
  st.currConfig == some o.config && o.pre == st.fusedRanks && disjoint st.compsUsed o.comps

def step (st : State) (o : Obs) : State :=
  if fuses st o then
    match st.blocksRev with
    | [] => -- unreachable from `init` (currConfig = none there); Python would append to a detached list
      { st with blocksRev := [[o]], compsUsed := st.compsUsed ++ o.comps }
    | b :: bs => { st with blocksRev := (o :: b) :: bs, compsUsed := st.compsUsed ++ o.comps }
  else
    { blocksRev := [o] :: st.blocksRev, fusedRanks := o.pre, currConfig := some o.config,
      compsUsed := o.comps }

/-- the code at the pinned commit: `components_used` is not touched when a block is opened -/
def stepOld (st : State) (o : Obs) : State :=
  if fuses st o then
    match st.blocksRev with
    | [] => { st with blocksRev := [[o]], compsUsed := st.compsUsed ++ o.comps }
    | b :: bs => { st with blocksRev := (o :: b) :: bs, compsUsed := st.compsUsed ++ o.comps }
  else
    { st with blocksRev := [o] :: st.blocksRev, fusedRanks := o.pre, currConfig := some o.config }

def State.blocks (st : State) : List (List Obs) := (st.blocksRev.map List.reverse).reverse

def run (h : List Obs) : State := h.foldl step init
def runOld (h : List Obs) : State := h.foldl stepOld init

/-- what `metrics["blocks"]` reports -/
def names (bs : List (List Obs)) : List (List String) := bs.map (·.map (·.einsum))

/-- legality of one block -/
def BlockOK (b : List Obs) : Prop :=
  b ≠ [] ∧ (∀ e ∈ b, ∀ e' ∈ b, e.config = e'.config ∧ e.pre = e'.pre) ∧
  b.Pairwise (fun e e' => disjoint e.comps e'.comps = true)

instance (b : List Obs) : Decidable (BlockOK b) := by unfold BlockOK; infer_instance

end Fusion
