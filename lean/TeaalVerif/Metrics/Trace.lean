import TeaalVerif.HF.Ast
/-!
# The metrics-collection machine   (C12)

Events of an emitted metrics-mode program and the abstract machine of the Metrics/Traffic API:

* `begin p`            `Metrics.beginCollect(p)`          requires: no collection open; opens one with prefix `p`
* `reg r t c`          `Metrics.trace(r, type_=t, consumable=c)`   requires: open
* `endc`               `Metrics.endCollect()`             requires: open; every registration `(r, t)` becomes the
                                                           file `<p>-<r>-<t>.csv`; closes
* `consume r t`        `Metrics.consumeTrace(r, t)`       requires: open and `(r, t)` registered consumable
* `needFiles fs`       file names handed to `filterTrace` / `buffetTraffic` / `cacheTraffic` / `numIters`: all produced
* `produce f`          third argument of `Traffic.filterTrace`: a new file
* `create x` / `feed x` / `query x`   intersector models: created, fed (`addTraces`), queried (`getNumIntersects`)

`events` extracts the event structure from an emitted program (loops kept as loops).
-/
namespace Trace

inductive Ev
  | begin (p : String)
  | reg (r t : String) (c : Bool)
  | endc
  | consume (r t : String)
  | needFiles (fs : List String)
  | produce (f : String)
  | create (x : String)
  | feed (x : String)
  | query (x : String)
  deriving Repr, DecidableEq

structure St where
  open_ : Option String := none
  regs : List (String × String × Bool) := []
  files : List String := []
  isects : List String := []
  sections : Nat := 0
  deriving Repr

def step (s : St) : Ev → Option St
  | .begin p => if s.open_.isNone then some { s with open_ := some p, regs := [] } else none
  | .reg r t c => if s.open_.isSome then some { s with regs := (r, t, c) :: s.regs } else none
  | .endc =>
    match s.open_ with
    | some p => some { s with open_ := none, files := s.files ++ s.regs.map (fun x => p ++ "-" ++ x.1 ++ "-" ++ x.2.1 ++ ".csv"),
                              sections := s.sections + 1 }
    | none => none
  | .consume r t => if s.open_.isSome && s.regs.contains (r, t, true) then some s else none
  | .needFiles fs => if fs.all s.files.contains then some s else none
  | .produce f => some { s with files := f :: s.files }
  | .create x => some { s with isects := x :: s.isects }
  | .feed x => if s.isects.contains x then some s else none
  | .query x => if s.isects.contains x then some s else none

/-- events that only test the state -/
def Ev.pure : Ev → Bool
  | .consume _ _ | .needFiles _ | .feed _ | .query _ => true
  | _ => false

inductive Item
  | ev (e : Ev)
  | loop (body : List Item)
  deriving Repr

def runEvs (s : St) : List Ev → Option St
  | [] => some s
  | e :: es => match step s e with
    | some s' => runEvs s' es
    | none => none

mutual
/-- every loop body executed exactly once -/
def once : List Item → List Ev
  | [] => []
  | .ev e :: rest => e :: once rest
  | .loop b :: rest => once b ++ once rest
end

mutual
/-- all events inside loops only test the state -/
def loopsPure : List Item → Bool
  | [] => true
  | .ev _ :: rest => loopsPure rest
  | .loop b :: rest => allPure b && loopsPure rest
def allPure : List Item → Bool
  | [] => true
  | .ev e :: rest => e.pure && allPure rest
  | .loop b :: rest => allPure b && allPure rest
end

/-- the executions of a program: every loop runs its body any number of times -/
inductive Exec : List Item → List Ev → Prop
  | nil : Exec [] []
  | ev {e rest es} : Exec rest es → Exec (.ev e :: rest) (e :: es)
  | loopDone {b rest es} : Exec rest es → Exec (.loop b :: rest) es
  | loopIter {b rest eb es} : Exec b eb → Exec (.loop b :: rest) es → Exec (.loop b :: rest) (eb ++ es)

def TraceOK (p : List Item) : Bool := loopsPure p && (runEvs {} (once p)).isSome

end Trace

namespace HF
open Trace

def strLit? : Expr → Option String
  | .str s => some s
  | _ => none

def boolLit? : Expr → Option Bool
  | .bool b => some b
  | _ => none

def kwArgE (kw : List (Option String)) (args : List Expr) (name : String) : Option Expr :=
  (kw.zip args).findSome? fun (k, a) => if k = some name then some a else none

/-- events of one expression, innermost calls first (arguments are evaluated before the call) -/
partial def exprEvents : Expr → List Ev
  | .method (.var "Metrics") "beginCollect" _ [a] => match strLit? a with | some p => [.begin p] | none => []
  | .method (.var "Metrics") "endCollect" _ _ => [.endc]
  | .method (.var "Metrics") "trace" kw args =>
    match args.head?.bind strLit?, (kwArgE kw args "type_").bind strLit?, (kwArgE kw args "consumable").bind boolLit? with
    | some r, some t, some c => [.reg r t c]
    | _, _, _ => []
  | .method (.var "Metrics") "consumeTrace" _ [a, b] =>
    match strLit? a, strLit? b with
    | some r, some t => [.consume r t]
    | _, _ => []
  | .method (.var "Traffic") "filterTrace" _ [a, b, c] =>
    match strLit? a, strLit? b, strLit? c with
    | some x, some y, some z => [.needFiles [x, y], .produce z]
    | _, _, _ => []
  | .method (.var "Compute") "numIters" _ args => [.needFiles (args.filterMap strLit?)]
  | .method (.var x) "addTraces" _ args => args.flatMap exprEvents ++ [.feed x]
  | .method (.var x) "getNumIntersects" _ _ => [.query x]
  | .method o _ _ args => exprEvents o ++ args.flatMap exprEvents
  | .func _ _ args => args.flatMap exprEvents
  | .binop l _ r => exprEvents l ++ exprEvents r
  | .access o i => exprEvents o ++ exprEvents i
  | .parens e => exprEvents e
  | .tuple es => es.flatMap exprEvents
  | .list es => es.flatMap exprEvents
  | _ => []

partial def stmtItems : Stmt → List Item
  | .block ss => ss.flatMap stmtItems
  | .for_ _ e b => (exprEvents e).map Item.ev ++ [Item.loop (stmtItems b)]
  | .assign (.var x) (.func f _ _) =>
    if f.endsWith "Intersector" then [Item.ev (.create x)] else []
  | .assign (.var "traces") (.dict _ vs) => [Item.ev (.needFiles (vs.filterMap strLit?))]
  | .assign _ e => (exprEvents e).map Item.ev
  | .iassign _ _ e => (exprEvents e).map Item.ev
  | .expr e => (exprEvents e).map Item.ev
  | .if_ _ t _ es el => stmtItems t ++ es.flatMap stmtItems ++ (match el with | some s => stmtItems s | none => [])
  | _ => []

end HF
