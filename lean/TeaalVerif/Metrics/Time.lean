import TeaalVerif.HF.Ast
/-!
# Model of `Collector.__build_time` (teaal/trans/collector.py): the execution-time roll-up

`build blocks comps` mirrors the method: per block an insertion-ordered dictionary
component ↦ expression, extended Einsum by Einsum and component by component (`+` onto the existing
entry, or a new entry), then `0` / the single entry / `max(<entries in sorted key order>)`, and the
block times added left to right.  `comps e` is the list `Fusion.get_components(e)` (in registration
order, possibly with repetitions).

`toHF` renders the expression exactly as the collector builds it, so the driver can compare it with
the right-hand side of `metrics["time"] = …` in the real dump.
-/
namespace Time

inductive TExpr
  | leaf (einsum comp : String)
  | add (l r : TExpr)
  | max (args : List TExpr)
  | zero
  deriving Repr, Inhabited

abbrev Dict := List (String × TExpr)

def upd : Dict → String → TExpr → Dict
  | [], c, t => [(c, t)]
  | (k, v) :: rest, c, t => if k = c then (k, .add v t) :: rest else (k, v) :: upd rest c t

/-- the (einsum, component) pairs of a block in the order the two nested loops visit them -/
def pairs (comps : String → List String) (block : List String) : List (String × String) :=
  block.flatMap fun e => (comps e).map fun c => (e, c)

def dictOf (ps : List (String × String)) : Dict :=
  ps.foldl (fun d p => upd d p.2 (.leaf p.1 p.2)) []

def lookupD : Dict → String → TExpr
  | [], _ => .zero
  | (k, v) :: rest, c => if k = c then v else lookupD rest c

def sortKeys (ks : List String) : List String := ks.mergeSort fun a b => decide (a ≤ b)

def blockTime (comps : String → List String) (block : List String) : TExpr :=
  let d := dictOf (pairs comps block)
  match sortKeys (d.map Prod.fst) with
  | [] => .zero
  | [c] => lookupD d c
  | cs => .max (cs.map (lookupD d))

def sumBlocks : Option TExpr → List TExpr → Option TExpr
  | acc, [] => acc
  | none, t :: ts => sumBlocks (some t) ts
  | some a, t :: ts => sumBlocks (some (.add a t)) ts

/-- `none` when there is no block (the Python `assert time is not None` fails) -/
def build (comps : String → List String) (blocks : List (List String)) : Option TExpr :=
  sumBlocks none (blocks.map (blockTime comps))

/-- value of the roll-up expression under the component times `d` -/
def maxL : List Int → Int
  | [] => 0
  | x :: xs => xs.foldl Max.max x

mutual
def eval (d : String → String → Int) : TExpr → Int
  | .leaf e c => d e c
  | .add l r => eval d l + eval d r
  | .max args => maxL (evalL d args)
  | .zero => 0
def evalL (d : String → String → Int) : List TExpr → List Int
  | [] => []
  | t :: ts => eval d t :: evalL d ts
end

mutual
def leaves : TExpr → List (String × String)
  | .leaf e c => [(e, c)]
  | .add l r => leaves l ++ leaves r
  | .max args => leavesL args
  | .zero => []
def leavesL : List TExpr → List (String × String)
  | [] => []
  | t :: ts => leaves t ++ leavesL ts
end

open HF in
mutual
def toHF : TExpr → Expr
  | .leaf e c => .access (.access (.access (.var "metrics") (.str e)) (.str c)) (.str "time")
  | .add l r => .binop (toHF l) .add (toHF r)
  | .max args => .func "max" (toHFkw args) (toHFL args)
  | .zero => .int 0
def toHFL : List TExpr → List Expr
  | [] => []
  | t :: ts => toHF t :: toHFL ts
def toHFkw : List TExpr → List (Option String)
  | [] => []
  | _ :: ts => none :: toHFkw ts
end

end Time
