/-!
# Heap model of how a compilation touches the caller's `Bindings` object   (C15)

Python lists and dictionaries are reference cells.  `Heap` maps cell ids to their contents (a binding
list is a list of key/value association lists); the caller's `Bindings` object *owns* the cells
`owned`.  A component is handed, per Einsum, a *handle* (cell id) to its binding list; the defaults
written by `BuffetComponent.__init__` (`style`, `root`) and the bindings appended by `expand_eager` are
`Mut`ations applied through handles.

* `handOutShared`: the code as found — `Bindings.get_component` returns the very cells the caller owns.
* `handOutCopied`: after the repair — `deepcopy`: fresh cells with the same contents.
-/
namespace Store

abbrev Binding := List (String × String)
abbrev Heap := List (Nat × List Binding)       -- cell id ↦ contents (first match wins)

def Heap.get (h : Heap) (c : Nat) : List Binding :=
  match h.lookup c with
  | some v => v
  | none => []

def Heap.set (h : Heap) (c : Nat) (v : List Binding) : Heap := (c, v) :: h

inductive Mut
  | setDefault (idx : Nat) (key val : String)      -- binding[idx].setdefault-like write (`style`, `root`)
  | append (b : Binding)                           -- list.append(new_binding)
  deriving Repr

def setAt : List Binding → Nat → String → String → List Binding
  | [], _, _, _ => []
  | b :: bs, 0, k, v => ((k, v) :: b.filter (·.1 ≠ k)) :: bs
  | b :: bs, i + 1, k, v => b :: setAt bs i k v

def applyMut (h : Heap) (handle : Nat) : Mut → Heap
  | .setDefault i k v => h.set handle (setAt (h.get handle) i k v)
  | .append b => h.set handle (h.get handle ++ [b])

/-- a compilation, as far as the heap is concerned: a sequence of mutations through handles -/
def runMuts (h : Heap) (ms : List (Nat × Mut)) : Heap := ms.foldl (fun h m => applyMut h m.1 m.2) h

/-- handles handed to the components when the lists are shared with the caller -/
def handOutShared (owned : List Nat) : List Nat := owned

/-- handles after `deepcopy`: fresh cells (`base + i`) initialised with the owned contents -/
def handOutCopied (h : Heap) (owned : List Nat) (base : Nat) : Heap × List Nat :=
  ((owned.zipIdx.foldl (fun acc (p : Nat × Nat) => acc.set (base + p.2) (h.get p.1)) h),
   owned.zipIdx.map fun p => base + p.2)

/-- what the caller can observe of its `Bindings` object -/
def view (h : Heap) (owned : List Nat) : List (List Binding) := owned.map h.get

end Store
