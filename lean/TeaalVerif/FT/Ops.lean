/-!
# Reference semantics of the fibertree tensor operations the compiler emits (point lists)

A tensor is the list of its points: one coordinate per rank (a coordinate is a list of naturals: `[c]`
for an ordinary rank, `[c₁, …, cₖ]` after `flattenRanks(coord_style="tuple")`) and a value.  The
contract of each call, as read from the compiler's usage (DESIGN 7.3), is written next to its definition.
The same operations are implemented tree-shaped in harness/minifiber.py (which executes the real
emitted programs); the two are compared on random tensors by the checks.
-/
namespace FT

abbrev Coord := List Nat
abbrev Point := List Coord
abbrev Pts := List (Point × Int)

/-- `swizzleRanks(rank_ids=…)`: `perm[i]` is the position in the old order of the rank that comes `i`-th -/
def swizzle (perm : List Nat) (t : Pts) : Pts := t.map fun (p, v) => (perm.map fun i => p.getD i [], v)

/-- `splitUniform(step, depth=d)` (no halo): rank `R` at depth `d` becomes `(R↑, R↓)`; an element with
    coordinate `c` goes to the partition keyed `⌊c / step⌋ · step` and keeps its coordinate -/
def splitCoord (step : Nat) (c : Coord) : Coord := c.map fun x => x / step * step

def splitUniform (step d : Nat) (t : Pts) : Pts :=
  t.map fun (p, v) => (p.take d ++ splitCoord step (p.getD d []) :: p.drop d, v)

/-- `mergeRanks(depth=d, levels=1, coord_style="absolute")`: the upper coordinate is dropped -/
def mergeAbs (d : Nat) (t : Pts) : Pts := t.map fun (p, v) => (p.eraseIdx d, v)

/-- `flattenRanks(depth=d, levels=1, coord_style="tuple")`: two adjacent coordinates become one tuple -/
def flatten (d : Nat) (t : Pts) : Pts :=
  t.map fun (p, v) => (p.take d ++ (p.getD d [] ++ p.getD (d + 1) []) :: p.drop (d + 2), v)

/-- `unflattenRanks(depth=d, levels=1)` for a tuple whose first component has `k` entries -/
def unflatten (d k : Nat) (t : Pts) : Pts :=
  t.map fun (p, v) => (p.take d ++ (p.getD d []).take k :: (p.getD d []).drop k :: p.drop (d + 1), v)

/-- value at a point (0 where absent; colliding entries add up, as `mergeRanks` does) -/
def den (t : Pts) (p : Point) : Int := ((t.filter fun q => q.1 = p).map (·.2)).sum

/-! ### occupancy-based splitting of one fiber (a sorted list of distinct coordinates) -/

/-- `splitEqual(n)`: chunks of `n` consecutive elements; a chunk is keyed by its first coordinate -/
def chunkKeys (n : Nat) : List Nat → List Nat
  | [] => []
  | c :: cs => c :: chunkKeys n (cs.drop (n - 1))
termination_by l => l.length
decreasing_by simp; omega

/-- the key of the group an element `c` belongs to under boundaries `bs` (`splitNonUniform`): the
    largest boundary `≤ c`; elements below the first boundary belong to no group -/
def groupOf (bs : List Nat) (c : Nat) : Option Nat := (bs.filter fun b => b ≤ c).getLast?

end FT
