import TeaalVerif.Nest.Sem
import TeaalVerif.Nest.Compile
/-!
# The meaning of an Einsum, free of any loop order

`meaning` is what the Einsum *says*: the value at output point `τ` is the sum, over every assignment
of a coordinate below its extent to every rank, of the terms' values at that assignment, restricted to the
assignments that project onto `τ`.  Tensors are read in their **declared** rank order and nothing is
re-ordered, swizzled or sliced; the only thing that still mentions an order is the enumeration of the
assignments (`sumF`), and `Props/C01Den.lean` proves that the enumeration order does not matter.

`sumF R F f` sums `F` over all extensions of the assignment `f` by coordinates for the ranks in `R`.
-/
namespace Nest

def upd (f : String → Nat) (r : String) (c : Nat) : String → Nat := fun s => if s = r then c else f s

def sumF : List (String × Nat) → ((String → Nat) → Int) → (String → Nat) → Int
  | [], F, f => F f
  | (r, e) :: R, F, f => ((List.range e).map fun c => sumF R F (upd f r c)).sum

def prodI : List Int → Int
  | [] => 1
  | v :: vs => v * prodI vs

/-- value of one term from the values of its operands (products; `take`: the selected operand where all are non-zero) -/
def comb (k : Kind) (scal : Int) (vals : List Int) : Int :=
  match k with
  | .times => scal * prodI vals
  | .take sel => if vals.all (fun v => v != 0) then scal * (match vals[sel]? with | some v => v | none => 0) else 0

/-- value of a tensor access under an assignment: the tensor's content at the point the access names -/
def accessVal (env : String → Pts) (f : String → Nat) (x : TensorS) : Int := sumAt (x.ranks.map f) (env x.name)

def termVal (env : String → Pts) (f : String → Nat) (t : TermS) : Int :=
  comb t.kind t.scal (t.tensors.map (accessVal env f))

/-- the Einsum's value at the output point `τ` (coordinates in the order `out`) -/
def meaning (R : List (String × Nat)) (out : List String) (terms : List TermS) (env : String → Pts) (τ : List Nat) : Int :=
  sumF R (fun f => if out.map f = τ then (terms.map (termVal env f)).sum else 0) (fun _ => 0)

end Nest
