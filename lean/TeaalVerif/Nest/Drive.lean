import TeaalVerif.Nest.Cont
/-!
# Loops driven by one operand (flattened ranks): the other operands are looked up

For a flattened rank the compiler emits `for (k, m), a_val in a_km:` over the flattened fiber of ONE tensor and fetches the
other tensors with `getPayload(k)` / `getPayloadRef(m)`.  Iterating the flattened fiber is iterating the tensor's `K` fiber and,
inside, its `M` fibers; a lookup is a `slice` (an absent coordinate gives the empty fiber).  So a flattened loop is a pair of
ordinary levels whose coordinates come from the driving operand alone (`Mode.drive`) instead of the co-iteration of all
operands (`Mode.co`).  `runG` is the nest with a mode per level; `runG` with all modes `co` is `runK`.
-/
namespace Nest

inductive Mode
  | co
  | drive (o : Nat)          -- index of the driving operand in the (single) term
  deriving Repr, DecidableEq

def driver (o : Nat) (sts : List TermSt) : Option Operand :=
  match sts with
  | [st] => st.ops[o]?
  | _ => none

def visitG (mode : Mode) (ext : Nat) (sts : List TermSt) : List Nat :=
  match mode with
  | .co => match coiterAll sts with
    | some cs => cs
    | none => List.range ext
  | .drive o => match driver o sts with
    | some op => heads op.pts
    | none => []

def runG (k : List TermSt → List (List Nat × Int)) : List (Bool × Nat × Mode) → List TermSt → List (List Nat × Int)
  | [], sts => k sts
  | (out, ext, mode) :: ls, sts =>
    (visitG mode ext sts).flatMap fun c => (runG k ls (sts.map (TermSt.step c))).map (tag out c)

def plainLevels (ls : List (Bool × Nat × Mode)) : List (Bool × Nat) := ls.map fun (o, e, _) => (o, e)

/-- summing tagged contributions over a duplicate-free list of coordinates below `N` that covers everything non-zero is
    summing them over `0 .. N-1` -/
theorem sumAt_tagged_cover (out : Bool) (N : Nat) (cs : List Nat) (A B : Nat → List (List Nat × Int)) (σ : List Nat)
    (hnd : cs.Nodup) (hlt : ∀ c ∈ cs, c < N)
    (hin : ∀ c ∈ cs, ∀ σ', sumAt σ' (A c) = sumAt σ' (B c))
    (hout : ∀ c, c ∉ cs → ∀ σ', sumAt σ' (B c) = 0) :
    sumAt σ (cs.flatMap fun c => (A c).map (tag out c)) = sumAt σ ((List.range N).flatMap fun c => (B c).map (tag out c)) := by
  rw [sumAt_flatMap, sumAt_flatMap]
  cases out with
  | false =>
    have hR := sum_range_eq_sum_list N (fun c => sumAt σ ((B c).map (tag false c))) cs hnd hlt
      (fun c _ hc => by rw [sumAt_map_tag_in]; exact hout c hc σ)
    rw [hR]
    congr 1
    apply List.map_congr_left
    intro c hc
    rw [sumAt_map_tag_in, sumAt_map_tag_in]
    exact hin c hc σ
  | true =>
    have hR := sum_range_eq_sum_list N (fun c => sumAt σ ((B c).map (tag true c))) cs hnd hlt
      (fun c _ hc => by
        rw [sumAt_map_tag_out]
        cases σ with
        | nil => rfl
        | cons c' σ' =>
          simp only
          split
          · exact hout c hc σ'
          · rfl)
    rw [hR]
    congr 1
    apply List.map_congr_left
    intro c hc
    rw [sumAt_map_tag_out, sumAt_map_tag_out]
    cases σ with
    | nil => rfl
    | cons c' σ' =>
      simp only
      split
      · exact hin c hc σ'
      · rfl

end Nest
