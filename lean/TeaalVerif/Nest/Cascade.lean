import TeaalVerif.Nest.Den
import TeaalVerif.Nest.Lemmas
/-!
# Cascades of Einsums: the model program and its meaning

`resultPts S env` is the tensor the nest of `S` leaves behind (points in the output's declared rank order, no stored zeros);
`cascade` runs the Einsums of a specification one after the other, each reading the tensors the earlier ones produced under
the names they were declared with.  `semCascade` is the mathematical composition: each Einsum's `meaning` evaluated on the
(function-valued) environment produced so far.
-/
namespace Nest

def dedupG {α : Type} [DecidableEq α] : List α → List α
  | [] => []
  | a :: as => if a ∈ as then dedupG as else a :: dedupG as

theorem mem_dedupG {α : Type} [DecidableEq α] {a : α} {l : List α} : a ∈ dedupG l ↔ a ∈ l := by
  induction l with
  | nil => simp [dedupG]
  | cons b bs ih =>
    simp only [dedupG]
    by_cases h : b ∈ bs
    · simp only [h, if_true, ih, List.mem_cons]
      constructor
      · exact Or.inr
      · rintro (rfl | h') <;> assumption
    · simp only [h, if_false, List.mem_cons, ih]

theorem nodup_dedupG {α : Type} [DecidableEq α] (l : List α) : (dedupG l).Nodup := by
  induction l with
  | nil => simp [dedupG]
  | cons b bs ih =>
    simp only [dedupG]
    by_cases h : b ∈ bs
    · simp [h, ih]
    · simp only [h, if_false]
      exact List.nodup_cons.2 ⟨fun hm => h (mem_dedupG.1 hm), ih⟩

def resultPts (S : EinsumS) (env : String → Pts) : Pts :=
  let c := run (levels S) (initTerms S env)
  let outL := concord S.loop S.outRanks
  ((dedupG (c.map (·.1))).map fun k => (reorder outL S.outRanks k, sumAt k c)).filter fun p => p.2 != 0

def updEnv (env : String → Pts) (name : String) (t : Pts) : String → Pts := fun n => if n = name then t else env n

def cascade : List EinsumS → (String → Pts) → (String → Pts)
  | [], env => env
  | S :: Ss, env => cascade Ss (updEnv env S.outName (resultPts S env))

/-! ### the mathematical composition -/

abbrev FEnv := String → List Nat → Int

def toF (env : String → Pts) : FEnv := fun n σ => sumAt σ (env n)

def accessValF (ρ : FEnv) (f : String → Nat) (x : TensorS) : Int := ρ x.name (x.ranks.map f)

def termValF (ρ : FEnv) (f : String → Nat) (t : TermS) : Int := comb t.kind t.scal (t.tensors.map (accessValF ρ f))

def meaningF (R : List (String × Nat)) (out : List String) (terms : List TermS) (ρ : FEnv) (τ : List Nat) : Int :=
  sumF R (fun f => if out.map f = τ then (terms.map (termValF ρ f)).sum else 0) (fun _ => 0)

theorem meaning_eq_meaningF (R : List (String × Nat)) (out : List String) (terms : List TermS) (env : String → Pts) (τ : List Nat) :
    meaning R out terms env τ = meaningF R out terms (toF env) τ := rfl

def semCascade : List EinsumS → FEnv → FEnv
  | [], ρ => ρ
  | S :: Ss, ρ => semCascade Ss (fun n σ => if n = S.outName then meaningF (S.loop.zip S.exts) S.outRanks S.terms ρ σ else ρ n σ)

end Nest
