import TeaalVerif.Nest.Lemmas
/-!
# Loop nests with a continuation: what happens inside the innermost of some outer loops

`runK k ls sts` runs the loops `ls` exactly as `run` does and hands the operand states reached in the innermost loop body
to `k` (instead of emitting the update); `specK` likewise for the dense reference nest.  `run`/`spec` over `pre ++ ls` are
`runK (run ls) pre` / `specK (spec ls) pre`.  This is how statements that the compiler places *inside* a loop (the dynamic
`splitEqual` / `splitNonUniform` of the fibers reached there) are modelled: the continuation first transforms the states.
-/
namespace Nest

def runK (k : List TermSt → List (List Nat × Int)) : List (Bool × Nat) → List TermSt → List (List Nat × Int)
  | [], sts => k sts
  | (out, ext) :: ls, sts =>
    let cs := match coiterAll sts with
      | some cs => cs
      | none => List.range ext
    cs.flatMap fun c => (runK k ls (sts.map (TermSt.step c))).map (tag out c)

def specK (k : List TermSt → List (List Nat × Int)) : List (Bool × Nat) → List TermSt → List (List Nat × Int)
  | [], sts => k sts
  | (out, ext) :: ls, sts =>
    (List.range ext).flatMap fun c => (specK k ls (sts.map (TermSt.step c))).map (tag out c)

theorem run_append : ∀ (pre ls : List (Bool × Nat)) (sts : List TermSt), run (pre ++ ls) sts = runK (run ls) pre sts
  | [], _, _ => rfl
  | (out, ext) :: pre, ls, sts => by
    simp only [List.cons_append, run, runK]
    congr 1
    funext c
    rw [run_append pre ls]

theorem spec_append : ∀ (pre ls : List (Bool × Nat)) (sts : List TermSt), spec (pre ++ ls) sts = specK (spec ls) pre sts
  | [], _, _ => rfl
  | (out, ext) :: pre, ls, sts => by
    simp only [List.cons_append, spec, specK]
    congr 1
    funext c
    rw [spec_append pre ls]

theorem specK_zero (k : List TermSt → List (List Nat × Int))
    (hz : ∀ sts, (∀ st ∈ sts, Dead st) → ∀ σ, sumAt σ (k sts) = 0) :
    ∀ (ls : List (Bool × Nat)) (sts : List TermSt), (∀ st ∈ sts, Dead st) → ∀ σ, sumAt σ (specK k ls sts) = 0
  | [], sts, h, σ => hz sts h σ
  | (out, ext) :: ls, sts, h, σ => by
    simp only [specK]
    rw [sumAt_flatMap]
    apply sum_map_zero
    intro c _
    have hd : ∀ st ∈ sts.map (TermSt.step c), Dead st := by
      intro st hst
      obtain ⟨st0, hst0, rfl⟩ := List.mem_map.1 hst
      exact step_dead c st0 (h st0 hst0)
    cases out with
    | true =>
      rw [sumAt_map_tag_out]
      cases σ with
      | nil => rfl
      | cons c' σ' =>
        simp only
        split
        · exact specK_zero k hz ls _ hd σ'
        · rfl
    | false =>
      rw [sumAt_map_tag_in]
      exact specK_zero k hz ls _ hd σ

end Nest
