import TeaalVerif.Nest.Cont
/-!
# Loop nests with affine index expressions (C04)

An access `I[2*q + s]` makes the coordinate of `I`'s rank a function of several loop coordinates.  The compiler
resolves it at the loop of the **last** of its variables in loop order: with `q` bound, the loop over `s` co-iterates

    i_w.project(trans_fn=lambda w: w + -2 * q, interval=(0, S))        (and `.prune(c % 1 == 0)` for strides)

i.e. the fiber of `I` read through the inverse of the access expression: an element at coordinate `w` is offered at
loop coordinate `c` with `a*c + k = w` (`a` the coefficient of the loop variable, `k` what the bound variables
contribute), when such a `c` exists, is not negative and lies inside the interval.  `projPts a k lim` is that fiber on
point lists (exact arithmetic - the emitted lambdas compute in floats: known finding for non-dyadic `a`).

`OperandA` carries the accesses still pending (in the order in which they resolve: the concordant order `swizzleRanks`
establishes) as symbolic affine expressions; binding a loop variable substitutes it.  At a loop the operand takes part
iff its next pending access mentions only that loop's variable; its *view* is then an ordinary `Operand` over the
projected fiber, so the co-iteration (`coiterAll`: union over terms of intersections) is literally the one of `Nest.run`.

A plain access (`F[s]`) is the special case `a = 1, k = 0`, no interval: `projPts 1 0 none t` offers exactly the elements
of `t`.
-/
namespace Nest

structure AffS where
  terms : List (Int × String)
  const : Int
  deriving Repr

def AffS.coef (r : String) (e : AffS) : Int := ((e.terms.filter fun t => t.2 == r).map (·.1)).sum

def AffS.rest (r : String) (e : AffS) : List (Int × String) := e.terms.filter fun t => !(t.2 == r)

def AffS.subst (r : String) (c : Nat) (e : AffS) : AffS := { terms := e.rest r, const := e.const + e.coef r * (c : Int) }

def AffS.eval (f : String → Nat) (e : AffS) : Int := (e.terms.map fun t => t.1 * (f t.2 : Int)).sum + e.const

/-- the access mentions only the variable `r` (and does mention it) -/
def AffS.readyAt (r : String) (e : AffS) : Bool := e.coef r != 0 && (e.rest r).isEmpty

def inLim (lim : Option Nat) (q : Int) : Bool :=
  match lim with
  | some n => decide (q < (n : Int))
  | none => true

/-- the loop coordinate `q` with `a*q + k = w`, if there is one (not negative, inside the interval) -/
def solve (a k : Int) (lim : Option Nat) (w : Nat) : Option Nat :=
  if (((w : Int) - k) % a == 0 && decide (0 ≤ ((w : Int) - k) / a) && inLim lim (((w : Int) - k) / a)) = true
  then some (((w : Int) - k) / a).toNat else none

def projPts (a k : Int) (lim : Option Nat) (t : Pts) : Pts :=
  t.filterMap fun (cs, v) => match cs with
    | [] => none
    | w :: tl => (solve a k lim w).map fun q => (q :: tl, v)

structure AccA where
  e : AffS
  proj : Bool                 -- is a `project(...)` emitted (anything but a plain variable)
  ivl : Bool := proj          -- does the projection carry `interval=(0, extent)` (absent on the upper level of a partitioned rank)
  deriving Repr

def AccA.subst (r : String) (c : Nat) (a : AccA) : AccA := { a with e := a.e.subst r c }

structure OperandA where
  idx : List AccA
  pts : Pts
  deriving Repr

def OperandA.activeAt (r : String) (o : OperandA) : Bool :=
  match o.idx with
  | a :: _ => a.e.readyAt r
  | [] => false

/-- the operand as the loop over `r` sees it -/
def OperandA.view (r : String) (ext : Nat) (o : OperandA) : Operand :=
  match o.idx with
  | a :: _ =>
    if a.e.readyAt r then { sched := [true], pts := projPts (a.e.coef r) a.e.const (if a.ivl then some ext else none) o.pts }
    else { sched := [false], pts := o.pts }
  | [] => { sched := [false], pts := o.pts }

def OperandA.step (r : String) (ext c : Nat) (o : OperandA) : OperandA :=
  { idx := (if o.activeAt r then o.idx.tail else o.idx).map (AccA.subst r c), pts := ((o.view r ext).step c).pts }

structure TermA where
  kind : Kind
  scal : Int
  ops : List OperandA
  deriving Repr

def TermA.view (r : String) (ext : Nat) (st : TermA) : TermSt := { kind := st.kind, scal := st.scal, ops := st.ops.map (OperandA.view r ext) }

def TermA.step (r : String) (ext c : Nat) (st : TermA) : TermA := { st with ops := st.ops.map (OperandA.step r ext c) }

/-- the state in the loop body: all accesses resolved -/
def TermA.fin (st : TermA) : TermSt := { kind := st.kind, scal := st.scal, ops := st.ops.map fun o => { sched := [], pts := o.pts } }

/-- the emitted nest; per loop: its variable, does the output carry it, its extent -/
def runA : List (String × Bool × Nat) → List TermA → List (List Nat × Int)
  | [], sts => [([], ((sts.map TermA.fin).map emitVal).sum)]
  | (r, out, ext) :: ls, sts =>
    let cs := match coiterAll (sts.map (TermA.view r ext)) with
      | some cs => cs
      | none => List.range ext
    cs.flatMap fun c => (runA ls (sts.map (TermA.step r ext c))).map (tag out c)

/-- the dense reference nest -/
def specA : List (String × Bool × Nat) → List TermA → List (List Nat × Int)
  | [], sts => [([], ((sts.map TermA.fin).map mathVal).sum)]
  | (r, out, ext) :: ls, sts =>
    (List.range ext).flatMap fun c => (specA ls (sts.map (TermA.step r ext c))).map (tag out c)

end Nest
