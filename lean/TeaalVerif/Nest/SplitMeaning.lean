import TeaalVerif.Nest.Split
/-!
# Splitting a rank does not change the Einsum's meaning
-/
namespace Nest

structure SplitHyp (K K1 K0 : String) (g : Nat → Nat) (out : List String) (terms : List TermS) (env env' : String → Pts) : Prop where
  fresh_out : K1 ∉ out ∧ K0 ∉ out
  fresh : ∀ t ∈ terms, ∀ x ∈ t.tensors, K1 ∉ x.ranks ∧ K0 ∉ x.ranks
  arity : ∀ t ∈ terms, ∀ x ∈ t.tensors, ∀ p ∈ env x.name, p.1.length = x.ranks.length
  env' : ∀ t ∈ terms, ∀ x ∈ t.tensors, env' x.name = splitPts K g x.ranks (env x.name)
  cover : K ∉ out → ∀ t ∈ terms, ∃ x ∈ t.tensors, K ∈ x.ranks

theorem accessVal_splitTensor {K K1 K0 : String} {g : Nat → Nat} {out : List String} {terms : List TermS} {env env' : String → Pts}
    (H : SplitHyp K K1 K0 g out terms env env') (f : String → Nat) (t : TermS) (ht : t ∈ terms) (x : TensorS) (hx : x ∈ t.tensors) :
    accessVal env' f (splitTensor K K1 K0 x) =
      if (K ∈ x.ranks → f K1 = g (f K0)) then accessVal env (upd f K (f K0)) x else 0 := by
  unfold accessVal splitTensor
  simp only
  rw [H.env' t ht x hx]
  exact accessVal_split K K1 K0 g f x.ranks (env x.name) (H.arity t ht x hx)

theorem termVal_split_pos {K K1 K0 : String} {g : Nat → Nat} {out : List String} {terms : List TermS} {env env' : String → Pts}
    (H : SplitHyp K K1 K0 g out terms env env') (f : String → Nat) (hi : f K1 = g (f K0)) (t : TermS) (ht : t ∈ terms) :
    termVal env' f (splitTerm K K1 K0 t) = termVal env (upd f K (f K0)) t := by
  unfold termVal splitTerm
  simp only [List.map_map]
  congr 1
  apply List.map_congr_left
  intro x hx
  simp only [Function.comp]
  rw [accessVal_splitTensor H f t ht x hx, if_pos (fun _ => hi)]

theorem termVal_split_neg {K K1 K0 : String} {g : Nat → Nat} {out : List String} {terms : List TermS} {env env' : String → Pts}
    (H : SplitHyp K K1 K0 g out terms env env') (f : String → Nat) (hi : ¬ f K1 = g (f K0)) (t : TermS) (ht : t ∈ terms)
    (hc : ∃ x ∈ t.tensors, K ∈ x.ranks) :
    termVal env' f (splitTerm K K1 K0 t) = 0 := by
  obtain ⟨x, hx, hK⟩ := hc
  unfold termVal splitTerm
  apply comb_zero_of_mem
  simp only [List.map_map, List.mem_map]
  refine ⟨x, hx, ?_⟩
  simp only [Function.comp]
  rw [accessVal_splitTensor H f t ht x hx, if_neg (fun h => hi (h hK))]

/-- the summand of the split Einsum is the summand of the original one, guarded by "the upper coordinate is the partition
    of the lower one" -/
theorem summand_split {K K1 K0 : String} {g : Nat → Nat} {out : List String} {terms : List TermS} {env env' : String → Pts}
    (H : SplitHyp K K1 K0 g out terms env env') (τ : List Nat) (hτ : τ.length = out.length) (f : String → Nat) :
    (if (splitRanks K K1 K0 out).map f = splitPt K g out τ then ((terms.map (splitTerm K K1 K0)).map (termVal env' f)).sum else 0) =
      if f K1 = g (f K0) then (if out.map (upd f K (f K0)) = τ then (terms.map (termVal env (upd f K (f K0)))).sum else 0) else 0 := by
  have hiff := splitPt_eq_iff K K1 K0 g f out τ hτ
  by_cases hi : f K1 = g (f K0)
  · rw [if_pos hi]
    have hsum : ((terms.map (splitTerm K K1 K0)).map (termVal env' f)).sum = (terms.map (termVal env (upd f K (f K0)))).sum := by
      rw [List.map_map]
      congr 1
      apply List.map_congr_left
      intro t ht
      exact termVal_split_pos H f hi t ht
    rw [hsum]
    by_cases hc : out.map (upd f K (f K0)) = τ
    · rw [if_pos hc, if_pos (hiff.2 ⟨fun _ => hi, hc.symm⟩).symm]
    · rw [if_neg hc, if_neg (fun e => hc (hiff.1 e.symm).2.symm)]
  · rw [if_neg hi]
    by_cases hK : K ∈ out
    · rw [if_neg (fun e => hi ((hiff.1 e.symm).1 hK))]
    · have hsum : ((terms.map (splitTerm K K1 K0)).map (termVal env' f)).sum = 0 := by
        rw [List.map_map]
        apply sum_map_zero
        intro t ht
        exact termVal_split_neg H f hi t ht (H.cover hK t ht)
      rw [hsum]; simp

/-- the original summand does not look at the new ranks -/
theorem summand_indep {K1 K0 : String} (out : List String) (terms : List TermS) (env : String → Pts) (τ : List Nat)
    (hfo : K1 ∉ out ∧ K0 ∉ out) (hf : ∀ t ∈ terms, ∀ x ∈ t.tensors, K1 ∉ x.ranks ∧ K0 ∉ x.ranks)
    (f1 f2 : String → Nat) (h : ∀ s, s ≠ K1 → s ≠ K0 → f1 s = f2 s) :
    (if out.map f1 = τ then (terms.map (termVal env f1)).sum else 0) = (if out.map f2 = τ then (terms.map (termVal env f2)).sum else 0) := by
  have ho : out.map f1 = out.map f2 := by
    apply List.map_congr_left
    intro s hs
    exact h s (fun e => hfo.1 (e ▸ hs)) (fun e => hfo.2 (e ▸ hs))
  have ht : terms.map (termVal env f1) = terms.map (termVal env f2) := by
    apply List.map_congr_left
    intro t ht
    unfold termVal
    congr 1
    apply List.map_congr_left
    intro x hx
    unfold accessVal
    congr 1
    apply List.map_congr_left
    intro s hs
    exact h s (fun e => (hf t ht x hx).1 (e ▸ hs)) (fun e => (hf t ht x hx).2 (e ▸ hs))
  rw [ho, ht]

/-- **splitting a rank preserves the meaning**: with `K` replaced by `K1, K0` in the rank list, the output and every access,
    and every tensor split accordingly, the split Einsum's value at the split output point is the original value -/
theorem meaning_split (K K1 K0 : String) (g : Nat → Nat) (e e1 : Nat) (R0 : List (String × Nat))
    (out : List String) (terms : List TermS) (env env' : String → Pts) (τ : List Nat)
    (hg : ∀ k, k < e → g k < e1)
    (hK : K ∉ R0.map (·.1)) (hK1 : K1 ∉ R0.map (·.1)) (hK0 : K0 ∉ R0.map (·.1))
    (h10 : K1 ≠ K0) (h1K : K1 ≠ K) (h0K : K0 ≠ K)
    (H : SplitHyp K K1 K0 g out terms env env') (hτ : τ.length = out.length) :
    meaning ((K1, e1) :: (K0, e) :: R0) (splitRanks K K1 K0 out) (terms.map (splitTerm K K1 K0)) env' (splitPt K g out τ) =
      meaning ((K, e) :: R0) out terms env τ := by
  unfold meaning
  simp only [sumF]
  -- the inner sum for fixed upper / lower coordinates
  have inner : ∀ c1 c0, sumF R0 (fun f => if (splitRanks K K1 K0 out).map f = splitPt K g out τ
          then ((terms.map (splitTerm K K1 K0)).map (termVal env' f)).sum else 0) (upd (upd (fun _ => 0) K1 c1) K0 c0) =
        if c1 = g c0 then sumF R0 (fun f => if out.map f = τ then (terms.map (termVal env f)).sum else 0) (upd (fun _ => 0) K c0) else 0 := by
    intro c1 c0
    by_cases hc : c1 = g c0
    · rw [if_pos hc]
      apply sumF_rel (fun f1 f2 => f1 K1 = c1 ∧ f1 K0 = c0 ∧ ∀ s, s ≠ K1 → s ≠ K0 → upd f1 K c0 s = f2 s)
      · intro r hr c f1 f2 ⟨p1, p0, ps⟩
        have hr1 : K1 ≠ r := fun e => hK1 (e ▸ hr)
        have hr0 : K0 ≠ r := fun e => hK0 (e ▸ hr)
        have hrK : r ≠ K := fun e => hK (e ▸ hr)
        refine ⟨by simp [upd, hr1, p1], by simp [upd, hr0, p0], ?_⟩
        intro s hs1 hs0
        have := ps s hs1 hs0
        by_cases hsK : s = K
        · have hsr : s ≠ r := fun e => hrK (e ▸ hsK)
          have h2 : c0 = f2 s := by simpa [upd, hsK] using this
          simp only [upd, hsK, if_true]
          rw [if_neg (fun e => hrK e.symm), ← hsK]; exact h2
        · by_cases hsr : s = r
          · simp only [upd, hsK, hsr, if_true, if_false]
            rw [if_neg hrK]
          · simp only [upd, hsK, hsr, if_false] at this ⊢
            exact this
      · intro f1 f2 ⟨p1, p0, ps⟩
        rw [summand_split H τ hτ f1, if_pos (by rw [p1, p0, hc]), p0]
        exact summand_indep out terms env τ H.fresh_out H.fresh _ _ ps
      · refine ⟨by simp [upd, h10], by simp [upd], ?_⟩
        intro s hs1 hs0
        simp [upd, hs1, hs0]
    · rw [if_neg hc]
      refine (sumF_congr_on _ _ (fun _ => 0) _ ?_).trans (sumF_zero _ _)
      intro f hf
      have p1 : f K1 = c1 := by rw [hf K1 hK1]; simp [upd, h10]
      have p0 : f K0 = c0 := by rw [hf K0 hK0]; simp [upd]
      rw [summand_split H τ hτ f, if_neg (by rw [p1, p0]; exact hc)]
  calc ((List.range e1).map fun c1 => ((List.range e).map fun c0 => sumF R0 _ (upd (upd (fun _ => 0) K1 c1) K0 c0)).sum).sum
      = ((List.range e1).map fun c1 => ((List.range e).map fun c0 =>
          if c1 = g c0 then sumF R0 (fun f => if out.map f = τ then (terms.map (termVal env f)).sum else 0) (upd (fun _ => 0) K c0) else 0).sum).sum := by
        apply sum_map_congr; intro c1 _
        apply sum_map_congr; intro c0 _
        exact inner c1 c0
    _ = ((List.range e).map fun c0 => ((List.range e1).map fun c1 =>
          if c1 = g c0 then sumF R0 (fun f => if out.map f = τ then (terms.map (termVal env f)).sum else 0) (upd (fun _ => 0) K c0) else 0).sum).sum :=
        sum_map_sum_comm _ _ _
    _ = ((List.range e).map fun c0 => sumF R0 (fun f => if out.map f = τ then (terms.map (termVal env f)).sum else 0) (upd (fun _ => 0) K c0)).sum := by
        apply sum_map_congr; intro c0 hc0
        exact sum_range_indicator e1 (g c0) _ (hg c0 (List.mem_range.1 hc0))

end Nest
