import TeaalVerif.Nest.Aff
import TeaalVerif.Nest.DenLemmas
/-!
# Affine Einsums: the order-free meaning and the model compiler of the nest   (C04)

`meaningA`: the value at output point `τ` is the sum, over every assignment of a coordinate below its extent to every
index variable, of the terms' values; a tensor access `I[2*q + s]` reads `I` at the value of the expression (a negative
index reads nothing).  Tensors are read in their declared rank order.

`initTermsA` is the model compiler: from the Einsum and the loop order alone it brings every tensor into the order in which
its accesses resolve (`concordA`: an access resolves at the loop of the last of its variables) - what `swizzleRanks` does -
and marks every access that is not a plain variable as projected.
-/
namespace Nest

instance : Inhabited AffS := ⟨⟨[], 0⟩⟩
instance : Inhabited AccA := ⟨{ e := default, proj := false }⟩

structure TensorAS where
  name : String
  ranks : List String          -- declared rank names
  idx : List AccA              -- the access, one expression per declared rank
  deriving Repr

structure TermAS where
  kind : Kind
  scal : Int
  tensors : List TensorAS
  deriving Repr

structure EinsumAS where
  loop : List String           -- loop variables, outermost first
  exts : List Nat
  outName : String
  outVars : List String        -- the output's index variables in the order of the requested result points
  terms : List TermAS
  deriving Repr

/-- value of a tensor at an integer index vector: nothing at negative indices -/
def valAt (is : List Int) (pts : Pts) : Int := if is.all (fun i => decide (0 ≤ i)) then sumAt (is.map Int.toNat) pts else 0

def accessValA (env : String → Pts) (f : String → Nat) (x : TensorAS) : Int :=
  valAt (x.idx.map fun a => a.e.eval f) (env x.name)

def termValA (env : String → Pts) (f : String → Nat) (t : TermAS) : Int :=
  comb t.kind t.scal (t.tensors.map (accessValA env f))

def meaningA (R : List (String × Nat)) (out : List String) (terms : List TermAS) (env : String → Pts) (τ : List Nat) : Int :=
  sumF R (fun f => if out.map f = τ then (terms.map (termValA env f)).sum else 0) (fun _ => 0)

/-! ### model compiler -/

def AffS.mentions (v : String) (e : AffS) : Bool := e.terms.any fun t => t.2 == v

/-- the loop at which the access becomes resolvable: the last of its variables in loop order -/
def resolveVar (loop : List String) (e : AffS) : Option String := (loop.filter fun v => e.mentions v).getLast?

def accOf (x : TensorAS) (rk : String) : AccA := ((x.ranks.zip x.idx).lookup rk).getD default

/-- the tensor's ranks in the order in which their accesses resolve -/
def concordA (loop : List String) (x : TensorAS) : List String :=
  loop.flatMap fun v => x.ranks.filter fun rk => resolveVar loop (accOf x rk).e == some v

def initOperandA (loop : List String) (x : TensorAS) (pts : Pts) : OperandA :=
  let ord := concordA loop x
  { idx := ord.map (accOf x), pts := pts.map fun (cs, v) => (reorder x.ranks ord cs, v) }

def initTermsA (S : EinsumAS) (env : String → Pts) : List TermA :=
  S.terms.map fun t => { kind := t.kind, scal := t.scal, ops := t.tensors.map fun x => initOperandA S.loop x (env x.name) }

def levelsA (S : EinsumAS) : List (String × Bool × Nat) :=
  (S.loop.zip S.exts).map fun (r, e) => (r, S.outVars.contains r, e)

def collectA (S : EinsumAS) (contribs : List (List Nat × Int)) : List (List Nat × Int) :=
  let keys := (contribs.map (·.1)).eraseDups
  let outL := concord S.loop S.outVars
  (keys.map fun k => (reorder outL S.outVars k, sumAt k contribs)).filter fun p => p.2 != 0

/-! ### shapes: which accesses resolve where depends on the variables only -/

def restT (r : String) (ts : List (Int × String)) : List (Int × String) := ts.filter fun t => !(t.2 == r)

def coefT (r : String) (ts : List (Int × String)) : Int := ((ts.filter fun t => t.2 == r).map (·.1)).sum

def readyT (r : String) (ts : List (Int × String)) : Bool := coefT r ts != 0 && (restT r ts).isEmpty

def shapeStep (r : String) : List (List (Int × String)) → List (List (Int × String))
  | [] => []
  | t :: tl => (if readyT r t then tl else t :: tl).map (restT r)

/-- every pending access resolves, one after the other, at some remaining loop -/
def SchedOK : List String → List (List (Int × String)) → Prop
  | [], sh => sh = []
  | r :: rs, sh => SchedOK rs (shapeStep r sh)

instance : ∀ (rs : List String) (sh : List (List (Int × String))), Decidable (SchedOK rs sh)
  | [], sh => by unfold SchedOK; infer_instance
  | r :: rs, sh => by unfold SchedOK; exact instDecidableSchedOK rs (shapeStep r sh)

def OperandA.shape (o : OperandA) : List (List (Int × String)) := o.idx.map fun a => a.e.terms

theorem shape_step (r : String) (ext c : Nat) (o : OperandA) : (o.step r ext c).shape = shapeStep r o.shape := by
  obtain ⟨idx, pts⟩ := o
  cases idx with
  | nil => simp [OperandA.shape, OperandA.step, OperandA.activeAt, shapeStep]
  | cons a tl =>
    have hr : a.e.readyAt r = readyT r a.e.terms := rfl
    simp only [OperandA.shape, OperandA.step, OperandA.activeAt, shapeStep, List.map_cons, hr]
    cases readyT r a.e.terms <;> simp [AccA.subst, AffS.subst, AffS.rest, restT, Function.comp_def]

end Nest
