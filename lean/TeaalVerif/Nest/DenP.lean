import TeaalVerif.Nest.SplitMeaning
/-!
# Meaning with the tensors carried by the accesses (no environment, no names)

`AccessP` is an access together with the points of the tensor it reads; `meaningP` is `meaning` for such terms.  The
environment-based notions are the special case `TermS.toP env`.  Residual computations (what is left of an Einsum inside some
outer loops, each operand being the fiber reached there) are terms of this kind, which is what the dynamic-partitioning
theorem needs.
-/
namespace Nest

structure AccessP where
  ranks : List String
  pts : Pts

structure TermP where
  kind : Kind
  scal : Int
  accs : List AccessP

def accessValP (f : String → Nat) (a : AccessP) : Int := sumAt (a.ranks.map f) a.pts

def termValP (f : String → Nat) (t : TermP) : Int := comb t.kind t.scal (t.accs.map (accessValP f))

def summandP (out : List String) (terms : List TermP) (τ : List Nat) (f : String → Nat) : Int :=
  if out.map f = τ then (terms.map (termValP f)).sum else 0

def meaningP (R : List (String × Nat)) (out : List String) (terms : List TermP) (τ : List Nat) : Int :=
  sumF R (summandP out terms τ) (fun _ => 0)

def TensorS.toP (env : String → Pts) (x : TensorS) : AccessP := ⟨x.ranks, env x.name⟩

def TermS.toP (env : String → Pts) (t : TermS) : TermP := ⟨t.kind, t.scal, t.tensors.map (TensorS.toP env)⟩

theorem termVal_toP (env : String → Pts) (f : String → Nat) (t : TermS) : termValP f (t.toP env) = termVal env f t := by
  simp only [termValP, termVal, TermS.toP, List.map_map]
  rfl

theorem meaning_toP (R : List (String × Nat)) (out : List String) (terms : List TermS) (env : String → Pts) (τ : List Nat) :
    meaningP R out (terms.map (TermS.toP env)) τ = meaning R out terms env τ := by
  unfold meaningP meaning summandP
  apply sumF_congr
  intro f
  simp only [List.map_map]
  congr 2
  apply List.map_congr_left
  intro t _
  exact termVal_toP env f t

/-! ### splitting a rank -/

def splitAccess (K K1 K0 : String) (g : Nat → Nat) (a : AccessP) : AccessP :=
  ⟨splitRanks K K1 K0 a.ranks, splitPts K g a.ranks a.pts⟩

def splitTermP (K K1 K0 : String) (g : Nat → Nat) (t : TermP) : TermP := { t with accs := t.accs.map (splitAccess K K1 K0 g) }

structure SplitHypP (K K1 K0 : String) (out : List String) (terms : List TermP) : Prop where
  fresh_out : K1 ∉ out ∧ K0 ∉ out
  fresh : ∀ t ∈ terms, ∀ a ∈ t.accs, K1 ∉ a.ranks ∧ K0 ∉ a.ranks
  arity : ∀ t ∈ terms, ∀ a ∈ t.accs, ∀ p ∈ a.pts, p.1.length = a.ranks.length
  cover : K ∉ out → ∀ t ∈ terms, ∃ a ∈ t.accs, K ∈ a.ranks

theorem accessValP_split (K K1 K0 : String) (g : Nat → Nat) (f : String → Nat) (a : AccessP)
    (har : ∀ p ∈ a.pts, p.1.length = a.ranks.length) :
    accessValP f (splitAccess K K1 K0 g a) =
      if (K ∈ a.ranks → f K1 = g (f K0)) then accessValP (upd f K (f K0)) a else 0 :=
  accessVal_split K K1 K0 g f a.ranks a.pts har

theorem summandP_split {K K1 K0 : String} {g : Nat → Nat} {out : List String} {terms : List TermP}
    (H : SplitHypP K K1 K0 out terms) (τ : List Nat) (hτ : τ.length = out.length) (f : String → Nat) :
    summandP (splitRanks K K1 K0 out) (terms.map (splitTermP K K1 K0 g)) (splitPt K g out τ) f =
      if f K1 = g (f K0) then summandP out terms τ (upd f K (f K0)) else 0 := by
  unfold summandP
  have hiff := splitPt_eq_iff K K1 K0 g f out τ hτ
  by_cases hi : f K1 = g (f K0)
  · rw [if_pos hi]
    have hsum : ((terms.map (splitTermP K K1 K0 g)).map (termValP f)).sum = (terms.map (termValP (upd f K (f K0)))).sum := by
      rw [List.map_map]
      congr 1
      apply List.map_congr_left
      intro t ht
      simp only [Function.comp, termValP, splitTermP, List.map_map]
      congr 1
      apply List.map_congr_left
      intro a ha
      simp only [Function.comp]
      rw [accessValP_split K K1 K0 g f a (H.arity t ht a ha), if_pos (fun _ => hi)]
    rw [hsum]
    by_cases hc : out.map (upd f K (f K0)) = τ
    · rw [if_pos hc, if_pos (hiff.2 ⟨fun _ => hi, hc.symm⟩).symm]
    · rw [if_neg hc, if_neg (fun e => hc (hiff.1 e.symm).2.symm)]
  · rw [if_neg hi]
    by_cases hK : K ∈ out
    · rw [if_neg (fun e => hi ((hiff.1 e.symm).1 hK))]
    · have hsum : ((terms.map (splitTermP K K1 K0 g)).map (termValP f)).sum = 0 := by
        rw [List.map_map]
        apply sum_map_zero
        intro t ht
        obtain ⟨a, ha, hKa⟩ := H.cover hK t ht
        simp only [Function.comp, termValP, splitTermP]
        apply comb_zero_of_mem
        simp only [List.map_map, List.mem_map]
        refine ⟨a, ha, ?_⟩
        simp only [Function.comp]
        rw [accessValP_split K K1 K0 g f a (H.arity t ht a ha), if_neg (fun h => hi (h hKa))]
      rw [hsum]; simp

theorem summandP_indep {K1 K0 : String} (out : List String) (terms : List TermP) (τ : List Nat)
    (hfo : K1 ∉ out ∧ K0 ∉ out) (hf : ∀ t ∈ terms, ∀ a ∈ t.accs, K1 ∉ a.ranks ∧ K0 ∉ a.ranks)
    (f1 f2 : String → Nat) (h : ∀ s, s ≠ K1 → s ≠ K0 → f1 s = f2 s) :
    summandP out terms τ f1 = summandP out terms τ f2 := by
  unfold summandP
  have ho : out.map f1 = out.map f2 := by
    apply List.map_congr_left
    intro s hs
    exact h s (fun e => hfo.1 (e ▸ hs)) (fun e => hfo.2 (e ▸ hs))
  have ht : terms.map (termValP f1) = terms.map (termValP f2) := by
    apply List.map_congr_left
    intro t ht
    unfold termValP
    congr 1
    apply List.map_congr_left
    intro a ha
    unfold accessValP
    congr 1
    apply List.map_congr_left
    intro s hs
    exact h s (fun e => (hf t ht a ha).1 (e ▸ hs)) (fun e => (hf t ht a ha).2 (e ▸ hs))
  rw [ho, ht]

/-- **splitting a rank preserves the sum over the assignments**, from any base assignment `z` (the coordinates already bound
    by outer loops) -/
theorem sumF_splitP (K K1 K0 : String) (g : Nat → Nat) (e e1 : Nat) (R0 : List (String × Nat))
    (out : List String) (terms : List TermP) (τ : List Nat) (z : String → Nat)
    (hg : ∀ k, k < e → g k < e1)
    (hK : K ∉ R0.map (·.1)) (hK1 : K1 ∉ R0.map (·.1)) (hK0 : K0 ∉ R0.map (·.1))
    (h10 : K1 ≠ K0)
    (H : SplitHypP K K1 K0 out terms) (hτ : τ.length = out.length) :
    sumF ((K1, e1) :: (K0, e) :: R0) (summandP (splitRanks K K1 K0 out) (terms.map (splitTermP K K1 K0 g)) (splitPt K g out τ)) z =
      sumF ((K, e) :: R0) (summandP out terms τ) z := by
  simp only [sumF]
  have inner : ∀ c1 c0, sumF R0 (summandP (splitRanks K K1 K0 out) (terms.map (splitTermP K K1 K0 g)) (splitPt K g out τ))
          (upd (upd z K1 c1) K0 c0) =
        if c1 = g c0 then sumF R0 (summandP out terms τ) (upd z K c0) else 0 := by
    intro c1 c0
    by_cases hc : c1 = g c0
    · rw [if_pos hc]
      apply sumF_rel (fun f1 f2 => f1 K1 = c1 ∧ f1 K0 = c0 ∧ ∀ s, s ≠ K1 → s ≠ K0 → upd f1 K c0 s = f2 s)
      · intro r hr c f1 f2 ⟨p1, p0, ps⟩
        have hr1 : K1 ≠ r := fun e => hK1 (e ▸ hr)
        have hr0 : K0 ≠ r := fun e => hK0 (e ▸ hr)
        have hrK : r ≠ K := fun e => hK (e ▸ hr)
        refine ⟨by simp [upd, hr1, p1], by simp [upd, hr0, p0], ?_⟩
        intro s hs1 hs0
        have := ps s hs1 hs0
        by_cases hsK : s = K
        · have h2 : c0 = f2 s := by simpa [upd, hsK] using this
          simp only [upd, hsK, if_true]
          rw [if_neg (fun e => hrK e.symm), ← hsK]; exact h2
        · by_cases hsr : s = r
          · simp only [upd, hsK, hsr, if_true, if_false]
            rw [if_neg hrK]
          · simp only [upd, hsK, hsr, if_false] at this ⊢
            exact this
      · intro f1 f2 ⟨p1, p0, ps⟩
        rw [summandP_split H τ hτ f1, if_pos (by rw [p1, p0, hc]), p0]
        exact summandP_indep out terms τ H.fresh_out H.fresh _ _ ps
      · refine ⟨by simp [upd, h10], by simp [upd], ?_⟩
        intro s hs1 hs0
        by_cases hsK : s = K
        · simp [upd, hsK]
        · simp [upd, hs1, hs0, hsK]
    · rw [if_neg hc]
      refine (sumF_congr_on _ _ (fun _ => 0) _ ?_).trans (sumF_zero _ _)
      intro f hf
      have p1 : f K1 = c1 := by rw [hf K1 hK1]; simp [upd, h10]
      have p0 : f K0 = c0 := by rw [hf K0 hK0]; simp [upd]
      rw [summandP_split H τ hτ f, if_neg (by rw [p1, p0]; exact hc)]
  calc ((List.range e1).map fun c1 => ((List.range e).map fun c0 => sumF R0 _ (upd (upd z K1 c1) K0 c0)).sum).sum
      = ((List.range e1).map fun c1 => ((List.range e).map fun c0 =>
          if c1 = g c0 then sumF R0 (summandP out terms τ) (upd z K c0) else 0).sum).sum := by
        apply sum_map_congr; intro c1 _
        apply sum_map_congr; intro c0 _
        exact inner c1 c0
    _ = ((List.range e).map fun c0 => ((List.range e1).map fun c1 =>
          if c1 = g c0 then sumF R0 (summandP out terms τ) (upd z K c0) else 0).sum).sum :=
        sum_map_sum_comm _ _ _
    _ = ((List.range e).map fun c0 => sumF R0 (summandP out terms τ) (upd z K c0)).sum := by
        apply sum_map_congr; intro c0 hc0
        exact sum_range_indicator e1 (g c0) _ (hg c0 (List.mem_range.1 hc0))

/-- the core of the split argument, for any summands related by "guarded by the partition function" -/
theorem sumF_split_core (K K1 K0 : String) (g : Nat → Nat) (e e1 : Nat) (R0 : List (String × Nat))
    (F' F : (String → Nat) → Int) (z : String → Nat)
    (hg : ∀ k, k < e → g k < e1)
    (hK : K ∉ R0.map (·.1)) (hK1 : K1 ∉ R0.map (·.1)) (hK0 : K0 ∉ R0.map (·.1))
    (h10 : K1 ≠ K0)
    (hF' : ∀ f, F' f = if f K1 = g (f K0) then F (upd f K (f K0)) else 0)
    (hindep : ∀ f1 f2 : String → Nat, (∀ s, s ≠ K1 → s ≠ K0 → f1 s = f2 s) → F f1 = F f2) :
    sumF ((K1, e1) :: (K0, e) :: R0) F' z = sumF ((K, e) :: R0) F z := by
  simp only [sumF]
  have inner : ∀ c1 c0, sumF R0 F'
          (upd (upd z K1 c1) K0 c0) =
        if c1 = g c0 then sumF R0 F (upd z K c0) else 0 := by
    intro c1 c0
    by_cases hc : c1 = g c0
    · rw [if_pos hc]
      apply sumF_rel (fun f1 f2 => f1 K1 = c1 ∧ f1 K0 = c0 ∧ ∀ s, s ≠ K1 → s ≠ K0 → upd f1 K c0 s = f2 s)
      · intro r hr c f1 f2 ⟨p1, p0, ps⟩
        have hr1 : K1 ≠ r := fun e => hK1 (e ▸ hr)
        have hr0 : K0 ≠ r := fun e => hK0 (e ▸ hr)
        have hrK : r ≠ K := fun e => hK (e ▸ hr)
        refine ⟨by simp [upd, hr1, p1], by simp [upd, hr0, p0], ?_⟩
        intro s hs1 hs0
        have := ps s hs1 hs0
        by_cases hsK : s = K
        · have h2 : c0 = f2 s := by simpa [upd, hsK] using this
          simp only [upd, hsK, if_true]
          rw [if_neg (fun e => hrK e.symm), ← hsK]; exact h2
        · by_cases hsr : s = r
          · simp only [upd, hsK, hsr, if_true, if_false]
            rw [if_neg hrK]
          · simp only [upd, hsK, hsr, if_false] at this ⊢
            exact this
      · intro f1 f2 ⟨p1, p0, ps⟩
        rw [hF' f1, if_pos (by rw [p1, p0, hc]), p0]
        exact hindep _ _ ps
      · refine ⟨by simp [upd, h10], by simp [upd], ?_⟩
        intro s hs1 hs0
        by_cases hsK : s = K
        · simp [upd, hsK]
        · simp [upd, hs1, hs0, hsK]
    · rw [if_neg hc]
      refine (sumF_congr_on _ _ (fun _ => 0) _ ?_).trans (sumF_zero _ _)
      intro f hf
      have p1 : f K1 = c1 := by rw [hf K1 hK1]; simp [upd, h10]
      have p0 : f K0 = c0 := by rw [hf K0 hK0]; simp [upd]
      rw [hF' f, if_neg (by rw [p1, p0]; exact hc)]
  calc ((List.range e1).map fun c1 => ((List.range e).map fun c0 => sumF R0 _ (upd (upd z K1 c1) K0 c0)).sum).sum
      = ((List.range e1).map fun c1 => ((List.range e).map fun c0 =>
          if c1 = g c0 then sumF R0 F (upd z K c0) else 0).sum).sum := by
        apply sum_map_congr; intro c1 _
        apply sum_map_congr; intro c0 _
        exact inner c1 c0
    _ = ((List.range e).map fun c0 => ((List.range e1).map fun c1 =>
          if c1 = g c0 then sumF R0 F (upd z K c0) else 0).sum).sum :=
        sum_map_sum_comm _ _ _
    _ = ((List.range e).map fun c0 => sumF R0 F (upd z K c0)).sum := by
        apply sum_map_congr; intro c0 hc0
        exact sum_range_indicator e1 (g c0) _ (hg c0 (List.mem_range.1 hc0))


def renameRanks (K K0 : String) (out : List String) : List String := out.map fun r => if r = K then K0 else r

theorem map_rename (K K0 : String) (f : String → Nat) (out : List String) :
    (renameRanks K K0 out).map f = out.map (upd f K (f K0)) := by
  unfold renameRanks
  rw [List.map_map]
  apply List.map_congr_left
  intro r _
  by_cases h : r = K <;> simp [upd, h]

/-- the split Einsum with the upper coordinate of a partitioned OUTPUT rank not recorded (what is left after the footer's
    `mergeRanks`): guarded original summand -/
theorem summandP_split_merged {K K1 K0 : String} {g : Nat → Nat} {out : List String} {terms : List TermP}
    (H : SplitHypP K K1 K0 out terms) (hcov : ∀ t ∈ terms, ∃ a ∈ t.accs, K ∈ a.ranks) (τ : List Nat) (f : String → Nat) :
    summandP (renameRanks K K0 out) (terms.map (splitTermP K K1 K0 g)) τ f =
      if f K1 = g (f K0) then summandP out terms τ (upd f K (f K0)) else 0 := by
  unfold summandP
  rw [map_rename]
  by_cases hi : f K1 = g (f K0)
  · rw [if_pos hi]
    have hsum : ((terms.map (splitTermP K K1 K0 g)).map (termValP f)).sum = (terms.map (termValP (upd f K (f K0)))).sum := by
      rw [List.map_map]
      congr 1
      apply List.map_congr_left
      intro t ht
      simp only [Function.comp, termValP, splitTermP, List.map_map]
      congr 1
      apply List.map_congr_left
      intro a ha
      simp only [Function.comp]
      rw [accessValP_split K K1 K0 g f a (H.arity t ht a ha), if_pos (fun _ => hi)]
    rw [hsum]
  · rw [if_neg hi]
    have hsum : ((terms.map (splitTermP K K1 K0 g)).map (termValP f)).sum = 0 := by
      rw [List.map_map]
      apply sum_map_zero
      intro t ht
      obtain ⟨a, ha, hKa⟩ := hcov t ht
      simp only [Function.comp, termValP, splitTermP]
      apply comb_zero_of_mem
      simp only [List.map_map, List.mem_map]
      refine ⟨a, ha, ?_⟩
      simp only [Function.comp]
      rw [accessValP_split K K1 K0 g f a (H.arity t ht a ha), if_neg (fun h => hi (h hKa))]
    rw [hsum]; simp

/-- **splitting a rank, the upper output coordinate merged away**: holds whether or not `K` is an output rank -/
theorem sumF_splitP_merged (K K1 K0 : String) (g : Nat → Nat) (e e1 : Nat) (R0 : List (String × Nat))
    (out : List String) (terms : List TermP) (τ : List Nat) (z : String → Nat)
    (hg : ∀ k, k < e → g k < e1)
    (hK : K ∉ R0.map (·.1)) (hK1 : K1 ∉ R0.map (·.1)) (hK0 : K0 ∉ R0.map (·.1))
    (h10 : K1 ≠ K0)
    (H : SplitHypP K K1 K0 out terms) (hcov : ∀ t ∈ terms, ∃ a ∈ t.accs, K ∈ a.ranks) :
    sumF ((K1, e1) :: (K0, e) :: R0) (summandP (renameRanks K K0 out) (terms.map (splitTermP K K1 K0 g)) τ) z =
      sumF ((K, e) :: R0) (summandP out terms τ) z :=
  sumF_split_core K K1 K0 g e e1 R0 _ _ z hg hK hK1 hK0 h10 (summandP_split_merged H hcov τ)
    (fun f1 f2 h => summandP_indep out terms τ H.fresh_out H.fresh f1 f2 h)

end Nest
