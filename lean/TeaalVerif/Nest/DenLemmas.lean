import TeaalVerif.Nest.Den
import TeaalVerif.Nest.Lemmas
/-!
# Lemmas on iterated sums over assignments (`sumF`)
-/
namespace Nest

theorem sum_map_add {α : Type} (l : List α) (f g : α → Int) :
    (l.map fun x => f x + g x).sum = (l.map f).sum + (l.map g).sum := by
  induction l with
  | nil => rfl
  | cons a as ih => simp only [List.map_cons, List.sum_cons, ih]; omega

theorem sum_map_congr {α : Type} (l : List α) (f g : α → Int) (h : ∀ x ∈ l, f x = g x) :
    (l.map f).sum = (l.map g).sum := by
  congr 1; exact List.map_congr_left h

theorem sum_map_const_zero {α : Type} (l : List α) : (l.map fun _ => (0 : Int)).sum = 0 := by
  induction l with
  | nil => rfl
  | cons a as ih => simp [ih]

/-- interchange of two finite sums -/
theorem sum_map_sum_comm {α β : Type} (l1 : List α) (l2 : List β) (G : α → β → Int) :
    (l1.map fun a => (l2.map fun b => G a b).sum).sum = (l2.map fun b => (l1.map fun a => G a b).sum).sum := by
  induction l1 with
  | nil => simp [sum_map_const_zero]
  | cons a as ih =>
    simp only [List.map_cons, List.sum_cons, ih]
    rw [← sum_map_add]

theorem sum_map_mul_left {α : Type} (l : List α) (k : Int) (f : α → Int) :
    (l.map fun x => k * f x).sum = k * (l.map f).sum := by
  induction l with
  | nil => simp
  | cons a as ih => simp only [List.map_cons, List.sum_cons, ih, Int.mul_add]

theorem upd_comm (f : String → Nat) (r1 r2 : String) (c1 c2 : Nat) (h : r1 ≠ r2) :
    upd (upd f r1 c1) r2 c2 = upd (upd f r2 c2) r1 c1 := by
  funext s
  simp only [upd]
  by_cases h1 : s = r1
  · by_cases h2 : s = r2
    · exact absurd (h1.symm.trans h2) h
    · subst h1; simp [h2]
  · by_cases h2 : s = r2
    · subst h2; simp [h1]
    · simp [h1, h2]

theorem sumF_congr (R : List (String × Nat)) (F G : (String → Nat) → Int) (h : ∀ f, F f = G f) (f : String → Nat) :
    sumF R F f = sumF R G f := by
  induction R generalizing f with
  | nil => exact h f
  | cons p R ih =>
    obtain ⟨r, e⟩ := p
    simp only [sumF]
    exact sum_map_congr _ _ _ (fun c _ => ih _)

theorem sumF_zero (R : List (String × Nat)) (f : String → Nat) : sumF R (fun _ => 0) f = 0 := by
  induction R generalizing f with
  | nil => rfl
  | cons p R ih =>
    obtain ⟨r, e⟩ := p
    simp only [sumF, ih, sum_map_const_zero]

theorem sumF_add (R : List (String × Nat)) (F G : (String → Nat) → Int) (f : String → Nat) :
    sumF R (fun f => F f + G f) f = sumF R F f + sumF R G f := by
  induction R generalizing f with
  | nil => rfl
  | cons p R ih =>
    obtain ⟨r, e⟩ := p
    simp only [sumF, ih, sum_map_add]

/-- **the enumeration order of the assignments does not matter** -/
theorem sumF_perm {R R' : List (String × Nat)} (hp : R.Perm R') (F : (String → Nat) → Int) :
    (R.map (·.1)).Nodup → ∀ f, sumF R F f = sumF R' F f := by
  induction hp with
  | nil => intro _ f; rfl
  | cons p _ ih =>
    obtain ⟨r, e⟩ := p
    intro hnd f
    simp only [sumF]
    exact sum_map_congr _ _ _ (fun c _ => ih (List.nodup_cons.1 hnd).2 _)
  | swap p q R =>
    obtain ⟨r1, e1⟩ := p
    obtain ⟨r2, e2⟩ := q
    intro hnd f
    have hne : r2 ≠ r1 := by
      intro h
      simp [h] at hnd
    simp only [sumF]
    rw [sum_map_sum_comm]
    apply sum_map_congr; intro c1 _
    apply sum_map_congr; intro c2 _
    rw [upd_comm f r2 r1 c2 c1 hne]
  | trans h1 _ ih1 ih2 =>
    intro hnd f
    rw [ih1 hnd f]
    exact ih2 ((h1.map (·.1)).nodup_iff.1 hnd) f

end Nest

namespace Nest

/-- `sumF` only looks at `F` on the assignments that extend `g` on the ranks of `R` -/
theorem sumF_congr_on (R : List (String × Nat)) (F G : (String → Nat) → Int) (g : String → Nat)
    (h : ∀ f, (∀ s, s ∉ R.map (·.1) → f s = g s) → F f = G f) : sumF R F g = sumF R G g := by
  induction R generalizing g with
  | nil => exact h g (fun _ _ => rfl)
  | cons p R ih =>
    obtain ⟨r, e⟩ := p
    simp only [sumF]
    apply sum_map_congr; intro c _
    apply ih
    intro f hf
    apply h
    intro s hs
    have hs' : s ∉ R.map (·.1) := fun hm => hs (by simp only [List.map_cons, List.mem_cons]; exact Or.inr hm)
    have hsr : s ≠ r := fun he => hs (by simp [he])
    rw [hf s hs']
    simp [upd, hsr]

theorem sumAt_slice (c : Nat) (τ : List Nat) (t : Pts) : sumAt τ (slice c t) = sumAt (c :: τ) t := by
  induction t with
  | nil => rfl
  | cons p ps ih =>
    obtain ⟨cs, v⟩ := p
    cases cs with
    | nil =>
      have h1 : slice c (([], v) :: ps) = slice c ps := by simp [slice]
      have h2 : sumAt (c :: τ) (([], v) :: ps) = sumAt (c :: τ) ps := by simp [sumAt, List.filter_cons]
      rw [h1, h2, ih]
    | cons h tl =>
      by_cases hc : h = c
      · subst hc
        have h1 : slice h ((h :: tl, v) :: ps) = (tl, v) :: slice h ps := by simp [slice]
        rw [h1]
        by_cases ht : tl = τ
        · subst ht
          have : sumAt (h :: tl) ((h :: tl, v) :: ps) = v + sumAt (h :: tl) ps := by simp [sumAt, List.filter_cons]
          rw [this, ← ih]
          simp [sumAt, List.filter_cons]
        · have h3 : sumAt (h :: τ) ((h :: tl, v) :: ps) = sumAt (h :: τ) ps := by simp [sumAt, List.filter_cons, ht]
          rw [h3, ← ih]
          simp [sumAt, List.filter_cons, ht]
      · have h1 : slice c ((h :: tl, v) :: ps) = slice c ps := by simp [slice, hc]
        have h2 : sumAt (c :: τ) ((h :: tl, v) :: ps) = sumAt (c :: τ) ps := by simp [sumAt, List.filter_cons, hc]
        rw [h1, h2, ih]

theorem leaf_eq_sumAt (t : Pts) : leaf t = sumAt [] t := by
  induction t with
  | nil => rfl
  | cons p ps ih =>
    obtain ⟨cs, v⟩ := p
    cases cs with
    | nil =>
      have : leaf (([], v) :: ps) = v + leaf ps := by simp [leaf, List.filterMap_cons]
      rw [this, ih]; simp [sumAt, List.filter_cons]
    | cons h tl =>
      have : leaf ((h :: tl, v) :: ps) = leaf ps := by simp [leaf, List.filterMap_cons]
      rw [this, ih]; simp [sumAt, List.filter_cons]

theorem prodLeaves_eq (ops : List Operand) : prodLeaves ops = prodI (ops.map fun o => leaf o.pts) := by
  induction ops with
  | nil => rfl
  | cons o os ih => simp [prodLeaves, prodI, ih]

theorem mathVal_eq_comb (st : TermSt) : mathVal st = comb st.kind st.scal (st.ops.map fun o => leaf o.pts) := by
  unfold mathVal comb
  cases st.kind with
  | times => simp [prodLeaves_eq]
  | take sel =>
    simp only [List.all_map, Function.comp_def, List.getElem?_map]
    cases st.ops[sel]? <;> rfl

/-! ### re-ordering coordinates between two orders of the same ranks -/

theorem coord_eq_iff (f : String → Nat) : ∀ (src : List String) (cs : List Nat), src.Nodup → cs.length = src.length →
    ((∀ r ∈ src, cs.getD (src.idxOf r) 0 = f r) ↔ cs = src.map f)
  | [], cs, _, hl => by
    have : cs = [] := List.length_eq_zero_iff.1 (by simpa using hl)
    simp [this]
  | a :: src, [], _, hl => by simp at hl
  | a :: src, c :: cs, hnd, hl => by
    have hnd' := List.nodup_cons.1 hnd
    have ih := coord_eq_iff f src cs hnd'.2 (by simpa using hl)
    constructor
    · intro h
      have h0 : c = f a := by simpa using h a (by simp)
      have : ∀ r ∈ src, cs.getD (src.idxOf r) 0 = f r := by
        intro r hr
        have hra : a ≠ r := fun e => hnd'.1 (e ▸ hr)
        have hb : (a == r) = false := by simp [hra]
        have := h r (by simp [hr])
        simpa [List.idxOf_cons, hb] using this
      rw [h0, ih.1 this]; rfl
    · intro h r hr
      simp only [List.map_cons, List.cons.injEq] at h
      by_cases hra : a = r
      · subst hra; simp [h.1]
      · have hr' : r ∈ src := by
          rcases List.mem_cons.1 hr with e | e
          · exact absurd e.symm hra
          · exact e
        have hb : (a == r) = false := by simp [hra]
        have := ih.2 h.2 r hr'
        simpa [List.idxOf_cons, hb] using this

theorem reorder_eq_iff (f : String → Nat) (src dst : List String) (cs : List Nat) (hnd : src.Nodup)
    (h1 : ∀ r ∈ src, r ∈ dst) (h2 : ∀ r ∈ dst, r ∈ src) (hl : cs.length = src.length) :
    reorder src dst cs = dst.map f ↔ cs = src.map f := by
  rw [← coord_eq_iff f src cs hnd hl]
  unfold reorder
  constructor
  · intro h r hr
    exact List.map_inj_left.1 h r (h1 r hr)
  · intro h
    exact List.map_inj_left.2 (fun r hr => h r (h2 r hr))

theorem mem_concord {loop ranks : List String} {r : String} : r ∈ concord loop ranks ↔ r ∈ loop ∧ r ∈ ranks := by
  simp [concord, List.mem_filter]

theorem sumAt_cons (τ cs : List Nat) (v : Int) (ps : Pts) :
    sumAt τ ((cs, v) :: ps) = (if cs = τ then v else 0) + sumAt τ ps := by
  by_cases h : cs = τ <;> simp [sumAt, List.filter_cons, h]

/-- points re-ordered into the concordant order denote the same tensor -/
theorem sumAt_reorder (f : String → Nat) (src dst : List String) (P : Pts) (hnd : src.Nodup)
    (h1 : ∀ r ∈ src, r ∈ dst) (h2 : ∀ r ∈ dst, r ∈ src) (har : ∀ p ∈ P, p.1.length = src.length) :
    sumAt (dst.map f) (P.map fun (cs, v) => (reorder src dst cs, v)) = sumAt (src.map f) P := by
  induction P with
  | nil => rfl
  | cons p ps ih =>
    obtain ⟨cs, v⟩ := p
    have ih' := ih (fun p hp => har p (by simp [hp]))
    have hiff := reorder_eq_iff f src dst cs hnd h1 h2 (har (cs, v) (by simp))
    simp only [List.map_cons]
    rw [sumAt_cons, sumAt_cons, ih']
    by_cases hc : cs = src.map f
    · rw [if_pos hc, if_pos (hiff.2 hc)]
    · rw [if_neg hc, if_neg (fun e => hc (hiff.1 e))]

end Nest
