import TeaalVerif.Nest.Sem
import TeaalVerif.HF.Scope
/-!
# Model compiler for unpartitioned Einsums: specification ↦ loop nest   (C01)

From the Einsum, the loop order and the extents alone (no part of the real compiler's output is used):
every tensor operand is brought into the order *concordant* with the loop order (that is what the
emitted `swizzleRanks` calls do), its schedule says at which loops its next rank comes up, the output
takes part in the loops of its own ranks.

`expectedLoops` is the syntactic skeleton the emitted program must show: per loop, the loop variable and
the fiber variables co-iterated (`a_k`, …, the output's `z_m`), compared with the real tree.
-/
namespace Nest

structure TensorS where
  name : String
  ranks : List String          -- ranks of the access, in the order of the supplied points
  deriving Repr

structure TermS where
  kind : Kind
  scal : Int
  tensors : List TensorS
  deriving Repr

structure EinsumS where
  loop : List String
  exts : List Nat              -- extent of each loop rank
  outName : String
  outRanks : List String       -- in the order of the requested result points
  terms : List TermS
  deriving Repr

def schedOf (loop ranks : List String) : List Bool := loop.map fun r => ranks.contains r

def concord (loop ranks : List String) : List String := loop.filter fun r => ranks.contains r

/-- coordinates of a point re-ordered from the rank order `src` to the rank order `dst` -/
def reorder (src dst : List String) (cs : List Nat) : List Nat :=
  dst.map fun r => cs.getD (src.idxOf r) 0

def levels (S : EinsumS) : List (Bool × Nat) :=
  (S.loop.zip S.exts).map fun (r, e) => (S.outRanks.contains r, e)

def initOperand (loop : List String) (t : TensorS) (pts : Pts) : Operand :=
  { sched := schedOf loop t.ranks, pts := pts.map fun (cs, v) => (reorder t.ranks (concord loop t.ranks) cs, v) }

def initTerms (S : EinsumS) (env : String → Pts) : List TermSt :=
  S.terms.map fun t => { kind := t.kind, scal := t.scal, ops := t.tensors.map fun x => initOperand S.loop x (env x.name) }

/-- all terms range over the same ranks (`Equation.__build_einsum_ranks`' check, as sets) -/
def EinsumS.WF (S : EinsumS) : Prop :=
  ∀ t ∈ S.terms, ∀ t' ∈ S.terms, ∀ r ∈ S.loop,
    (t.tensors.any fun x => x.ranks.contains r) = (t'.tensors.any fun x => x.ranks.contains r)

instance (S : EinsumS) : Decidable S.WF := by unfold EinsumS.WF; infer_instance

/-- the result as a finite map in the requested rank order, zeros dropped -/
def collect (S : EinsumS) (contribs : List (List Nat × Int)) : List (List Nat × Int) :=
  let keys := (contribs.map (·.1)).eraseDups
  let outL := concord S.loop S.outRanks
  (keys.map fun k => (reorder outL S.outRanks k, sumAt k contribs)).filter fun p => p.2 != 0

/-- the skeleton of the emitted nest: per loop the loop variable and the co-iterated fiber variables -/
def expectedLoops (S : EinsumS) : List (String × List String) :=
  let rec go : List String → List (String × List String)
    | [] => []
    | r :: rest =>
      let fibers := S.terms.flatMap fun t => t.tensors.filterMap fun x =>
        if x.ranks.contains r then some (x.name.toLower ++ "_" ++ r.toLower) else none
      let out := if S.outRanks.contains r then [S.outName.toLower ++ "_" ++ r.toLower] else []
      (r.toLower, (out ++ fibers).eraseDups) :: go rest
  go S.loop

end Nest

namespace HF
open Nest

/-- the iteration expression without the observer wrappers: `enumerate(e)` is `e` (the position only feeds the display) -/
def stripEnumerate : Expr → Expr × Bool
  | .func "enumerate" _ [e] => (e, true)
  | e => (e, false)

/-- names in an iteration expression that are API names, not fibers -/
def apiNames : List String := ["enumerate", "Fiber"]

/-- loop headers of an emitted program, outermost first: loop variable and the fiber variables read by the iteration
    expression.  Observer forms are read through: `for (k_pos, (k, P)) in enumerate(e)` is the loop `for (k, P) in e`, and
    `Fiber.intersection(l, f, ..., style="leader-follower")` reads the same fibers as `l & f & ...` (co-iteration does not depend
    on the order of the operands: `C11.coiterT_perm`). -/
partial def loopSkeleton : Stmt → List (String × List String)
  | .block ss => ss.flatMap loopSkeleton
  | .for_ p e b =>
    let (e', enum) := stripEnumerate e
    let p' := match enum, p with
      | true, .tuple [_, q] => q
      | _, q => q
    let v := match p' with
      | .tuple (.var x :: _) => x
      | .tuple (.tuple vs :: _) => String.join (vs.map fun
          | .var x => x
          | _ => "?")
      | .var x => x
      | _ => "?"
    (v, (e'.reads.filter fun x => !apiNames.contains x).eraseDups) :: loopSkeleton b
  | _ => []

end HF
