import TeaalVerif.Nest.Sem
/-! Helper lemmas for the loop-nest theorem (Props/C01.lean). -/
namespace Nest

/-! ### dedup / heads / slice -/

theorem mem_dedup {a : Nat} {l : List Nat} : a ∈ dedup l ↔ a ∈ l := by
  induction l with
  | nil => simp [dedup]
  | cons b bs ih =>
    simp only [dedup]
    split
    · rename_i h
      simp only [ih, List.mem_cons]
      constructor
      · exact Or.inr
      · rintro (rfl | h') <;> assumption
    · simp [ih]

theorem nodup_dedup (l : List Nat) : (dedup l).Nodup := by
  induction l with
  | nil => simp [dedup]
  | cons b bs ih =>
    simp only [dedup]
    split
    · exact ih
    · rename_i h
      exact List.nodup_cons.2 ⟨fun hm => h (mem_dedup.1 hm), ih⟩

theorem mem_heads {c : Nat} {t : Pts} : c ∈ heads t ↔ ∃ tl v, (c :: tl, v) ∈ t := by
  simp only [heads, mem_dedup, List.mem_filterMap]
  constructor
  · rintro ⟨⟨cs, v⟩, hm, hh⟩
    cases cs with
    | nil => simp at hh
    | cons hd tl => simp at hh; subst hh; exact ⟨tl, v, hm⟩
  · rintro ⟨tl, v, hm⟩
    exact ⟨(c :: tl, v), hm, by simp⟩

theorem heads_nodup (t : Pts) : (heads t).Nodup := nodup_dedup _

theorem mem_slice {c : Nat} {t : Pts} {tl : List Nat} {v : Int} : (tl, v) ∈ slice c t ↔ (c :: tl, v) ∈ t := by
  simp only [slice, List.mem_filterMap]
  constructor
  · rintro ⟨⟨cs, w⟩, hm, hq⟩
    cases cs with
    | nil => simp at hq
    | cons hd tl' =>
      simp only at hq
      split at hq
      · rename_i he
        simp only [Option.some.injEq, Prod.mk.injEq] at hq
        obtain ⟨rfl, rfl⟩ := hq
        subst he
        exact hm
      · simp at hq
  · intro hm
    exact ⟨(c :: tl, v), hm, by simp⟩

theorem slice_eq_nil {c : Nat} {t : Pts} (h : c ∉ heads t) : slice c t = [] := by
  cases hs : slice c t with
  | nil => rfl
  | cons p ps =>
    exfalso
    obtain ⟨tl, v⟩ := p
    have : (tl, v) ∈ slice c t := by rw [hs]; simp
    exact h (mem_heads.2 ⟨tl, v, mem_slice.1 this⟩)

theorem slice_ne_nil {c : Nat} {t : Pts} (h : c ∈ heads t) : slice c t ≠ [] := by
  obtain ⟨tl, v, hm⟩ := mem_heads.1 h
  intro hs
  have : (tl, v) ∈ slice c t := mem_slice.2 hm
  rw [hs] at this
  simp at this

theorem slice_nil (c : Nat) : slice c [] = [] := rfl

theorem leaf_nil : leaf [] = 0 := rfl

def Bounded (N : Nat) (t : Pts) : Prop := ∀ p ∈ t, ∀ c ∈ p.1, c < N

theorem slice_bounded {N c : Nat} {t : Pts} (h : Bounded N t) : Bounded N (slice c t) := by
  intro p hp x hx
  obtain ⟨tl, v⟩ := p
  exact h _ (mem_slice.1 hp) x (by simp [hx])

theorem heads_lt {N c : Nat} {t : Pts} (h : Bounded N t) (hc : c ∈ heads t) : c < N := by
  obtain ⟨tl, v, hm⟩ := mem_heads.1 hc
  exact h _ hm c (by simp)

/-! ### sums -/

theorem sum_map_zero {α : Type} (l : List α) (f : α → Int) (h : ∀ c ∈ l, f c = 0) : (l.map f).sum = 0 := by
  induction l with
  | nil => simp
  | cons a as ih =>
    simp only [List.map_cons, List.sum_cons]
    rw [h a (by simp), ih (fun c hc => h c (by simp [hc]))]; simp

/-- sum over a range = sum over a duplicate-free list covering the support -/
theorem sum_range_eq_sum_list (N : Nat) (f : Nat → Int) (cs : List Nat) (hnd : cs.Nodup)
    (hlt : ∀ c ∈ cs, c < N) (hz : ∀ c, c < N → c ∉ cs → f c = 0) :
    ((List.range N).map f).sum = (cs.map f).sum := by
  induction cs generalizing f with
  | nil =>
    simp only [List.map_nil, List.sum_nil]
    exact sum_map_zero _ _ (fun c hc => hz c (List.mem_range.1 hc) (by simp))
  | cons a as ih =>
    have hnd' := List.nodup_cons.1 hnd
    let g : Nat → Int := fun c => if c = a then 0 else f c
    have hg : ((List.range N).map g).sum = (as.map g).sum := by
      apply ih g hnd'.2 (fun c hc => hlt c (by simp [hc]))
      intro c hcN hc
      by_cases hca : c = a
      · simp [g, hca]
      · simp only [g, hca, if_false]
        exact hz c hcN (by simp [hca, hc])
    have hasg : (as.map g).sum = (as.map f).sum := by
      congr 1
      apply List.map_congr_left
      intro c hc
      have : c ≠ a := fun h => hnd'.1 (h ▸ hc)
      simp [g, this]
    have hsplit : ∀ M, a < M → ((List.range M).map f).sum = ((List.range M).map g).sum + f a := by
      intro M
      induction M with
      | zero => intro h; omega
      | succ n ihn =>
        intro h
        rw [List.range_succ]
        simp only [List.map_append, List.sum_append, List.map_cons, List.map_nil, List.sum_cons, List.sum_nil, Int.add_zero]
        by_cases hna : n = a
        · subst hna
          have : ((List.range n).map f).sum = ((List.range n).map g).sum := by
            congr 1
            apply List.map_congr_left
            intro c hc
            have : c ≠ n := by have := List.mem_range.1 hc; omega
            simp [g, this]
          simp [g, this]
        · rw [ihn (by omega)]
          simp [g, hna]; omega
    rw [hsplit N (hlt a (by simp)), hg, hasg]
    simp; omega

theorem sumAt_nil (σ : List Nat) : sumAt σ [] = 0 := rfl

theorem sumAt_append (σ : List Nat) (a b : List (List Nat × Int)) : sumAt σ (a ++ b) = sumAt σ a + sumAt σ b := by
  simp [sumAt, List.filter_append, List.map_append, List.sum_append]

theorem sumAt_flatMap {α : Type} (σ : List Nat) (cs : List α) (g : α → List (List Nat × Int)) :
    sumAt σ (cs.flatMap g) = (cs.map fun c => sumAt σ (g c)).sum := by
  induction cs with
  | nil => rfl
  | cons c cs ih => simp [List.flatMap_cons, sumAt_append, ih]

/-- contributions tagged with the loop coordinate -/
theorem sumAt_map_tag_out (c : Nat) (l : List (List Nat × Int)) (σ : List Nat) :
    sumAt σ (l.map (tag true c)) = match σ with
      | [] => 0
      | c' :: σ' => if c' = c then sumAt σ' l else 0 := by
  induction l with
  | nil => cases σ with
    | nil => rfl
    | cons c' σ' => by_cases h : c' = c <;> simp [h, sumAt]
  | cons p ps ih =>
    cases σ with
    | nil =>
      simp only [List.map_cons] at *
      have : sumAt [] (tag true c p :: ps.map (tag true c)) = sumAt [] (ps.map (tag true c)) := by
        simp [sumAt, tag, List.filter_cons]
      rw [this, ih]
    | cons c' σ' =>
      simp only [List.map_cons] at *
      by_cases h : c' = c
      · subst h
        simp only [if_true] at ih ⊢
        by_cases hp : p.1 = σ'
        · simp [sumAt, tag, List.filter_cons, hp] at ih ⊢
          omega
        · have hp' : ¬ (c' :: p.1 = c' :: σ') := by simpa using hp
          simp [sumAt, tag, List.filter_cons, hp, hp'] at ih ⊢
          exact ih
      · simp only [h, if_false] at ih ⊢
        have : ¬ (c :: p.1 = c' :: σ') := by
          intro e; simp at e; exact h e.1.symm
        simp [sumAt, tag, List.filter_cons, this] at ih ⊢
        exact ih

theorem sumAt_map_tag_in (c : Nat) (l : List (List Nat × Int)) (σ : List Nat) :
    sumAt σ (l.map (tag false c)) = sumAt σ l := by
  induction l with
  | nil => rfl
  | cons p ps ih =>
    simp only [sumAt, List.map_cons, tag, Bool.false_eq_true, if_false, List.filter_cons] at ih ⊢
    split <;> simp_all

/-! ### co-iteration -/

def hasActive (ops : List Operand) : Bool := ops.any Operand.active

theorem coiterT_none_iff : ∀ ops : List Operand, coiterT ops = none ↔ hasActive ops = false
  | [] => by simp [coiterT, hasActive]
  | o :: os => by
    have ih := coiterT_none_iff os
    simp only [coiterT, hasActive, List.any_cons, Bool.or_eq_false_iff]
    cases h : coiterT os with
    | none =>
      have := ih.1 h
      simp only [hasActive] at this
      cases ha : o.active <;> simp [this]
    | some cs =>
      have : hasActive os ≠ false := fun e => by rw [ih.2 e] at h; cases h
      simp only [hasActive] at this
      cases ha : o.active <;> simp [this]

theorem coiterT_spec : ∀ (ops : List Operand) (cs : List Nat), coiterT ops = some cs →
    cs.Nodup ∧ (∀ c ∈ cs, ∀ o ∈ ops, o.active = true → c ∈ heads o.pts) ∧
    (∀ c, c ∉ cs → ∃ o ∈ ops, o.active = true ∧ c ∉ heads o.pts)
  | [], cs, h => by simp [coiterT] at h
  | o :: os, cs, h => by
    simp only [coiterT] at h
    cases hrec : coiterT os with
    | none =>
      rw [hrec] at h
      have hno := (coiterT_none_iff os).1 hrec
      cases ha : o.active with
      | false => simp [ha] at h
      | true =>
        simp only [ha, if_true, Option.some.injEq] at h
        subst h
        refine ⟨heads_nodup _, ?_, ?_⟩
        · intro c hc o' ho' hact
          rcases List.mem_cons.1 ho' with rfl | ho'
          · exact hc
          · exfalso
            simp only [hasActive, List.any_eq_false] at hno
            exact hno o' ho' hact
        · intro c hc
          exact ⟨o, by simp, ha, hc⟩
    | some cs' =>
      rw [hrec] at h
      obtain ⟨hnd, hsound, hcompl⟩ := coiterT_spec os cs' hrec
      cases ha : o.active with
      | false =>
        simp only [ha, Bool.false_eq_true, if_false, Option.some.injEq] at h
        subst h
        refine ⟨hnd, ?_, ?_⟩
        · intro c hc o' ho' hact
          rcases List.mem_cons.1 ho' with rfl | ho'
          · rw [ha] at hact; cases hact
          · exact hsound c hc o' ho' hact
        · intro c hc
          obtain ⟨o', ho', hact, hn⟩ := hcompl c hc
          exact ⟨o', List.mem_cons_of_mem _ ho', hact, hn⟩
      | true =>
        simp only [ha, if_true, Option.some.injEq] at h
        subst h
        refine ⟨hnd.filter _, ?_, ?_⟩
        · intro c hc o' ho' hact
          simp only [List.mem_filter, decide_eq_true_eq] at hc
          rcases List.mem_cons.1 ho' with rfl | ho'
          · exact hc.2
          · exact hsound c hc.1 o' ho' hact
        · intro c hc
          simp only [List.mem_filter, decide_eq_true_eq, not_and] at hc
          by_cases hcs : c ∈ cs'
          · exact ⟨o, by simp, ha, hc hcs⟩
          · obtain ⟨o', ho', hact, hn⟩ := hcompl c hcs
            exact ⟨o', List.mem_cons_of_mem _ ho', hact, hn⟩

theorem coiterAll_none_iff : ∀ sts : List TermSt, coiterAll sts = none ↔ ∀ st ∈ sts, coiterT st.ops = none
  | [] => by simp [coiterAll]
  | st :: sts => by
    have ih := coiterAll_none_iff sts
    simp only [coiterAll, List.mem_cons, forall_eq_or_imp]
    cases h1 : coiterT st.ops with
    | none => simp [ih]
    | some a =>
      cases h2 : coiterAll sts <;> simp

theorem coiterAll_spec : ∀ (sts : List TermSt) (cs : List Nat), coiterAll sts = some cs →
    cs.Nodup ∧ (∀ c ∈ cs, ∃ st ∈ sts, ∃ cs', coiterT st.ops = some cs' ∧ c ∈ cs') ∧
    (∀ c, c ∉ cs → ∀ st ∈ sts, ∀ cs', coiterT st.ops = some cs' → c ∉ cs')
  | [], cs, h => by simp [coiterAll] at h
  | st :: sts, cs, h => by
    simp only [coiterAll] at h
    cases h1 : coiterT st.ops with
    | none =>
      rw [h1] at h
      simp only at h
      obtain ⟨hnd, hs, hc⟩ := coiterAll_spec sts cs h
      refine ⟨hnd, ?_, ?_⟩
      · intro c hcm
        obtain ⟨st', hst', cs', h', hm⟩ := hs c hcm
        exact ⟨st', List.mem_cons_of_mem _ hst', cs', h', hm⟩
      · intro c hcm st' hst' cs' h'
        rcases List.mem_cons.1 hst' with rfl | hst'
        · rw [h1] at h'; cases h'
        · exact hc c hcm st' hst' cs' h'
    | some a =>
      rw [h1] at h
      cases h2 : coiterAll sts with
      | none =>
        rw [h2] at h
        simp only [Option.some.injEq] at h
        subst h
        have hno := (coiterAll_none_iff sts).1 h2
        obtain ⟨hnd, _, _⟩ := coiterT_spec st.ops a h1
        refine ⟨hnd, ?_, ?_⟩
        · intro c hcm
          exact ⟨st, by simp, a, h1, hcm⟩
        · intro c hcm st' hst' cs' h'
          rcases List.mem_cons.1 hst' with rfl | hst'
          · rw [h1] at h'; cases h'; exact hcm
          · rw [hno st' hst'] at h'; cases h'
      | some b =>
        rw [h2] at h
        simp only [Option.some.injEq] at h
        subst h
        obtain ⟨_, hs, hc⟩ := coiterAll_spec sts b h2
        refine ⟨nodup_dedup _, ?_, ?_⟩
        · intro c hcm
          rcases List.mem_append.1 (mem_dedup.1 hcm) with hm | hm
          · exact ⟨st, by simp, a, h1, hm⟩
          · obtain ⟨st', hst', cs', h', hm'⟩ := hs c hm
            exact ⟨st', List.mem_cons_of_mem _ hst', cs', h', hm'⟩
        · intro c hcm st' hst' cs' h'
          have hna : c ∉ a := fun hm => hcm (mem_dedup.2 (List.mem_append_left _ hm))
          have hnb : c ∉ b := fun hm => hcm (mem_dedup.2 (List.mem_append_right _ hm))
          rcases List.mem_cons.1 hst' with rfl | hst'
          · rw [h1] at h'; cases h'; exact hna
          · exact hc c hnb st' hst' cs' h'

/-! ### dead terms contribute nothing -/

def Dead (st : TermSt) : Prop := ∃ o ∈ st.ops, o.pts = []

theorem prodLeaves_dead : ∀ ops : List Operand, (∃ o ∈ ops, o.pts = []) → prodLeaves ops = 0
  | [], h => by simp at h
  | o :: os, h => by
    simp only [prodLeaves]
    obtain ⟨o', ho', he⟩ := h
    rcases List.mem_cons.1 ho' with rfl | ho'
    · rw [he, leaf_nil]; simp
    · rw [prodLeaves_dead os ⟨o', ho', he⟩]; simp

theorem mathVal_dead (st : TermSt) (h : Dead st) : mathVal st = 0 := by
  unfold mathVal
  cases hk : st.kind with
  | times => simp [prodLeaves_dead st.ops h]
  | take sel =>
    simp only
    obtain ⟨o, ho, he⟩ := h
    have : st.ops.all (fun o => leaf o.pts != 0) = false := by
      rw [List.all_eq_false]
      exact ⟨o, ho, by simp [he, leaf_nil]⟩
    simp [this]

theorem step_dead (c : Nat) (st : TermSt) (h : Dead st) : Dead (st.step c) := by
  obtain ⟨o, ho, he⟩ := h
  refine ⟨o.step c, ?_, ?_⟩
  · simp only [TermSt.step, List.mem_map]
    exact ⟨o, ho, rfl⟩
  · simp only [Operand.step, he, slice_nil]
    split <;> rfl

theorem spec_zero : ∀ (ls : List (Bool × Nat)) (sts : List TermSt), (∀ st ∈ sts, Dead st) →
    ∀ σ, sumAt σ (spec ls sts) = 0
  | [], sts, h, σ => by
    simp only [spec]
    have : (sts.map mathVal).sum = 0 := sum_map_zero _ _ (fun st hst => mathVal_dead st (h st hst))
    rw [this]
    simp [sumAt, List.filter_cons]
    split <;> simp
  | (out, ext) :: ls, sts, h, σ => by
    simp only [spec]
    rw [sumAt_flatMap]
    apply sum_map_zero
    intro c _
    have hd : ∀ st ∈ sts.map (TermSt.step c), Dead st := by
      intro st hst
      obtain ⟨st0, hst0, rfl⟩ := List.mem_map.1 hst
      exact step_dead c st0 (h st0 hst0)
    cases out with
    | true =>
      rw [sumAt_map_tag_out]
      cases σ with
      | nil => rfl
      | cons c' σ' =>
        simp only
        split
        · exact spec_zero ls _ hd σ'
        · rfl
    | false =>
      rw [sumAt_map_tag_in]
      exact spec_zero ls _ hd σ

end Nest
