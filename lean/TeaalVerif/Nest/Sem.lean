/-!
# Loop nests over point-list tensors: the reference semantics of an emitted (unpartitioned) loop nest

A tensor (or the fiber reached after binding some coordinates) is the list of its points
`(remaining coordinates, value)`; `slice c` is the child fiber at coordinate `c`, `heads` the
coordinates present, `leaf` the value of a fully bound tensor.

An `Operand` is a tensor operand of one term together with its *schedule*: one flag per remaining loop
saying whether the loop's rank is the operand's next rank (it then takes part in that loop's
co-iteration and is sliced by it).  This is the concordant traversal the compiler sets up with
`swizzleRanks`: the operand's rank order is a subsequence of the loop order.

`run` is the emitted nest: at each loop the coordinates iterated are the **union over the terms of the
intersection over the term's participating operands** (`z << ((a & b) | (c & d))`), or the whole range
`0..N-1` when no operand carries the rank (`iterRangeShapeRef` on the output); the update adds, per
term, the scalars times the operand leaves — for `take` the *selected* leaf, unconditionally, exactly
as `make_update` emits it.  `spec` is the mathematical meaning: every loop ranges over `0..N-1` and a
`take` term is the selected operand where **all** operands are non-zero, else zero.

Both return the list of contributions `(output point, value)`; the output tensor's value at a point is
the sum of the contributions at that point (`sumAt`), which is what `+=` accumulates.
-/
namespace Nest

abbrev Pts := List (List Nat × Int)

def slice (c : Nat) (t : Pts) : Pts :=
  t.filterMap fun (cs, v) => match cs with
    | [] => none
    | h :: tl => if h = c then some (tl, v) else none

def dedup : List Nat → List Nat
  | [] => []
  | a :: as => if a ∈ as then dedup as else a :: dedup as

def heads (t : Pts) : List Nat := dedup (t.filterMap fun (cs, _) => cs.head?)

def leaf (t : Pts) : Int := (t.filterMap fun (cs, v) => if cs = [] then some v else none).sum

structure Operand where
  sched : List Bool
  pts : Pts
  deriving Repr

inductive Kind
  | times
  | take (sel : Nat)
  deriving Repr, DecidableEq

structure TermSt where
  kind : Kind
  scal : Int
  ops : List Operand
  deriving Repr

def Operand.active (o : Operand) : Bool := o.sched.head? == some true

def Operand.step (c : Nat) (o : Operand) : Operand :=
  { sched := o.sched.tail, pts := if o.active then slice c o.pts else o.pts }

def TermSt.step (c : Nat) (st : TermSt) : TermSt := { st with ops := st.ops.map (Operand.step c) }

/-- coordinates at which all participating operands of one term have an element; `none`: no participant -/
def coiterT : List Operand → Option (List Nat)
  | [] => none
  | o :: os =>
    match coiterT os with
    | none => if o.active then some (heads o.pts) else none
    | some cs => if o.active then some (cs.filter fun c => c ∈ heads o.pts) else some cs

/-- union over the terms -/
def coiterAll : List TermSt → Option (List Nat)
  | [] => none
  | st :: sts =>
    match coiterT st.ops, coiterAll sts with
    | some a, some b => some (dedup (a ++ b))
    | some a, none => some a
    | none, r => r

def prodLeaves : List Operand → Int
  | [] => 1
  | o :: os => leaf o.pts * prodLeaves os

/-- what the emitted update adds for one term -/
def emitVal (st : TermSt) : Int :=
  match st.kind with
  | .times => st.scal * prodLeaves st.ops
  | .take sel => st.scal * (match st.ops[sel]? with | some o => leaf o.pts | none => 0)

/-- what the Einsum means for one term -/
def mathVal (st : TermSt) : Int :=
  match st.kind with
  | .times => st.scal * prodLeaves st.ops
  | .take sel => if st.ops.all (fun o => leaf o.pts != 0) then st.scal * (match st.ops[sel]? with | some o => leaf o.pts | none => 0) else 0

def tag (out : Bool) (c : Nat) (p : List Nat × Int) : List Nat × Int := (if out then c :: p.1 else p.1, p.2)

/-- the emitted loop nest; per loop: does the output carry the rank, and the rank's extent -/
def run : List (Bool × Nat) → List TermSt → List (List Nat × Int)
  | [], sts => [([], (sts.map emitVal).sum)]
  | (out, ext) :: ls, sts =>
    let cs := match coiterAll sts with
      | some cs => cs
      | none => List.range ext
    cs.flatMap fun c => (run ls (sts.map (TermSt.step c))).map (tag out c)

/-- the mathematical meaning: dense iteration over every rank's extent -/
def spec : List (Bool × Nat) → List TermSt → List (List Nat × Int)
  | [], sts => [([], (sts.map mathVal).sum)]
  | (out, ext) :: ls, sts =>
    (List.range ext).flatMap fun c => (spec ls (sts.map (TermSt.step c))).map (tag out c)

/-- value accumulated at output point `σ` -/
def sumAt (σ : List Nat) (l : List (List Nat × Int)) : Int :=
  ((l.filter fun p => p.1 = σ).map (·.2)).sum

end Nest
