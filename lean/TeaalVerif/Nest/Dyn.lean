import TeaalVerif.Nest.DenP
import TeaalVerif.Nest.Cont
/-!
# Dynamic (occupancy) partitioning inside a loop nest — the model

When the partitioned rank `K` is not at the top of the leader tensor, the compiler emits `splitEqual(n)` on the leader's
fiber and `splitNonUniform(<leader's upper fiber>)` on every other tensor carrying `K` *inside* the loops that precede the
`K1` loop, i.e. on the fibers reached there.  `dynStates` is that statement sequence on the operand states:

* the boundaries are every `n`-th coordinate (ascending) of the leader's current fiber (`bounds`; the smallest coordinate is
  always the first boundary);
* an element with coordinate `k` goes to the partition of the largest boundary `≤ k` (`maxLe`); elements below the first
  boundary are dropped (`FT.splitNonUniform` contract, DESIGN 7.3);
* the split operands are re-ordered to be concordant with the remaining loops (`swizzleRanks`).

`runDyn` is the whole nest: outer loops, the split, inner loops.
-/
namespace Nest

def maxLe : List Nat → Nat → Option Nat
  | [], _ => none
  | b :: bs, k =>
    match maxLe bs k with
    | none => if b ≤ k then some b else none
    | some m => if b ≤ k ∧ m < b then some b else some m

theorem maxLe_some {bs : List Nat} {k m : Nat} (h : maxLe bs k = some m) : m ∈ bs ∧ m ≤ k := by
  induction bs generalizing m with
  | nil => simp [maxLe] at h
  | cons b bs ih =>
    simp only [maxLe] at h
    cases hm : maxLe bs k with
    | none =>
      rw [hm] at h
      by_cases hb : b ≤ k
      · simp [hb] at h; subst h; exact ⟨by simp, hb⟩
      · simp [hb] at h
    | some m' =>
      rw [hm] at h
      by_cases hb : b ≤ k ∧ m' < b
      · simp [hb] at h; subst h; exact ⟨by simp, hb.1⟩
      · simp only [hb, if_false, Option.some.injEq] at h
        subst h
        exact ⟨List.mem_cons_of_mem _ (ih hm).1, (ih hm).2⟩

theorem maxLe_none {bs : List Nat} {k : Nat} (h : maxLe bs k = none) : ∀ b ∈ bs, k < b := by
  induction bs with
  | nil => intro b hb; simp at hb
  | cons b bs ih =>
    simp only [maxLe] at h
    cases hm : maxLe bs k with
    | none =>
      rw [hm] at h
      by_cases hb : b ≤ k
      · simp [hb] at h
      · intro b' hb'
        rcases List.mem_cons.1 hb' with e | e
        · subst e; omega
        · exact ih hm b' e
    | some m' =>
      rw [hm] at h
      by_cases hb : b ≤ k ∧ m' < b <;> simp [hb] at h

def minList : List Nat → Nat
  | [] => 0
  | [a] => a
  | a :: b :: l => min a (minList (b :: l))

theorem minList_le : ∀ (l : List Nat) (x : Nat), x ∈ l → minList l ≤ x
  | [], _, h => by simp at h
  | [a], x, h => by simp at h; subst h; simp [minList]
  | a :: b :: l, x, h => by
    simp only [minList]
    rcases List.mem_cons.1 h with e | e
    · subst e; exact Nat.min_le_left _ _
    · exact Nat.le_trans (Nat.min_le_right _ _) (minList_le (b :: l) x e)

theorem minList_mem : ∀ (l : List Nat), l ≠ [] → minList l ∈ l
  | [], h => absurd rfl h
  | [a], _ => by simp [minList]
  | a :: b :: l, _ => by
    simp only [minList]
    have := minList_mem (b :: l) (by simp)
    by_cases hle : a ≤ minList (b :: l)
    · rw [Nat.min_eq_left hle]; simp
    · rw [Nat.min_eq_right (by omega)]; exact List.mem_cons_of_mem _ this

/-- every `n`-th element -/
def everyNth (n : Nat) : List Nat → List Nat
  | [] => []
  | a :: l => a :: everyNth n (l.drop (n - 1))
termination_by l => l.length
decreasing_by simp only [List.length_drop, List.length_cons]; omega

theorem everyNth_subset (n : Nat) : ∀ (l : List Nat) (x : Nat), x ∈ everyNth n l → x ∈ l := by
  intro l
  induction l using everyNth.induct n with
  | case1 => intro x hx; simp [everyNth] at hx
  | case2 a l ih =>
    intro x hx
    rw [everyNth] at hx
    rcases List.mem_cons.1 hx with e | e
    · simp [e]
    · exact List.mem_cons_of_mem _ (List.mem_of_mem_drop (ih x e))

/-- the partition boundaries `splitEqual(n)` produces on a fiber with the given coordinates -/
def bounds (n : Nat) (cs : List Nat) : List Nat :=
  if cs = [] then [] else minList cs :: everyNth n (cs.mergeSort (· ≤ ·))

theorem bounds_subset (n : Nat) (cs : List Nat) : ∀ b ∈ bounds n cs, b ∈ cs := by
  intro b hb
  unfold bounds at hb
  by_cases h : cs = []
  · simp [h] at hb
  · simp only [h, if_false, List.mem_cons] at hb
    rcases hb with e | e
    · rw [e]; exact minList_mem cs h
    · exact (List.mem_mergeSort).1 (everyNth_subset n _ b e)

theorem bounds_cover (n : Nat) (cs : List Nat) (c : Nat) (hc : c ∈ cs) : ∃ b ∈ bounds n cs, b ≤ c := by
  have h : cs ≠ [] := fun e => by simp [e] at hc
  exact ⟨minList cs, by simp [bounds, h], minList_le cs c hc⟩

theorem maxLe_isSome_of_le {bs : List Nat} {k b : Nat} (hb : b ∈ bs) (hle : b ≤ k) : (maxLe bs k).isSome = true := by
  cases h : maxLe bs k with
  | some _ => rfl
  | none => have := maxLe_none h b hb; omega

end Nest

namespace Nest

structure DynSpec where
  K : String
  K1 : String
  K0 : String
  n : Nat                          -- uniform_occupancy(leader.n)
  leadT : Nat                      -- leader: term index
  leadO : Nat                      -- leader: operand index in that term
  rsU : List String                -- loops that remain when the split executes, as the unpartitioned Einsum sees them (with `K`)
  esU : List Nat
  rs' : List String                -- the same, as emitted (with `K1` ... `K0`)
  es' : List Nat
  ranks : List (List (List String))   -- per term, per operand: the operand's remaining ranks (concordant with `rsU`)

/-- the partition function the leader's current fiber defines -/
def DynSpec.bs (D : DynSpec) (sts : List TermSt) : List Nat :=
  match sts[D.leadT]? with
  | some st => match st.ops[D.leadO]? with
    | some o => bounds D.n (heads o.pts)
    | none => []
  | none => []

def DynSpec.g (D : DynSpec) (sts : List TermSt) : Nat → Nat := fun k => (maxLe (D.bs sts) k).getD 0

def DynSpec.keep (D : DynSpec) (sts : List TermSt) : Nat → Bool := fun k => (maxLe (D.bs sts) k).isSome

/-- elements of an operand carrying `K` (then its top rank) that fall below the first boundary are dropped -/
def restrictPts (K : String) (keep : Nat → Bool) (aR : List String) (pts : Pts) : Pts :=
  if aR.head? = some K then pts.filter fun p => keep (p.1.headD 0) else pts

def dynOperand (D : DynSpec) (g : Nat → Nat) (keep : Nat → Bool) (aR : List String) (o : Operand) : Operand :=
  let aR' := splitRanks D.K D.K1 D.K0 aR
  { sched := schedOf D.rs' aR',
    pts := (restrictPts D.K keep aR o.pts).map fun p => (reorder aR' (concord D.rs' aR') (splitPt D.K g aR p.1), p.2) }

def zipWith2 {α β γ : Type} (f : α → β → γ) : List α → List β → List γ
  | a :: as, b :: bs => f a b :: zipWith2 f as bs
  | _, _ => []

/-- `splitEqual` / `splitNonUniform` / `swizzleRanks` on the fibers reached -/
def dynStates (D : DynSpec) (sts : List TermSt) : List TermSt :=
  let g := D.g sts
  let keep := D.keep sts
  zipWith2 (fun rk st => { st with ops := zipWith2 (dynOperand D g keep) rk st.ops }) D.ranks sts

/-- the emitted nest: outer loops `pre`, the dynamic split, inner loops.  If the partitioned rank is an output rank the
    output is partitioned too (`Z_M1M0N`) and the footer merges the two levels (`mergeRanks`): the upper coordinate is not
    recorded here, the lower one (absolute) is recorded under the name `K0` -/
def runDyn (D : DynSpec) (out : List String) (pre : List (Bool × Nat)) (sts : List TermSt) : List (List Nat × Int) :=
  runK (fun s => run ((D.rs'.zip D.es').map fun (r, e) => ((renameRanks D.K D.K0 out).contains r, e)) (dynStates D s)) pre sts

end Nest
