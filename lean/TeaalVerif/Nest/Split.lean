import TeaalVerif.Nest.DenLemmas
/-!
# Splitting a rank (partitioning) at the level of the Einsum's meaning

`splitRanks K K1 K0` replaces the rank `K` by the two ranks `K1, K0` in a rank list; `splitPt K g` replaces, in a point
laid out along that rank list, the coordinate `k` of `K` by the pair `(g k, k)`: the upper coordinate names the partition
the element falls into, the lower coordinate stays absolute — this is what `splitUniform` (`g k = k / s * s`) and
`splitNonUniform` / `splitEqual` (`g k` = the partition boundary at or below `k`) do to a tensor.
`splitTerm` / `splitEnv` apply this to every access of an Einsum.
-/
namespace Nest

def splitRanks (K K1 K0 : String) : List String → List String
  | [] => []
  | r :: rs => if r = K then K1 :: K0 :: splitRanks K K1 K0 rs else r :: splitRanks K K1 K0 rs

def splitPt (K : String) (g : Nat → Nat) : List String → List Nat → List Nat
  | r :: rs, c :: cs => if r = K then g c :: c :: splitPt K g rs cs else c :: splitPt K g rs cs
  | _, cs => cs

def splitTensor (K K1 K0 : String) (x : TensorS) : TensorS := { x with ranks := splitRanks K K1 K0 x.ranks }

def splitTerm (K K1 K0 : String) (t : TermS) : TermS := { t with tensors := t.tensors.map (splitTensor K K1 K0) }

def splitPts (K : String) (g : Nat → Nat) (ranks : List String) (P : Pts) : Pts := P.map fun p => (splitPt K g ranks p.1, p.2)

theorem splitRanks_of_not_mem (K K1 K0 : String) : ∀ rs : List String, K ∉ rs → splitRanks K K1 K0 rs = rs
  | [], _ => rfl
  | r :: rs, h => by
    have h1 : r ≠ K := fun e => h (by simp [e])
    have h2 : K ∉ rs := fun hm => h (List.mem_cons_of_mem _ hm)
    simp [splitRanks, h1, splitRanks_of_not_mem K K1 K0 rs h2]

theorem splitPt_of_not_mem (K : String) (g : Nat → Nat) : ∀ (rs : List String) (cs : List Nat), K ∉ rs → splitPt K g rs cs = cs
  | [], cs, _ => by cases cs <;> rfl
  | r :: rs, [], _ => rfl
  | r :: rs, c :: cs, h => by
    have h1 : r ≠ K := fun e => h (by simp [e])
    have h2 : K ∉ rs := fun hm => h (List.mem_cons_of_mem _ hm)
    simp [splitPt, h1, splitPt_of_not_mem K g rs cs h2]

/-- a split point lies on the split access exactly when the upper coordinate is the partition of the lower one and the
    original point lies on the original access -/
theorem splitPt_eq_iff (K K1 K0 : String) (g : Nat → Nat) (f : String → Nat) :
    ∀ (rs : List String) (cs : List Nat), cs.length = rs.length →
      (splitPt K g rs cs = (splitRanks K K1 K0 rs).map f ↔ ((K ∈ rs → f K1 = g (f K0)) ∧ cs = rs.map (upd f K (f K0))))
  | [], cs, hl => by
    have : cs = [] := List.length_eq_zero_iff.1 (by simpa using hl)
    subst this
    simp [splitPt, splitRanks]
  | r :: rs, [], hl => by simp at hl
  | r :: rs, c :: cs, hl => by
    have ih := splitPt_eq_iff K K1 K0 g f rs cs (by simpa using hl)
    by_cases hr : r = K
    · subst hr
      simp only [splitPt, splitRanks, if_true, List.map_cons, List.cons.injEq, ih, List.mem_cons, true_or, forall_const]
      have hu : upd f r (f K0) r = f K0 := by simp [upd]
      rw [hu]
      constructor
      · rintro ⟨h1, h2, _, h4⟩
        exact ⟨by rw [← h2]; exact h1.symm, h2, h4⟩
      · rintro ⟨h1, h2, h3⟩
        exact ⟨by rw [h2]; exact h1.symm, h2, fun _ => h1, h3⟩
    · have hu : upd f K (f K0) r = f r := by simp [upd, hr]
      have hKr : K ≠ r := fun e => hr e.symm
      simp only [splitPt, splitRanks, hr, if_false, List.map_cons, List.cons.injEq, ih, List.mem_cons, hu, hKr, false_or]
      constructor
      · rintro ⟨h1, h2, h3⟩; exact ⟨h2, h1, h3⟩
      · rintro ⟨h1, h2, h3⟩; exact ⟨h2, h1, h3⟩

theorem sumAt_map_key (τ : List Nat) (P : Pts) (h : List Nat → List Nat) :
    sumAt τ (P.map fun p => (h p.1, p.2)) = ((P.filter fun p => h p.1 = τ).map (·.2)).sum := by
  induction P with
  | nil => rfl
  | cons p ps ih =>
    obtain ⟨cs, v⟩ := p
    simp only [List.map_cons]
    rw [sumAt_cons, ih]
    by_cases hc : h cs = τ <;> simp [List.filter_cons, hc]

/-- the value of a split access under an assignment of the split ranks -/
theorem accessVal_split (K K1 K0 : String) (g : Nat → Nat) (f : String → Nat) (ranks : List String) (P : Pts)
    (har : ∀ p ∈ P, p.1.length = ranks.length) :
    sumAt ((splitRanks K K1 K0 ranks).map f) (splitPts K g ranks P) =
      if (K ∈ ranks → f K1 = g (f K0)) then sumAt (ranks.map (upd f K (f K0))) P else 0 := by
  unfold splitPts
  rw [sumAt_map_key]
  by_cases hi : (K ∈ ranks → f K1 = g (f K0))
  · rw [if_pos hi]
    unfold sumAt
    congr 2
    apply List.filter_congr
    intro p hp
    have := splitPt_eq_iff K K1 K0 g f ranks p.1 (har p hp)
    simp only [decide_eq_decide]
    rw [this]
    exact ⟨fun h => h.2, fun h => ⟨hi, h⟩⟩
  · rw [if_neg hi]
    have : (P.filter fun p => splitPt K g ranks p.1 = (splitRanks K K1 K0 ranks).map f) = [] := by
      apply List.filter_eq_nil_iff.2
      intro p hp
      have := splitPt_eq_iff K K1 K0 g f ranks p.1 (har p hp)
      simp only [decide_eq_true_eq]
      rw [this]
      exact fun h => hi h.1
    rw [this]; rfl

end Nest

namespace Nest

theorem prodI_zero_of_mem : ∀ vals : List Int, (0 : Int) ∈ vals → prodI vals = 0
  | [], h => by simp at h
  | v :: vs, h => by
    rcases List.mem_cons.1 h with e | e
    · simp [prodI, ← e]
    · simp [prodI, prodI_zero_of_mem vs e]

theorem comb_zero_of_mem (k : Kind) (scal : Int) (vals : List Int) (h : (0 : Int) ∈ vals) : comb k scal vals = 0 := by
  cases k with
  | times => simp [comb, prodI_zero_of_mem vals h]
  | take sel =>
    have : vals.all (fun v => v != 0) = false := by
      apply Bool.eq_false_iff.2
      intro hall
      have := List.all_eq_true.1 hall 0 h
      simp at this
    simp [comb, this]

/-- sums over related assignments of related functions agree -/
theorem sumF_rel (P : (String → Nat) → (String → Nat) → Prop) (F1 F2 : (String → Nat) → Int) :
    ∀ (R : List (String × Nat)),
      (∀ r ∈ R.map (·.1), ∀ c f1 f2, P f1 f2 → P (upd f1 r c) (upd f2 r c)) →
      (∀ f1 f2, P f1 f2 → F1 f1 = F2 f2) → ∀ g1 g2, P g1 g2 → sumF R F1 g1 = sumF R F2 g2
  | [], _, hF, g1, g2, hP => hF g1 g2 hP
  | (r, e) :: R, hupd, hF, g1, g2, hP => by
    simp only [sumF]
    apply sum_map_congr
    intro c _
    exact sumF_rel P F1 F2 R (fun r' hr' => hupd r' (by simp only [List.map_cons, List.mem_cons]; exact Or.inr hr')) hF _ _
      (hupd r (by simp) c g1 g2 hP)

theorem sum_range_indicator (n a : Nat) (v : Int) (h : a < n) :
    ((List.range n).map fun c => if c = a then v else 0).sum = v := by
  have := sum_range_eq_sum_list n (fun c => if c = a then v else 0) [a] (by simp) (by simpa using h)
    (by intro c _ hc; have : c ≠ a := by simpa using hc
        simp [this])
  rw [this]; simp

end Nest
