import TeaalVerif.Nest.Drive
import TeaalVerif.Nest.DenLemmas
/-!
# Occupancy partitioning of a flattened rank: chunks of the driving operand's flattened fiber

After `flattenRanks` the flattened rank exists in ONE tensor only (the others are looked up by coordinate), so
`uniform_occupancy` on it splits that tensor alone: `splitEqual(n)` cuts its flattened fiber into chunks of `n` consecutive
elements; the loop over the upper level visits the chunks, and everything inside (possibly after further loops, possibly a further
`splitEqual` of the chunk) sees the tensor restricted to the chunk.  `LevelC.chunk o t n` is such a level: `o` the driving operand,
`t` the number of (leading) coordinates that form the flattened tuple, `n` the occupancy.  It carries no output coordinate (the
upper coordinates of a partitioned output rank are merged away by the footer).
-/
namespace Nest

/-- distinct values of `f` in first-occurrence order -/
def dedupL {α : Type} [DecidableEq α] : List α → List α
  | [] => []
  | a :: as => if a ∈ as then dedupL as else a :: dedupL as

theorem mem_dedupL {α : Type} [DecidableEq α] {a : α} {l : List α} : a ∈ dedupL l ↔ a ∈ l := by
  induction l with
  | nil => simp [dedupL]
  | cons b bs ih =>
    simp only [dedupL]
    split
    · rename_i hb
      simp only [List.mem_cons, ih]
      constructor
      · exact Or.inr
      · rintro (rfl | h)
        · exact hb
        · exact h
    · simp only [List.mem_cons, ih]

theorem nodup_dedupL {α : Type} [DecidableEq α] (l : List α) : (dedupL l).Nodup := by
  induction l with
  | nil => simp [dedupL]
  | cons b bs ih =>
    simp only [dedupL]
    split
    · exact ih
    · rename_i hb
      exact List.nodup_cons.2 ⟨fun h => hb (mem_dedupL.1 h), ih⟩

/-- the elements of the flattened fiber: the distinct leading `t`-tuples -/
def prefixes (t : Nat) (P : Pts) : List (List Nat) := dedupL (P.map fun p => p.1.take t)

def chunksAux {α : Type} (n : Nat) : Nat → List α → List (List α)
  | 0, _ => []
  | _ + 1, [] => []
  | fuel + 1, a :: l => (a :: l).take (n + 1) :: chunksAux n fuel ((a :: l).drop (n + 1))

/-- consecutive chunks of `max n 1` elements -/
def chunksOf {α : Type} (n : Nat) (l : List α) : List (List α) := chunksAux (n - 1) l.length l

theorem flatten_chunksAux {α : Type} (n : Nat) : ∀ (fuel : Nat) (l : List α), l.length ≤ fuel → (chunksAux n fuel l).flatten = l
  | 0, l, h => by
    have : l = [] := List.length_eq_zero_iff.1 (by omega)
    simp [chunksAux, this]
  | fuel + 1, [], _ => by simp [chunksAux]
  | fuel + 1, a :: l, h => by
    simp only [chunksAux, List.flatten_cons]
    rw [flatten_chunksAux n fuel _ (by simp only [List.length_drop, List.length_cons] at h ⊢; omega)]
    exact List.take_append_drop _ _

theorem flatten_chunksOf {α : Type} (n : Nat) (l : List α) : (chunksOf n l).flatten = l :=
  flatten_chunksAux _ _ _ (Nat.le_refl _)

/-- exactly one chunk of a duplicate-free partition contains a given element -/
theorem one_chunk {α : Type} (x : α) (ind : List α → Int) (h1 : ∀ ch, x ∈ ch → ind ch = 1) (h0 : ∀ ch, x ∉ ch → ind ch = 0) :
    ∀ (L : List (List α)), L.flatten.Nodup → x ∈ L.flatten → (L.map ind).sum = 1
  | [], _, h => by simp at h
  | ch :: L, hnd, hx => by
    simp only [List.flatten_cons] at hnd hx
    have hnd' := List.nodup_append.1 hnd
    simp only [List.map_cons, List.sum_cons]
    by_cases hc : x ∈ ch
    · have hz : (L.map ind).sum = 0 := by
        apply sum_map_zero
        intro ch' hch'
        exact h0 ch' (fun hx' => hnd'.2.2 x hc x (List.mem_flatten.2 ⟨ch', hch', hx'⟩) rfl)
      rw [hz, h1 ch hc]; rfl
    · have hxL : x ∈ L.flatten := by
        rcases List.mem_append.1 hx with h | h
        · exact absurd h hc
        · exact h
      rw [one_chunk x ind h1 h0 L hnd'.2.1 hxL, h0 ch hc]; rfl

theorem sum_map_mul_right {α : Type} (l : List α) (k : Int) (f : α → Int) :
    (l.map fun x => f x * k).sum = (l.map f).sum * k := by
  induction l with
  | nil => simp
  | cons a as ih => simp only [List.map_cons, List.sum_cons, ih, Int.add_mul]

def restrictPfx (t : Nat) (ch : List (List Nat)) (P : Pts) : Pts := P.filter fun p => decide (p.1.take t ∈ ch)

/-- the restrictions of a tensor to the chunks of a duplicate-free partition of its prefixes add up to the tensor -/
theorem sumAt_chunks (t : Nat) (τ : List Nat) (L : List (List (List Nat))) (hnd : L.flatten.Nodup) :
    ∀ P : Pts, (∀ p ∈ P, p.1.take t ∈ L.flatten) → (L.map fun ch => sumAt τ (restrictPfx t ch P)).sum = sumAt τ P
  | [], _ => by
    simp only [restrictPfx, List.filter_nil, sumAt_nil]
    exact sum_map_zero _ _ (fun _ _ => rfl)
  | (cs, v) :: ps, h => by
    have ih := sumAt_chunks t τ L hnd ps (fun p hp => h p (List.mem_cons_of_mem _ hp))
    have hone := one_chunk (cs.take t) (fun ch => if cs.take t ∈ ch then (1 : Int) else 0) (fun ch hc => by simp [hc]) (fun ch hc => by simp [hc])
      L hnd (h (cs, v) (by simp))
    have hsplit : ∀ ch : List (List Nat), sumAt τ (restrictPfx t ch ((cs, v) :: ps)) =
        (if cs.take t ∈ ch then (1 : Int) else 0) * (if cs = τ then v else 0) + sumAt τ (restrictPfx t ch ps) := by
      intro ch
      unfold restrictPfx
      by_cases hc : cs.take t ∈ ch
      · rw [List.filter_cons_of_pos (by simpa using hc), sumAt_cons, if_pos hc]; simp
      · rw [List.filter_cons_of_neg (by simpa using hc), if_neg hc]; simp
    rw [sum_map_congr _ _ _ (fun ch _ => hsplit ch), sum_map_add, ih, sumAt_cons]
    rw [sum_map_mul_right, hone]
    omega

end Nest
