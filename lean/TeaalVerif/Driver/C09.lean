import TeaalVerif.Driver.Util
import TeaalVerif.HF.PyGrammar
import TeaalVerif.Props.C09Build
open Lean
namespace Driver
open HF

def tokStr : Tok → String
  | .name s => "N:" ++ s
  | .lit s => "L:" ++ s
  | .str s => "S:" ++ s
  | .sym s => "O:" ++ s

def assnExprs : Assn → List Expr
  | .access o i => [.access o i]
  | _ => []

def assnToks : Assn → List Tok
  | .access o i => toks (.access o i)
  | .field o f => [.name o, .sym ".", .name f]
  | .var n => [.name n]

partial def payloadToks (p : Payload) (parens : Bool) : List Tok :=
  match p with
  | .var n => [.name n]
  | .tuple ps =>
    let inner := (ps.map fun q => payloadToks q true).intersperse [.sym ","] |>.flatten
    if parens then .sym "(" :: (inner ++ [.sym ")"]) else inner

/-- all maximal expressions of a statement tree, in print order -/
partial def stmtExprs : Stmt → List Expr
  | .assign a e => assnExprs a ++ [e]
  | .block ss => ss.flatMap stmtExprs
  | .expr e => [e]
  | .for_ _ e b => e :: stmtExprs b
  | .func _ _ b => stmtExprs b
  | .iassign a _ e => assnExprs a ++ [e]
  | .if_ c t ec es el => c :: stmtExprs t ++ (ec.zip es).flatMap (fun (c', s) => c' :: stmtExprs s) ++
      (match el with | some s => stmtExprs s | none => [])
  | .ret e => [e]

partial def stmtToks : Stmt → List Tok
  | .assign a e => assnToks a ++ .sym "=" :: toks e
  | .block ss => ss.flatMap stmtToks
  | .expr e => toks e
  | .for_ p e b => .name "for" :: (payloadToks p false ++ .name "in" :: (toks e ++ .sym ":" :: stmtToks b))
  | .func n ps b => .name "def" :: .name n :: .sym "(" :: (paramToks ps ++ .sym ")" :: .sym ":" :: stmtToks b)
  | .iassign a op e => assnToks a ++ .sym (op.gen ++ "=") :: toks e
  | .if_ c t ec es el => .name "if" :: (toks c ++ .sym ":" :: stmtToks t) ++
      (ec.zip es).flatMap (fun (c', s) => .name "elif" :: (toks c' ++ .sym ":" :: stmtToks s)) ++
      (match el with | some s => .name "else" :: .sym ":" :: stmtToks s | none => [])
  | .ret e => .name "return" :: toks e

def normAssn : Assn → Assn
  | .access o i => .access (norm o) (norm i)
  | a => a

/-- normalised statement list: expressions through `norm`, nested blocks flattened -/
partial def normStmts : Stmt → List Stmt
  | .assign a e => [.assign (normAssn a) (norm e)]
  | .block ss => ss.flatMap normStmts
  | .expr e => [.expr (norm e)]
  | .for_ p e b => [.for_ p (norm e) (.block (normStmts b))]
  | .func n ps b => [.func n ps (.block (normStmts b))]
  | .iassign a op e => [.iassign (normAssn a) op (norm e)]
  | .if_ c t ec es el => [.if_ (norm c) (.block (normStmts t)) (ec.map norm) (es.map fun s => .block (normStmts s))
      (el.map fun s => .block (normStmts s))]
  | .ret e => [.ret (norm e)]

/-- the CPython side arrives without parenthesis nodes; only blocks need flattening -/
partial def flatStmts : Stmt → List Stmt
  | .block ss => ss.flatMap flatStmts
  | .for_ p e b => [.for_ p e (.block (flatStmts b))]
  | .func n ps b => [.func n ps (.block (flatStmts b))]
  | .if_ c t ec es el => [.if_ c (.block (flatStmts t)) ec (es.map fun s => .block (flatStmts s)) (el.map fun s => .block (flatStmts s))]
  | s => [s]

def prec (j : Json) : Except String Json := do
  let s ← stmtOfJson (← fld j "tree")
  let es := stmtExprs s
  let bad := es.filter fun e => !PrecOK e
  let base := [("ok", Json.bool bad.isEmpty), ("bad", jStrs (bad.map Expr.gen |>.take 3)), ("nexprs", (es.length : Nat)),
               ("toks", jStrs ((stmtToks s).map tokStr))]
  match j.getObjVal? "py" with
  | .ok pj =>
    let p ← stmtOfJson pj
    let a := normStmts s
    let b := flatStmts p
    let pairs := a.zip b
    let diff := pairs.find? fun (x, y) => reprStr x != reprStr y
    let same := a.length == b.length && diff.isNone
    let d : Json := match diff with
      | some (x, y) => Json.mkObj [("tree", x.gen 0), ("python", y.gen 0), ("tree_repr", (reprStr x)), ("python_repr", (reprStr y))]
      | none => Json.null
    return Json.mkObj (base ++ [("norm_eq", Json.bool same), ("diff", d)])
  | .error _ => return Json.mkObj base

def precExpr (j : Json) : Except String Json := do
  let e ← exprOfJson (← fld j "tree")
  let base := [("ok", Json.bool (PrecOK e)), ("text", Json.str e.gen), ("toks", jStrs ((toks e).map tokStr))]
  match j.getObjVal? "py" with
  | .ok pj =>
    let p ← exprOfJson pj
    return Json.mkObj (base ++ [("norm_eq", Json.bool (reprStr (norm e) == reprStr p)), ("norm", Json.str (norm e).gen),
      ("norm_repr", Json.str (reprStr (norm e))), ("python_repr", Json.str (reprStr p))])
  | .error _ => return Json.mkObj base

/-! op `build_expr`: the model of `CoordAccess.build_expr` (Props/C09Build) on a SymPy tree, compared with the tree the real builder made -/

def numOfJson (j : Json) : Except String (Option C09.Num) := do
  let a ← HF.arr j
  match ← HF.strOf a[0]! with
  | "int" => return some (.int (← HF.intOf a[1]!))
  | "rat" => return some (.rat (← HF.intOf a[1]!) (← HF.intOf a[2]!))
  | _ => return none

def stermOfJson (j : Json) : Except String (Option C09.STerm) := do
  let a ← HF.arr j
  match ← HF.strOf a[0]! with
  | "sym" => return some (.sym (← HF.strOf a[1]!))
  | "int" | "rat" => return (← numOfJson j).map C09.STerm.num
  | "mul" =>
    let args := a.toList.drop 1
    let head ← match args.head? with
      | some h => numOfJson h
      | none => pure none
    let rest := if head.isSome then args.drop 1 else args
    let syms ← rest.mapM fun x => do
      let b ← HF.arr x
      if (← HF.strOf b[0]!) == "sym" then pure (some (← HF.strOf b[1]!)) else pure none
    if syms.all Option.isSome then return some (.mul head (syms.filterMap id)) else return none
  | _ => return none

def seOfJson (j : Json) : Except String (Option C09.SE) := do
  let a ← HF.arr j
  match ← HF.strOf a[0]! with
  | "add" =>
    let ts ← (a.toList.drop 1).mapM stermOfJson
    if ts.all Option.isSome then return some (.add (ts.filterMap id)) else return none
  | _ => return (← stermOfJson j).map C09.SE.term

def buildExprOp (j : Json) : Except String Json := do
  let real ← exprOfJson (← fld j "tree")
  match ← seOfJson (← fld j "sympy") with
  | none => return Json.mkObj [("in_shape", false)]
  | some se =>
    match C09.build se with
    | none => return Json.mkObj [("in_shape", true), ("built", false)]
    | some e => return Json.mkObj [("in_shape", true), ("built", true), ("equal", Json.bool (reprStr e == reprStr real)),
        ("model_text", Json.str e.gen), ("prec_ok", Json.bool (PrecOK e))]

end Driver
