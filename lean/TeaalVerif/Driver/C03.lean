import TeaalVerif.Driver.C02
import TeaalVerif.Nest.Dyn
import TeaalVerif.Props.C03Nest
import TeaalVerif.Props.C03Static
import TeaalVerif.Props.C03Chain
import TeaalVerif.Props.C03Flat
import TeaalVerif.Props.C03Chunk
open Lean
namespace Driver
open Nest

/-- op `nest_dyn`: the unpartitioned Einsum (loop order = outer loops ++ the remaining loops with `K`), the inputs, and the
    description of the dynamic split; answers with what the model nest (outer loops, split of the fibers reached, inner
    loops) accumulates, the dense reference of the unpartitioned Einsum, and the loop skeleton to compare with the real tree -/
def nestDyn (j : Json) : Except String Json := do
  let (S, env) ← einsumSOfJson j
  let npre ← natOf (← fld j "npre")
  let K ← HF.strOf (← fld j "K")
  let K1 ← HF.strOf (← fld j "K1")
  let K0 ← HF.strOf (← fld j "K0")
  let n ← natOf (← fld j "n")
  let leader ← HF.strOf (← fld j "leader")
  let rs' ← strList (← fld j "loop2")
  let preN := S.loop.take npre
  let rsU := S.loop.drop npre
  let esU := S.exts.drop npre
  let eK := ((rsU.zip esU).lookup K).getD 0
  let es' := rs'.map fun r => if r = K1 ∨ r = K0 then eK else ((rsU.zip esU).lookup r).getD 0
  -- the leader: first term / operand with that name
  let mut leadT := 0
  let mut leadO := 0
  let mut found := false
  for (t, ti) in S.terms.zipIdx do
    for (x, oi) in t.tensors.zipIdx do
      if !found && x.name == leader then
        leadT := ti; leadO := oi; found := true
  let D : DynSpec := { K := K, K1 := K1, K0 := K0, n := n, leadT := leadT, leadO := leadO, rsU := rsU, esU := esU, rs' := rs', es' := es',
                       ranks := S.terms.map fun t => t.tensors.map fun x => concord rsU x.ranks }
  let pre := (preN.zip (S.exts.take npre)).map fun (r, e) => (S.outRanks.contains r, e)
  let contribs := runDyn D S.outRanks pre (initTerms S env)
  let S' : EinsumS := { S with loop := preN ++ rs', exts := S.exts.take npre ++ es',
                               terms := S.terms.map (splitTerm K K1 K0) }
  let r := collect S' contribs
  let m := collect S (spec (levels S) (initTerms S env))
  let hyps := decide (C03.DynHyps D S env npre)
  let base := [("run", jPts r), ("spec", jPts m), ("expected_loops", jLoops (expectedLoops S')), ("leader_found", Json.bool found),
               ("hyps_ok", Json.bool hyps)]
  match j.getObjVal? "tree" with
  | .ok tj =>
    let s ← HF.stmtOfJson tj
    return Json.mkObj (base ++ [("actual_loops", jLoops (HF.loopSkeleton s))])
  | .error _ => return Json.mkObj base

/-- op `nest_statdyn`: static shape splits (header) followed by one dynamic occupancy split inside the loops.
    `loop1` = loop order after the static splits (outer loops ++ remaining loops, the dynamically split rank unsplit) -/
def nestStatDyn (j : Json) : Except String Json := do
  let (S, env) ← einsumSOfJson j
  let sps ← listOf splitSpecOfJson (← fld j "splits")
  let L1 ← strList (← fld j "loop1")
  let npre ← natOf (← fld j "npre")
  let K ← HF.strOf (← fld j "K")
  let K1 ← HF.strOf (← fld j "K1")
  let K0 ← HF.strOf (← fld j "K0")
  let n ← natOf (← fld j "n")
  let leader ← HF.strOf (← fld j "leader")
  let rs' ← strList (← fld j "loop2")
  let outc := concord L1 S.outRanks
  let σ0 := List.replicate outc.length 0
  let A : C02.Cfg := ⟨S.loop.zip S.exts, outc, S.terms, env, σ0⟩
  let B := C02.applySplits sps A
  let S1 := C02.partEinsum S B L1
  let rsU := S1.loop.drop npre
  let esU := S1.exts.drop npre
  let eK := ((rsU.zip esU).lookup K).getD 0
  let es' := rs'.map fun r => if r = K1 ∨ r = K0 then eK else ((rsU.zip esU).lookup r).getD 0
  let mut leadT := 0
  let mut leadO := 0
  let mut found := false
  for (t, ti) in S1.terms.zipIdx do
    for (x, oi) in t.tensors.zipIdx do
      if !found && x.name == leader then
        leadT := ti; leadO := oi; found := true
  let D : DynSpec := { K := K, K1 := K1, K0 := K0, n := n, leadT := leadT, leadO := leadO, rsU := rsU, esU := esU, rs' := rs', es' := es',
                       ranks := S1.terms.map fun t => t.tensors.map fun x => concord rsU x.ranks }
  let pre := C01.lv S1.outRanks (S1.loop.take npre) (S1.exts.take npre)
  let contribs := runDyn D S1.outRanks pre (initTerms S1 B.env)
  let S' : EinsumS := { S1 with loop := S1.loop.take npre ++ rs', exts := S1.exts.take npre ++ es', terms := S1.terms.map (splitTerm K K1 K0) }
  -- contributions are keyed in the order `outc`; `collect` re-orders keys from `concord S'.loop S.outRanks` to the declared order
  let Sc : EinsumS := { S' with outRanks := S.outRanks }
  let r := collect Sc contribs
  let Sorig : EinsumS := S
  let m := collect Sorig (spec (levels Sorig) (initTerms Sorig env))
  let hyps := decide (C03.StatDynHyps S env sps L1 D npre σ0)
  let base := [("run", jPts r), ("spec", jPts m), ("expected_loops", jLoops (expectedLoops S')), ("leader_found", Json.bool found),
               ("hyps_ok", Json.bool hyps)]
  match j.getObjVal? "tree" with
  | .ok tj =>
    let s ← HF.stmtOfJson tj
    return Json.mkObj (base ++ [("actual_loops", jLoops (HF.loopSkeleton s))])
  | .error _ => return Json.mkObj base

/-- op `nest_chain`: static shape splits (header), then a chain of dynamic occupancy splits, each inside the loops of the
    previous one.  `loop1` = loop order after the static splits with every dynamically split rank still unsplit; each level
    gives the number of loops that precede its split (counted in the loops remaining at that point) and the emitted order of
    the loops after its split. -/
def nestChain (j : Json) : Except String Json := do
  let (S, env) ← einsumSOfJson j
  let sps ← listOf splitSpecOfJson (← fld j "splits")
  let L1 ← strList (← fld j "loop1")
  let outc := concord L1 S.outRanks
  let σ0 := List.replicate outc.length 0
  let A : C02.Cfg := ⟨S.loop.zip S.exts, outc, S.terms, env, σ0⟩
  let B := C02.applySplits sps A
  let S1 := C02.partEinsum S B L1
  let tensors := match S1.terms with
    | [t] => t.tensors
    | _ => []
  let mut curN := S1.loop
  let mut curE := S1.exts
  let mut ranks : List (List String) := tensors.map (·.ranks)
  let mut full : List (List String) := tensors.map (·.ranks)
  let mut outRen : List String := S.outRanks
  let mut outSplit : List String := S.outRanks
  let mut lvls : List C03.DynLevel := []
  let mut allPre : List String := []
  let mut allPreE : List Nat := []
  for lj in (← HF.arr (← fld j "levels")).toList do
    let npre ← natOf (← fld lj "npre")
    let K ← HF.strOf (← fld lj "K")
    let K1 ← HF.strOf (← fld lj "K1")
    let K0 ← HF.strOf (← fld lj "K0")
    let n ← natOf (← fld lj "n")
    let leader ← HF.strOf (← fld lj "leader")
    let rs' ← strList (← fld lj "loop2")
    let preN := curN.take npre
    let preE := curE.take npre
    let rsU := curN.drop npre
    let esU := curE.drop npre
    let eK := ((rsU.zip esU).lookup K).getD 0
    let es' := rs'.map fun r => if r = K1 ∨ r = K0 then eK else ((rsU.zip esU).lookup r).getD 0
    let leadO := (tensors.zipIdx.find? fun (x, _) => x.name == leader).map (·.2) |>.getD 0
    let D : DynSpec := { K := K, K1 := K1, K0 := K0, n := n, leadT := 0, leadO := leadO, rsU := rsU, esU := esU, rs' := rs', es' := es',
                         ranks := [ranks.map (concord rsU)] }
    lvls := lvls ++ [{ preN := preN, preE := preE, D := D }]
    ranks := ranks.map fun aR => splitRanks K K1 K0 (concord rsU aR)
    full := full.map (splitRanks K K1 K0)
    outRen := renameRanks K K0 outRen
    outSplit := splitRanks K K1 K0 outSplit
    allPre := allPre ++ preN
    allPreE := allPreE ++ preE
    curN := rs'
    curE := es'
  let contribs := C03.kinOf S1.outRanks lvls S1.loop S1.exts (initTerms S1 B.env)
  let finalTerms : List TermS := match S1.terms with
    | [t] => [{ t with tensors := (t.tensors.zip full).map fun (x, rk) => { x with ranks := rk } }]
    | ts => ts
  let S' : EinsumS := { S1 with loop := allPre ++ curN, exts := allPreE ++ curE, terms := finalTerms, outRanks := outRen }
  let r := collect S' contribs
  let S' : EinsumS := { S' with outRanks := outSplit }
  let m := collect S (spec (levels S) (initTerms S env))
  let hyps := decide (C03.StatChainHyps S env sps L1 lvls σ0)
  let base := [("run", jPts r), ("spec", jPts m), ("expected_loops", jLoops (expectedLoops S')), ("hyps_ok", Json.bool hyps)]
  match j.getObjVal? "tree" with
  | .ok tj =>
    let s ← HF.stmtOfJson tj
    return Json.mkObj (base ++ [("actual_loops", jLoops (HF.loopSkeleton s))])
  | .error _ => return Json.mkObj base

/-- skeleton of a nest with flattened loops: consecutive levels driven by the same operand are one emitted loop over that
    operand's flattened fiber -/
def expectedLoopsFlat (S : EinsumS) (modes : List Mode) : List (String × List String) :=
  let tensors := match S.terms with
    | [t] => t.tensors
    | _ => []
  let plain := expectedLoops S
  let emit (o : Nat) (v : String) (allOut : Bool) : String × List String :=
    (v, (if allOut then [S.outName.toLower ++ "_" ++ v] else []) ++ [((tensors[o]?.map (·.name)).getD "?").toLower ++ "_" ++ v])
  let rec go : List (String × List String) → List String → List Mode → Option (Nat × String × Bool) → List (String × List String)
    | [], _, _, acc => match acc with
      | some (o, v, ao) => [emit o v ao]
      | none => []
    | (v, fs) :: rest, r :: rs, m :: ms, acc =>
      let isOut := S.outRanks.contains r
      match m, acc with
      | .drive o, some (o', v', ao') =>
        if o = o' then go rest rs ms (some (o, v' ++ v, ao' && isOut))
        else emit o' v' ao' :: go rest rs ms (some (o, v, isOut))
      | .drive o, none => go rest rs ms (some (o, v, isOut))
      | .co, some (o', v', ao') => emit o' v' ao' :: (v, fs) :: go rest rs ms none
      | .co, none => (v, fs) :: go rest rs ms none
    | _, _, _, _ => []
  go plain S.loop modes none

def modeOfJson (j : Json) : Except String Mode :=
  match j with
  | .str "co" => pure .co
  | _ => do pure (.drive (← natOf j))

/-- op `nest_flat`: product Einsum with flattened ranks; loop order with the flattened ranks expanded; per loop "co" or the
    index of the driving operand -/
def nestFlat (j : Json) : Except String Json := do
  let (S, env) ← einsumSOfJson j
  let modes ← listOf modeOfJson (← fld j "modes")
  let contribs := runG C03.kEmit (C03.levelsG S modes) (initTerms S env)
  let r := collect S contribs
  let m := collect S (spec (levels S) (initTerms S env))
  let hyps := decide (C03.FlatHyps S env modes)
  let base := [("run", jPts r), ("spec", jPts m), ("expected_loops", jLoops (expectedLoopsFlat S modes)), ("hyps_ok", Json.bool hyps)]
  match j.getObjVal? "tree" with
  | .ok tj =>
    let s ← HF.stmtOfJson tj
    return Json.mkObj (base ++ [("actual_loops", jLoops (HF.loopSkeleton s))])
  | .error _ => return Json.mkObj base

/-- one entry of the loop list of a nest with an occupancy-partitioned flattened rank: an ordinary level (co-iterated or driven)
    or a chunk level with its loop variable -/
inductive EntryC where
  | lvl (m : Mode)
  | chunk (o t n : Nat) (name : String)

def entryCOfJson (j : Json) : Except String EntryC := do
  let a ← HF.arr j
  match ← HF.strOf a[0]! with
  | "lvl" => return .lvl (← modeOfJson a[1]!)
  | "chunk" => return .chunk (← natOf a[1]!) (← natOf a[2]!) (← natOf a[3]!) (← HF.strOf a[4]!)
  | k => throw s!"bad entry {k}"

def levelsCOf : List (Bool × Nat) → List EntryC → List C03.LevelC
  | (o, e) :: ls, .lvl m :: es => .lvl o e m :: levelsCOf ls es
  | ls, .chunk o t n _ :: es => .chunk o t n :: levelsCOf ls es
  | _, _ => []

/-- skeleton: chunk loops over the driver's upper-level fibers; consecutive driven levels are one loop over the bottom-level fiber -/
def expectedLoopsChunk (S : EinsumS) (es : List EntryC) : List (String × List String) :=
  let tensors := match S.terms with
    | [t] => t.tensors
    | _ => []
  let nameOf (o : Nat) : String := ((tensors[o]?.map (·.name)).getD "?").toLower
  let emit (o : Nat) (v : String) (allOut : Bool) : String × List String :=
    (v, (if allOut then [S.outName.toLower ++ "_" ++ v ++ "0"] else []) ++ [nameOf o ++ "_" ++ v ++ "0"])
  let rec go : List (String × List String) → List String → List EntryC → Option (Nat × String × Bool) → List (String × List String)
    | _, _, [], acc => match acc with
      | some (o, v, ao) => [emit o v ao]
      | none => []
    | plain, rs, .chunk o _ _ name :: es, acc =>
      (match acc with
       | some (o', v', ao') => [emit o' v' ao']
       | none => []) ++ (name, [nameOf o ++ "_" ++ name]) :: go plain rs es none
    | (v, fs) :: rest, r :: rs, .lvl m :: es, acc =>
      let isOut := S.outRanks.contains r
      match m, acc with
      | .drive o, some (o', v', ao') =>
        if o = o' then go rest rs es (some (o, v' ++ v, ao' && isOut))
        else emit o' v' ao' :: go rest rs es (some (o, v, isOut))
      | .drive o, none => go rest rs es (some (o, v, isOut))
      | .co, some (o', v', ao') => emit o' v' ao' :: (v, fs) :: go rest rs es none
      | .co, none => (v, fs) :: go rest rs es none
    | _, _, _, _ => []
  go (expectedLoops S) S.loop es none

/-- op `nest_chunk`: product Einsum with a flattened tuple and occupancy levels on the flattened rank -/
def nestChunk (j : Json) : Except String Json := do
  let (S, env) ← einsumSOfJson j
  let es ← listOf entryCOfJson (← fld j "entries")
  let lc := levelsCOf (levels S) es
  let contribs := C03.runC C03.kEmit lc (initTerms S env)
  let r := collect S contribs
  let m := collect S (spec (levels S) (initTerms S env))
  let hyps := decide (C03.ChunkHyps S env lc)
  let base := [("run", jPts r), ("spec", jPts m), ("expected_loops", jLoops (expectedLoopsChunk S es)), ("hyps_ok", Json.bool hyps)]
  match j.getObjVal? "tree" with
  | .ok tj =>
    let s ← HF.stmtOfJson tj
    return Json.mkObj (base ++ [("actual_loops", jLoops (HF.loopSkeleton s))])
  | .error _ => return Json.mkObj base

end Driver
