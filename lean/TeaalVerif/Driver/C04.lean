import TeaalVerif.Driver.C01
import TeaalVerif.Props.C04PartB
open Lean
namespace Driver
open Nest HF

/-! driver op `nest_aff`: the model compiler of the affine nest, its decidable hypotheses, and the validator that reads the
projections off the real tree (the `trans_fn` lambda must be, in exact rational arithmetic, the inverse of the access) -/

def affOfJson (j : Json) : Except String AffS := do
  let ts ← (← HF.arr (← fld j "terms")).toList.mapM fun t => do
    let a ← HF.arr t
    pure ((← HF.intOf a[0]!), (← HF.strOf a[1]!))
  let c ← HF.intOf (← fld j "const")
  pure ⟨ts, c⟩

def isProj (e : AffS) : Bool := C04.isProjE e

def einsumASOfJson (j : Json) : Except String (EinsumAS × (String → Pts)) := do
  let loop ← strList (← fld j "loop")
  let exts ← natList (← fld j "exts")
  let outName ← HF.strOf (← fld j "out_name")
  let outVars ← strList (← fld j "out_vars")
  let mut env : List (String × Pts) := []
  let mut terms : List TermAS := []
  for t in (← HF.arr (← fld j "terms")).toList do
    let scal ← HF.intOf (← fld t "scal")
    let mut tensors : List TensorAS := []
    for x in (← HF.arr (← fld t "tensors")).toList do
      let name ← HF.strOf (← fld x "name")
      let ranks ← strList (← fld x "ranks")
      let idx ← listOf affOfJson (← fld x "idx")
      let pts ← ptsOfJson (← fld x "pts")
      env := (name, pts) :: env
      tensors := tensors ++ [{ name := name, ranks := ranks, idx := idx.map fun e => { e := e, proj := isProj e } }]
    terms := terms ++ [{ kind := Kind.times, scal := scal, tensors := tensors }]
  let envF : String → Pts := fun n => (env.lookup n).getD []
  return ({ loop := loop, exts := exts, outName := outName, outVars := outVars, terms := terms }, envF)

/-- a loop over the accessed tensor's own rank: the index variable `s` it replaces, the loop variable `w`, and the own-rank
    access `c0*s + rho` -/
structure OwnSpec where
  s : String
  w : String
  c0 : Int
  rho : AffS
  Se : Nat

def ownOfJson (j : Json) : Except String OwnSpec := do
  pure ⟨← HF.strOf (← fld j "s"), ← HF.strOf (← fld j "w"), ← HF.intOf (← fld j "c0"), ← affOfJson (← fld j "rho"), ← natOf (← fld j "Se")⟩

/-! ### rational-affine reading of a `trans_fn` body -/

abbrev Q := Int × Int          -- numerator, positive denominator

def qnorm (q : Q) : Q :=
  let g := Nat.gcd q.1.natAbs q.2.natAbs
  if g = 0 then (0, 1) else
  let n := q.1 / (g : Int)
  let d := q.2 / (g : Int)
  if d < 0 then (-n, -d) else (n, d)
def qadd (a b : Q) : Q := qnorm (a.1 * b.2 + b.1 * a.2, a.2 * b.2)
def qmul (a b : Q) : Q := qnorm (a.1 * b.1, a.2 * b.2)
def qneg (a : Q) : Q := (-a.1, a.2)
def qinv (a : Q) : Option Q := if a.1 = 0 then none else some (qnorm (a.2, a.1))
def qeq (a b : Q) : Bool := a.1 * b.2 == b.1 * a.2

structure Lin where
  coefs : List (String × Q)
  const : Q

def Lin.coef (l : Lin) (v : String) : Q := (l.coefs.filter (·.1 == v)).foldl (fun acc p => qadd acc p.2) (0, 1)
def Lin.vars (l : Lin) : List String := (l.coefs.map (·.1)).eraseDups
def Lin.scale (k : Q) (l : Lin) : Lin := ⟨l.coefs.map fun (v, c) => (v, qmul k c), qmul k l.const⟩
def Lin.add (a b : Lin) : Lin := ⟨a.coefs ++ b.coefs, qadd a.const b.const⟩
def Lin.isConst (l : Lin) : Bool := l.vars.all fun v => qeq (l.coef v) (0, 1)

partial def linOf : Expr → Option Lin
  | .int i => some ⟨[], (i, 1)⟩
  | .var v => some ⟨[(v, (1, 1))], (0, 1)⟩
  | .parens e => linOf e
  | .binop l .add r => do pure ((← linOf l).add (← linOf r))
  | .binop l .sub r => do pure ((← linOf l).add ((← linOf r).scale (-1, 1)))
  | .binop l .mul r => do
    let a ← linOf l
    let b ← linOf r
    if a.isConst then pure (b.scale a.const) else if b.isConst then pure (a.scale b.const) else none
  | .binop l .div r => do
    let a ← linOf l
    let b ← linOf r
    if b.isConst then pure (a.scale (← qinv b.const)) else none
  | _ => none

structure FiberUse where
  fiber : String
  proj : Option (String × Expr × Option Expr)     -- lambda parameter, body, upper end of the interval
  pruned : Bool
  deriving Inhabited

def kwArg (kw : List (Option String)) (args : List Expr) (k : String) : Option Expr :=
  ((kw.zip args).find? fun p => p.1 == some k).map (·.2)

partial def fiberUses : Expr → List FiberUse
  | .var x => [⟨x, none, false⟩]
  | .parens e => fiberUses e
  | .binop l _ r => fiberUses l ++ fiberUses r
  | .method o "project" kw args =>
    let pr := match kwArg kw args "trans_fn" with
      | some (.lambda [p] body) =>
        let hi := match kwArg kw args "interval" with
          | some (.tuple [.int 0, hi]) => some hi
          | some (.tuple [.var lo, .var hi]) => some (.tuple [.var lo, .var hi])       -- data-dependent interval (q0_start, q0_end)
          | _ => none
        some (p, body, hi)
      | _ => none
    (fiberUses o).map fun u => { u with proj := pr }
  | .method o "prune" _ _ => (fiberUses o).map fun u => { u with pruned := true }
  | .method o "iterRangeShapeRef" _ _ => fiberUses o
  | .func "enumerate" _ [e] => fiberUses e
  | _ => [⟨"?", none, false⟩]

partial def loopUses : Stmt → List (String × List FiberUse)
  | .block ss => ss.flatMap loopUses
  | .for_ p e b =>
    let p' := match (HF.stripEnumerate e).2, p with
      | true, .tuple [_, q] => q
      | _, q => q
    let v := match p' with
      | .tuple (.var x :: _) => x
      | .var x => x
      | _ => "?"
    (v, fiberUses e) :: loopUses b
  | _ => []

/-- what the model compiler expects at each loop: per co-iterated fiber its variable, whether it is projected, and the
    access (over all loop variables) that resolves there -/
structure Pending where
  tensor : String
  rank : String
  orig : AffS
  cur : List (Int × String)
  proj : Bool
  ivl : Bool

def expectedUses (S : EinsumAS) : List (String × List (String × (Bool × Bool) × AffS)) :=
  let pend0 : List (List Pending) := S.terms.flatMap fun t => t.tensors.map fun x =>
    (concordA S.loop x).map fun rk => ⟨x.name, rk, (accOf x rk).e, (accOf x rk).e.terms, (accOf x rk).proj, (accOf x rk).ivl⟩
  let rec go : List String → List (List Pending) → List (String × List (String × (Bool × Bool) × AffS))
    | [], _ => []
    | r :: rest, pend =>
      let act := pend.filterMap fun ps => match ps with
        | p :: _ => if readyT r p.cur && p.tensor != "tile__" && p.tensor != "tileB__" then some (p.tensor.toLower ++ "_" ++ p.rank.toLower, (p.proj, p.ivl), p.orig) else none
        | [] => none
      let out := if S.outVars.contains r then [(S.outName.toLower ++ "_" ++ r, (false, false), (⟨[(1, r)], 0⟩ : AffS))] else []
      let pend' := pend.map fun ps => match ps with
        | p :: tl => (if readyT r p.cur then tl else p :: tl).map fun q => { q with cur := restT r q.cur }
        | [] => []
      (r, out ++ act) :: go rest pend'
  go S.loop pend0

/-- the emitted `trans_fn` is exactly the inverse of the access in the loop variable `r` -/
def lambdaOK (r : String) (e : AffS) (param : String) (body : Expr) : Bool :=
  match linOf body with
  | none => false
  | some l =>
    let a := e.coef r
    if a == 0 then false else
    let others := (e.terms.map (·.2)).eraseDups.filter (· != r)
    qeq (l.coef param) (1, a) && (others.all fun v => qeq (l.coef v) (-(e.coef v), a)) && qeq l.const (-e.const, a) &&
      (l.vars.all fun v => v == param || others.contains v || qeq (l.coef v) (0, 1))

def checkLoop (exp : String × List (String × (Bool × Bool) × AffS)) (act : String × List FiberUse) : List String :=
  let (r, es) := exp
  let (v, us) := act
  let errs0 := if r == v then [] else [s!"loop variable {v}, expected {r}"]
  let errs1 := if (es.map (·.1)).mergeSort == (us.map (·.fiber)).mergeSort then [] else
    [s!"loop {r}: co-iterated fibers {us.map (·.fiber)}, expected {es.map (·.1)}"]
  let errs2 := es.flatMap fun (fib, (pj, ivl), e) =>
    match us.find? (·.fiber == fib) with
    | none => []
    | some u =>
      match pj, u.proj with
      | false, none => []
      | false, some _ => [s!"loop {r}: {fib} is projected but its access is the plain loop variable"]
      | true, none => [s!"loop {r}: {fib} is not projected although its access is {repr e.terms}"]
      | true, some (p, body, hi) =>
        (if lambdaOK r e p body then [] else [s!"loop {r}: trans_fn of {fib} ({body.gen}) is not the inverse of the access"]) ++
        (match ivl, hi with
         | true, some (.var X) => if X == r.toUpper then [] else [s!"loop {r}: interval of {fib} ends at {X}"]
         | true, some (.tuple [.var lo, .var hi']) =>
           if lo == r ++ "_start" && hi' == r ++ "_end" then [] else [s!"loop {r}: interval ({lo}, {hi'}) on the projection of {fib}"]
         | true, _ => [s!"loop {r}: no interval (0, {r.toUpper}) on the projection of {fib}"]
         | false, none => []
         | false, some _ => [s!"loop {r}: the model expects no interval on the projection of {fib}"]) ++
        -- (the upper level of a halo-split rank holds multiples of stride * size only: its projection is integral without a prune)
        (if u.pruned || !ivl || e.coef r == 1 || e.coef r == -1 then [] else [s!"loop {r}: stride {e.coef r} without the integrality prune on {fib}"])
  errs0 ++ errs1 ++ errs2

/-! ### shape partitioning of the output rank with the input rank following (output-stationary form `[.., Q1, .., Q0, .., S ..]`) -/

structure PartSpec where
  q : String                       -- the partitioned index variable
  n : Nat                          -- partition size
  followers : List (String × Nat)  -- (tensor, rank index) of the accesses a*q + rho that follow
  modeB : Bool := false            -- the lower output level is reached through a projection with the interval (q0_start, q0_end)

def partOfJson (j : Json) : Except String PartSpec := do
  let fs ← (← HF.arr (← fld j "followers")).toList.mapM fun f => do
    let a ← HF.arr f
    pure ((← HF.strOf a[0]!), (← natOf a[1]!))
  let mb := match j.getObjVal? "mode" with
    | .ok (.str "B") => true
    | _ => false
  pure ⟨← HF.strOf (← fld j "q"), ← natOf (← fld j "n"), fs, mb⟩

/-- the configuration of `Props/C04Part` for a partition spec: follower index, step and halo per tensor name -/
def partCfgOf (S0 : EinsumAS) (ps : PartSpec) : C04.PartCfg × (String → Nat) :=
  let ext : String → Nat := fun v => ((S0.loop.zip S0.exts).lookup v).getD 1
  let tensors := S0.terms.flatMap (·.tensors)
  let fol : String → Option Nat := fun nm => (ps.followers.find? (·.1 == nm)).map (·.2)
  let accOfT : String → AffS := fun nm =>
    match tensors.find? (·.name == nm), fol nm with
    | some x, some i => (x.idx.getD i default).e
    | _, _ => default
  let stepF : String → Nat := fun nm => ((accOfT nm).coef ps.q).toNat * ps.n
  let haloF : String → Nat := fun nm => (((accOfT nm).rest ps.q).map fun t => t.1.toNat * (ext t.2 - 1)).sum
  let preF : String → Nat := fun nm => (((accOfT nm).rest ps.q).map fun t => (-t.1).toNat * (ext t.2 - 1)).sum
  ({ q := ps.q, q0 := ps.q ++ "0", q1 := ps.q ++ "1", n := ps.n, fol := fol, stepF := stepF, haloF := haloF, preF := preF }, ext)

/-- the partitions present at the upper level: the coordinates at which every follower of the (single) term has a partition -/
def presentParts (S0 : EinsumAS) (env : String → Pts) (ps : PartSpec) (c : C04.PartCfg) : List Nat :=
  let tensors := S0.terms.flatMap (·.tensors)
  let per := ps.followers.map fun (nm, i) =>
    let A := match tensors.find? (fun (x : TensorAS) => x.name == nm) with
      | some x => ((x.idx.getD i default).e.coef ps.q).toNat
      | none => 1
    (heads (C04.splitHaloAt i (c.stepF nm) (c.preF nm) (c.haloF nm) (env nm))).map (· / A)
  match per with
  | [] => []
  | p :: rest => (p.filter fun k => rest.all fun l => l.contains k).mergeSort

/-- the partitioned form (`C04.convTerm` / `C04.convEnv`): `q` becomes `(q1, q0)`; a follower access `a*q + rho` on rank `R` becomes
    `(a*q1, a*q0 + rho)` on `(R1, R0)` of the halo-split tensor; the tile tensor `T'[q0 - q1]` stands for the range loop
    `iterRangeShapeRef(q1, min(q1 + n, Q))`.  Returns the Einsum, its inputs and, per follower, (tensor, depth, step, halo). -/
def partitionedForm (S0 : EinsumAS) (env : String → Pts) (ps : PartSpec) (loop : List String) (exts : List Nat) :
    EinsumAS × (String → Pts) × List (String × Nat × Nat × Nat × Nat) :=
  let (c, _) := partCfgOf S0 ps
  let splits := ps.followers.map fun (nm, i) => (nm, i, c.stepF nm, c.preF nm, c.haloF nm)
  let Qx := ((loop.zip exts).lookup c.q0).getD 0
  if ps.modeB then
    ({ loop := loop, exts := exts, outName := S0.outName, outVars := S0.outVars.map fun v => if v == ps.q then c.q0 else v,
       terms := S0.terms.map (C04.convTermB c) },
     C04.convEnvB c (presentParts S0 env ps c) Qx env, splits)
  else
    ({ loop := loop, exts := exts, outName := S0.outName, outVars := S0.outVars.map fun v => if v == ps.q then c.q0 else v,
       terms := S0.terms.map (C04.convTerm c) },
     C04.convEnv c env, splits)

/-- numeric value of an emitted bound / step expression (`int(x)`, `min(a, b)`, `+ - *`, names from the environment) -/
partial def evalNum (env : String → Option Int) : Expr → Option Int
  | .int i => some i
  | .var v => env v
  | .parens e => evalNum env e
  | .func "int" _ [e] => evalNum env e
  | .func "min" _ [a, b] => do pure (min (← evalNum env a) (← evalNum env b))
  | .binop l .add r => do pure ((← evalNum env l) + (← evalNum env r))
  | .binop l .sub r => do pure ((← evalNum env l) - (← evalNum env r))
  | .binop l .mul r => do pure ((← evalNum env l) * (← evalNum env r))
  | .binop l .fdiv r => do
    let b ← evalNum env r
    if b == 0 then none else pure ((← evalNum env l) / b)
  | _ => none

/-- all `x.splitUniform(step, depth=, pre_halo=, post_halo=)` calls of the program, evaluated: (receiver, step, depth, pre, post) -/
partial def splitCalls (env : String → Option Int) : Stmt → List (String × Option Int × Int × Int × Int)
  | .block ss => ss.flatMap (splitCalls env)
  | .for_ _ _ b => splitCalls env b
  | .assign _ (.method (.var y) "splitUniform" kw args) =>
    let num (k : String) : Int := ((kwArg kw args k).bind (evalNum env)).getD 0
    [(y, (args.head?).bind (evalNum env), num "depth", num "pre_halo", num "post_halo")]
  | _ => []

/-- the range loop of the partitioned output: `iterRangeShapeRef(lo, hi, 1)` must run from `q1` to `min(q1 + n, Q)` -/
partial def rangeLoops (env : String → Option Int) (q1 : String) (tests : List Int) : Stmt → List (String × Bool)
  | .block ss => ss.flatMap (rangeLoops env q1 tests)
  | .for_ p0 e0 b =>
    let (e', enum) := HF.stripEnumerate e0
    match e' with
    | .method _ "iterRangeShapeRef" _ [lo, hi, st] =>
    let p := match enum, p0 with
      | true, .tuple [_, q] => q
      | _, q => q
    let v := match p with
      | .tuple (.var x :: _) => x
      | .var x => x
      | _ => "?"
    let ok := tests.all fun t =>
      let env' : String → Option Int := fun x => if x == q1 then some t else env x
      match evalNum env' lo, evalNum env' hi, evalNum env' st, env "Q__", env "N__" with
      | some l, some h, some s1, some Qv, some nv => l == t && h == min (t + nv) Qv && s1 == 1
      | _, _, _, _, _ => false
    (v, ok) :: rangeLoops env q1 tests b
    | _ => rangeLoops env q1 tests b
  | _ => []

partial def allStmts : Stmt → List Stmt
  | .block ss => ss.flatMap allStmts
  | .for_ p e b => .for_ p e b :: allStmts b
  | .if_ c t ec es el => .if_ c t ec es el :: (allStmts t ++ es.flatMap allStmts ++ (match el with | some x => allStmts x | none => []))
  | s => [s]

/-- interval logic of the partitioned output: the two `if` statements that set `(q0_start, q0_end)` from the position in the upper
    level and the eagerly computed upper-level coordinates, and `inputs_q1 = Fiber.fromLazy(<the inputs co-iterated at q1>)` -/
def intervalErrors (q : String) (s : Stmt) : List String :=
  let q1 := q ++ "1"
  let q0 := q ++ "0"
  let all := allStmts s
  let texts := all.map fun st => st.gen 0
  let ifStart := s!"if {q1}_pos == 0:\n    {q0}_start = 0\nelse:\n    {q0}_start = {q1}"
  let ifEnd := s!"if {q1}_pos + 1 < len(inputs_{q1}):\n    {q0}_end = inputs_{q1}.getCoords()[{q1}_pos + 1]\nelse:\n    {q0}_end = {q.toUpper}"
  let e1 := if texts.contains ifStart then [] else [s!"no statement `{ifStart}`"]
  let e2 := if texts.contains ifEnd then [] else [s!"no statement `{ifEnd}`"]
  let lazyE := all.findSome? fun st => match st with
    | .assign (.var x) (.method (.var "Fiber") "fromLazy" _ [e]) => if x == "inputs_" ++ q1 then some e.gen else none
    | _ => none
  let loopE := all.findSome? fun st => match st with
    | .for_ (.tuple [.var p, _]) e _ =>
      if p == q1 ++ "_pos" then
        match (HF.stripEnumerate e).1 with
        | .binop _ .ltlt r => some (match r with | .parens x => x.gen | x => x.gen)
        | _ => none
      else none
    | _ => none
  let e3 := match lazyE, loopE with
    | some a, some b => if a == b then [] else [s!"inputs_{q1} is computed from `{a}`, the loop over {q1} co-iterates `{b}`"]
    | _, _ => [s!"inputs_{q1} = Fiber.fromLazy(...) or the enumerated loop over {q1} not found"]
  e1 ++ e2 ++ e3

def nestAff (j : Json) : Except String Json := do
  let (S0, env0) ← einsumASOfJson j
  -- with an own-rank loop the terms arrive as the user wrote them; the loop-variable form is computed here (C04.loopFormTerms)
  let own ← match j.getObjVal? "own" with
    | .ok oj => do pure (some (← ownOfJson oj))
    | .error _ => pure none
  let part ← match j.getObjVal? "part" with
    | .ok pj => do pure (some (← partOfJson pj))
    | .error _ => pure none
  let (S, env, splits) ← match own, part with
    | some o, _ => pure ({ S0 with terms := C04.loopFormTerms o.s o.w o.c0 o.rho S0.terms }, env0, [])
    | none, some ps => do
      let loop2 ← strList (← fld j "loop2")
      let exts2 ← natList (← fld j "exts2")
      pure (partitionedForm S0 env0 ps loop2 exts2)
    | none, none => pure (S0, env0, [])
  let ls := levelsA S
  let sts := initTermsA S env
  let r := collectA S (runA ls sts)
  let m := collectA S (specA ls sts)
  let varOK := match own with
    | some o =>
      let R := (S.loop.zip S.exts).filter fun p => p.1 != o.w
      let We := ((S.loop.zip S.exts).lookup o.w).getD 0
      decide ((S.loop.zip S.exts).Perm (R ++ [(o.w, We)])) &&
        decide (C04.VarHyps o.s o.w o.c0 o.rho o.Se We (concord S.loop S.outVars) S0.terms env0)
    | none => true
  let partOK := match part with
    | some ps =>
      let (c, ext) := partCfgOf S0 ps
      let Qx := ((S.loop.zip S.exts).lookup c.q0).getD 0
      let E1 := ((S.loop.zip S.exts).lookup c.q1).getD 0
      let R := (S.loop.zip S.exts).filter fun p => p.1 != c.q0 && p.1 != c.q1
      let out0 := (concord S.loop S.outVars).map fun v => if v == c.q0 then c.q else v
      decide ((S.loop.zip S.exts).Perm (R ++ [(c.q0, Qx)] ++ [(c.q1, E1)])) &&
        decide (concord S.loop S.outVars = out0.map fun v => if v = c.q then c.q0 else v) &&
        (if ps.modeB then decide (C04.PartHypsB c ext R Qx E1 out0 S0.terms env0 (presentParts S0 env0 ps c))
         else decide (C04.PartHyps c ext R Qx E1 out0 S0.terms))
    | none => true
  let hyps := decide (C04.HypsA S env) && varOK && partOK
  -- the partitioned output takes part in the loop over the upper level as well (its upper coordinate is merged away afterwards)
  let exp := (expectedUses S).map fun (v, es) =>
    match part with
    | some ps => if v == ps.q ++ "1" then (v, (S.outName.toLower ++ "_" ++ v, (false, false), (⟨[(1, v)], 0⟩ : AffS)) :: es) else (v, es)
    | none => (v, es)
  -- a present partition at or beyond the extent: the last interval is not clipped there (known finding; outside PartHypsB)
  let unclipped := match part with
    | some ps => ps.modeB && (let (c, _) := partCfgOf S0 ps
                              let Qx := ((S.loop.zip S.exts).lookup c.q0).getD 0
                              (presentParts S0 env0 ps c).any fun k => decide (Qx ≤ k))
    | none => false
  let base := [("run", jPts r), ("spec", jPts m), ("hyps_ok", Json.bool hyps), ("unclipped", Json.bool unclipped),
               ("expected_loops", Json.arr (exp.map fun (v, es) => Json.arr #[Json.str v, jStrs (es.map (·.1))]).toArray)]
  match j.getObjVal? "tree" with
  | .ok tj =>
    let s ← HF.stmtOfJson tj
    let act := loopUses s
    let errs0 := if act.length < exp.length then [s!"{act.length} loops, expected {exp.length}"] else
      (exp.zip act).flatMap fun (e, a) => checkLoop e a
    -- partitioned form: the header's splitUniform calls and the range loop over the lower output level
    let errsP ← match part with
      | none => pure []
      | some ps => do
        let envJ ← fld j "env"
        let envL ← match envJ.getObj? with
          | .ok o => pure (o.toList.filterMap fun (k, v) => match v.getInt? with | .ok i => some (k, i) | .error _ => none)
          | .error _ => throw "env"
        let envF : String → Option Int := fun x => envL.lookup x
        let calls := splitCalls envF s
        let e1 := splits.flatMap fun (nm, d, st, pr, h) =>
          if calls.any fun (_, st', d', pre, post) => st' == some (st : Int) && d' == (d : Int) && pre == (pr : Int) && post == (h : Int) then []
          else [s!"no splitUniform({st}, depth={d}, pre_halo={pr}, post_halo={h}) for {nm} in the header (calls: {calls.map fun c => (c.2.1, c.2.2)})"]
        let rl := rangeLoops envF (ps.q ++ "1") [0, (ps.n : Int), 2 * (ps.n : Int)] s
        -- a tensor carrying the partitioned rank itself (stride 1, no offset, no halo) is co-iterated at the lower level instead of
        -- the range loop: its lower fiber lies inside the tile, so the tile tensor of the model does not change the iteration
        let plainFollower := splits.any fun (_, _, st, pr, h) => st == ps.n && h == 0 && pr == 0
        let e2 := match rl.find? (·.1 == ps.q ++ "0") with
          | some (_, true) => []
          | some (_, false) => [s!"the range loop over {ps.q}0 does not run from {ps.q}1 to min({ps.q}1 + {ps.n}, extent)"]
          | none => if plainFollower || ps.modeB then [] else [s!"no iterRangeShapeRef loop over {ps.q}0"]
        pure (e1 ++ e2 ++ (if ps.modeB then intervalErrors ps.q s else []))
    let errs := errs0 ++ errsP
    return Json.mkObj (base ++ [("skeleton_errors", jStrs errs),
      ("actual_loops", Json.arr (act.map fun (v, us) => Json.arr #[Json.str v, jStrs (us.map (·.fiber))]).toArray)])
  | .error _ => return Json.mkObj base

end Driver
