import TeaalVerif.Driver.C01
import TeaalVerif.Props.C04Var
open Lean
namespace Driver
open Nest HF

/-! driver op `nest_aff`: the model compiler of the affine nest, its decidable hypotheses, and the validator that reads the
projections off the real tree (the `trans_fn` lambda must be, in exact rational arithmetic, the inverse of the access) -/

def affOfJson (j : Json) : Except String AffS := do
  let ts ← (← HF.arr (← fld j "terms")).toList.mapM fun t => do
    let a ← HF.arr t
    pure ((← HF.intOf a[0]!), (← HF.strOf a[1]!))
  let c ← HF.intOf (← fld j "const")
  pure ⟨ts, c⟩

def isProj (e : AffS) : Bool := C04.isProjE e

def einsumASOfJson (j : Json) : Except String (EinsumAS × (String → Pts)) := do
  let loop ← strList (← fld j "loop")
  let exts ← natList (← fld j "exts")
  let outName ← HF.strOf (← fld j "out_name")
  let outVars ← strList (← fld j "out_vars")
  let mut env : List (String × Pts) := []
  let mut terms : List TermAS := []
  for t in (← HF.arr (← fld j "terms")).toList do
    let scal ← HF.intOf (← fld t "scal")
    let mut tensors : List TensorAS := []
    for x in (← HF.arr (← fld t "tensors")).toList do
      let name ← HF.strOf (← fld x "name")
      let ranks ← strList (← fld x "ranks")
      let idx ← listOf affOfJson (← fld x "idx")
      let pts ← ptsOfJson (← fld x "pts")
      env := (name, pts) :: env
      tensors := tensors ++ [{ name := name, ranks := ranks, idx := idx.map fun e => ⟨e, isProj e⟩ }]
    terms := terms ++ [{ kind := Kind.times, scal := scal, tensors := tensors }]
  let envF : String → Pts := fun n => (env.lookup n).getD []
  return ({ loop := loop, exts := exts, outName := outName, outVars := outVars, terms := terms }, envF)

/-- a loop over the accessed tensor's own rank: the index variable `s` it replaces, the loop variable `w`, and the own-rank
    access `c0*s + rho` -/
structure OwnSpec where
  s : String
  w : String
  c0 : Int
  rho : AffS
  Se : Nat

def ownOfJson (j : Json) : Except String OwnSpec := do
  pure ⟨← HF.strOf (← fld j "s"), ← HF.strOf (← fld j "w"), ← HF.intOf (← fld j "c0"), ← affOfJson (← fld j "rho"), ← natOf (← fld j "Se")⟩

/-! ### rational-affine reading of a `trans_fn` body -/

abbrev Q := Int × Int          -- numerator, positive denominator

def qnorm (q : Q) : Q :=
  let g := Nat.gcd q.1.natAbs q.2.natAbs
  if g = 0 then (0, 1) else
  let n := q.1 / (g : Int)
  let d := q.2 / (g : Int)
  if d < 0 then (-n, -d) else (n, d)
def qadd (a b : Q) : Q := qnorm (a.1 * b.2 + b.1 * a.2, a.2 * b.2)
def qmul (a b : Q) : Q := qnorm (a.1 * b.1, a.2 * b.2)
def qneg (a : Q) : Q := (-a.1, a.2)
def qinv (a : Q) : Option Q := if a.1 = 0 then none else some (qnorm (a.2, a.1))
def qeq (a b : Q) : Bool := a.1 * b.2 == b.1 * a.2

structure Lin where
  coefs : List (String × Q)
  const : Q

def Lin.coef (l : Lin) (v : String) : Q := (l.coefs.filter (·.1 == v)).foldl (fun acc p => qadd acc p.2) (0, 1)
def Lin.vars (l : Lin) : List String := (l.coefs.map (·.1)).eraseDups
def Lin.scale (k : Q) (l : Lin) : Lin := ⟨l.coefs.map fun (v, c) => (v, qmul k c), qmul k l.const⟩
def Lin.add (a b : Lin) : Lin := ⟨a.coefs ++ b.coefs, qadd a.const b.const⟩
def Lin.isConst (l : Lin) : Bool := l.vars.all fun v => qeq (l.coef v) (0, 1)

partial def linOf : Expr → Option Lin
  | .int i => some ⟨[], (i, 1)⟩
  | .var v => some ⟨[(v, (1, 1))], (0, 1)⟩
  | .parens e => linOf e
  | .binop l .add r => do pure ((← linOf l).add (← linOf r))
  | .binop l .sub r => do pure ((← linOf l).add ((← linOf r).scale (-1, 1)))
  | .binop l .mul r => do
    let a ← linOf l
    let b ← linOf r
    if a.isConst then pure (b.scale a.const) else if b.isConst then pure (a.scale b.const) else none
  | .binop l .div r => do
    let a ← linOf l
    let b ← linOf r
    if b.isConst then pure (a.scale (← qinv b.const)) else none
  | _ => none

structure FiberUse where
  fiber : String
  proj : Option (String × Expr × Option Expr)     -- lambda parameter, body, upper end of the interval
  pruned : Bool
  deriving Inhabited

def kwArg (kw : List (Option String)) (args : List Expr) (k : String) : Option Expr :=
  ((kw.zip args).find? fun p => p.1 == some k).map (·.2)

partial def fiberUses : Expr → List FiberUse
  | .var x => [⟨x, none, false⟩]
  | .parens e => fiberUses e
  | .binop l _ r => fiberUses l ++ fiberUses r
  | .method o "project" kw args =>
    let pr := match kwArg kw args "trans_fn" with
      | some (.lambda [p] body) =>
        let hi := match kwArg kw args "interval" with
          | some (.tuple [.int 0, hi]) => some hi
          | _ => none
        some (p, body, hi)
      | _ => none
    (fiberUses o).map fun u => { u with proj := pr }
  | .method o "prune" _ _ => (fiberUses o).map fun u => { u with pruned := true }
  | .method o "iterRangeShapeRef" _ _ => fiberUses o
  | .func "enumerate" _ [e] => fiberUses e
  | _ => [⟨"?", none, false⟩]

partial def loopUses : Stmt → List (String × List FiberUse)
  | .block ss => ss.flatMap loopUses
  | .for_ p e b =>
    let p' := match (HF.stripEnumerate e).2, p with
      | true, .tuple [_, q] => q
      | _, q => q
    let v := match p' with
      | .tuple (.var x :: _) => x
      | .var x => x
      | _ => "?"
    (v, fiberUses e) :: loopUses b
  | _ => []

/-- what the model compiler expects at each loop: per co-iterated fiber its variable, whether it is projected, and the
    access (over all loop variables) that resolves there -/
structure Pending where
  tensor : String
  rank : String
  orig : AffS
  cur : List (Int × String)

def expectedUses (S : EinsumAS) : List (String × List (String × Bool × AffS)) :=
  let pend0 : List (List Pending) := S.terms.flatMap fun t => t.tensors.map fun x =>
    (concordA S.loop x).map fun rk => ⟨x.name, rk, (accOf x rk).e, (accOf x rk).e.terms⟩
  let rec go : List String → List (List Pending) → List (String × List (String × Bool × AffS))
    | [], _ => []
    | r :: rest, pend =>
      let act := pend.filterMap fun ps => match ps with
        | p :: _ => if readyT r p.cur then some (p.tensor.toLower ++ "_" ++ p.rank.toLower, isProj p.orig, p.orig) else none
        | [] => none
      let out := if S.outVars.contains r then [(S.outName.toLower ++ "_" ++ r, false, (⟨[(1, r)], 0⟩ : AffS))] else []
      let pend' := pend.map fun ps => match ps with
        | p :: tl => (if readyT r p.cur then tl else p :: tl).map fun q => { q with cur := restT r q.cur }
        | [] => []
      (r, out ++ act) :: go rest pend'
  go S.loop pend0

/-- the emitted `trans_fn` is exactly the inverse of the access in the loop variable `r` -/
def lambdaOK (r : String) (e : AffS) (param : String) (body : Expr) : Bool :=
  match linOf body with
  | none => false
  | some l =>
    let a := e.coef r
    if a == 0 then false else
    let others := (e.terms.map (·.2)).eraseDups.filter (· != r)
    qeq (l.coef param) (1, a) && (others.all fun v => qeq (l.coef v) (-(e.coef v), a)) && qeq l.const (-e.const, a) &&
      (l.vars.all fun v => v == param || others.contains v || qeq (l.coef v) (0, 1))

def checkLoop (exp : String × List (String × Bool × AffS)) (act : String × List FiberUse) : List String :=
  let (r, es) := exp
  let (v, us) := act
  let errs0 := if r == v then [] else [s!"loop variable {v}, expected {r}"]
  let errs1 := if (es.map (·.1)).mergeSort == (us.map (·.fiber)).mergeSort then [] else
    [s!"loop {r}: co-iterated fibers {us.map (·.fiber)}, expected {es.map (·.1)}"]
  let errs2 := es.flatMap fun (fib, pj, e) =>
    match us.find? (·.fiber == fib) with
    | none => []
    | some u =>
      match pj, u.proj with
      | false, none => []
      | false, some _ => [s!"loop {r}: {fib} is projected but its access is the plain loop variable"]
      | true, none => [s!"loop {r}: {fib} is not projected although its access is {repr e.terms}"]
      | true, some (p, body, hi) =>
        (if lambdaOK r e p body then [] else [s!"loop {r}: trans_fn of {fib} ({body.gen}) is not the inverse of the access"]) ++
        (match hi with
         | some (.var X) => if X == r.toUpper then [] else [s!"loop {r}: interval of {fib} ends at {X}"]
         | _ => [s!"loop {r}: no interval (0, {r.toUpper}) on the projection of {fib}"]) ++
        (if u.pruned || e.coef r == 1 || e.coef r == -1 then [] else [s!"loop {r}: stride {e.coef r} without the integrality prune on {fib}"])
  errs0 ++ errs1 ++ errs2

def nestAff (j : Json) : Except String Json := do
  let (S0, env) ← einsumASOfJson j
  -- with an own-rank loop the terms arrive as the user wrote them; the loop-variable form is computed here (C04.loopFormTerms)
  let own ← match j.getObjVal? "own" with
    | .ok oj => do pure (some (← ownOfJson oj))
    | .error _ => pure none
  let S : EinsumAS := match own with
    | some o => { S0 with terms := C04.loopFormTerms o.s o.w o.c0 o.rho S0.terms }
    | none => S0
  let ls := levelsA S
  let sts := initTermsA S env
  let r := collectA S (runA ls sts)
  let m := collectA S (specA ls sts)
  let varOK := match own with
    | some o =>
      let R := (S.loop.zip S.exts).filter fun p => p.1 != o.w
      let We := ((S.loop.zip S.exts).lookup o.w).getD 0
      decide ((S.loop.zip S.exts).Perm (R ++ [(o.w, We)])) &&
        decide (C04.VarHyps o.s o.w o.c0 o.rho o.Se We (concord S.loop S.outVars) S0.terms env)
    | none => true
  let hyps := decide (C04.HypsA S env) && varOK
  let exp := expectedUses S
  let base := [("run", jPts r), ("spec", jPts m), ("hyps_ok", Json.bool hyps),
               ("expected_loops", Json.arr (exp.map fun (v, es) => Json.arr #[Json.str v, jStrs (es.map (·.1))]).toArray)]
  match j.getObjVal? "tree" with
  | .ok tj =>
    let s ← HF.stmtOfJson tj
    let act := loopUses s
    let errs := if act.length < exp.length then [s!"{act.length} loops, expected {exp.length}"] else
      (exp.zip act).flatMap fun (e, a) => checkLoop e a
    return Json.mkObj (base ++ [("skeleton_errors", jStrs errs),
      ("actual_loops", Json.arr (act.map fun (v, us) => Json.arr #[Json.str v, jStrs (us.map (·.fiber))]).toArray)])
  | .error _ => return Json.mkObj base

end Driver
