import TeaalVerif.Driver.C01
import TeaalVerif.Props.C02Model
open Lean
namespace Driver
open Nest

/-- largest boundary at or below `k` (occupancy splits); the first boundary for coordinates below it -/
def boundOf (bs : List Nat) (k : Nat) : Nat :=
  match (bs.filter (· ≤ k)).getLast? with
  | some b => b
  | none => bs.headD 0

def splitSpecOfJson (j : Json) : Except String C02.SplitSpec := do
  let K ← HF.strOf (← fld j "K")
  let K1 ← HF.strOf (← fld j "K1")
  let K0 ← HF.strOf (← fld j "K0")
  match j.getObjVal? "size" with
  | .ok sj =>
    let s ← natOf sj
    return ⟨K, K1, K0, fun k => k / s * s⟩
  | .error _ =>
    let bs ← natList (← fld j "bounds")
    return ⟨K, K1, K0, boundOf bs⟩

/-- drop the coordinates of the upper ranks (what `mergeRanks(..., "absolute")` does to the output) -/
def dropUpper (ranks uppers : List String) (cs : List Nat) : List Nat :=
  ((ranks.zip cs).filter fun (r, _) => !uppers.contains r).map (·.2)

def sumDup (l : List (List Nat × Int)) : List (List Nat × Int) :=
  let keys := (l.map (·.1)).eraseDups
  (keys.map fun k => (k, sumAt k l)).filter fun p => p.2 != 0

def nestPart (j : Json) : Except String Json := do
  let (S, env) ← einsumSOfJson j
  let sps ← listOf splitSpecOfJson (← fld j "splits")
  let L' ← strList (← fld j "loop2")
  let σ := List.replicate S.outRanks.length 0
  let A : C02.Cfg := ⟨S.loop.zip S.exts, S.outRanks, S.terms, env, σ⟩
  let B := C02.applySplits sps A
  let S' := C02.partEinsum S B L'
  let ok := decide (C02.PartOK S env σ sps L')
  let r := collect S' (run (levels S') (initTerms S' B.env))
  let uppers := sps.map (·.K1)
  let merged := sumDup (r.map fun (cs, v) => (dropUpper S'.outRanks uppers cs, v))
  let m := collect S (spec (levels S) (initTerms S env))
  let base := [("hyps_ok", Json.bool ok), ("run_split", jPts r), ("run", jPts merged), ("spec", jPts m),
               ("out_ranks2", jStrs S'.outRanks), ("exts2", Json.arr (S'.exts.map fun (e : Nat) => (e : Json)).toArray),
               ("expected_loops", jLoops (expectedLoops S'))]
  match j.getObjVal? "tree" with
  | .ok tj =>
    let s ← HF.stmtOfJson tj
    return Json.mkObj (base ++ [("actual_loops", jLoops (HF.loopSkeleton s))])
  | .error _ => return Json.mkObj base

end Driver
