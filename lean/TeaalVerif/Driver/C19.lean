import TeaalVerif.Driver.Util
import TeaalVerif.IR.DefaultOrder
open Lean
namespace Driver
open DefaultOrder

def partOf (j : Json) : Except String (String × List String) := do
  let a ← HF.arr j
  return (← HF.strOf a[0]!, ← strList a[1]!)

def defaultOrder (j : Json) : Except String Json := do
  let out ← strList (← fld j "out")
  let term ← strList (← fld j "term")
  let sched ← listOf partOf (← fld j "sched")
  let parts ← listOf partOf (← fld j "parts")
  -- hypotheses of C19.default_order, evaluated
  let keys := parts.map Prod.fst
  let hyp := decide (keys.Nodup) && decide (out.Nodup) && decide (sched.Perm parts) &&
    parts.all (fun p => p.2.all fun x => !keys.contains x)
  return Json.mkObj [("impl_model", jStrs (implOrder sched out term)), ("spec", jStrs (specOrder parts out term)),
                     ("einsum_ranks", jStrs (einsumRanks out term)), ("hyp", hyp)]

end Driver
