import Lean.Data.Json
import TeaalVerif.HF.Json
open Lean
namespace Driver

def fld (j : Json) (k : String) : Except String Json :=
  match j.getObjVal? k with
  | .ok v => pure v
  | .error _ => throw s!"missing field {k}"

def strList (j : Json) : Except String (List String) := HF.strs j
def strListList (j : Json) : Except String (List (List String)) := do
  (← HF.arr j).toList.mapM strList
def listOf {α} (f : Json → Except String α) (j : Json) : Except String (List α) := do
  (← HF.arr j).toList.mapM f

def jStrs (l : List String) : Json := Json.arr (l.map Json.str).toArray
def jStrss (l : List (List String)) : Json := Json.arr (l.map jStrs).toArray
def jList {α} (f : α → Json) (l : List α) : Json := Json.arr (l.map f).toArray

end Driver
