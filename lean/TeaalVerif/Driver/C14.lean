import TeaalVerif.Driver.Util
import TeaalVerif.Metrics.Time
import TeaalVerif.Metrics.Arch
open Lean
namespace Driver
open Time

def beqExpr : HF.Expr → HF.Expr → Bool := fun a b => a.gen == b.gen && reprStr a == reprStr b

/-- leaves of an actual HiFiber expression of the roll-up shape; none if it is not of that shape -/
partial def leavesHF : HF.Expr → Option (List (String × String))
  | .access (.access (.access (.var "metrics") (.str e)) (.str c)) (.str "time") => some [(e, c)]
  | .binop l .add r => do pure ((← leavesHF l) ++ (← leavesHF r))
  | .func "max" _ args => do
    let ls ← args.mapM leavesHF
    pure ls.flatten
  | .int 0 => some []
  | .parens e => leavesHF e
  | _ => none

def timeExpr (j : Json) : Except String Json := do
  let blocks ← strListList (← fld j "blocks")
  let compsJ ← fld j "comps"
  let actual ← HF.exprOfJson (← fld j "actual")
  let comps : String → List String := fun e =>
    match compsJ.getObjVal? e with
    | .ok v => (strList v).toOption.getD []
    | .error _ => []
  match build comps blocks with
  | none => return Json.mkObj [("model", Json.null), ("agree", false), ("once", false)]
  | some t =>
    let m := toHF t
    let registered := blocks.flatten.flatMap fun e => (comps e).map fun c => (e, c)
    let once := match leavesHF actual with
      | some ls => decide (ls.Perm registered)
      | none => false
    return Json.mkObj [("model", m.gen), ("agree", beqExpr m actual), ("once", once),
                       ("model_once", decide ((leaves t).Perm registered))]

/-- the architecture tree of one configuration as written: {"name": bare name, "last": N or null, "locals": [..], "subs": [..]} -/
partial def archTree (j : Json) : Except String Arch.Tree := do
  let name ← (← fld j "name").getStr?
  let last : Option Nat := match j.getObjVal? "last" with
    | .ok v => (v.getNat?).toOption
    | .error _ => none
  let locals ← strList (← fld j "locals")
  let subs ← (← HF.arr (← fld j "subs")).toList.mapM archTree
  return .node ⟨name, last⟩ locals subs

/-- op `arch_instances`: the dictionary of instance counts the model builds for one configuration (Arch.instances for every
name assigned), and whether the names are distinct (the hypothesis of C14.instances_of_local) -/
def archInstances (j : Json) : Except String Json := do
  let t ← archTree (← fld j "tree")
  let asg := Arch.assigns t
  let names := (asg.map Prod.fst).eraseDups
  let table := names.map fun c => Json.arr #[Json.str c, match Arch.instances t c with | some n => Json.num n | none => Json.null]
  return Json.mkObj [("instances", Json.arr table.toArray), ("distinct", decide ((asg.map Prod.fst).Nodup))]

end Driver
