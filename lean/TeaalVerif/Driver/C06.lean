import TeaalVerif.Driver.Util
import TeaalVerif.HF.Scope
open Lean
namespace Driver
open HF

/-- diagnostic twin of `DA` (not used for the verdict): the first name read while unbound -/
partial def explain (U : List String) (s : Stmt) (path : String) : Except String (List String) :=
  let need (xs : List String) (what : String) : Except String Unit :=
    match xs.find? (fun x => !U.contains x) with
    | some x => throw s!"name '{x}' is read unbound in {what} at {path}"
    | none => pure ()
  match s with
  | .assign a e => do need (a.reads ++ e.reads) ("`" ++ (Stmt.assign a e).gen 0 ++ "`"); return a.binds ++ U
  | .expr e => do need e.reads ("`" ++ e.gen ++ "`"); return U
  | .iassign a op e => do need (a.readsAug ++ e.reads) ("`" ++ (Stmt.iassign a op e).gen 0 ++ "`"); return U
  | .block ss => do
    let mut cur := U
    let mut i := 0
    for x in ss do
      cur ← explain cur x s!"{path}/{i}"
      i := i + 1
    return cur
  | .for_ p e b => do
    need e.reads ("loop header `for " ++ p.gen false ++ " in " ++ e.gen ++ "`")
    let _ ← explain (p.vars ++ U) b (path ++ "/for " ++ p.gen false)
    return U
  | .if_ c t ec es el => do
    need (c.reads ++ Expr.readsL ec) ("condition of `if " ++ c.gen ++ "`")
    let d1 ← explain U t (path ++ "/then")
    let mut acc := d1
    for x in es do
      let d ← explain U x (path ++ "/elif")
      acc := inter acc d
    match el with
    | some x => do let d ← explain U x (path ++ "/else"); return inter acc d
    | none => return inter acc U
  | .func n _ _ => throw s!"function definition {n} is outside the modelled fragment"
  | .ret _ => throw "return is outside the modelled fragment"

def da (j : Json) : Except String Json := do
  let s ← stmtOfJson (← fld j "tree")
  let u ← strList (← fld j "user")
  let ok := (DA u s).isSome
  let why := match explain u s "" with
    | .ok _ => ""
    | .error e => e
  return Json.mkObj [("ok", ok), ("why", why), ("text", s.gen 0)]

end Driver
