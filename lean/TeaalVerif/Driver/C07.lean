import TeaalVerif.Driver.Util
import TeaalVerif.IR.Tensor
import TeaalVerif.Props.C05
import TeaalVerif.Props.C07Heap
import TeaalVerif.Props.C07Taint
import TeaalVerif.Nest.Compile
open Lean
namespace Driver

def cursorOp (j : Json) : Except String Cursor.Op := do
  let a ← HF.arr j
  match ← HF.strOf a[0]! with
  | "swizzle" => return .swizzle (← strList a[1]!)
  | "update_ranks" => return .updateRanks (← strList a[1]!)
  | "from_fiber" => return .fromFiber
  | "pop" => return .pop
  | "set_is_output" => match a[1]! with
    | .bool b => return .setIsOutput b
    | _ => throw "bool"
  | "reset" => return .reset
  | o => throw s!"unknown cursor op {o}"

def cursor (j : Json) : Except String Json := do
  let name ← HF.strOf (← fld j "name")
  let ranks ← strList (← fld j "ranks")
  let ops ← listOf cursorOp (← fld j "ops")
  let mut t := Cursor.init name ranks
  let mut out : Array Json := #[]
  for o in ops do
    match Cursor.step t o with
    | some t' =>
      t := t'
      out := out.push (Json.mkObj [("tensor_name", t.tensorName), ("fiber_name", t.fiberName), ("ranks", jStrs t.active)])
    | none => out := out.push Json.null
  return Json.mkObj [("states", Json.arr out)]

def rankids (j : Json) : Except String Json := do
  let s ← HF.stmtOfJson (← fld j "tree")
  let inputsJ ← HF.arr (← fld j "inputs")
  let inputs ← inputsJ.toList.mapM fun p => do
    let a ← HF.arr p
    pure ((← HF.strOf a[0]!), (← strList a[1]!))
  let st0 : RankIds.St := { ids := inputs, alias := inputs.map fun (x, _) => (x, x), inputs := inputs.map (·.1) }
  match RankIds.interp st0 s with
  | .error e => return Json.mkObj [("ok", false), ("why", e)]
  | .ok st =>
    let vars := st.alias.map (·.1)
    let final := vars.filterMap fun x => (st.get x).map fun ids => Json.arr #[Json.str x, jStrs ids]
    let inputsSame := inputs.all fun (x, ids) => st.get x == some ids
    return Json.mkObj [("ok", true), ("final", Json.arr final.toArray), ("inputs_unchanged", inputsSame)]

/-! ### the heap checker (`RankHeap.chk`, sound for every execution: `C07.chk_sound`) on the real tree -/

partial def patVars : HF.Payload → List String
  | .var x => [x]
  | .tuple ps => ps.flatMap patVars

/-- the tensor-relevant reading of the emitted statements (the translator is part of the tie, not of the theorem) -/
partial def progOf : HF.Stmt → RankHeap.Prog
  | .block ss => ss.foldr (fun s acc => .seq (progOf s) acc) .skip
  | .for_ p _ b => .loop ((patVars p).foldr (fun x acc => .seq (.op (.clobber x)) acc) (progOf b))
  | .if_ _ t _ es el =>
    let rest : RankHeap.Prog := match el with
      | some x => progOf x
      | none => .skip
    .alt (progOf t) (es.foldr (fun s acc => .alt (progOf s) acc) rest)
  | .assign (.var x) (.var y) => .op (.copy x y)
  | .assign (.var x) (.func "Tensor" kw args) =>
    match (RankIds.kwArg kw args "rank_ids").bind RankIds.strList? with
    | some ids => .op (.fresh x ids)
    | none => .op (.meth x "<Tensor() without literal rank_ids>" fun _ => .error s!"Tensor(...) for {x} without literal rank_ids")
  | .assign (.var x) (.method (.var "Tensor") "fromFiber" kw args) =>
    match (RankIds.kwArg kw args "rank_ids").bind RankIds.strList? with
    | some ids => .op (.fresh x ids)
    | none => .op (.meth x "<fromFiber without literal rank_ids>" fun _ => .error s!"Tensor.fromFiber for {x} without literal rank_ids")
  | .assign (.var x) (.method (.var y) m kw args) =>
    if RankIds.tensorMethods.contains m then .op (.meth x y fun ids => RankIds.methodIds ids m kw args) else .op (.clobber x)
  | .assign (.var x) _ => .op (.clobber x)
  | .func _ _ b => .alt (progOf b) .skip
  | .expr (.method (.var y) "setRankIds" kw args) =>
    match (RankIds.kwArg kw args "rank_ids").bind RankIds.strList? with
    | some ro => .op (.setIds y ro)
    | none => .op (.meth y "<setRankIds without literal rank_ids>" fun _ => .error s!"setRankIds on {y} without literal rank ids")
  | _ => .skip

partial def progSize : RankHeap.Prog → Nat × Nat × Nat       -- (operations, loops, alternatives)
  | .op _ => (1, 0, 0)
  | .skip => (0, 0, 0)
  | .seq p q => let (a, b, c) := progSize p; let (d, e, f) := progSize q; (a + d, b + e, c + f)
  | .loop b => let (a, l, c) := progSize b; (a, l + 1, c)
  | .alt p q => let (a, b, c) := progSize p; let (d, e, f) := progSize q; (a + d, b + e, c + f + 1)

/-- tensor operations that sit inside a loop or a branch (checked once there, sound for any number of iterations) -/
partial def opsInside : RankHeap.Prog → Bool → Nat
  | .op (.clobber _), _ => 0
  | .op _, inside => if inside then 1 else 0
  | .skip, _ => 0
  | .seq p q, i => opsInside p i + opsInside q i
  | .loop b, _ => opsInside b true
  | .alt p q, _ => opsInside p true + opsInside q true

/-- the checker's states at the end of every loop body and branch (what is bound there is forgotten afterwards, so names bound
    inside a loop are judged where their scope ends; `chk_sound` applies to each body as a program of its own) -/
partial def scopeEnds : RankHeap.Prog → RankHeap.H → List RankHeap.H
  | .seq p q, h => match RankHeap.chk p h with
    | .ok h1 => scopeEnds p h ++ scopeEnds q h1
    | .error _ => []
  | .loop b, h => (match RankHeap.chk b h with | .ok h1 => [h1] | .error _ => []) ++ scopeEnds b h
  | .alt p q, h =>
    (match RankHeap.chk p h with | .ok h1 => [h1] | .error _ => []) ++ (match RankHeap.chk q h with | .ok h1 => [h1] | .error _ => []) ++
      scopeEnds p h ++ scopeEnds q h
  | _, _ => []

def rankheap (j : Json) : Except String Json := do
  let s ← HF.stmtOfJson (← fld j "tree")
  let inputsJ ← HF.arr (← fld j "inputs")
  let inputs ← inputsJ.toList.mapM fun p => do
    let a ← HF.arr p
    pure ((← HF.strOf a[0]!), (← strList a[1]!))
  let h0 := inputs.foldl (fun h (x, ids) => h.alloc x ids true) RankHeap.H.empty
  let p := progOf s
  let (nops, nloops, nalts) := progSize p
  let stats := [("ops", (nops : Json)), ("loops", (nloops : Json)), ("alts", (nalts : Json)), ("tensor_ops_inside_loops", (opsInside p false : Json))]
  match RankHeap.chk p h0 with
  | .error e => return Json.mkObj ([("ok", Json.bool false), ("why", Json.str e)] ++ stats)
  | .ok h =>
    let pairsOf (g : RankHeap.H) : List (String × List String) := g.dom.eraseDups.filterMap fun x => (g.cls x).map fun a => (x, g.ids a)
    let top := pairsOf h
    let inner := ((scopeEnds p h0).flatMap pairsOf).eraseDups.filter fun pr => !top.contains pr
    let final := top.map fun (x, ids) => Json.arr #[Json.str x, jStrs ids]
    let scopedJ := inner.map fun (x, ids) => Json.arr #[Json.str x, jStrs ids]
    let inputsSame := inputs.all fun (x, ids) => (h.cls x).map h.ids == some ids
    return Json.mkObj ([("ok", Json.bool true), ("final", Json.arr final.toArray), ("scoped", Json.arr scopedJ.toArray), ("inputs_unchanged", Json.bool inputsSame)] ++ stats)

/-! ### origin of every fiber / payload reference (`Taint.chk`, sound for every execution: `C07.tchk_sound`) on the real tree -/

def clobberAll (p : HF.Payload) : List Taint.TOp := (patVars p).map fun x => .clobber x

/-- the variable a fiber expression is rooted in (`a_k.project(...).prune(...)`, `Fiber.fromLazy(a_k)`, `(a_k)`) -/
partial def srcVar : HF.Expr → Option String
  | .var f => some f
  | .parens e => srcVar e
  | .method (.var "Fiber") "fromLazy" _ [e] => srcVar e
  | .method o _ _ _ => srcVar o
  | _ => none

/-- which payload variable of a loop target is bound from which fiber of the loop's iteration expression (positionally: `x << y`
    and `x & y` yield pairs, `x | y` triples with a mask in front, `Fiber.intersection(a, b, ...)` a tuple in argument order) -/
partial def bindPat : HF.Payload → HF.Expr → List Taint.TOp
  | pat, .parens e => bindPat pat e
  | .tuple [pl, pr], .binop l .ltlt r => bindPat pl l ++ bindPat pr r
  | .tuple [pl, pr], .binop l .and r => bindPat pl l ++ bindPat pr r
  | .tuple [m, pl, pr], .binop l .or r => clobberAll m ++ bindPat pl l ++ bindPat pr r
  | pat, .method (.var "Fiber") "fromLazy" _ [e] => bindPat pat e
  | .tuple ps, .method (.var "Fiber") "intersection" kw args =>
    let pos := (kw.zip args).filterMap fun (k, a) => if k.isNone then some a else none
    if pos.length == ps.length then (ps.zip pos).flatMap fun (p, a) => bindPat p a else ps.flatMap clobberAll
  | .var x, e => match srcVar e with
    | some f => [.copyFrom x f]
    | none => [.clobber x]
  | pat, .method o m _ _ => if (["project", "prune", "iterRangeShapeRef", "iterRangeShape", "iterOccupancy"].contains m) then bindPat pat o else clobberAll pat
  | pat, _ => clobberAll pat

/-- the left operands of `<<` are populated (children are created in them) -/
partial def populated : HF.Expr → List String
  | .parens e => populated e
  | .binop l .ltlt r => (match srcVar l with | some v => [v] | none => []) ++ populated r
  | .method (.var "Fiber") "fromLazy" _ [e] => populated e
  | _ => []

/-- the variables a translated program binds (tags or clobbers) -/
partial def boundVars : Taint.Prog → List String
  | .op (.setConst x _) => [x]
  | .op (.copyFrom x _) => [x]
  | .op (.clobber x) => [x]
  | .op (.mutate _) => []
  | .skip => []
  | .seq p q => boundVars p ++ boundVars q
  | .loop b => boundVars b
  | .alt p q => boundVars p ++ boundVars q

/-- a loop, preceded by forgetting whatever an earlier part of the program left in the variables its body binds
    (`C07.run_fewer_clobbers`: these virtual `clobber`s only lose information) -/
def loopForgetting (body : Taint.Prog) : Taint.Prog :=
  (boundVars body).eraseDups.foldr (fun x acc => .seq (.op (.clobber x)) acc) (.loop body)

partial def taintOf : HF.Stmt → Taint.Prog
  | .block ss => ss.foldr (fun s acc => .seq (taintOf s) acc) .skip
  | .for_ p e b =>
    let (e', isEnum) := HF.stripEnumerate e
    let inner : HF.Payload := match isEnum, p with
      | true, .tuple [_, q] => q
      | _, q => q
    let posOps : List Taint.TOp := match isEnum, p with
      | true, .tuple [q, _] => clobberAll q
      | _, _ => []
    let ops : List Taint.TOp := match inner with
      | .tuple [c, pay] => clobberAll c ++ bindPat pay e'
      | q => clobberAll q
    let muts : List Taint.TOp := (populated e').map fun v => .mutate v
    loopForgetting ((posOps ++ muts ++ ops).foldr (fun o acc => .seq (.op o) acc) (taintOf b))
  | .if_ _ t _ es el =>
    let rest : Taint.Prog := match el with
      | some x => taintOf x
      | none => .skip
    .alt (taintOf t) (es.foldr (fun s acc => .alt (taintOf s) acc) rest)
  | .func _ _ b => .alt (taintOf b) .skip
  | .assign (.var x) (.var y) => .op (.copyFrom x y)
  | .assign (.var x) (.func "Tensor" _ _) => .op (.setConst x false)
  | .assign (.var x) (.method (.var "Tensor") "fromFiber" kw args) =>
    match (RankIds.kwArg kw args "fiber").bind srcVar with
    | some f => .op (.copyFrom x f)
    | none => .op (.clobber x)
  | .assign (.var x) (.method (.var y) m kw args) =>
    if RankIds.tensorMethods.contains m then .op (.setConst x false)          -- value-returning transformations return fresh tensors
    else if ["getRoot", "getPayload", "getPayloadRef", "project", "prune"].contains m then .op (.copyFrom x y)
    else match srcVar (.method (.var y) m kw args) with
      | some f => if y == "Fiber" then .op (.copyFrom x f) else .op (.clobber x)
      | none => .op (.clobber x)
  | .assign (.var x) e => match e with
    | .method (.var "Fiber") "fromLazy" _ [e'] => (match srcVar e' with | some f => .op (.copyFrom x f) | none => .op (.clobber x))
    | _ => .op (.clobber x)
  | .iassign (.var x) _ _ => if x.endsWith "_ref" || x.endsWith "_val" then .op (.mutate x) else .skip
  | _ => .skip

partial def countMut : Taint.Prog → Nat
  | .op (.mutate _) => 1
  | .seq p q => countMut p + countMut q
  | .loop b => countMut b
  | .alt p q => countMut p + countMut q
  | _ => 0

def taintCheck (j : Json) : Except String Json := do
  let s ← HF.stmtOfJson (← fld j "tree")
  let inputsJ ← HF.arr (← fld j "inputs")
  let inputs ← inputsJ.toList.mapM fun p => do
    let a ← HF.arr p
    HF.strOf a[0]!
  let h0 : Taint.St := fun x => if inputs.contains x then some true else none
  let p := taintOf s
  match Taint.chk p (inputs, h0) with
  | .error e => return Json.mkObj [("ok", Json.bool false), ("why", Json.str e), ("mutations", (countMut p : Json))]
  | .ok _ => return Json.mkObj [("ok", Json.bool true), ("mutations", (countMut p : Json))]

def tmpIssued (j : Json) : Except String Json := do
  let c ← HF.intOf (← fld j "count_before")
  let n ← HF.intOf (← fld j "n")
  return Json.mkObj [("issued", Json.arr ((C05.issued c n.toNat).map fun (x : Int) => (x : Json)).toArray)]

end Driver
