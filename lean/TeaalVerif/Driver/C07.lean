import TeaalVerif.Driver.Util
import TeaalVerif.IR.Tensor
import TeaalVerif.Props.C05
open Lean
namespace Driver

def cursorOp (j : Json) : Except String Cursor.Op := do
  let a ← HF.arr j
  match ← HF.strOf a[0]! with
  | "swizzle" => return .swizzle (← strList a[1]!)
  | "update_ranks" => return .updateRanks (← strList a[1]!)
  | "from_fiber" => return .fromFiber
  | "pop" => return .pop
  | "set_is_output" => match a[1]! with
    | .bool b => return .setIsOutput b
    | _ => throw "bool"
  | "reset" => return .reset
  | o => throw s!"unknown cursor op {o}"

def cursor (j : Json) : Except String Json := do
  let name ← HF.strOf (← fld j "name")
  let ranks ← strList (← fld j "ranks")
  let ops ← listOf cursorOp (← fld j "ops")
  let mut t := Cursor.init name ranks
  let mut out : Array Json := #[]
  for o in ops do
    match Cursor.step t o with
    | some t' =>
      t := t'
      out := out.push (Json.mkObj [("tensor_name", t.tensorName), ("fiber_name", t.fiberName), ("ranks", jStrs t.active)])
    | none => out := out.push Json.null
  return Json.mkObj [("states", Json.arr out)]

def rankids (j : Json) : Except String Json := do
  let s ← HF.stmtOfJson (← fld j "tree")
  let inputsJ ← HF.arr (← fld j "inputs")
  let inputs ← inputsJ.toList.mapM fun p => do
    let a ← HF.arr p
    pure ((← HF.strOf a[0]!), (← strList a[1]!))
  let st0 : RankIds.St := { ids := inputs, alias := inputs.map fun (x, _) => (x, x), inputs := inputs.map (·.1) }
  match RankIds.interp st0 s with
  | .error e => return Json.mkObj [("ok", false), ("why", e)]
  | .ok st =>
    let vars := st.alias.map (·.1)
    let final := vars.filterMap fun x => (st.get x).map fun ids => Json.arr #[Json.str x, jStrs ids]
    let inputsSame := inputs.all fun (x, ids) => st.get x == some ids
    return Json.mkObj [("ok", true), ("final", Json.arr final.toArray), ("inputs_unchanged", inputsSame)]

def tmpIssued (j : Json) : Except String Json := do
  let c ← HF.intOf (← fld j "count_before")
  let n ← HF.intOf (← fld j "n")
  return Json.mkObj [("issued", Json.arr ((C05.issued c n.toNat).map fun (x : Int) => (x : Json)).toArray)]

end Driver
