import TeaalVerif.Driver.Util
import TeaalVerif.IR.Tensor
import TeaalVerif.Props.C05
import TeaalVerif.Props.C07Heap
open Lean
namespace Driver

def cursorOp (j : Json) : Except String Cursor.Op := do
  let a ← HF.arr j
  match ← HF.strOf a[0]! with
  | "swizzle" => return .swizzle (← strList a[1]!)
  | "update_ranks" => return .updateRanks (← strList a[1]!)
  | "from_fiber" => return .fromFiber
  | "pop" => return .pop
  | "set_is_output" => match a[1]! with
    | .bool b => return .setIsOutput b
    | _ => throw "bool"
  | "reset" => return .reset
  | o => throw s!"unknown cursor op {o}"

def cursor (j : Json) : Except String Json := do
  let name ← HF.strOf (← fld j "name")
  let ranks ← strList (← fld j "ranks")
  let ops ← listOf cursorOp (← fld j "ops")
  let mut t := Cursor.init name ranks
  let mut out : Array Json := #[]
  for o in ops do
    match Cursor.step t o with
    | some t' =>
      t := t'
      out := out.push (Json.mkObj [("tensor_name", t.tensorName), ("fiber_name", t.fiberName), ("ranks", jStrs t.active)])
    | none => out := out.push Json.null
  return Json.mkObj [("states", Json.arr out)]

def rankids (j : Json) : Except String Json := do
  let s ← HF.stmtOfJson (← fld j "tree")
  let inputsJ ← HF.arr (← fld j "inputs")
  let inputs ← inputsJ.toList.mapM fun p => do
    let a ← HF.arr p
    pure ((← HF.strOf a[0]!), (← strList a[1]!))
  let st0 : RankIds.St := { ids := inputs, alias := inputs.map fun (x, _) => (x, x), inputs := inputs.map (·.1) }
  match RankIds.interp st0 s with
  | .error e => return Json.mkObj [("ok", false), ("why", e)]
  | .ok st =>
    let vars := st.alias.map (·.1)
    let final := vars.filterMap fun x => (st.get x).map fun ids => Json.arr #[Json.str x, jStrs ids]
    let inputsSame := inputs.all fun (x, ids) => st.get x == some ids
    return Json.mkObj [("ok", true), ("final", Json.arr final.toArray), ("inputs_unchanged", inputsSame)]

/-! ### the heap checker (`RankHeap.chk`, sound for every execution: `C07.chk_sound`) on the real tree -/

partial def patVars : HF.Payload → List String
  | .var x => [x]
  | .tuple ps => ps.flatMap patVars

/-- the tensor-relevant reading of the emitted statements (the translator is part of the tie, not of the theorem) -/
partial def progOf : HF.Stmt → RankHeap.Prog
  | .block ss => ss.foldr (fun s acc => .seq (progOf s) acc) .skip
  | .for_ p _ b => .loop ((patVars p).foldr (fun x acc => .seq (.op (.clobber x)) acc) (progOf b))
  | .if_ _ t _ es el =>
    let rest : RankHeap.Prog := match el with
      | some x => progOf x
      | none => .skip
    .alt (progOf t) (es.foldr (fun s acc => .alt (progOf s) acc) rest)
  | .assign (.var x) (.var y) => .op (.copy x y)
  | .assign (.var x) (.func "Tensor" kw args) =>
    match (RankIds.kwArg kw args "rank_ids").bind RankIds.strList? with
    | some ids => .op (.fresh x ids)
    | none => .op (.meth x "<Tensor() without literal rank_ids>" fun _ => .error s!"Tensor(...) for {x} without literal rank_ids")
  | .assign (.var x) (.method (.var "Tensor") "fromFiber" kw args) =>
    match (RankIds.kwArg kw args "rank_ids").bind RankIds.strList? with
    | some ids => .op (.fresh x ids)
    | none => .op (.meth x "<fromFiber without literal rank_ids>" fun _ => .error s!"Tensor.fromFiber for {x} without literal rank_ids")
  | .assign (.var x) (.method (.var y) m kw args) =>
    if RankIds.tensorMethods.contains m then .op (.meth x y fun ids => RankIds.methodIds ids m kw args) else .op (.clobber x)
  | .assign (.var x) _ => .op (.clobber x)
  | .func _ _ b => .alt (progOf b) .skip
  | .expr (.method (.var y) "setRankIds" kw args) =>
    match (RankIds.kwArg kw args "rank_ids").bind RankIds.strList? with
    | some ro => .op (.setIds y ro)
    | none => .op (.meth y "<setRankIds without literal rank_ids>" fun _ => .error s!"setRankIds on {y} without literal rank ids")
  | _ => .skip

partial def progSize : RankHeap.Prog → Nat × Nat × Nat       -- (operations, loops, alternatives)
  | .op _ => (1, 0, 0)
  | .skip => (0, 0, 0)
  | .seq p q => let (a, b, c) := progSize p; let (d, e, f) := progSize q; (a + d, b + e, c + f)
  | .loop b => let (a, l, c) := progSize b; (a, l + 1, c)
  | .alt p q => let (a, b, c) := progSize p; let (d, e, f) := progSize q; (a + d, b + e, c + f + 1)

/-- tensor operations that sit inside a loop or a branch (checked once there, sound for any number of iterations) -/
partial def opsInside : RankHeap.Prog → Bool → Nat
  | .op (.clobber _), _ => 0
  | .op _, inside => if inside then 1 else 0
  | .skip, _ => 0
  | .seq p q, i => opsInside p i + opsInside q i
  | .loop b, _ => opsInside b true
  | .alt p q, _ => opsInside p true + opsInside q true

/-- the checker's states at the end of every loop body and branch (what is bound there is forgotten afterwards, so names bound
    inside a loop are judged where their scope ends; `chk_sound` applies to each body as a program of its own) -/
partial def scopeEnds : RankHeap.Prog → RankHeap.H → List RankHeap.H
  | .seq p q, h => match RankHeap.chk p h with
    | .ok h1 => scopeEnds p h ++ scopeEnds q h1
    | .error _ => []
  | .loop b, h => (match RankHeap.chk b h with | .ok h1 => [h1] | .error _ => []) ++ scopeEnds b h
  | .alt p q, h =>
    (match RankHeap.chk p h with | .ok h1 => [h1] | .error _ => []) ++ (match RankHeap.chk q h with | .ok h1 => [h1] | .error _ => []) ++
      scopeEnds p h ++ scopeEnds q h
  | _, _ => []

def rankheap (j : Json) : Except String Json := do
  let s ← HF.stmtOfJson (← fld j "tree")
  let inputsJ ← HF.arr (← fld j "inputs")
  let inputs ← inputsJ.toList.mapM fun p => do
    let a ← HF.arr p
    pure ((← HF.strOf a[0]!), (← strList a[1]!))
  let h0 := inputs.foldl (fun h (x, ids) => h.alloc x ids true) RankHeap.H.empty
  let p := progOf s
  let (nops, nloops, nalts) := progSize p
  let stats := [("ops", (nops : Json)), ("loops", (nloops : Json)), ("alts", (nalts : Json)), ("tensor_ops_inside_loops", (opsInside p false : Json))]
  match RankHeap.chk p h0 with
  | .error e => return Json.mkObj ([("ok", Json.bool false), ("why", Json.str e)] ++ stats)
  | .ok h =>
    let pairsOf (g : RankHeap.H) : List (String × List String) := g.dom.eraseDups.filterMap fun x => (g.cls x).map fun a => (x, g.ids a)
    let top := pairsOf h
    let inner := ((scopeEnds p h0).flatMap pairsOf).eraseDups.filter fun pr => !top.contains pr
    let final := top.map fun (x, ids) => Json.arr #[Json.str x, jStrs ids]
    let scopedJ := inner.map fun (x, ids) => Json.arr #[Json.str x, jStrs ids]
    let inputsSame := inputs.all fun (x, ids) => (h.cls x).map h.ids == some ids
    return Json.mkObj ([("ok", Json.bool true), ("final", Json.arr final.toArray), ("scoped", Json.arr scopedJ.toArray), ("inputs_unchanged", Json.bool inputsSame)] ++ stats)

def tmpIssued (j : Json) : Except String Json := do
  let c ← HF.intOf (← fld j "count_before")
  let n ← HF.intOf (← fld j "n")
  return Json.mkObj [("issued", Json.arr ((C05.issued c n.toNat).map fun (x : Int) => (x : Json)).toArray)]

end Driver
