import TeaalVerif.Driver.Util
import TeaalVerif.IR.Hoist
open Lean
namespace Driver
open Hoist

def natOf (j : Json) : Except String Nat := do
  let i ← HF.intOf j
  if i < 0 then throw "negative" else pure i.toNat

def natList (j : Json) : Except String (List Nat) := listOf natOf j

def pairOf (j : Json) : Except String (Nat × Nat) := do
  let a ← HF.arr j
  return (← natOf a[0]!, ← natOf a[1]!)

def hoist (j : Json) : Except String Json := do
  let edges ← listOf pairOf (← fld j "edges")
  let s0 ← natList (← fld j "sorted0")
  let s1 ← natList (← fld j "sorted1")
  let loopsJ ← HF.arr (← fld j "loops")
  let loops ← loopsJ.toList.mapM fun l => do
    let n ← natOf (← fld l "node")
    let d ← natList (← fld l "desc")
    pure (n, d)
  let loopsF : List (Nat × (Nat → Bool)) := loops.map fun (n, d) => (n, fun x => d.contains x)
  let model := hoistAll s0 loopsF
  let topo0 := decide (Topo edges s0)
  let closed := loopsF.all fun l => decide (Closed edges l.1 l.2)
  let topo1 := decide (Topo edges s1)
  let perm1 := decide (s1.Perm s0)
  return Json.mkObj [("model", Json.arr (model.map (fun (n : Nat) => (n : Json))).toArray), ("agree", model == s1),
    ("topo0", topo0), ("closed", closed), ("topo1", topo1), ("perm1", perm1)]

end Driver
