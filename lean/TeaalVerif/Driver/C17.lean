import TeaalVerif.Driver.Util
import TeaalVerif.Grammar.Spec
open Lean
namespace Driver
open Grammar

def gtokOfJson (j : Json) : Except String Tok := do
  let a ← HF.arr j
  match ← HF.strOf a[0]! with
  | "N" => return .name (← HF.strOf a[1]!)
  | "D" => return .num (← natOf' a[1]!)
  | "S" => return .sym (← HF.strOf a[1]!)
  | t => throw s!"bad token kind {t}"
where natOf' (j : Json) : Except String Nat := do
  let i ← HF.intOf j
  if i < 0 then throw "negative" else pure i.toNat

def jITerm (t : ITerm) : Json :=
  Json.arr #[match t.coef with | none => Json.null | some c => (c : Json), Json.str t.var]
def jAccess (a : Access) : Json :=
  Json.mkObj [("name", a.name), ("idx", jList (jList jITerm) a.idx)]
def jFactor : Factor → Json
  | .scalar n => Json.arr #["s", Json.str n]
  | .tensor a => Json.arr #["t", jAccess a]
def jTerm : Grammar.Term → Json
  | .times fs => Json.mkObj [("kind", "times"), ("factors", jList jFactor fs), ("sel", Json.null)]
  | .take fs sel => Json.mkObj [("kind", "take"), ("factors", jList jFactor fs), ("sel", (sel : Nat))]
def jSize : Size → Json
  | .lit n => Json.arr #["int", (n : Nat)]
  | .sym s => Json.arr #["str", Json.str s]
def jDirective : Directive → Json
  | .nway sz => Json.mkObj [("kind", "nway_shape"), ("size", jSize sz)]
  | .occupancy l sz => Json.mkObj [("kind", "uniform_occupancy"), ("leader", l), ("size", jSize sz)]
  | .shape sz => Json.mkObj [("kind", "uniform_shape"), ("size", jSize sz)]
  | .flatten => Json.mkObj [("kind", "flatten")]
  | .follow l => Json.mkObj [("kind", "follow"), ("leader", l)]

def parseSpec (j : Json) : Except String Json := do
  let g ← HF.strOf (← fld j "grammar")
  let ts ← listOf gtokOfJson (← fld j "toks")
  let res : Json := match g with
    | "einsum" => match parseEinsum ts with
      | some e => Json.mkObj [("out", jAccess e.out), ("terms", jList jTerm e.terms)]
      | none => Json.null
    | "directive" => match parseDirective ts with
      | some d => jDirective d
      | none => Json.null
    | "ranks" => match parseRankKey ts with
      | some (.one r) => jStrs [r]
      | some (.many a b rs) => jStrs (a :: b :: rs)
      | none => Json.null
    | "stamp" => match parseStamp ts with
      | some (r, st) => Json.arr #[Json.str r, Json.str (match st with | .pos => "pos" | .coord => "coord")]
      | none => Json.null
    | "level" => match parseLevel ts with
      | some (n, k) => Json.arr #[Json.str n, (k : Nat)]
      | none => Json.null
    | _ => Json.str "unknown grammar"
  return Json.mkObj [("ast", res)]

end Driver
