import TeaalVerif.Driver.Util
import TeaalVerif.Driver.C10
import TeaalVerif.Nest.Compile
import TeaalVerif.Props.C01Ext
open Lean
namespace Driver
open Nest

def ptsOfJson (j : Json) : Except String Pts := do
  (← HF.arr j).toList.mapM fun p => do
    let a ← HF.arr p
    let cs ← natList a[0]!
    let v ← HF.intOf a[1]!
    pure (cs, v)

def jPts (p : List (List Nat × Int)) : Json :=
  Json.arr (p.map fun (cs, v) => Json.arr #[Json.arr (cs.map fun (c : Nat) => (c : Json)).toArray, (v : Json)]).toArray

def einsumSOfJson (j : Json) : Except String (EinsumS × (String → Pts)) := do
  let loop ← strList (← fld j "loop")
  let exts ← natList (← fld j "exts")
  let outName ← HF.strOf (← fld j "out_name")
  let outRanks ← strList (← fld j "out_ranks")
  let termsJ ← HF.arr (← fld j "terms")
  let mut env : List (String × Pts) := []
  let mut terms : List TermS := []
  for t in termsJ.toList do
    let kindS ← HF.strOf (← fld t "kind")
    let kind ← match kindS with
      | "times" => pure Kind.times
      | "take" => do pure (Kind.take (← natOf (← fld t "sel")))
      | k => throw s!"bad kind {k}"
    let scal ← HF.intOf (← fld t "scal")
    let mut tensors : List TensorS := []
    for x in (← HF.arr (← fld t "tensors")).toList do
      let name ← HF.strOf (← fld x "name")
      let ranks ← strList (← fld x "ranks")
      let pts ← ptsOfJson (← fld x "pts")
      env := (name, pts) :: env
      tensors := tensors ++ [{ name := name, ranks := ranks }]
    terms := terms ++ [{ kind := kind, scal := scal, tensors := tensors }]
  let envF : String → Pts := fun n => (env.lookup n).getD []
  return ({ loop := loop, exts := exts, outName := outName, outRanks := outRanks, terms := terms }, envF)

def jLoops (l : List (String × List String)) : Json :=
  Json.arr (l.map fun (v, fs) => Json.arr #[Json.str v, jStrs fs]).toArray

def nest (j : Json) : Except String Json := do
  let (S, env) ← einsumSOfJson j
  let ls := levels S
  let sts := initTerms S env
  let r := collect S (run ls sts)
  let m := collect S (spec ls sts)
  let plain := S.terms.all fun t => t.kind == .times || (t.kind == .take 0 && t.tensors.length == 1)
  let singleTake := S.terms.length == 1 && S.terms.all fun t => t.tensors.all fun x => !x.ranks.isEmpty
  -- the hypotheses of C01.resultAt_eq_meaning' (all decidable), evaluated on this specification and input
  let hyps := decide (S.WF ∧ S.loop.Nodup ∧ S.exts.length = S.loop.length ∧
    (∀ t ∈ S.terms, t.kind = .times ∨ (t.kind = .take 0 ∧ t.tensors.length = 1)) ∧ C01.InBounds S env ∧ C01.InputsWF S env ∧
    S.outRanks.Nodup ∧ (∀ r ∈ S.outRanks, r ∈ S.loop))
  let base := [("run", jPts r), ("spec", jPts m), ("wf", Json.bool (decide S.WF)), ("in_proved_class", Json.bool (plain || singleTake)),
               ("plain", Json.bool plain), ("hyps_ok", Json.bool hyps),
               ("expected_loops", jLoops (expectedLoops S))]
  match j.getObjVal? "tree" with
  | .ok tj =>
    let s ← HF.stmtOfJson tj
    return Json.mkObj (base ++ [("actual_loops", jLoops (HF.loopSkeleton s))])
  | .error _ => return Json.mkObj base

end Driver
