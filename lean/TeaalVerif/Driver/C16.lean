import TeaalVerif.Driver.Util
import TeaalVerif.Props.C16
open Lean
namespace Driver

/-- the shape of the emitted spacetime program as an `EProg` (only the shape matters for `bal`): an update is an augmented
    assignment to a `*_ref` payload variable, an activity a `canvas.addActivity(...)` call; the translator is part of the tie -/
partial def eprogOf : HF.Stmt → C16.EProg Unit
  | .block ss => ss.foldr (fun s acc => .seq (eprogOf s) acc) .skip
  | .for_ _ _ b => .loop (fun _ => 0) (eprogOf b)
  | .if_ _ t _ es el =>
    let rest : C16.EProg Unit := match el with
      | some x => eprogOf x
      | none => .skip
    .alt (fun _ => true) (eprogOf t) (es.foldr (fun s acc => .alt (fun _ => true) (eprogOf s) acc) rest)
  | .iassign (.var x) _ _ => if x.endsWith "_ref" then .update id else .other id
  | .expr (.method (.var "canvas") "addActivity" _ _) => .activity
  | _ => .other id

partial def countKinds : C16.EProg Unit → Nat × Nat
  | .update _ => (1, 0)
  | .activity => (0, 1)
  | .seq p q => let (a, b) := countKinds p; let (c, d) := countKinds q; (a + c, b + d)
  | .loop _ b => countKinds b
  | .alt _ p q => let (a, b) := countKinds p; let (c, d) := countKinds q; (a + c, b + d)
  | _ => (0, 0)

/-- `C16.one_activity_per_update` applies when `bal = some (k, k)` -/
def activityBalance (j : Json) : Except String Json := do
  let s ← HF.stmtOfJson (← fld j "tree")
  let p := eprogOf s
  let (nu, na) := countKinds p
  let b := p.bal
  return Json.mkObj [("balanced", Json.bool (match b with | some (u, a) => u == a | none => false)),
                     ("bal", match b with | some (u, a) => Json.arr #[(u : Json), (a : Json)] | none => Json.null),
                     ("update_statements", (nu : Json)), ("activity_statements", (na : Json))]

end Driver
