import TeaalVerif.Driver.Util
import TeaalVerif.Metrics.Fusion
open Lean
namespace Driver

def obsOfJson (j : Json) : Except String Fusion.Obs := do
  return { einsum := ← HF.strOf (← fld j "einsum"), loopRanks := ← strList (← fld j "loop"),
           spaceRanks := ← strList (← fld j "space"), config := ← HF.strOf (← fld j "config"),
           comps := ← strList (← fld j "comps") }

/-- split `obs` according to the block sizes of `blocks`, or none if the names do not line up -/
def regroup : List Fusion.Obs → List (List String) → Option (List (List Fusion.Obs))
  | [], [] => some []
  | _ :: _, [] => none
  | obs, b :: bs =>
    let (h, t) := (obs.take b.length, obs.drop b.length)
    if h.map (·.einsum) = b then (regroup t bs).map (h :: ·) else none

def stepsOf (step : Fusion.State → Fusion.Obs → Fusion.State) (obs : List Fusion.Obs) : List (List (List String)) :=
  let rec go (st : Fusion.State) : List Fusion.Obs → List (List (List String))
    | [] => []
    | o :: os => let st' := step st o; Fusion.names st'.blocks :: go st' os
  go Fusion.init obs

def fusion (j : Json) : Except String Json := do
  let obs ← listOf obsOfJson (← fld j "obs")
  let implSteps ← listOf strListList (← fld j "impl_steps")
  let ms := stepsOf Fusion.step obs
  let mo := stepsOf Fusion.stepOld obs
  -- the property read directly on the implementation's blocks, after every step
  let rec chk : Nat → List (List (List String)) → Bool
    | _, [] => true
    | k, bl :: rest =>
      (match regroup (obs.take (k + 1)) bl with
       | none => false
       | some g => g.all fun b => decide (Fusion.BlockOK b)) && chk (k + 1) rest
  return Json.mkObj [("model_steps", jList jStrss ms), ("model_old_steps", jList jStrss mo),
                     ("impl_ok", chk 0 implSteps && implSteps.length == obs.length)]

end Driver
