import TeaalVerif.Driver.Util
import TeaalVerif.Metrics.Trace
open Lean
namespace Driver
open Trace

def evStr : Ev → String
  | .begin p => s!"beginCollect({p})"
  | .reg r t c => s!"trace({r}, {t}, consumable={c})"
  | .endc => "endCollect()"
  | .consume r t => s!"consumeTrace({r}, {t})"
  | .needFiles fs => s!"needs files {fs}"
  | .produce f => s!"produces {f}"
  | .create x => s!"create {x}"
  | .feed x => s!"{x}.addTraces"
  | .query x => s!"{x}.getNumIntersects"

/-- the first event the machine blocks on (diagnostic) -/
def firstBlock (s : St) : List Ev → Option (String × St)
  | [] => none
  | e :: es => match step s e with
    | some s' => firstBlock s' es
    | none => some (evStr e, s)

partial def countLoops : List Item → Nat × Nat        -- (events, events inside loops)
  | [] => (0, 0)
  | .ev _ :: rest => let (a, b) := countLoops rest; (a + 1, b)
  | .loop b :: rest => let (a1, _) := countLoops b; let (a2, b2) := countLoops rest; (a1 + a2, a1 + b2)

def traceOK (j : Json) : Except String Json := do
  let s ← HF.stmtOfJson (← fld j "tree")
  let items := HF.stmtItems s
  let ok := TraceOK items
  let evs := once items
  let why := match firstBlock {} evs with
    | some (e, st) => s!"the collection machine blocks on `{e}` (open: {st.open_}, files known: {st.files.length})"
    | none => if loopsPure items then "" else "a state-changing metrics event occurs inside a loop"
  let final := (runEvs {} evs).map fun st => st.sections
  let (n, nin) := countLoops items
  let begins := (evs.filter fun e => match e with | .begin _ => true | _ => false).length
  return Json.mkObj [("ok", ok), ("why", why), ("events", n), ("events_in_loops", nin), ("sections", (final.getD 0 : Nat)), ("begins", begins),
    ("consumed", ((evs.filter fun e => match e with | .consume _ _ => true | .needFiles _ => true | _ => false).length : Nat))]

end Driver
