import TeaalVerif.Driver.Util
import TeaalVerif.IR.Legality
open Lean
namespace Driver
open Legality

def dirOf : String → Except String Dir
  | "nway_shape" => pure .nway | "uniform_occupancy" => pure .occ | "uniform_shape" => pure .shape
  | "flatten" => pure .flatten | "follow" => pure .follow
  | s => throw s!"unknown directive {s}"

def legality (j : Json) : Except String Json := do
  match ← HF.strOf (← fld j "kind") with
  | "dup" => return Json.mkObj [("reject", dupGuard (← strList (← fld j "ranks")))]
  | "terms" => return Json.mkObj [("reject", termGuard (← strListList (← fld j "terms")))]
  | "stack" =>
    let key ← strList (← fld j "key")
    let ops ← (← strList (← fld j "ops")).mapM dirOf
    let im ← strList (← fld j "index_math")
    let ap ← strList (← fld j "also_part")
    let orig ← strList (← fld j "orig")
    let all ← strList (← fld j "all")
    let r1 := nwayAfterDyn ops
    let r2 := checkFlatten key ops (fun r => im.contains r) (fun r => ap.contains r) orig all
    let r3 := key.length == 1 && staticAfterFlat (key.headD "") ops orig
    return Json.mkObj [("reject", r1 || r2.isSome || r3), ("nway_after_dyn", r1),
                       ("flatten", match r2 with | some e => Json.str (reprStr e) | none => Json.null), ("static_after_flatten", r3)]
  | "undeclared" =>
    return Json.mkObj [("reject", undeclGuard (← strList (← fld j "declared")) (← strList (← fld j "used")))]
  | "config" =>
    let es ← (← HF.arr (← fld j "einsums")).toList.mapM fun e => do
      (← HF.arr e).toList.mapM fun b => match b with
        | .bool x => pure x
        | _ => throw "bool expected"
    return Json.mkObj [("reject", configGuard es)]
  | "outrank" =>
    -- ready[i][pos]: LoopOrder.is_ready of the i-th output rank's final id at loop position pos (queried on the real IR)
    let ranks ← strList (← fld j "ranks")
    let rows ← (← HF.arr (← fld j "ready")).toList.mapM fun e => do
      (← HF.arr e).toList.mapM fun b => match b with
        | .bool x => pure x
        | _ => throw "bool expected"
    let n := (← HF.intOf (← fld j "nloops")).toNat
    let ready : String → Nat → Bool := fun r pos => match ranks.idxOf? r with
      | some i => (rows.getD i []).getD pos false
      | none => false
    return Json.mkObj [("reject", outRankGuard ready ranks n)]
  | k => throw s!"unknown legality kind {k}"

end Driver
