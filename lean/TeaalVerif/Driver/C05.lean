import TeaalVerif.Driver.C01
import TeaalVerif.Props.C05Sem
open Lean
namespace Driver
open Nest

def einsumNoPts (j : Json) : Except String EinsumS := do
  let loop ← strList (← fld j "loop")
  let exts ← natList (← fld j "exts")
  let outName ← HF.strOf (← fld j "out_name")
  let outRanks ← strList (← fld j "out_ranks")
  let mut terms : List TermS := []
  for t in (← HF.arr (← fld j "terms")).toList do
    let kindS ← HF.strOf (← fld t "kind")
    let kind ← match kindS with
      | "times" => pure Kind.times
      | "take" => do pure (Kind.take (← natOf (← fld t "sel")))
      | k => throw s!"bad kind {k}"
    let scal ← HF.intOf (← fld t "scal")
    let mut tensors : List TensorS := []
    for x in (← HF.arr (← fld t "tensors")).toList do
      tensors := tensors ++ [{ name := ← HF.strOf (← fld x "name"), ranks := ← strList (← fld x "ranks") }]
    terms := terms ++ [{ kind := kind, scal := scal, tensors := tensors }]
  return { loop := loop, exts := exts, outName := outName, outRanks := outRanks, terms := terms }

/-- op `cascade`: the Einsums of a specification (each with the loop order the implementation uses) and the input tensors;
    answers with every tensor the model cascade produces and whether the hypotheses of `C05.cascade_correct` hold -/
def cascadeOp (j : Json) : Except String Json := do
  let Ss ← listOf einsumNoPts (← fld j "einsums")
  let mut envL : List (String × Pts) := []
  for x in (← HF.arr (← fld j "inputs")).toList do
    envL := (← HF.strOf (← fld x "name"), ← ptsOfJson (← fld x "pts")) :: envL
  let env0 : String → Pts := fun n => (envL.lookup n).getD []
  let final := cascade Ss env0
  let ok := decide (C05.CascadeOK Ss env0)
  let outs := Ss.map fun S => Json.mkObj [("name", Json.str S.outName), ("pts", jPts (final S.outName))]
  return Json.mkObj [("hyps_ok", Json.bool ok), ("outputs", Json.arr outs.toArray)]

end Driver
