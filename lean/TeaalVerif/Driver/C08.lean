import TeaalVerif.Driver.Util
import TeaalVerif.HF.Scope
import TeaalVerif.Props.C08
open Lean
namespace Driver
open HF

/-- syntactic footprint of a statement: (names read, names written).  Conservative: a compound statement reads and writes whatever
    its parts do; the receiver of a method call in statement position (`x.setRankIds(...)`, `canvas.addActivity(...)`) counts as
    written; an augmented or subscripted assignment writes (and reads) the object it updates.  Part of the tie, not of the theorem
    (`C08.reorder_sound` asks that each statement's semantics respect the footprint it is given). -/
partial def stmtRW : Stmt → List String × List String
  | .assign a e => (a.reads ++ e.reads, match a with
      | .var n => [n]
      | .access o _ => o.reads
      | .field o _ => [o])
  | .iassign a _ e => (a.readsAug ++ e.reads, match a with
      | .var n => [n]
      | .access o _ => o.reads
      | .field o _ => [o])
  -- a trace registration adds one (rank, type) entry to the collector's registry: it reads the collector's state (so it stays after
  -- `beginCollect`, which writes it) and writes only its own entry - two registrations of different entries commute (the reading of
  -- the Metrics API that C12's collection machine uses as well)
  | .expr (.method (.var "Metrics") "trace" kw args) =>
    ("Metrics" :: Expr.readsL args, ["Metrics.trace:" ++ (Expr.method (.var "Metrics") "trace" kw args).gen])
  | .expr (.method o _ _ args) => (o.reads ++ Expr.readsL args, o.reads)
  | .expr e => (e.reads, [])
  | .block ss => ss.foldl (fun (r, w) s => let (r', w') := stmtRW s; (r ++ r', w ++ w')) ([], [])
  | .for_ p e b => let (r, w) := stmtRW b; (e.reads ++ r, p.vars ++ w)
  | .func _ _ b => stmtRW b
  | .if_ c t ecs ess el =>
    let parts := t :: ess ++ (match el with | some x => [x] | none => [])
    let (r, w) := parts.foldl (fun (r, w) s => let (r', w') := stmtRW s; (r ++ r', w ++ w')) ([], [])
    (c.reads ++ Expr.readsL ecs ++ r, w)
  | .ret e => (e.reads, [])

partial def aliasPairs : Stmt → List (String × String)
  | .assign (.var x) (.var y) => [(x, y)]
  | .block ss => ss.flatMap aliasPairs
  | .for_ _ _ b => aliasPairs b
  | .func _ _ b => aliasPairs b
  | .if_ _ t _ ess el => aliasPairs t ++ ess.flatMap aliasPairs ++ (match el with | some x => aliasPairs x | none => [])
  | _ => []

/-- flow-insensitive alias classes (names connected by `x = y` anywhere in the program): writing one name writes them all -/
partial def closure (pairs : List (String × String)) (xs : List String) : List String :=
  let next := (xs ++ pairs.flatMap fun (a, b) => (if xs.contains a then [b] else []) ++ (if xs.contains b then [a] else [])).eraseDups
  if next.length == xs.length then xs else closure pairs next

def topStmts : Stmt → List Stmt
  | .block ss => ss
  | s => [s]

/-- two variants of one program: are they re-orderings of the same top-level statements in which every pair of statements with
    conflicting footprints keeps its order?  (then `C08.reorder_sound`: same final store from every initial store) -/
def reorderCheck (j : Json) : Except String Json := do
  let s1 ← stmtOfJson (← fld j "tree1")
  let s2 ← stmtOfJson (← fld j "tree2")
  let l1 := topStmts s1
  let l2 := topStmts s2
  let t1 : List String := l1.map fun s => s.gen 0
  let t2 : List String := l2.map fun s => s.gen 0
  let pairs := aliasPairs s1
  let fp := l1.map fun s =>
    let (r, w) := stmtRW s
    (closure pairs r.eraseDups, closure pairs w.eraseDups)
  let nodup := t1.eraseDups.length == t1.length
  let perm : Bool := decide (List.Perm (t1 : List String) (t2 : List String))
  let conflict (a b : List String × List String) : Bool :=
    a.2.any (fun x => b.1.contains x || b.2.contains x) || b.2.any fun x => a.1.contains x
  let idx := List.range l1.length
  let bad := idx.flatMap fun i => idx.filterMap fun k =>
    if i < k && conflict (fp.getD i ([], [])) (fp.getD k ([], [])) then
      let pi := t2.idxOf (t1.getD i "")
      let pk := t2.idxOf (t1.getD k "")
      if pi < pk then none else some (t1.getD i "", t1.getD k "")
    else none
  return Json.mkObj [("applicable", Json.bool (nodup && perm)), ("statements", (l1.length : Json)),
                     ("moved", ((List.range l1.length).filter fun i => t1.getD i "" != t2.getD i "").length),
                     ("order_kept", Json.bool bad.isEmpty),
                     ("violating_pairs", Json.arr (bad.take 3 |>.map fun (a, b) => Json.arr #[Json.str a, Json.str b]).toArray)]

end Driver
