import TeaalVerif.Driver.Util
import TeaalVerif.Driver.C10
import TeaalVerif.FT.Ops
import TeaalVerif.Props.C03
open Lean
namespace Driver
open FT

def coordOfJson (j : Json) : Except String Coord := natList j

def fptsOfJson (j : Json) : Except String FT.Pts := do
  (← HF.arr j).toList.mapM fun p => do
    let a ← HF.arr p
    let cs ← listOf coordOfJson a[0]!
    let v ← HF.intOf a[1]!
    pure (cs, v)

def jFPts (p : FT.Pts) : Json :=
  Json.arr (p.map fun (cs, v) =>
    Json.arr #[Json.arr (cs.map fun c => Json.arr (c.map fun (x : Nat) => (x : Json)).toArray).toArray, (v : Json)]).toArray

def ftOp (j : Json) : Except String Json := do
  let t ← fptsOfJson (← fld j "pts")
  let name ← HF.strOf (← fld j "name")
  let arg (k : String) : Except String Nat := do natOf (← fld j k)
  let r ← match name with
    | "swizzle" => do pure (swizzle (← natList (← fld j "perm")) t)
    | "splitUniform" => do pure (splitUniform (← arg "step") (← arg "depth") t)
    | "mergeAbs" => do pure (mergeAbs (← arg "depth") t)
    | "flatten" => do pure (flatten (← arg "depth") t)
    | "unflatten" => do pure (unflatten (← arg "depth") (← arg "k") t)
    | n => throw s!"unknown ft op {n}"
  return Json.mkObj [("pts", jFPts r)]

def ftFiber (j : Json) : Except String Json := do
  let cs ← natList (← fld j "coords")
  let n ← natOf (← fld j "n")
  let bs ← natList (← fld j "bounds")
  return Json.mkObj [("chunk_keys", Json.arr ((C03.leaderKeys n cs).map fun (x : Nat) => (x : Json)).toArray),
    ("groups", Json.arr (cs.map fun c => match groupOf bs c with | some g => (g : Json) | none => Json.null).toArray)]

/-- exact-arithmetic reading of `fiber.project(trans_fn = w ↦ (w - r) / a, interval = [lo, hi)).prune(integral)` -/
def ftProject (j : Json) : Except String Json := do
  let ws ← listOf HF.intOf (← fld j "coords")
  let a ← HF.intOf (← fld j "a")
  let r ← HF.intOf (← fld j "r")
  let lo ← HF.intOf (← fld j "lo")
  let hi ← HF.intOf (← fld j "hi")
  let qs := ws.filterMap fun w => if (w - r) % a == 0 && lo ≤ (w - r) / a && (w - r) / a < hi then some ((w - r) / a) else none
  let qs := if a < 0 then qs.reverse else qs
  return Json.mkObj [("coords", Json.arr (qs.map fun (q : Int) => (q : Json)).toArray)]

end Driver
