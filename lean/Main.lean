import Lean.Data.Json
import TeaalVerif
import TeaalVerif.Driver.C16
/-! JSON line-protocol driver: one request per line on stdin, one answer per line on stdout.
    Run with `lake env lean --run Main.lean`. -/
open Lean

open Driver

def handle (j : Json) : Except String Json := do
  let op ← HF.strOf (← fld j "op")
  match op with
  | "ping" => return Json.mkObj [("ok", true)]
  | "gen" =>
    let s ← HF.stmtOfJson (← fld j "tree")
    return Json.mkObj [("text", s.gen 0)]
  | "gen_expr" =>
    let e ← HF.exprOfJson (← fld j "tree")
    return Json.mkObj [("text", e.gen)]
  | "fusion" => Driver.fusion j
  | "da" => Driver.da j
  | "hoist" => Driver.hoist j
  | "trace_ok" => Driver.traceOK j
  | "cursor" => Driver.cursor j
  | "rankids" => Driver.rankids j
  | "rankheap" => Driver.rankheap j
  | "taint_check" => Driver.taintCheck j
  | "activity_balance" => Driver.activityBalance j
  | "reorder_check" => Driver.reorderCheck j
  | "tmp_issued" => Driver.tmpIssued j
  | "ft_op" => Driver.ftOp j
  | "ft_fiber" => Driver.ftFiber j
  | "ft_project" => Driver.ftProject j
  | "nest" => Driver.nest j
  | "nest_part" => Driver.nestPart j
  | "nest_dyn" => Driver.nestDyn j
  | "nest_statdyn" => Driver.nestStatDyn j
  | "nest_chain" => Driver.nestChain j
  | "nest_flat" => Driver.nestFlat j
  | "nest_aff" => Driver.nestAff j
  | "nest_chunk" => Driver.nestChunk j
  | "cascade" => Driver.cascadeOp j
  | "legality" => Driver.legality j
  | "parse_spec" => Driver.parseSpec j
  | "prec" => Driver.prec j
  | "prec_expr" => Driver.precExpr j
  | "build_expr" => Driver.buildExprOp j
  | "time_expr" => Driver.timeExpr j
  | "arch_instances" => Driver.archInstances j
  | "default_order" => Driver.defaultOrder j
  | _ => throw s!"unknown op {op}"

partial def loop (h : IO.FS.Stream) (out : IO.FS.Stream) : IO Unit := do
  let line ← h.getLine
  if line.isEmpty then return ()
  let ans : Json :=
    match Json.parse line with
    | .error e => Json.mkObj [("error", s!"json: {e}")]
    | .ok j =>
      match handle j with
      | .ok r => r
      | .error e => Json.mkObj [("error", e)]
  out.putStrLn ans.compress
  loop h out

def main : IO Unit := do
  loop (← IO.getStdin) (← IO.getStdout)
