"""Applies every validated seeded change to /repo in turn, runs the check(s) of its property, records what was
detected in /verif/seeded/<id>/meta.json, and reverts /repo.  usage: seed_archive.py <src dir> [ids...]"""
import json, os, shutil, subprocess, sys
src = sys.argv[1]
ids = sys.argv[2:] or sorted(d for d in os.listdir(src) if os.path.exists(os.path.join(src, d, "patch.diff")))
for sid in ids:
    sd = os.path.join(src, sid)
    meta = json.load(open(os.path.join(sd, "meta.json"))) if os.path.exists(os.path.join(sd, "meta.json")) else {}
    prop = meta.get("property", sid[:3])
    subprocess.run(["git", "-C", "/repo", "checkout", "--", "."], check=True)
    r = subprocess.run(["git", "-C", "/repo", "apply", os.path.join(sd, "patch.diff")], capture_output=True, text=True)
    if r.returncode != 0:
        print(sid, "PATCH DOES NOT APPLY", r.stderr[:200]); continue
    ev = os.path.join("/verif/evidence", prop + ".json")
    saved = open(ev).read() if os.path.exists(ev) else None
    out = subprocess.run(["./check", prop, "--tier", "quick"], cwd="/verif", capture_output=True, text=True, env=dict(os.environ, VERIF_SEED="0"))
    subprocess.run(["git", "-C", "/repo", "checkout", "--", "."], check=True)
    if saved is not None:
        open(ev, "w").write(saved)          # evidence committed must come from the unchanged tree
    viol = [l for l in out.stdout.split("\n") if l.startswith("VIOLATION")]
    reason = None
    if viol:
        try:
            rp = viol[0].split("replay=")[1].split()[0]
            rep = json.load(open(rp))
            reason = (rep.get("kind", "") + ": " + str(rep.get("reason", rep.get("obligation", ""))))[:400]
        except Exception as e:
            reason = "?"
    dst = os.path.join("/verif/seeded", sid)
    os.makedirs(dst, exist_ok=True)
    for f in ("patch.diff", "demo.py"):
        if os.path.exists(os.path.join(sd, f)):
            shutil.copy(os.path.join(sd, f), os.path.join(dst, f))
    meta.update({"property": prop, "validated": {"applies": True, "tests_pass_with_change": "632 passed (tools/seed_validate.sh)", "demo": "exit 0 on pristine, exit 1 with the change (tools/seed_validate.sh)"},
                 "detection": {"check": "./check %s --tier quick (VERIF_SEED=0)" % prop, "exit": out.returncode, "violations": len(viol), "first_violation": reason}})
    json.dump(meta, open(os.path.join(dst, "meta.json"), "w"), indent=1)
    print(sid, prop, "exit", out.returncode, "violations", len(viol), "|", (reason or "")[:140])
