#!/bin/sh
# runs every claimed check (quick by default) on the current tree; usage: run_all.sh [quick|thorough] [seed]
cd /verif
TIER=${1:-quick}; SEED=${2:-0}
for id in $(python3 -c "import json; print(' '.join(c['property_id'] for c in json.load(open('MANIFEST.json'))['checks']))"); do
  VERIF_SEED=$SEED ./check $id --tier $TIER > /tmp/run_all_$id.log 2>&1; rc=$?
  echo "$id rc=$rc $(tail -1 /tmp/run_all_$id.log | cut -c1-160)"
  grep -c VIOLATION /tmp/run_all_$id.log | grep -v '^0$' >/dev/null && grep VIOLATION /tmp/run_all_$id.log | head -3
done
/opt/veriftools/pyvenv/bin/python - <<'PY'
import json, jsonschema, glob
sch = json.load(open('/root/.vp/EVIDENCE.schema.json'))
for f in sorted(glob.glob('/verif/evidence/*.json')):
    e = json.load(open(f))
    try:
        jsonschema.validate(e, sch)
        c = e['coverage']
        assert c['obligations'] == c['discharged'], (c['obligations'], c['discharged'])
    except Exception as ex:
        print("EVIDENCE PROBLEM", f, str(ex)[:200])
jsonschema.validate(json.load(open('/verif/MANIFEST.json')), json.load(open('/root/.vp/MANIFEST.schema.json')))
print("evidence+manifest validated")
PY
