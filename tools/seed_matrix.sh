#!/bin/sh
# Re-runs every archived seeded change against the check of its property in a scratch worktree of /repo (TEAAL_REPO), so that /repo
# itself is not touched; prints one line per seed.  usage: tools/seed_matrix.sh [out file]
OUT=${1:-/tmp/seed_matrix.txt}
WT=/tmp/seedrepo
git -C /repo worktree remove --force $WT 2>/dev/null
git -C /repo worktree add --detach $WT HEAD >/dev/null 2>&1 || exit 2
: > $OUT
for d in /verif/seeded/*/; do
  id=$(basename $d)
  [ -f $d/patch.diff ] || { echo "$id no-patch" >> $OUT; continue; }
  prop=$(echo $id | cut -c1-3)
  git -C $WT checkout -- . >/dev/null 2>&1
  if ! git -C $WT apply $d/patch.diff 2>/dev/null; then echo "$id DOES-NOT-APPLY" >> $OUT; continue; fi
  line=$(cd /verif && TEAAL_REPO=$WT VERIF_SEED=0 ./check $prop --tier quick 2>&1 | grep "tier=quick" | tail -1)
  echo "$id $line" >> $OUT
done
git -C /repo worktree remove --force $WT
cd /verif && git checkout evidence >/dev/null 2>&1
echo done >> $OUT
