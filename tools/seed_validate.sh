#!/bin/sh
# usage: seed_validate.sh <dir with patch.diff demo.py>   -- confirms: applies, tests pass, demo fails with / passes without
set -u
D="$1"; W=/tmp/wt/validate-$$
git -C /repo worktree add --detach "$W" HEAD >/dev/null 2>&1 || exit 3
cd "$W"
PYTHONPATH="$W" /venv/bin/python "$D/demo.py" >/tmp/validate-pristine-$$.out 2>&1; P=$?
git apply "$D/patch.diff" || { echo "PATCH DOES NOT APPLY"; git -C /repo worktree remove --force "$W"; exit 3; }
T=$(PYTHONPATH="$W" /venv/bin/python -m pytest -q -p no:cacheprovider -x 2>&1 | tail -1)
PYTHONPATH="$W" /venv/bin/python "$D/demo.py" >/tmp/validate-patched-$$.out 2>&1; M=$?
cd /; git -C /repo worktree remove --force "$W"
echo "pristine demo exit=$P  patched demo exit=$M  tests: $T"
tail -2 /tmp/validate-patched-$$.out
