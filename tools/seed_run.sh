#!/bin/sh
# usage: seed_run.sh <patch.diff> <check args...>   -- applies the patch to /repo, runs ./check, reverts
P="$1"; shift
git -C /repo apply "$P" || exit 3
cd /verif; ./check "$@" 2>&1 | tail -6; RC=$?
git -C /repo checkout -- .
git -C /repo status --short | head -3
