#!/bin/sh
# usage: seed_run.sh <patch.diff> <Cxx> <check args...>   -- applies the patch to /repo, runs ./check, reverts; the evidence file of the
# property is put back afterwards (evidence committed must come from the unchanged tree)
P="$1"; shift
ID="$1"
git -C /repo apply "$P" || exit 3
cd /verif
cp evidence/$ID.json /tmp/seed_run_evidence_$ID.json 2>/dev/null
./check "$@" 2>&1 | tail -6; RC=$?
git -C /repo checkout -- .
cp /tmp/seed_run_evidence_$ID.json evidence/$ID.json 2>/dev/null
git -C /repo status --short | head -3
