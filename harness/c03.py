"""C03 — occupancy partitioning and flattening never change the result.
Theorems: Props/C03 (flatten_unflatten_id, groupOf_spec, follower_agrees) - fiber/tensor-level algebra for every
fiber, chunk size and tensor.  Tie: Lean operations vs the minifiber stand-in on random tensors/fibers; every
generated specification (G3: uniform_occupancy with any leader holding the rank, 1-2 levels incl. different
leaders per level, beneath a shape split, flatten of two ranks, occupancy of the flattened rank; level-sorted
loop orders) is executed and compared with the unmapped compile and the dense oracle."""
import json, random, re
import common, pool, specs, gens, ftdiff, c02, c01, semcheck


def dyn_request(case, rec, ex):
    """product Einsum; shape levels on any ranks (static splits in the header) and, on ONE contracted rank, a stack whose
    lowest one or more levels are uniform_occupancy (each split inside the loops of the level above): the request for the Lean
    model (Props/C03Chain.static_then_chain): original Einsum + inputs, static splits, the loop order after them with the
    dynamically split rank still whole, and per occupancy level the loops that precede its split and the emitted order after it"""
    e = case["eins"][0]
    d = rec["yaml"]
    parts = ((d.get("mapping") or {}).get("partitioning") or {}).get(e["out"]) or {}
    if not parts or len(e["terms"]) != 1 or e["terms"][0]["kind"] != "times":
        return None
    terms = c01.lean_terms(case, ex)
    ranks = []
    for t in terms:
        for x in t["tensors"]:
            for r in x["ranks"]:
                if r not in ranks:
                    ranks.append(r)
    for r in case["decl"][e["out"]]:
        if r not in ranks:
            ranks.append(r)
    lo = ((d.get("mapping") or {}).get("loop-order") or {}).get(e["out"]) or (pool.loop_ranks(d) or {}).get(e["out"])
    if lo is None:
        return None
    splits, dyn = [], None
    for K, stack in parts.items():
        if K not in ranks:
            return None
        n = len(stack)
        occs = []
        shape = list(stack)
        while shape:
            m = re.fullmatch(r"uniform_occupancy\((\w+)\.(\d+)\)", shape[-1])
            if not m:
                break
            occs.insert(0, (m.group(1), int(m.group(2))))
            shape.pop()
        sizes = c02.part_sizes(case, shape, case["ext"][K])
        if sizes is None or any(x <= 0 for x in sizes):
            return None                                   # occupancy above a shape level etc.: outside the modelled class
        if sizes and K in case["decl"][e["out"]]:
            return None                                   # static split of an output rank next to a dynamic split: not modelled
        cur = K
        for j, sz in enumerate(sizes):
            lvl = n - j
            low = (K + "0") if lvl == 1 else "%s%dI" % (K, lvl - 1)
            splits.append({"K": cur, "K1": K + str(lvl), "K0": low, "size": sz})
            cur = low
        if occs:
            if dyn is not None or (K in case["decl"][e["out"]] and sizes):
                return None                               # static split of an output rank above the occupancy levels: not modelled
            dyn = dict(root=K, top=cur, occs=occs)
    if dyn is None:
        return None
    K, nocc = dyn["root"], len(dyn["occs"])
    names = [K + str(l) for l in range(nocc, -1, -1)]          # K<nocc> ... K0
    if any(x not in lo for x in names):
        return None
    if K in case["decl"][e["out"]]:
        lo_i = [lo.index(x) for x in names]
        if any(r in lo[lo_i[0]:lo_i[-1]] and r not in names for r in case["decl"][e["out"]]):
            return None                                   # another output rank looped between the levels of a partitioned output rank: key order differs, not modelled
    # loop order after the static splits: the dynamically split rank whole, at the position of its top level
    loop1 = [dyn["top"] if r == names[0] else r for r in lo if r not in names[1:]]
    levels = []
    cur_loops, cur_rank = list(loop1), dyn["top"]
    for j, (leader, occ) in enumerate(dyn["occs"]):
        lvl = nocc - j
        up = K + str(lvl)
        low = (K + "0") if lvl == 1 else "%s%dI" % (K, lvl - 1)
        i1 = cur_loops.index(cur_rank)
        # emitted loops after this split: the upper level where the whole rank was, the lower rank where its next level is in lo
        rest_lo = [r for r in lo if r in cur_loops[i1 + 1:] or r in names[j + 1:]]
        nxt = names[j + 1]
        rs2 = [up] + [low if r == nxt else r for r in rest_lo if r not in names[j + 2:]]
        levels.append({"npre": i1, "K": cur_rank, "K1": up, "K0": low, "n": occ, "leader": leader, "loop2": rs2})
        cur_loops, cur_rank = rs2, low
    return {"op": "nest_chain", "loop": ranks, "exts": [case["ext"][r] for r in ranks], "out_name": e["out"], "out_ranks": list(case["decl"][e["out"]]),
            "terms": terms, "tree": rec["tree"], "splits": splits, "loop1": loop1, "levels": levels}


def flat_request(case, rec, ex):
    """product Einsum whose only mapping directive is flatten() of a tuple of ranks (no partitioning of the flattened rank):
    the request for the Lean model Props/C03Flat.flatten_nest: loop order with the flattened rank expanded into its ranks, and
    per loop whether all operands are co-iterated or one operand drives the loop and the others are looked up"""
    e = case["eins"][0]
    d = rec["yaml"]
    parts = ((d.get("mapping") or {}).get("partitioning") or {}).get(e["out"]) or {}
    if len(parts) != 1 or len(e["terms"]) != 1 or e["terms"][0]["kind"] != "times":
        return None
    (key, stack), = parts.items()
    if stack != ["flatten()"] or not key.startswith("("):
        return None
    tup = [x.strip() for x in key.strip("()").split(",")]
    flat = "".join(tup)
    lo = ((d.get("mapping") or {}).get("loop-order") or {}).get(e["out"]) or (pool.loop_ranks(d) or {}).get(e["out"])
    if lo is None or flat not in lo:
        return None
    terms = c01.lean_terms(case, ex)
    holders = [i for i, x in enumerate(terms[0]["tensors"]) if all(r in x["ranks"] for r in tup)]
    if len(holders) != 1:
        return None
    loop, modes = [], []
    for r in lo:
        if r == flat:
            loop += tup; modes += [holders[0]] * len(tup)
        else:
            loop.append(r); modes.append("co")
    if any(r not in case["ext"] for r in loop):
        return None
    return {"op": "nest_flat", "loop": loop, "exts": [case["ext"][r] for r in loop], "out_name": e["out"], "out_ranks": list(case["decl"][e["out"]]),
            "terms": terms, "tree": rec["tree"], "modes": modes}


def chunk_request(case, rec, ex):
    """product Einsum with flatten() of a tuple of ranks of ONE tensor and uniform_occupancy levels on the flattened rank (leader:
    that tensor): the request for Props/C03Chunk.chunk_nest - per loop of the loop order either a chunk level (driver, tuple width,
    occupancy, loop variable) or an ordinary level (co-iterated, or driven by the tensor for the ranks of the flattened tuple)"""
    import re
    e = case["eins"][0]
    d = rec["yaml"]
    parts = ((d.get("mapping") or {}).get("partitioning") or {}).get(e["out"]) or {}
    if len(parts) != 2 or len(e["terms"]) != 1 or e["terms"][0]["kind"] != "times":
        return None
    keys = [k for k in parts if k.startswith("(")]
    if len(keys) != 1 or parts[keys[0]] != ["flatten()"]:
        return None
    tup = [x.strip() for x in keys[0].strip("()").split(",")]
    flat = "".join(tup)
    if flat not in parts:
        return None
    stack = parts[flat]
    terms = c01.lean_terms(case, ex)
    holders = [i for i, x in enumerate(terms[0]["tensors"]) if all(r in x["ranks"] for r in tup)]
    if len(holders) != 1:
        return None
    hname = terms[0]["tensors"][holders[0]]["name"]
    occ = []
    for pstr in stack:
        m = re.fullmatch(r"uniform_occupancy\((\w+)\.(\w+)\)", pstr)
        if not m or m.group(1) != hname:
            return None
        occ.append(int(m.group(2)) if m.group(2).isdigit() else case["env"].get(m.group(2)))
    if any(o is None or o < 1 for o in occ):
        return None
    lo = ((d.get("mapping") or {}).get("loop-order") or {}).get(e["out"]) or (pool.loop_ranks(d) or {}).get(e["out"])
    if lo is None:
        return None
    nl = len(stack)
    others = [r for r in terms[0]["tensors"][holders[0]]["ranks"] if r not in tup]
    loop, entries, seen = [], [], []
    for r in lo:
        mm = re.fullmatch(re.escape(flat) + r"(\d+)", r)
        if mm:
            lvl = int(mm.group(1))
            if lvl > nl:
                return None
            if lvl >= 1:
                if any(x not in seen for x in others):
                    return None          # the flattened tuple must be the leading coordinates of the tensor at every chunk level
                entries.append(["chunk", holders[0], len(tup), occ[nl - lvl], r.lower()])
            else:
                for x in tup:
                    loop.append(x); entries.append(["lvl", holders[0]])
        else:
            if r not in case["ext"]:
                return None
            loop.append(r); entries.append(["lvl", "co"]); seen.append(r)
    if sorted(loop) != sorted(set(loop)) or any(r not in case["ext"] for r in loop):
        return None
    return {"op": "nest_chunk", "loop": loop, "exts": [case["ext"][r] for r in loop], "out_name": e["out"], "out_ranks": list(case["decl"][e["out"]]),
            "terms": terms, "tree": rec["tree"], "entries": entries}


def check_model(ctx, recs):
    """tie of C03.static_then_chain to the real compiler: the model nest (outer loops, split of the fibers reached at the
    leader's boundaries, inner loops) has the real program's loop skeleton and computes what the real program computes on the
    sampled input; the theorem's hypotheses (StatChainHyps) are decided in Lean for every sample"""
    reqs, metas = [], []
    for r in recs:
        if not r["ok"] or r["case"] is None or len(r["case"]["eins"]) != 1:
            continue
        for ex in r["execs"][:2]:
            if not ex.get("ok"):
                continue
            q = dyn_request(r["case"], r, ex) or flat_request(r["case"], r, ex) or chunk_request(r["case"], r, ex)
            if q is None:
                ctx.stat("dynamic_model_not_applicable"); continue
            reqs.append(q); metas.append((r, r["case"], ex))
    for ((r, case, ex), a), q in zip(zip(metas, common.lean_batch(reqs)), reqs):
        if "error" in a:
            raise common.InternalError("lean: " + a["error"])
        a_op = q["op"]
        out = case["eins"][0]["out"]
        real = c01.pts_set(ex["outputs"].get(out, []))
        run_, spec_ = c01.pts_set(a["run"]), c01.pts_set(a["spec"])
        nl = len(a["expected_loops"])
        skel_ok = [(v, sorted(fs)) for v, fs in a["expected_loops"]] == [(v, sorted(fs)) for v, fs in a.get("actual_loops", [])][:nl]
        ctx.stat("dynamic_model_samples"); ctx.stat("model_" + a_op)
        if q_pre := a.get("hyps_ok"):
            ctx.stat("dynamic_model_hypotheses_hold")
        ok_h = bool(a["hyps_ok"])
        ok_thm = (run_ == spec_) or not ok_h
        ok_model = skel_ok and real == run_
        ctx.ob(ok_h); ctx.ob(ok_thm); ctx.ob(ok_model)
        if ok_h and ok_thm and ok_model:
            continue
        rep = dict(semcheck.base_replay(r, case, ex), real=real, model_run=run_, model_spec=spec_, hyps_ok=a["hyps_ok"],
                   skeleton_expected=a["expected_loops"], skeleton_actual=a.get("actual_loops"))
        if not ok_h:
            ctx.violation(dict(rep, kind="model-hypotheses", obligation="C03.StatChainHyps decided on the sampled specification and input",
                               reason="the hypotheses of C03.static_then_chain do not hold for this generated sample (generator or model out of step)"), False)
        elif not ok_thm:
            ctx.violation(dict(rep, kind="model-semantics", obligation="C03.static_then_chain", reason="model nest and meaning differ although DynHyps holds"), False)
        else:
            verdict_ok, reason, sig = semcheck.verdict(case, ex)
            ctx.violation(dict(rep, kind="model-correspondence", obligation="model of the nest with a dynamic split (C03.static_then_chain) = real compiler: loop skeleton and result",
                               reason="the emitted program no longer matches the model nest (%s)" % ("skeleton" if not skel_ok else "result")), not verdict_ok)


def run(ctx):
    ctx.rule = ("generated G3 specifications (product Einsums; uniform_occupancy with leader choice and sizes 1-4 against extents 1-6, one or two levels incl. different leaders, "
                "occupancy beneath uniform_shape, flatten() of two ranks, occupancy of the flattened rank; loop orders keeping each rank's levels outermost to innermost), "
                "each executed on 2-3 random inputs (leader/follower of unequal support) under several hash seeds vs the unmapped compile and the dense oracle; plus random "
                "tensors/fibers for the Lean-vs-minifiber differential; non-trivial = program with splitEqual/flattenRanks; distinct = distinct text")
    ctx.trusted = ["Lean kernel; Props/C03 (fiber/tensor-level algebra), Props/C03Dyn + C03Nest (dynamic_nest': one occupancy level on a contracted rank of a product Einsum, any leader, any outer loops, "
                   "any order of the inner loops, every input: the nest with the split executed inside the loops computes the Einsum's meaning); NOT proved: several occupancy levels, occupancy of an "
                   "output rank, flattening - decided by execution",
                   "model of the dynamic nest = real compiler is sampled (DynHyps decided in Lean per sample, loop skeleton, result on the sampled input)",
                   "the fibertree contract of splitEqual/splitNonUniform/flattenRanks/unflattenRanks (FT/Ops.lean, Props/C03.leaderKeys = minifiber, compared on random fibers)",
                   "correctness of each program is decided by execution on sampled inputs against the unmapped program and the dense oracle"]
    k = 1 if ctx.tier == "quick" else 8
    rng = random.Random(ctx.seed * 257 + 3)
    ftdiff.run(ctx, rng, 60 * k, ops=("flatten", "unflatten", "swizzle"))
    ftdiff.run_fibers(ctx, rng, 80 * k)
    n = 2 if ctx.tier == "quick" else 3
    recs = pool.collect(ctx, [dict(gen="g3", count=110 * k, modes=["plain"], nexec=n, reference=True), dict(gen="g3z", count=20 * k, modes=["plain"], nexec=n, reference=True), dict(gen="g3dd", count=10 * k, modes=["plain"], nexec=n, reference=True), dict(gen="g3ff", count=8 * k, modes=["plain"], nexec=n, reference=True), dict(gen="g3v", count=12 * k, modes=["plain"], nexec=n, reference=True), dict(gen="g3u", count=12 * k, modes=["plain"], nexec=n, reference=True),
                              dict(gen="g3w", count=12 * k, modes=["plain"], nexec=n, reference=True)])
    c02.check_records(ctx, recs)
    recs2 = pool.collect(ctx, [dict(gen="g3", count=30 * k, modes=["plain"], nexec=n, opts={"variant": "occ"}),
                               dict(gen="g3", count=20 * k, modes=["plain"], nexec=n, opts={"variant": "occ_under_shape"}),
                               dict(gen="g3", count=20 * k, modes=["plain"], nexec=n, opts={"variant": "occ2"}),
                               dict(gen="g3", count=20 * k, modes=["plain"], nexec=n, opts={"variant": "flatten"}),
                               dict(gen="g3", count=20 * k, modes=["plain"], nexec=n, opts={"variant": "occ_out"})])
    c02.check_records(ctx, recs2, need_reference=False)
    check_model(ctx, recs + recs2)


def replay(ctx, path):
    print("replay: re-run `./check C03`; the replay file carries the specification, inputs and expected result"); return 2
