"""C03 — occupancy partitioning and flattening never change the result.
Theorems: Props/C03 (flatten_unflatten_id, groupOf_spec, follower_agrees) - fiber/tensor-level algebra for every
fiber, chunk size and tensor.  Tie: Lean operations vs the minifiber stand-in on random tensors/fibers; every
generated specification (G3: uniform_occupancy with any leader holding the rank, 1-2 levels incl. different
leaders per level, beneath a shape split, flatten of two ranks, occupancy of the flattened rank; level-sorted
loop orders) is executed and compared with the unmapped compile and the dense oracle."""
import json, random
import common, pool, specs, gens, ftdiff, c02


def run(ctx):
    ctx.rule = ("generated G3 specifications (product Einsums; uniform_occupancy with leader choice and sizes 1-4 against extents 1-6, one or two levels incl. different leaders, "
                "occupancy beneath uniform_shape, flatten() of two ranks, occupancy of the flattened rank; loop orders keeping each rank's levels outermost to innermost), "
                "each executed on 2-3 random inputs (leader/follower of unequal support) under several hash seeds vs the unmapped compile and the dense oracle; plus random "
                "tensors/fibers for the Lean-vs-minifiber differential; non-trivial = program with splitEqual/flattenRanks; distinct = distinct text")
    ctx.trusted = ["Lean kernel; Props/C03 (fiber/tensor-level algebra only: the composition with the loop nest - dynamic splits inside loops, several levels - is NOT proved)",
                   "the fibertree contract of splitEqual/splitNonUniform/flattenRanks/unflattenRanks (FT/Ops.lean, Props/C03.leaderKeys = minifiber, compared on random fibers)",
                   "correctness of each program is decided by execution on sampled inputs against the unmapped program and the dense oracle"]
    k = 1 if ctx.tier == "quick" else 8
    rng = random.Random(ctx.seed * 257 + 3)
    ftdiff.run(ctx, rng, 60 * k, ops=("flatten", "unflatten", "swizzle"))
    ftdiff.run_fibers(ctx, rng, 80 * k)
    n = 2 if ctx.tier == "quick" else 3
    recs = pool.collect(ctx, [dict(gen="g3", count=110 * k, modes=["plain"], nexec=n, reference=True), dict(gen="g3z", count=20 * k, modes=["plain"], nexec=n, reference=True)])
    c02.check_records(ctx, recs)


def replay(ctx, path):
    print("replay: re-run `./check C03`; the replay file carries the specification, inputs and expected result"); return 2
