"""C03 — occupancy partitioning and flattening never change the result.
Theorems: Props/C03 (flatten_unflatten_id, groupOf_spec, follower_agrees) - fiber/tensor-level algebra for every
fiber, chunk size and tensor.  Tie: Lean operations vs the minifiber stand-in on random tensors/fibers; every
generated specification (G3: uniform_occupancy with any leader holding the rank, 1-2 levels incl. different
leaders per level, beneath a shape split, flatten of two ranks, occupancy of the flattened rank; level-sorted
loop orders) is executed and compared with the unmapped compile and the dense oracle."""
import json, random, re
import common, pool, specs, gens, ftdiff, c02, c01, semcheck


def dyn_request(case, rec, ex):
    """product Einsum, shape partitioning on any ranks (static splits) and ONE uniform_occupancy level - the bottom level of
    its stack - on a contracted rank: the request for the Lean model (Props/C03Static.static_then_dynamic): original
    Einsum + inputs, the static splits, the loop order after them, the dynamic split"""
    e = case["eins"][0]
    d = rec["yaml"]
    parts = ((d.get("mapping") or {}).get("partitioning") or {}).get(e["out"]) or {}
    if not parts or len(e["terms"]) != 1 or e["terms"][0]["kind"] != "times":
        return None
    terms = c01.lean_terms(case, ex)
    ranks = []
    for t in terms:
        for x in t["tensors"]:
            for r in x["ranks"]:
                if r not in ranks:
                    ranks.append(r)
    for r in case["decl"][e["out"]]:
        if r not in ranks:
            ranks.append(r)
    lo = ((d.get("mapping") or {}).get("loop-order") or {}).get(e["out"]) or (pool.loop_ranks(d) or {}).get(e["out"])
    if lo is None:
        return None
    splits, dyn = [], None
    for K, stack in parts.items():
        if K not in ranks:
            return None
        n = len(stack)
        shape, occ = stack, None
        m = re.fullmatch(r"uniform_occupancy\((\w+)\.(\d+)\)", stack[-1])
        if m:
            shape, occ = stack[:-1], (m.group(1), int(m.group(2)))
        sizes = c02.part_sizes(case, shape, case["ext"][K])
        if sizes is None or any(x <= 0 for x in sizes):
            return None                                   # occupancy above another level etc.: outside the modelled class
        cur = K
        for j, sz in enumerate(sizes):
            lvl = n - j
            low = (K + "0") if lvl == 1 else "%s%dI" % (K, lvl - 1)
            splits.append({"K": cur, "K1": K + str(lvl), "K0": low, "size": sz})
            cur = low
        if occ:
            if dyn is not None or K in case["decl"][e["out"]]:
                return None
            dyn = dict(K=cur, K1=K + "1", K0=K + "0", n=occ[1], leader=occ[0])
    if dyn is None or dyn["K1"] not in lo or dyn["K0"] not in lo:
        return None
    i1 = lo.index(dyn["K1"])
    pre, rs2 = lo[:i1], lo[i1:]
    loop1 = pre + [dyn["K"] if r == dyn["K1"] else r for r in rs2 if r != dyn["K0"]]
    return {"op": "nest_statdyn", "loop": ranks, "exts": [case["ext"][r] for r in ranks], "out_name": e["out"], "out_ranks": list(case["decl"][e["out"]]),
            "terms": terms, "tree": rec["tree"], "splits": splits, "loop1": loop1, "npre": len(pre), "K": dyn["K"], "K1": dyn["K1"], "K0": dyn["K0"],
            "n": dyn["n"], "leader": dyn["leader"], "loop2": rs2}


def check_model(ctx, recs):
    """tie of C03.static_then_dynamic to the real compiler: the model nest (outer loops, split of the fibers reached at the
    leader's boundaries, inner loops) has the real program's loop skeleton and computes what the real program computes on the
    sampled input; the theorem's hypotheses (StatDynHyps) are decided in Lean for every sample"""
    reqs, metas = [], []
    for r in recs:
        if not r["ok"] or r["case"] is None or len(r["case"]["eins"]) != 1:
            continue
        for ex in r["execs"][:2]:
            if not ex.get("ok"):
                continue
            q = dyn_request(r["case"], r, ex)
            if q is None:
                ctx.stat("dynamic_model_not_applicable"); continue
            reqs.append(q); metas.append((r, r["case"], ex))
    for (r, case, ex), a in zip(metas, common.lean_batch(reqs)):
        if "error" in a:
            raise common.InternalError("lean: " + a["error"])
        out = case["eins"][0]["out"]
        real = c01.pts_set(ex["outputs"].get(out, []))
        run_, spec_ = c01.pts_set(a["run"]), c01.pts_set(a["spec"])
        nl = len(a["expected_loops"])
        skel_ok = [(v, sorted(fs)) for v, fs in a["expected_loops"]] == [(v, sorted(fs)) for v, fs in a.get("actual_loops", [])][:nl]
        ctx.stat("dynamic_model_samples")
        if q_pre := a.get("hyps_ok"):
            ctx.stat("dynamic_model_hypotheses_hold")
        ok_h = bool(a["hyps_ok"])
        ok_thm = (run_ == spec_) or not ok_h
        ok_model = skel_ok and real == run_
        ctx.ob(ok_h); ctx.ob(ok_thm); ctx.ob(ok_model)
        if ok_h and ok_thm and ok_model:
            continue
        rep = dict(semcheck.base_replay(r, case, ex), real=real, model_run=run_, model_spec=spec_, hyps_ok=a["hyps_ok"],
                   skeleton_expected=a["expected_loops"], skeleton_actual=a.get("actual_loops"))
        if not ok_h:
            ctx.violation(dict(rep, kind="model-hypotheses", obligation="C03.StatDynHyps decided on the sampled specification and input",
                               reason="the hypotheses of C03.static_then_dynamic do not hold for this generated sample (generator or model out of step)"), False)
        elif not ok_thm:
            ctx.violation(dict(rep, kind="model-semantics", obligation="C03.static_then_dynamic", reason="model nest and meaning differ although DynHyps holds"), False)
        else:
            verdict_ok, reason, sig = semcheck.verdict(case, ex)
            ctx.violation(dict(rep, kind="model-correspondence", obligation="model of the nest with a dynamic split (C03.static_then_dynamic) = real compiler: loop skeleton and result",
                               reason="the emitted program no longer matches the model nest (%s)" % ("skeleton" if not skel_ok else "result")), not verdict_ok)


def run(ctx):
    ctx.rule = ("generated G3 specifications (product Einsums; uniform_occupancy with leader choice and sizes 1-4 against extents 1-6, one or two levels incl. different leaders, "
                "occupancy beneath uniform_shape, flatten() of two ranks, occupancy of the flattened rank; loop orders keeping each rank's levels outermost to innermost), "
                "each executed on 2-3 random inputs (leader/follower of unequal support) under several hash seeds vs the unmapped compile and the dense oracle; plus random "
                "tensors/fibers for the Lean-vs-minifiber differential; non-trivial = program with splitEqual/flattenRanks; distinct = distinct text")
    ctx.trusted = ["Lean kernel; Props/C03 (fiber/tensor-level algebra), Props/C03Dyn + C03Nest (dynamic_nest': one occupancy level on a contracted rank of a product Einsum, any leader, any outer loops, "
                   "any order of the inner loops, every input: the nest with the split executed inside the loops computes the Einsum's meaning); NOT proved: several occupancy levels, occupancy of an "
                   "output rank, flattening - decided by execution",
                   "model of the dynamic nest = real compiler is sampled (DynHyps decided in Lean per sample, loop skeleton, result on the sampled input)",
                   "the fibertree contract of splitEqual/splitNonUniform/flattenRanks/unflattenRanks (FT/Ops.lean, Props/C03.leaderKeys = minifiber, compared on random fibers)",
                   "correctness of each program is decided by execution on sampled inputs against the unmapped program and the dense oracle"]
    k = 1 if ctx.tier == "quick" else 8
    rng = random.Random(ctx.seed * 257 + 3)
    ftdiff.run(ctx, rng, 60 * k, ops=("flatten", "unflatten", "swizzle"))
    ftdiff.run_fibers(ctx, rng, 80 * k)
    n = 2 if ctx.tier == "quick" else 3
    recs = pool.collect(ctx, [dict(gen="g3", count=110 * k, modes=["plain"], nexec=n, reference=True), dict(gen="g3z", count=20 * k, modes=["plain"], nexec=n, reference=True)])
    c02.check_records(ctx, recs)
    recs2 = pool.collect(ctx, [dict(gen="g3", count=30 * k, modes=["plain"], nexec=n, opts={"variant": "occ"}),
                               dict(gen="g3", count=20 * k, modes=["plain"], nexec=n, opts={"variant": "occ_under_shape"})])
    c02.check_records(ctx, recs2, need_reference=False)
    check_model(ctx, recs + recs2)


def replay(ctx, path):
    print("replay: re-run `./check C03`; the replay file carries the specification, inputs and expected result"); return 2
