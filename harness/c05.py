"""C05 — cascaded Einsums compose and are compiled independently of their predecessors.
Theorems: Props/C05 (cursors_restored, tmp_offset, tmp_monotone) on the shared state.  Tie on the real compiler
(G5 cascades of 2-4 Einsums with per-Einsum loop orders / partitioning / rank orders, intermediates re-read):
(a) the text emitted for the first i Einsums is a prefix of the whole text, and the segment of Einsum i equals the
text of Einsum i compiled alone with the same declarations and mapping after renaming temporaries by first
occurrence; the temporaries of the segment are the stand-alone ones shifted by the number issued before
(the Lean counter model gives the same numbers); (b) after each Einsum every tensor cursor of the real Program
equals a freshly declared one; (c) the whole program executed on sampled inputs equals the chained dense
evaluation, every intermediate bound under its declared/rank-order name."""
import copy, json, random, re
import common, pool, specs, gens, c02, semcheck


def canon_tmps(text):
    order = []
    for m in re.finditer(r"\btmp(\d+)\b", text):
        if m.group(1) not in order:
            order.append(m.group(1))
    ren = {n: "TMP%d" % i for i, n in enumerate(order)}
    return re.sub(r"\btmp(\d+)\b", lambda m: ren[m.group(1)], text), [int(n) for n in order]


def alone(d, i):
    dd = copy.deepcopy(d)
    dd["einsum"]["expressions"] = [d["einsum"]["expressions"][i]]
    return dd


def prefix(d, i):
    dd = copy.deepcopy(d)
    dd["einsum"]["expressions"] = d["einsum"]["expressions"][:i]
    return dd


def cursor_states(d):
    """after each Einsum (add_einsum ... reset) are all tensors of the real Program fresh?"""
    from teaal.parse import Einsum, Mapping
    from teaal.ir.program import Program
    from teaal.ir.tensor import Tensor
    from teaal.ir.flow_graph import FlowGraph
    dd = copy.deepcopy(d)
    p = Program(Einsum(copy.deepcopy(dd)), Mapping(copy.deepcopy(dd)))
    bad = []
    decl = dd["einsum"]["declaration"]
    ro = (dd.get("mapping") or {}).get("rank-order") or {}
    for i in range(len(dd["einsum"]["expressions"])):
        p.add_einsum(i)
        FlowGraph(p, None, ["hoist"])
        p.reset()
        for name, ranks in decl.items():
            fresh = Tensor(name, list(ro.get(name) or ranks))
            cur = p.tensors.get(name)
            if cur is not None and (cur != fresh or cur.get_ranks() != fresh.get_ranks() or cur.tensor_name() != fresh.tensor_name()):
                bad.append("after Einsum %d tensor %s is %r" % (i, name, cur))
    return bad


def run(ctx):
    ctx.rule = ("generated G5 cascades (2-4 product Einsums, later ones reading earlier results, per-Einsum loop orders, shape partitioning of some members, rank orders) and G5conv cascades "
                "(a convolution followed by an Einsum re-using its index names plainly, optionally partitioned); each: prefix/"
                "segment/stand-alone text differential, cursor states after every Einsum, execution on 2 random inputs vs chained dense evaluation; non-trivial = cascade in which a later "
                "Einsum reads an earlier result; distinct = distinct text")
    ctx.trusted = ["Lean kernel; Props/C05Sem (cascade_correct: the cascade of nests computes the composition of the Einsums' meanings, all tensors, all points, all inputs) and Props/C05 (shared-state level)",
                   "model cascade = real emitted program is sampled: every Einsum's output tensor on the sampled input; CascadeOK decided in Lean per sample", "equality of the emitted statements is observed on the real compiler (sampled cascades), not derived from a model of the emitters",
                   "composition of results is decided by execution on sampled inputs (minifiber) against the chained dense oracle"]
    rng = random.Random(ctx.seed * 8191 + 5)
    k = 1 if ctx.tier == "quick" else 8
    recs = pool.collect(ctx, [dict(gen="g5", count=60 * k, modes=["plain"], nexec=2), dict(gen="g5conv", count=20 * k, modes=["plain"], nexec=2), dict(gen="g5conv2", count=12 * k, modes=["plain"], nexec=0), dict(gen="g2casc", count=15 * k, modes=["plain"], nexec=2), dict(gen="g5flat", count=20 * k, modes=["plain"], nexec=2),
                              dict(gen="g5", count=20 * k, modes=["spacetime"], nexec=0)])
    reqs, metas = [], []
    for r in recs:
        if not r["ok"]:
            ctx.stat(("rejected_" if r["err_kind"] == "ValueError" else "compile_crash_") + str(r["err_kind"])); continue
        d = r["yaml"]
        n = len(d["einsum"]["expressions"])
        ctx.case([r["text"]], nontrivial="reads_intermediate" in r["case"]["tags"] or "g5conv" in r["case"]["tags"])
        ctx.stat("cascade_len_%d" % n)
        full = r["text"]
        prev_len, issued_before = 0, 0
        for i in range(n):
            cp = specs.compile_spec(prefix(d, i + 1), r["mode"])
            ok_prefix = cp.ok and (full == cp.text or full.startswith(cp.text + "\n"))
            ctx.ob(ok_prefix)
            if not ok_prefix:
                ctx.violation(dict(kind="not-a-prefix", yaml=d, einsum_index=i, text=full, prefix_text=cp.text if cp.ok else cp.err_msg,
                                   reason="the text emitted for the first %d Einsum(s) is not a prefix of the text of the whole cascade" % (i + 1)), True)
                break
            seg = cp.text[prev_len:].lstrip("\n")
            prev_len = len(cp.text)
            ca = specs.compile_spec(alone(d, i), r["mode"])
            if not ca.ok:
                ctx.ob(False)
                ctx.violation(dict(kind="standalone-rejected", yaml=d, einsum_index=i, error=ca.err_msg,
                                   reason="Einsum %d compiles inside the cascade but not alone: %s" % (i, ca.err_msg)), True)
                continue
            cs, nums_seg = canon_tmps(seg)
            cal, nums_alone = canon_tmps(ca.text)
            same = cs == cal
            shifted = nums_seg == [x + issued_before for x in nums_alone]
            ctx.ob(same); ctx.ob(shifted)
            if not same:
                ctx.violation(dict(kind="segment-differs", yaml=d, yaml_text=specs.dump_yaml(d), einsum_index=i, in_cascade=seg, alone=ca.text,
                                   reason="the code emitted for Einsum %d inside the cascade differs from its stand-alone code beyond the numbering of temporaries" % i), True)
            elif not shifted:
                ctx.violation(dict(kind="tmp-numbering", yaml=d, einsum_index=i, in_cascade=nums_seg, alone=nums_alone, issued_before=issued_before,
                                   reason="temporaries of Einsum %d are not the stand-alone ones shifted by the number issued before" % i), True)
            reqs.append({"op": "tmp_issued", "count_before": issued_before - 1, "n": len(nums_alone)}); metas.append((d, i, nums_seg))
            issued_before += len(nums_alone)
        bad = cursor_states(d)
        ctx.ob(not bad)
        if bad:
            ctx.violation(dict(kind="cursor-not-reset", yaml=d, reason="; ".join(bad[:3]),
                               obligation="C05.cursors_restored on the real Program: every tensor equals a freshly declared one after each Einsum"), True)
        if len(ctx.samples) < 3 and n >= 3:
            ctx.sample({"einsums": d["einsum"]["expressions"], "mapping": d.get("mapping")})
    for (d, i, nums), a in zip(metas, common.lean_batch(reqs)):
        if "error" in a:
            raise common.InternalError("lean: " + a["error"])
        ok = sorted(a["issued"]) == sorted(nums) or not nums
        ctx.ob(ok)
        if not ok:
            ctx.violation(dict(kind="tmp-model", yaml=d, einsum_index=i, model=a["issued"], implementation=nums,
                               obligation="C05.issued (temporary counter model) = temporaries of the segment"), False)
    c02.check_records(ctx, [r for r in recs if r["ok"]], need_reference=False)
    check_model(ctx, recs)


def cascade_request(case, rec, ex):
    """cascade whose members are unpartitioned sums of products: the request for the Lean model cascade (Props/C05Sem)"""
    import c01
    d = rec["yaml"]
    parts_all = (d.get("mapping") or {}).get("partitioning") or {}
    if any(not all(str(x).startswith(("uniform_shape", "nway_shape")) for x in st) for ps in parts_all.values() for st in ps.values()):
        return None
    lo_all = pool.loop_ranks(d) or {}
    eins = []
    for e in case["eins"]:
        terms = []
        for t in e["terms"]:
            if t["kind"] != "times":
                return None
            scal, tensors = 1, []
            for f in t["factors"]:
                if f[0] == "s":
                    scal *= case["env"][f[1]]
                else:
                    if any(len(idx) != 1 or idx[0][0] != 1 for idx in f[2]):
                        return None                        # index math: not in this model
                    tensors.append({"name": f[1], "ranks": [idx[0][1].upper() for idx in f[2]]})
            terms.append({"kind": "times", "sel": 0, "scal": scal, "tensors": tensors})
        lo = ((d.get("mapping") or {}).get("loop-order") or {}).get(e["out"]) or lo_all.get(e["out"])
        if lo is None:
            return None
        # a shape-partitioned member computes what the unpartitioned member computes (C02.model_partitioned): the model cascade
        # runs the member over its unpartitioned ranks, in the order their top levels are looped
        roots = []
        for r in lo:
            cands = [x for x in case["ext"] if r == x or (r.startswith(x) and r[len(x):].isdigit())]
            root = r if r in case["ext"] else max(cands, key=len)
            if root not in roots:
                roots.append(root)
        lo = roots
        eins.append({"loop": list(lo), "exts": [case["ext"][r] for r in lo], "out_name": e["out"], "out_ranks": list(case["decl"][e["out"]]), "terms": terms})
    inputs = [{"name": k, "pts": [[list(p), v] for p, v in sorted((tuple(p), v) for p, v in pts)]} for k, pts in ex["inputs"].items()]
    return {"op": "cascade", "einsums": eins, "inputs": inputs}


def check_model(ctx, recs):
    """tie of C05.cascade_correct: the model cascade (each nest leaves its result under the declared name and rank order, later
    nests read it there) produces, for EVERY Einsum of the specification, the tensor the real emitted program produces on the
    sampled input; the theorem's hypotheses (CascadeOK) are decided in Lean per sample"""
    import c01
    reqs, metas = [], []
    for r in recs:
        if not r["ok"] or r["case"] is None:
            continue
        for ex in r["execs"][:1]:
            if not ex.get("ok"):
                continue
            q = cascade_request(r["case"], r, ex)
            if q is None:
                ctx.stat("cascade_model_not_applicable"); continue
            reqs.append(q); metas.append((r, r["case"], ex))
    for (r, case, ex), a in zip(metas, common.lean_batch(reqs)):
        if "error" in a:
            raise common.InternalError("lean: " + a["error"])
        ctx.stat("cascade_model_samples")
        model = {o["name"]: c01.pts_set(o["pts"]) for o in a["outputs"]}
        real = {e["out"]: c01.pts_set(ex["outputs"].get(e["out"], [])) for e in case["eins"]}
        oracle = {k: c01.pts_set([[list(p), v] for p, v in x.items()]) for k, x in
                  gens.oracle_cascade(case, {k: {tuple(p): v for p, v in x} for k, x in ex["inputs"].items()}).items() if k in real}
        ok_h = bool(a["hyps_ok"])
        ok_model = model == real
        ok_thm = (model == oracle) or not ok_h
        ctx.ob(ok_h); ctx.ob(ok_model); ctx.ob(ok_thm)
        if ok_h:
            ctx.stat("cascade_model_hypotheses_hold")
        if ok_h and ok_model and ok_thm:
            continue
        rep = dict(semcheck.base_replay(r, case, ex), model=model, real=real, oracle=oracle, hyps_ok=a["hyps_ok"])
        if not ok_h:
            ctx.violation(dict(rep, kind="model-hypotheses", obligation="C05.CascadeOK decided on the sampled cascade and input",
                               reason="the hypotheses of C05.cascade_correct do not hold for this generated cascade"), False)
        elif not ok_thm:
            ctx.violation(dict(rep, kind="model-semantics", obligation="C05.cascade_correct", reason="model cascade and chained dense evaluation differ although CascadeOK holds"), False)
        else:
            verdict_ok, reason, sig = semcheck.verdict(case, ex)
            ctx.violation(dict(rep, kind="model-correspondence", obligation="model cascade (C05.cascade_correct) = real emitted program: every Einsum's output tensor",
                               reason="an intermediate or final tensor of the emitted cascade differs from the model cascade's"), not verdict_ok)


def replay(ctx, path):
    print("replay: re-run `./check C05`; the replay file carries the cascade"); return 2
