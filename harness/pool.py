"""Program pool: worker processes (each under its own PYTHONHASHSEED) generate specifications, compile them
with the real compiler, export the trees and execute the emitted text on minifiber; the parent collects
JSON records.  Used by every check that looks at emitted programs.

Run as a worker:  python pool.py <jobfile.json> <outfile.jsonl>
"""
import re, copy, json, os, random, subprocess, sys, tempfile, time, traceback
sys.path.insert(0, os.path.dirname(os.path.abspath(__file__)))
import common

API_NAMES = ["Tensor", "Fiber", "Metrics", "Traffic", "Format", "Compute", "LeaderFollowerIntersector",
             "SkipAheadIntersector", "TwoFingerIntersector", "createCanvas", "displayCanvas", "enumerate",
             "len", "min", "max", "int", "float", "set", "None"]


def user_names(d, case=None):
    """names the user is expected to supply, computed from the specification alone"""
    import re
    names = list(API_NAMES)
    decl = d["einsum"]["declaration"]
    mapping = d.get("mapping") or {}
    ro = mapping.get("rank-order") or {}
    produced = set()
    exprs = d["einsum"]["expressions"]
    for ex in exprs:
        lhs, rhs = ex.split("=", 1)
        out = lhs.split("[")[0].strip()
        # tensors read
        for nm in re.findall(r"([A-Za-z_][A-Za-z0-9_]*)\s*\[", rhs):
            if nm not in produced and nm in decl:
                names.append(nm + "_" + "".join(ro.get(nm) or decl[nm]))
        # scalar operands: identifiers not followed by '[' and not 'take'
        for m in re.finditer(r"([A-Za-z_][A-Za-z0-9_]*)\s*(\[|\()?", re.sub(r"\[[^\]]*\]", "[]", rhs)):
            if m.group(2) is None and m.group(1) not in decl and m.group(1) != "take":
                names.append(m.group(1))
        produced.add(out)
    roots = set()
    for t, rs in decl.items():
        roots.update(rs)
    names.extend(sorted(roots))
    # partition levels and symbolic sizes
    for out, parts in (mapping.get("partitioning") or {}).items():
        for key, stack in parts.items():
            ranks = [r.strip() for r in key.strip("()").split(",")] if key.startswith("(") else [key]
            base = "".join(ranks) if len(ranks) > 1 else key
            roots.add(base)
            names.append(base)
            n = len([s for s in stack if not s.startswith("flatten")])
            for i in range(n + 1):
                names.append(base + str(i))
            for s in stack:
                m = re.match(r"\s*[a-z_]+\(\s*([A-Za-z_][A-Za-z0-9_]*)\s*\)", s)
                if m and not s.strip().startswith("follow"):
                    names.append(m.group(1))
                m = re.match(r"\s*uniform_occupancy\(\s*[A-Za-z_][A-Za-z0-9_]*\s*\.\s*([A-Za-z_][A-Za-z0-9_]*)\s*\)", s)
                if m:
                    names.append(m.group(1))
    out = []
    for n in names:
        if n not in out:
            out.append(n)
    return out


def activity_problems(rec_obj, check_presence=True):
    """one activity per update is checked by the caller; here: every displayed tensor gets a point with one
    coordinate per rank of that tensor as displayed, naming an element that exists in it; stamps collected"""
    import minifiber
    probs, stamps = [], []
    for canvas, points, st in rec_obj.activities:
        if len(points) != len(canvas.tensors):
            probs.append("activity with %d points for %d displayed tensors" % (len(points), len(canvas.tensors)))
            continue
        for t, p in zip(canvas.tensors, points):
            if not isinstance(p, tuple) or len(p) != len(t.getRankIds()):
                probs.append("tensor %s displayed with ranks %r gets the point %r" % (t.name, t.getRankIds(), p))
                continue
            if not check_presence:
                continue
            # the point must name a path of the displayed tensor (inputs: an existing element)
            f = t.getRoot()
            ok = True
            for c in p:
                if not isinstance(f, minifiber.Fiber):
                    ok = False
                    break
                q = f.lookup(c)
                if q is None:
                    ok = False
                    break
                f = q
            if not ok:
                probs.append("point %r is not an element of the displayed tensor %s%r" % (p, t.name, t.getRankIds()))
        stamps.append(repr(st))
        if len(probs) > 5:
            break
    return probs, stamps


def activity_slot_problems(tree, canvases):
    """every coordinate slot of an addActivity point must be filled with the loop variable of the rank that the
    displayed tensor has at that slot (plain variables only; index-math expressions are skipped)"""
    calls = []

    def visit(s):
        if s[0] == "SBlock":
            for x in s[1]:
                visit(x)
        elif s[0] == "SFor":
            text_vars.update(re.findall(r"[A-Za-z_][A-Za-z0-9_]*", json.dumps(s[1])))
            visit(s[3])
        elif s[0] == "SIf":
            visit(s[2])
            for b in s[4]:
                visit(b)
            if s[5] is not None:
                visit(s[5])
        elif s[0] == "SExpr" and s[1][0] == "EMethod" and s[1][2] == "addActivity":
            calls.append(s[1])
    text_vars = set()            # names bound by for-loop targets
    visit(tree)
    probs = []

    def name_of(e):
        if e[0] == "EVar":
            return e[1]
        if e[0] == "ETuple":
            parts = [name_of(x) for x in e[1]]
            return None if any(p is None for p in parts) else "".join(parts)
        return None
    for call, canvas in zip(calls, canvases):
        args = [a for k, a in zip(call[3], call[4]) if k is None]
        for t, a in zip(canvas.tensors, args):
            if a[0] != "ETuple":
                continue
            ids = t.getRankIds()
            if len(a[1]) != len(ids):
                probs.append("tensor %s%r gets a point of %d coordinates" % (t.name, ids, len(a[1])))
                continue
            for rid, el in zip(ids, a[1]):
                nm = name_of(el)
                # a dynamically partitioned rank is displayed unsplit; its bottom-level variable carries the absolute coordinate
                base = rid[:-1].rstrip("0123456789") if rid.endswith("I") and rid[:-1][-1:].isdigit() else rid
                if rid.lower() not in text_vars and base.lower() + "0" not in text_vars:
                    continue            # a projected rank (index math): no loop variable of its own, the slot holds an expression over other ranks
                if nm is not None and nm != rid.lower() and nm != base.lower() + "0":
                    probs.append("tensor %s is displayed with ranks %r but its activity point is %s" % (t.name, ids, [name_of(x) for x in a[1]]))
                    break
    return probs


def rollup_check(metrics, tinfo):
    """independent roll-up of the executed dump: sum over blocks of max over components of the sum over the
    block's Einsums of metrics[e][c]["time"]; compared with metrics["time"] as the program computed it"""
    try:
        total = 0
        for b in tinfo["blocks"]:
            per = {}
            for e in b:
                for c in tinfo["comps"].get(e, []):
                    per[c] = per.get(c, 0) + metrics[e][c]["time"]
            total += max(per.values()) if per else 0
        got = metrics.get("time")
        ok = got is not None and abs(got - total) <= 1e-9 * max(1.0, abs(total))
        return dict(ok=ok, program=got, independent=total, blocks=metrics.get("blocks"))
    except Exception as e:
        return dict(ok=False, error="%s: %s" % (type(e).__name__, str(e)[:200]))


def strip_mapping(d, keep=("rank-order",)):
    """the same Einsum(s) without partitioning / loop order / spacetime (the 'unmapped' reference compile)"""
    dd = copy.deepcopy(d)
    m = dd.get("mapping") or {}
    dd["mapping"] = {k: v for k, v in m.items() if k in keep}
    for k in ("architecture", "bindings", "format"):
        dd.pop(k, None)
    return dd


def make_record(gen, idx, case, d, mode, nexec, rng, hashseed, want_tree=True, want_flow=False, want_time=False, reference=False):
    import specs, gens, export
    rec = dict(gen=gen, idx=idx, mode=mode, hashseed=hashseed, yaml=d, case=case, ok=False)
    c = specs.compile_spec(d, mode)
    rec["err_kind"], rec["err_msg"] = c.err_kind, c.err_msg
    if not c.ok:
        return rec
    rec["ok"] = True
    rec["text"] = c.text
    if want_tree:
        try:
            rec["tree"] = c.tree()
        except export.ExportError as e:
            rec["tree_error"] = str(e)
    rec["user"] = user_names(d, case)
    if want_time and mode == "metrics":
        import metricsinfo
        try:
            rec["time"] = metricsinfo.time_info(c.hf, d)
        except Exception as e:
            rec["time_error"] = "%s: %s" % (type(e).__name__, str(e)[:200])
    if want_flow:
        import flow
        try:
            rec["flow"] = flow.flow_info(d, mode)
        except Exception as e:
            rec["flow_error"] = "%s: %s" % (type(e).__name__, str(e)[:200])
    rec["execs"] = []
    ref_text = None
    if reference and case is not None:
        import specs as _s
        rc = _s.compile_spec(strip_mapping(d), "plain")
        rec["reference_ok"] = rc.ok
        rec["reference_err"] = None if rc.ok else "%s: %s" % (rc.err_kind, rc.err_msg)
        ref_text = rc.text if rc.ok else None
    if case is not None and nexec:
        for _ in range(nexec):
            inputs = gens.rand_inputs(rng, case)
            ex = dict(inputs={k: [[list(p), v] for p, v in pts.items()] for k, pts in inputs.items()})
            try:
                r = gens.run_text(c.text, case, inputs)
                ex["ok"] = r.ok
                ex["err"] = r.err
                ex["err_type"] = r.err_type
                ex["problems"] = list(r.problems)
                ex["cmp"] = gens.compare(case, r, inputs) if r.ok else []
                ex["outputs"] = {k: [[list(p), v] for p, v in pts.items()] for k, pts in r.outputs.items()}
                ex["activities"] = len(r.rec.activities)
                ex["updates"] = r.rec.updates
                if r.ok and r.rec.canvases:
                    single = all(len(e["terms"]) == 1 for e in case["eins"]) and "flatten" not in c.text
                    ap, stamps = activity_problems(r.rec, check_presence=single)
                    ex["act_problems"] = ap[:5]
                    if "tree" in rec:
                        ap = ap + activity_slot_problems(rec["tree"], r.rec.canvases)
                        ex["act_problems"] = ap[:5]
                    ex["dup_stamps"] = len(stamps) - len(set(stamps))
                    ex["stamp_sample"] = stamps[:3]
                if ref_text is not None:
                    case0 = dict(case); case0["mapping"] = {k: v for k, v in (case.get("mapping") or {}).items() if k == "rank-order"}
                    r0 = gens.run_text(ref_text, case0, inputs)
                    ex["reference"] = dict(ok=r0.ok, err=r0.err, outputs={k: [[list(p), v] for p, v in pts.items()] for k, pts in r0.outputs.items()})
                if r.ok and mode == "metrics" and isinstance(r.globals.get("metrics"), dict) and "time" in rec:
                    ex["rollup"] = rollup_check(r.globals["metrics"], rec["time"])
            except Exception as e:   # harness failure, not a verdict
                ex["harness_error"] = traceback.format_exc(limit=3)
            rec["execs"].append(ex)
    return rec


def worker(job, outpath):
    import specs, gens
    rng = random.Random(job["seed"])
    hs = os.environ.get("PYTHONHASHSEED", "")
    with open(outpath, "w") as out:
        for item in job["items"]:
            gen, count, modes, nexec = item["gen"], item["count"], item["modes"], item.get("nexec", 0)
            opts = item.get("opts", {})
            if gen == "corpus":
                for name, d in specs.corpus():
                    if item.get("names") and name not in item["names"]:
                        continue
                    for mode in specs.modes_of(d):
                        if mode in modes:
                            rec = make_record("corpus:" + name, 0, None, d, mode, 0, rng, hs, want_flow=item.get("flow", False), want_time=item.get("time", False))
                            out.write(json.dumps(rec) + "\n")
                continue
            if gen == "fixed":
                # the same specifications (and inputs) in every worker: only PYTHONHASHSEED differs
                for i, fc in enumerate(item["cases"]):
                    case = fc["case"]
                    d = gens.to_yaml_dict(case) if case is not None else fc["yaml"]
                    for mode in fc.get("modes", modes):
                        rng_i = random.Random(fc.get("input_seed", i))
                        rec = make_record("fixed:%d" % i, i, case, d, mode, item.get("nexec", 0) if case is not None else 0, rng_i, hs)
                        if rec["ok"]:
                            c2 = specs.compile_spec(d, mode)
                            rec["second_compile_same"] = bool(c2.ok and c2.text == rec["text"])
                        out.write(json.dumps(rec) + "\n")
                continue
            if gen == "g13m":
                # fusion histories (C13's generator) pushed through the whole metrics pipeline
                import c13
                for i in range(count):
                    hist = c13.gen_hist_merger(rng, rng.choice([2, 3, 3, 4])) if i % 4 == 3 else c13.gen_hist(rng, rng.choice([2, 3, 3, 4, 5]))
                    d = c13.with_format(c13.make_spec(hist))
                    rec = make_record(gen, i, None, d, "metrics", 0, rng, hs, want_time=item.get("time", False))
                    out.write(json.dumps(rec) + "\n")
                continue
            if gen == "g7":
                import gens7
                fn = gens7.g7
            else:
                fn = getattr(gens, gen)
            for i in range(count):
                case = fn(rng, **opts)
                if gen != "g7" and rng.random() < 0.2:
                    case = gens.rename_tensors(rng, case)
                d = gens.to_yaml_dict(case)
                for mode in modes:
                    dd, cc = d, case
                    if mode == "spacetime":
                        cc = copy.deepcopy(case)
                        lo = loop_ranks(dd)
                        if lo is None:
                            continue
                        gens.add_spacetime(rng, cc, lo)
                        dd = gens.to_yaml_dict(cc)
                    rec = make_record(gen, i, cc, dd, mode, nexec, rng, hs, want_flow=item.get("flow", False), want_time=item.get("time", False), reference=item.get("reference", False))
                    out.write(json.dumps(rec) + "\n")


def loop_ranks(d):
    """the loop ranks the implementation uses for each Einsum (explicit or default), via the public IR"""
    from teaal.parse import Einsum, Mapping
    from teaal.ir.program import Program
    try:
        dd = copy.deepcopy(d)
        dd.setdefault("mapping", {})
        p = Program(Einsum(copy.deepcopy(dd)), Mapping(copy.deepcopy(dd)))
        res = {}
        for i in range(len(dd["einsum"]["expressions"])):
            p.add_einsum(i)
            res[p.get_equation().get_output().root_name()] = list(p.get_loop_order().get_ranks())
            p.reset()
        return res
    except Exception:
        return None


def collect(ctx, items, nworkers=None, hashseeds=None):
    """items: list of dict(gen, count, modes, nexec, opts).  Splits counts over workers; returns records."""
    nworkers = nworkers or (12 if ctx.tier == "thorough" else 6)
    hashseeds = hashseeds or [0] + [((ctx.seed + 1) * 7717 + 31 * k) % 4294967295 for k in range(1, nworkers)]
    tmp = tempfile.mkdtemp(prefix="teaalverif-")
    procs = []
    for w in range(nworkers):
        its = []
        for it in items:
            it2 = dict(it)
            if it["gen"] == "fixed":
                pass
            elif it["gen"] == "corpus":
                if w != 0 and not it.get("all_workers"):
                    continue
            else:
                it2["count"] = it["count"] // nworkers + (1 if w < it["count"] % nworkers else 0)
                if it2["count"] == 0:
                    continue
            its.append(it2)
        if not its:
            continue
        job = dict(seed=ctx.seed * 1000003 + w * 101 + 7, items=its)
        jp, op = os.path.join(tmp, "job%d.json" % w), os.path.join(tmp, "out%d.jsonl" % w)
        json.dump(job, open(jp, "w"))
        env = dict(os.environ)
        env["PYTHONHASHSEED"] = str(hashseeds[w % len(hashseeds)])
        procs.append((subprocess.Popen([sys.executable, os.path.abspath(__file__), jp, op], env=env,
                                       stdout=subprocess.PIPE, stderr=subprocess.PIPE, text=True), op))
    recs = []
    for p, op in procs:
        so, se = p.communicate(timeout=3000)
        if p.returncode != 0:
            raise common.InternalError("pool worker failed: " + se[-1500:])
        for line in open(op):
            recs.append(json.loads(line))
        os.remove(op)
    for f in os.listdir(tmp):
        os.remove(os.path.join(tmp, f))
    os.rmdir(tmp)
    return recs


if __name__ == "__main__":
    worker(json.load(open(sys.argv[1])), sys.argv[2])
