"""Program pool: worker processes (each under its own PYTHONHASHSEED) generate specifications, compile them
with the real compiler, export the trees and execute the emitted text on minifiber; the parent collects
JSON records.  Used by every check that looks at emitted programs.

Run as a worker:  python pool.py <jobfile.json> <outfile.jsonl>
"""
import copy, json, os, random, subprocess, sys, tempfile, time, traceback
sys.path.insert(0, os.path.dirname(os.path.abspath(__file__)))
import common

API_NAMES = ["Tensor", "Fiber", "Metrics", "Traffic", "Format", "Compute", "LeaderFollowerIntersector",
             "SkipAheadIntersector", "TwoFingerIntersector", "createCanvas", "displayCanvas", "enumerate",
             "len", "min", "max", "int", "float", "set", "None"]


def user_names(d, case=None):
    """names the user is expected to supply, computed from the specification alone"""
    import re
    names = list(API_NAMES)
    decl = d["einsum"]["declaration"]
    mapping = d.get("mapping") or {}
    ro = mapping.get("rank-order") or {}
    produced = set()
    exprs = d["einsum"]["expressions"]
    for ex in exprs:
        lhs, rhs = ex.split("=", 1)
        out = lhs.split("[")[0].strip()
        # tensors read
        for nm in re.findall(r"([A-Za-z_][A-Za-z0-9_]*)\s*\[", rhs):
            if nm not in produced and nm in decl:
                names.append(nm + "_" + "".join(ro.get(nm) or decl[nm]))
        # scalar operands: identifiers not followed by '[' and not 'take'
        for m in re.finditer(r"([A-Za-z_][A-Za-z0-9_]*)\s*(\[|\()?", re.sub(r"\[[^\]]*\]", "[]", rhs)):
            if m.group(2) is None and m.group(1) not in decl and m.group(1) != "take":
                names.append(m.group(1))
        produced.add(out)
    roots = set()
    for t, rs in decl.items():
        roots.update(rs)
    names.extend(sorted(roots))
    # partition levels and symbolic sizes
    for out, parts in (mapping.get("partitioning") or {}).items():
        for key, stack in parts.items():
            ranks = [r.strip() for r in key.strip("()").split(",")] if key.startswith("(") else [key]
            base = "".join(ranks) if len(ranks) > 1 else key
            roots.add(base)
            names.append(base)
            n = len([s for s in stack if not s.startswith("flatten")])
            for i in range(n + 1):
                names.append(base + str(i))
            for s in stack:
                m = re.match(r"\s*[a-z_]+\(\s*([A-Za-z_][A-Za-z0-9_]*)\s*\)", s)
                if m and not s.strip().startswith("follow"):
                    names.append(m.group(1))
                m = re.match(r"\s*uniform_occupancy\(\s*[A-Za-z_][A-Za-z0-9_]*\s*\.\s*([A-Za-z_][A-Za-z0-9_]*)\s*\)", s)
                if m:
                    names.append(m.group(1))
    out = []
    for n in names:
        if n not in out:
            out.append(n)
    return out


def rollup_check(metrics, tinfo):
    """independent roll-up of the executed dump: sum over blocks of max over components of the sum over the
    block's Einsums of metrics[e][c]["time"]; compared with metrics["time"] as the program computed it"""
    try:
        total = 0
        for b in tinfo["blocks"]:
            per = {}
            for e in b:
                for c in tinfo["comps"].get(e, []):
                    per[c] = per.get(c, 0) + metrics[e][c]["time"]
            total += max(per.values()) if per else 0
        got = metrics.get("time")
        ok = got is not None and abs(got - total) <= 1e-9 * max(1.0, abs(total))
        return dict(ok=ok, program=got, independent=total, blocks=metrics.get("blocks"))
    except Exception as e:
        return dict(ok=False, error="%s: %s" % (type(e).__name__, str(e)[:200]))


def strip_mapping(d, keep=("rank-order",)):
    """the same Einsum(s) without partitioning / loop order / spacetime (the 'unmapped' reference compile)"""
    dd = copy.deepcopy(d)
    m = dd.get("mapping") or {}
    dd["mapping"] = {k: v for k, v in m.items() if k in keep}
    for k in ("architecture", "bindings", "format"):
        dd.pop(k, None)
    return dd


def make_record(gen, idx, case, d, mode, nexec, rng, hashseed, want_tree=True, want_flow=False, want_time=False, reference=False):
    import specs, gens, export
    rec = dict(gen=gen, idx=idx, mode=mode, hashseed=hashseed, yaml=d, case=case, ok=False)
    c = specs.compile_spec(d, mode)
    rec["err_kind"], rec["err_msg"] = c.err_kind, c.err_msg
    if not c.ok:
        return rec
    rec["ok"] = True
    rec["text"] = c.text
    if want_tree:
        try:
            rec["tree"] = c.tree()
        except export.ExportError as e:
            rec["tree_error"] = str(e)
    rec["user"] = user_names(d, case)
    if want_time and mode == "metrics":
        import metricsinfo
        try:
            rec["time"] = metricsinfo.time_info(c.hf, d)
        except Exception as e:
            rec["time_error"] = "%s: %s" % (type(e).__name__, str(e)[:200])
    if want_flow:
        import flow
        try:
            rec["flow"] = flow.flow_info(d, mode)
        except Exception as e:
            rec["flow_error"] = "%s: %s" % (type(e).__name__, str(e)[:200])
    rec["execs"] = []
    ref_text = None
    if reference and case is not None:
        import specs as _s
        rc = _s.compile_spec(strip_mapping(d), "plain")
        rec["reference_ok"] = rc.ok
        rec["reference_err"] = None if rc.ok else "%s: %s" % (rc.err_kind, rc.err_msg)
        ref_text = rc.text if rc.ok else None
    if case is not None and nexec:
        for _ in range(nexec):
            inputs = gens.rand_inputs(rng, case)
            ex = dict(inputs={k: [[list(p), v] for p, v in pts.items()] for k, pts in inputs.items()})
            try:
                r = gens.run_text(c.text, case, inputs)
                ex["ok"] = r.ok
                ex["err"] = r.err
                ex["err_type"] = r.err_type
                ex["problems"] = list(r.problems)
                ex["cmp"] = gens.compare(case, r, inputs) if r.ok else []
                ex["outputs"] = {k: [[list(p), v] for p, v in pts.items()] for k, pts in r.outputs.items()}
                ex["activities"] = len(r.rec.activities)
                ex["act_points"] = [[len(p) if isinstance(p, tuple) else -1 for p in pts] for _, pts, _ in r.rec.activities[:2000]]
                ex["act_stamps"] = [repr(st) for _, _, st in r.rec.activities[:2000]]
                ex["canvas_ranks"] = [[len(t.getRankIds()) for t in c.tensors] for c in r.rec.canvases]
                if ref_text is not None:
                    case0 = dict(case); case0["mapping"] = {k: v for k, v in (case.get("mapping") or {}).items() if k == "rank-order"}
                    r0 = gens.run_text(ref_text, case0, inputs)
                    ex["reference"] = dict(ok=r0.ok, err=r0.err, outputs={k: [[list(p), v] for p, v in pts.items()] for k, pts in r0.outputs.items()})
                if r.ok and mode == "metrics" and isinstance(r.globals.get("metrics"), dict) and "time" in rec:
                    ex["rollup"] = rollup_check(r.globals["metrics"], rec["time"])
            except Exception as e:   # harness failure, not a verdict
                ex["harness_error"] = traceback.format_exc(limit=3)
            rec["execs"].append(ex)
    return rec


def worker(job, outpath):
    import specs, gens
    rng = random.Random(job["seed"])
    hs = os.environ.get("PYTHONHASHSEED", "")
    with open(outpath, "w") as out:
        for item in job["items"]:
            gen, count, modes, nexec = item["gen"], item["count"], item["modes"], item.get("nexec", 0)
            opts = item.get("opts", {})
            if gen == "corpus":
                for name, d in specs.corpus():
                    if item.get("names") and name not in item["names"]:
                        continue
                    for mode in specs.modes_of(d):
                        if mode in modes:
                            rec = make_record("corpus:" + name, 0, None, d, mode, 0, rng, hs, want_flow=item.get("flow", False), want_time=item.get("time", False))
                            out.write(json.dumps(rec) + "\n")
                continue
            if gen == "g7":
                import gens7
                fn = gens7.g7
            else:
                fn = getattr(gens, gen)
            for i in range(count):
                case = fn(rng, **opts)
                d = gens.to_yaml_dict(case)
                for mode in modes:
                    dd, cc = d, case
                    if mode == "spacetime":
                        cc = copy.deepcopy(case)
                        lo = loop_ranks(dd)
                        if lo is None:
                            continue
                        gens.add_spacetime(rng, cc, lo)
                        dd = gens.to_yaml_dict(cc)
                    rec = make_record(gen, i, cc, dd, mode, nexec, rng, hs, want_flow=item.get("flow", False), want_time=item.get("time", False), reference=item.get("reference", False))
                    out.write(json.dumps(rec) + "\n")


def loop_ranks(d):
    """the loop ranks the implementation uses for each Einsum (explicit or default), via the public IR"""
    from teaal.parse import Einsum, Mapping
    from teaal.ir.program import Program
    try:
        dd = copy.deepcopy(d)
        dd.setdefault("mapping", {})
        p = Program(Einsum(copy.deepcopy(dd)), Mapping(copy.deepcopy(dd)))
        res = {}
        for i in range(len(dd["einsum"]["expressions"])):
            p.add_einsum(i)
            res[p.get_equation().get_output().root_name()] = list(p.get_loop_order().get_ranks())
            p.reset()
        return res
    except Exception:
        return None


def collect(ctx, items, nworkers=None, hashseeds=None):
    """items: list of dict(gen, count, modes, nexec, opts).  Splits counts over workers; returns records."""
    nworkers = nworkers or (12 if ctx.tier == "thorough" else 6)
    hashseeds = hashseeds or [0] + [((ctx.seed + 1) * 7717 + 31 * k) % 4294967295 for k in range(1, nworkers)]
    tmp = tempfile.mkdtemp(prefix="teaalverif-")
    procs = []
    for w in range(nworkers):
        its = []
        for it in items:
            it2 = dict(it)
            if it["gen"] == "corpus":
                if w != 0 and not it.get("all_workers"):
                    continue
            else:
                it2["count"] = it["count"] // nworkers + (1 if w < it["count"] % nworkers else 0)
                if it2["count"] == 0:
                    continue
            its.append(it2)
        if not its:
            continue
        job = dict(seed=ctx.seed * 1000003 + w * 101 + 7, items=its)
        jp, op = os.path.join(tmp, "job%d.json" % w), os.path.join(tmp, "out%d.jsonl" % w)
        json.dump(job, open(jp, "w"))
        env = dict(os.environ)
        env["PYTHONHASHSEED"] = str(hashseeds[w % len(hashseeds)])
        procs.append((subprocess.Popen([sys.executable, os.path.abspath(__file__), jp, op], env=env,
                                       stdout=subprocess.PIPE, stderr=subprocess.PIPE, text=True), op))
    recs = []
    for p, op in procs:
        so, se = p.communicate(timeout=3000)
        if p.returncode != 0:
            raise common.InternalError("pool worker failed: " + se[-1500:])
        for line in open(op):
            recs.append(json.loads(line))
        os.remove(op)
    for f in os.listdir(tmp):
        os.remove(os.path.join(tmp, f))
    os.rmdir(tmp)
    return recs


if __name__ == "__main__":
    worker(json.load(open(sys.argv[1])), sys.argv[2])
