"""C02 — shape-based partitioning never changes the result and is undone on the output.
Theorems: Props/C02 (split_merge_id, key_bounds/key_unique, partition_sum, nway_cover) - the tensor-level algebra
of splitUniform/mergeRanks, for every tensor, step, depth, extent.  Tie: (1) the Lean operations are compared
with the minifiber stand-in on random tensors; (2) every generated partitioned specification (G2: stacks of 1-3
levels, uniform_shape/nway_shape, literal and symbolic sizes not dividing / exceeding the extent, any subset of
ranks, any permutation of the resulting levels) is executed: its result under the declared name, rank order and
original coordinates must equal the unpartitioned compile's and the dense oracle's."""
import json, random
import common, pool, specs, gens, ftdiff, semcheck


def check_records(ctx, recs, classify=None, need_reference=True):
    for r in recs:
        if not r["ok"]:
            ctx.stat(("rejected_" if r["err_kind"] == "ValueError" else "compile_crash_") + str(r["err_kind"])); continue
        case = r["case"]
        ctx.case([r["text"]], nontrivial="split" in r["text"] or "flatten" in r["text"] or "project" in r["text"] or "for " in r["text"])
        for t in set(case["tags"]):
            ctx.stat("tag_" + t)
        if need_reference and not r.get("reference_ok", True):
            ctx.stat("reference_compile_failed")
        for ex in r["execs"]:
            ok, reason, sig = semcheck.verdict(case, ex)
            ref_ok = True
            if need_reference and ex.get("reference") and ex["reference"]["ok"] and ok:
                ref_ok = semcheck.outputs_of(ex["reference"]) == semcheck.outputs_of(ex)
                if not ref_ok:
                    reason, sig = "the mapped program's result differs from the unmapped program's on the same inputs", "differs-from-unmapped"
            ctx.ob(ok); ctx.ob(ref_ok)
            if len(ctx.samples) < 3 and ok:
                ctx.sample({"einsum": r["yaml"]["einsum"]["expressions"], "mapping": r["yaml"].get("mapping"), "extents": case["ext"], "result_points": sum(len(v) for v in ex["outputs"].values())})
            if ok and ref_ok:
                continue
            preds = classify(case, r) if classify else set()
            f = None
            for p in preds:
                f = ctx.match_finding({"predicates": {p}, "signature": sig})
                if f:
                    break
            if f:
                ctx.known(f, f["what"], failed_obligations=(0 if ok else 1) + (0 if ref_ok else 1)); continue
            ctx.violation(dict(semcheck.base_replay(r, case, ex), kind="wrong-result", signature=sig, tags=case["tags"], reason=reason, reference=ex.get("reference")), True)


def run(ctx):
    ctx.rule = ("generated G2 specifications: Einsums of G1 shape (no take) with uniform_shape/nway_shape stacks of 1-3 levels on a random subset of ranks, literal or symbolic sizes 1-8 "
                "against extents 1-7 (not dividing / exceeding), loop order = any permutation of the level ranks (or level-sorted, or omitted), each executed on 2-3 random inputs under "
                "several hash seeds and compared with the unpartitioned compile and the dense oracle; plus random tensors for the Lean-vs-minifiber operation differential; "
                "non-trivial = program containing a split; distinct = distinct text")
    ctx.trusted = ["Lean kernel; Props/C02 (tensor-level partition algebra only: the composition with the C01 loop-nest theorem over expanded ranks is NOT proved)",
                   "the fibertree contract of splitUniform/mergeRanks as written in FT/Ops.lean, compared with the minifiber stand-in on random tensors",
                   "correctness of each partitioned program is decided by execution on sampled inputs (minifiber) against the unpartitioned program and the dense oracle"]
    k = 1 if ctx.tier == "quick" else 8
    rng = random.Random(ctx.seed * 131 + 2)
    ftdiff.run(ctx, rng, 120 * k, ops=("swizzle", "splitUniform", "mergeAbs", "split_merge"))
    n = 2 if ctx.tier == "quick" else 3
    recs = pool.collect(ctx, [dict(gen="g2", count=70 * k, modes=["plain"], nexec=n, reference=True, opts={"order": "perm"}),
                              dict(gen="g2", count=30 * k, modes=["plain"], nexec=n, reference=True, opts={"order": "levelsorted"}),
                              dict(gen="g2", count=20 * k, modes=["plain"], nexec=n, reference=True, opts={"order": "none"})])
    check_records(ctx, recs)


def replay(ctx, path):
    rep = json.load(open(path))
    c = specs.compile_spec(rep["yaml"], rep.get("mode", "plain"))
    print("replay: specification compiles:", c.ok, "- re-run `./check C02` for the full differential; inputs and expected result are in the replay file")
    return 2
