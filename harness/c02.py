"""C02 — shape-based partitioning never changes the result and is undone on the output.
Theorems: Props/C02 (split_merge_id, key_bounds/key_unique, partition_sum, nway_cover) - the tensor-level algebra
of splitUniform/mergeRanks, for every tensor, step, depth, extent.  Tie: (1) the Lean operations are compared
with the minifiber stand-in on random tensors; (2) every generated partitioned specification (G2: stacks of 1-3
levels, uniform_shape/nway_shape, literal and symbolic sizes not dividing / exceeding the extent, any subset of
ranks, any permutation of the resulting levels) is executed: its result under the declared name, rank order and
original coordinates must equal the unpartitioned compile's and the dense oracle's."""
import json, random
import common, pool, specs, gens, ftdiff, semcheck


def check_records(ctx, recs, classify=None, need_reference=True, reject_is_violation=False):
    for r in recs:
        if not r["ok"]:
            ctx.stat(("rejected_" if r["err_kind"] == "ValueError" else "compile_crash_") + str(r["err_kind"]))
            if reject_is_violation:
                # the generator class is legal by construction (the unchanged compiler accepts all of it): no program = no result
                ctx.ob(False)
                ctx.violation(dict(kind="legal-specification-rejected", yaml=r["yaml"], yaml_text=specs.dump_yaml(r["yaml"]), mode=r["mode"], hashseed=r["hashseed"],
                                   error="%s: %s" % (r["err_kind"], r.get("err_msg")),
                                   reason="a shape-partitioned specification of the legal class yields no program (%s: %s)" % (r["err_kind"], str(r.get("err_msg"))[:200])), True)
            continue
        case = r["case"]
        ctx.case([r["text"]], nontrivial="split" in r["text"] or "flatten" in r["text"] or "project" in r["text"] or "for " in r["text"])
        for t in set(case["tags"]):
            ctx.stat("tag_" + t)
        if need_reference and not r.get("reference_ok", True):
            ctx.stat("reference_compile_failed")
        for ex in r["execs"]:
            ok, reason, sig = semcheck.verdict(case, ex)
            ref_ok = True
            if need_reference and ex.get("reference") and ex["reference"]["ok"] and ok:
                ref_ok = semcheck.outputs_of(ex["reference"]) == semcheck.outputs_of(ex)
                if not ref_ok:
                    reason, sig = "the mapped program's result differs from the unmapped program's on the same inputs", "differs-from-unmapped"
            ctx.ob(ok); ctx.ob(ref_ok)
            if len(ctx.samples) < 3 and ok:
                ctx.sample({"einsum": r["yaml"]["einsum"]["expressions"], "mapping": r["yaml"].get("mapping"), "extents": case["ext"], "result_points": sum(len(v) for v in ex["outputs"].values())})
            if ok and ref_ok:
                continue
            preds = classify(case, r) if classify else set()
            f = None
            for p in preds:
                f = ctx.match_finding({"predicates": {p}, "signature": sig})
                if f:
                    break
            if f:
                ctx.known(f, f["what"], failed_obligations=(0 if ok else 1) + (0 if ref_ok else 1)); continue
            ctx.violation(dict(semcheck.base_replay(r, case, ex), kind="wrong-result", signature=sig, tags=case["tags"], reason=reason, reference=ex.get("reference")), True)


def part_sizes(case, stack, ext):
    """step of every level of a shape stack, top level first (uniform_shape: the size; nway_shape(n): (extent - 1) // n + 1)"""
    out = []
    for pstr in stack:
        if not pstr.startswith(("uniform_shape", "nway_shape")):
            return None
        arg = pstr[pstr.index("(") + 1:-1]
        val = int(arg) if arg.isdigit() else case["env"][arg]
        if pstr.startswith("uniform_shape"):
            out.append(val)
        elif pstr.startswith("nway_shape"):
            out.append((ext - 1) // val + 1)
        else:
            return None
    return out


def lean_part_request(case, rec, ex):
    """the partitioned Einsum for the Lean model compiler (Props/C02Model): original Einsum + inputs, the list of rank
    splits the stacks stand for, and the loop order over the expanded ranks (the mapping's, else the implementation's)"""
    import c01, pool
    e = case["eins"][0]
    d = rec["yaml"]
    base = {"out_name": e["out"], "out_ranks": list(case["decl"][e["out"]]), "terms": c01.lean_terms(case, ex), "tree": rec["tree"]}
    ranks = []
    for t in base["terms"]:
        for x in t["tensors"]:
            for r in x["ranks"]:
                if r not in ranks:
                    ranks.append(r)
    for r in base["out_ranks"]:
        if r not in ranks:
            ranks.append(r)
    base["loop"] = ranks
    base["exts"] = [case["ext"][r] for r in ranks]
    splits = []
    parts = ((d.get("mapping") or {}).get("partitioning") or {}).get(e["out"]) or {}
    for K, stack in parts.items():
        if K not in ranks:
            return None
        sizes = part_sizes(case, stack, case["ext"][K])
        if sizes is None or any(s <= 0 for s in sizes):
            return None
        n = len(sizes)
        cur = K
        for j, sz in enumerate(sizes):
            lvl = n - j
            low = (K + "0") if lvl == 1 else "%s%dI" % (K, lvl - 1)
            splits.append({"K": cur, "K1": K + str(lvl), "K0": low, "size": sz})
            cur = low
    lo = ((d.get("mapping") or {}).get("loop-order") or {}).get(e["out"]) or (pool.loop_ranks(d) or {}).get(e["out"])
    if lo is None:
        return None
    base.update(op="nest_part", splits=splits, loop2=list(lo))
    return base


def in_model_class(case):
    """single sum-of-products Einsum with plain accesses, partitioned (if at all) by shape only: the class of C02.model_partitioned"""
    if len(case["eins"]) != 1:
        return False
    e = case["eins"][0]
    for t in e["terms"]:
        if t["kind"] != "times":
            return False
        for f in t["factors"]:
            if f[0] == "t" and any(len(i) != 1 or i[0][0] != 1 for i in f[2]):
                return False
    if any(len(i) != 1 or i[0][0] != 1 for i in e["oidx"]):
        return False
    parts = ((case.get("mapping") or {}).get("partitioning") or {})
    for out, ps in parts.items():
        for k, stack in ps.items():
            if k.startswith("(") or any(not x.startswith(("uniform_shape", "nway_shape")) for x in stack):
                return False
    return True


def check_model(ctx, recs, only_model_class=False):
    """tie of the composed theorem (C02.model_partitioned) to the real compiler: the model compiler's partitioned nest has
    the real program's loop skeleton and computes, on the sampled input, what the real program computes; its hypotheses
    (PartOK) are decided in Lean for every sample"""
    import c01
    reqs, metas = [], []
    for r in recs:
        if not r["ok"]:
            continue
        case = r["case"]
        if len(case["eins"]) != 1:
            continue
        if only_model_class and not in_model_class(case):
            ctx.stat("model_not_applicable"); continue
        for ex in r["execs"][:1]:
            if not ex.get("ok"):
                continue
            q = lean_part_request(case, r, ex)
            if q is None:
                ctx.stat("model_not_applicable"); continue
            reqs.append(q); metas.append((r, case, ex))
    for (r, case, ex), a in zip(metas, common.lean_batch(reqs)):
        if "error" in a:
            raise common.InternalError("lean: " + a["error"])
        out = case["eins"][0]["out"]
        real = c01.pts_set(ex["outputs"].get(out, []))
        run_, spec_ = c01.pts_set(a["run"]), c01.pts_set(a["spec"])
        nl = len(a["expected_loops"])
        skel_ok = [(v, sorted(fs)) for v, fs in a["expected_loops"]] == [(v, sorted(fs)) for v, fs in a.get("actual_loops", [])][:nl]
        ctx.stat("model_partitioned_samples")
        if a["hyps_ok"]:
            ctx.stat("model_hypotheses_hold")
        ok_h = a["hyps_ok"]
        ok_thm = (run_ == spec_) or not ok_h
        ok_model = skel_ok and real == run_
        ctx.ob(ok_h); ctx.ob(ok_thm); ctx.ob(ok_model)
        if ok_h and ok_thm and ok_model:
            continue
        rep = dict(semcheck.base_replay(r, case, ex), real=real, model_run=run_, model_spec=spec_, hyps_ok=a["hyps_ok"],
                   skeleton_expected=a["expected_loops"], skeleton_actual=a.get("actual_loops"))
        if not ok_h:
            ctx.violation(dict(rep, kind="model-hypotheses", obligation="C02.PartOK decided on the sampled specification and input",
                               reason="the hypotheses of C02.model_partitioned do not hold for this generated sample (generator or model compiler out of step)"), False)
        elif not ok_thm:
            ctx.violation(dict(rep, kind="model-semantics", obligation="C02.model_partitioned", reason="model nest and meaning differ although PartOK holds"), False)
        else:
            verdict_ok, reason, sig = semcheck.verdict(case, ex)
            ctx.violation(dict(rep, kind="model-correspondence", obligation="model compiler of the partitioned nest (C02.model_partitioned) = real compiler: loop skeleton and result",
                               reason="the emitted partitioned program no longer matches the model nest (%s)" % ("skeleton" if not skel_ok else "result")), not verdict_ok)


def run(ctx):
    ctx.rule = ("generated G2 specifications: Einsums of G1 shape (no take) with uniform_shape/nway_shape stacks of 1-3 levels on a random subset of ranks, literal or symbolic sizes 1-8 "
                "against extents 1-7 (not dividing / exceeding), loop order = any permutation of the level ranks (or level-sorted, or omitted), each executed on 2-3 random inputs under "
                "several hash seeds and compared with the unpartitioned compile and the dense oracle; plus random tensors for the Lean-vs-minifiber operation differential; "
                "non-trivial = program containing a split; distinct = distinct text")
    ctx.trusted = ["Lean kernel; Props/C02, C02Nest, C02Model, C01Den, C01Ext (model_partitioned: every stack of splits, every loop order over the expanded ranks, every input)",
                   "the reading of the fibertree API: Nest.run as the meaning of the emitted loops, splitUniform/mergeRanks as written in FT/Ops.lean (compared with the minifiber stand-in on random tensors)",
                   "model compiler of the partitioned nest = real compiler is sampled: PartOK decided in Lean per sample, loop skeleton compared with the real tree, model result = real program's result on the sampled input",
                   "the header/footer statements (splitUniform / swizzleRanks / mergeRanks calls) are tied by execution against the unpartitioned program and the dense oracle, and by split_merge_id"]
    k = 1 if ctx.tier == "quick" else 8
    rng = random.Random(ctx.seed * 131 + 2)
    ftdiff.run(ctx, rng, 120 * k, ops=("swizzle", "splitUniform", "mergeAbs", "split_merge"))
    n = 2 if ctx.tier == "quick" else 3
    recs = pool.collect(ctx, [dict(gen="g2", count=70 * k, modes=["plain"], nexec=n, reference=True, opts={"order": "perm"}),
                              dict(gen="g2", count=30 * k, modes=["plain"], nexec=n, reference=True, opts={"order": "levelsorted"}),
                              dict(gen="g2", count=20 * k, modes=["plain"], nexec=n, reference=True, opts={"order": "none"}),
                              dict(gen="g2deep", count=6 * k, modes=["plain"], nexec=n, reference=True),
                              dict(gen="g2casc", count=30 * k, modes=["plain"], nexec=n, reference=True)])
    check_records(ctx, recs, reject_is_violation=True)
    check_model(ctx, recs)


def replay(ctx, path):
    rep = json.load(open(path))
    c = specs.compile_spec(rep["yaml"], rep.get("mode", "plain"))
    print("replay: specification compiles:", c.ok, "- re-run `./check C02` for the full differential; inputs and expected result are in the replay file")
    return 2
