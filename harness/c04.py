"""C04 — affine index expressions are evaluated exactly, with or without partitioning.
Theorems: Props/C04 (project_inverse / project_hits / project_injective, tiling, halo_cover; unclipped
counterexample) - the arithmetic core, for every stride, offset, extent and partition-coordinate list.
Tie: exact projection (Lean) vs the float-evaluating stand-in on random fibers (dyadic strides); every generated
specification (G4: 1-D convolutions with stride/dilation 1-4, optional channel rank, 0-2 shape levels on the
output rank with the input rank following, uniform and n-way, all legal loop orders incl. looping over the
accessed tensor's own rank) is executed against the dense oracle, and every output coordinate must be below the
declared extent."""
import json, random
import common, pool, specs, gens, ftdiff, c02


def classify(case, rec):
    tags = case["tags"]
    preds = set()
    a = int([t for t in tags if t[0] == "a" and t[1:].isdigit()][0][1:])
    b = int([t for t in tags if t[0] == "b" and t[1:].isdigit()][0][1:])
    if any(x & (x - 1) for x in (a, b)):
        preds.add("nondyadic_coefficient")
    S = [r for r in case["ext"] if r in ("S", "R")][0]
    halo = b * (case["ext"][S] - 1)
    if halo > 0 and ("part1" in tags or "part2" in tags):
        preds.add("halo_partition")
    if halo > 0 and "part2" in tags:
        preds.add("halo_two_levels")
    return preds


def run(ctx):
    ctx.rule = ("generated G4 specifications: O[q] = I[a*q + b*s] * F[s] (a in 1..4, b in {1,2,4}; optional channel rank), unpartitioned or with 1-2 uniform_shape / nway_shape levels "
                "on the output rank and follow() on the input rank, every legal loop order incl. projecting through the accessed rank; executed on 2-3 random inputs vs the dense oracle, "
                "all output coordinates below the extent; plus random fibers for exact-vs-float projection; non-trivial = program with project(); distinct = distinct text")
    ctx.trusted = ["Lean kernel; Props/C04 (arithmetic core only; the composition with the loop nest is decided by execution)",
                   "IEEE-754: for power-of-two divisors and small magnitudes CPython's float evaluation of the emitted lambdas equals exact rational evaluation (compared on random fibers)",
                   "the fibertree contract of project/prune/splitUniform with halos as implemented in minifiber"]
    ctx.assumptions = ["claimed class: dyadic coefficients; at most one partition level on a rank with a halo; partition coordinates below the extent (outside: three known findings)"]
    k = 1 if ctx.tier == "quick" else 8
    rng = random.Random(ctx.seed * 263 + 4)
    ftdiff.run_project(ctx, rng, 100 * k)
    n = 2 if ctx.tier == "quick" else 3
    recs = pool.collect(ctx, [dict(gen="g4", count=140 * k, modes=["plain"], nexec=n), dict(gen="g4c", count=25 * k, modes=["plain"], nexec=n)])
    c02.check_records(ctx, recs, classify=classify, need_reference=False)
    # which fraction of the sampled specifications lies inside the claimed class
    inside = sum(1 for r in recs if r["ok"] and not classify(r["case"], r))
    ctx.extra["specifications_inside_claimed_class"] = inside
    ctx.extra["specifications_examined"] = sum(1 for r in recs if r["ok"])
    for f in ctx.findings:
        if f["id"] not in [h for h, _ in ctx.known_hits]:
            ctx.notes.append("known finding %s not encountered in this run's sample" % f["id"])


def replay(ctx, path):
    print("replay: re-run `./check C04`; the replay file carries the specification, inputs and expected result"); return 2
