"""C04 — affine index expressions are evaluated exactly, with or without partitioning.
Theorems: Props/C04 (project_inverse / project_hits / project_injective, tiling, halo_cover; unclipped
counterexample) - the arithmetic core, for every stride, offset, extent and partition-coordinate list.
Tie: exact projection (Lean) vs the float-evaluating stand-in on random fibers (dyadic strides); every generated
specification (G4: 1-D convolutions with stride/dilation 1-4, optional channel rank, 0-2 shape levels on the
output rank with the input rank following, uniform and n-way, all legal loop orders incl. looping over the
accessed tensor's own rank) is executed against the dense oracle, and every output coordinate must be below the
declared extent."""
import json, random
import common, pool, specs, gens, ftdiff, c02, semcheck


def classify(case, rec):
    tags = case["tags"]
    preds = set()
    isint = lambda x: x.lstrip("-").isdigit()
    coefs = [abs(int(t[1:])) for t in tags if t[0] in "abc" and isint(t[1:])]
    if any(x & (x - 1) for x in coefs):
        preds.add("nondyadic_coefficient")
    halo = 0
    for e in case["eins"]:
        for t in e["terms"]:
            for f in t["factors"]:
                if f[0] == "t":
                    for i in f[2]:
                        if len(i) > 1:
                            halo = max(halo, max(abs(c) * (case["ext"][v.upper()] - 1) for c, v in i if v.upper() in ("S", "R", "T", "V")))
    if halo > 0 and ("part1" in tags or "part2" in tags):
        preds.add("halo_partition")
    if halo > 0 and "part2" in tags:
        preds.add("halo_two_levels")
    if mixed_activity(case, rec):
        preds.add("term_without_fiber_at_loop")
    return preds


_LO = {}


def impl_loop_order(rec, out):
    """the loop order of the mapping, else the implementation's own (cached per record)"""
    d = rec["yaml"]
    lo = ((d.get("mapping") or {}).get("loop-order") or {}).get(out)
    if lo is not None:
        return lo
    key = id(rec)
    if key not in _LO:
        _LO[key] = pool.loop_ranks(d) or {}
    return _LO[key].get(out)


def aff_form(case, rec):
    """the Einsum for the Lean model compiler of the affine nest (Props/C04Den, C04Var): every loop rank that is an index variable's
    rank loops that variable; a loop over a tensor's own rank W (accessed as c0*s + rho, c0 = +-1) loops w in place of s - the
    terms are sent AS WRITTEN together with (s, w, c0, rho) and Lean computes the loop-variable form (C04.loopFormTerms)"""
    if len(case["eins"]) != 1 or (rec["yaml"].get("mapping") or {}).get("partitioning"):
        return None
    e = case["eins"][0]
    if any(t["kind"] != "times" for t in e["terms"]):
        return None
    lo = impl_loop_order(rec, e["out"])
    if lo is None:
        return None
    ivars = gens.ein_vars(e)
    own = None
    loopvars = []
    for R in lo:
        if R.lower() in ivars:
            loopvars.append(R.lower()); continue
        # a tensor's own rank: find its access
        acc = None
        for t in e["terms"]:
            for f in t["factors"]:
                if f[0] == "t" and R in case["decl"][f[1]]:
                    acc = f[2][case["decl"][f[1]].index(R)]
        if acc is None or own is not None:
            return None
        missing = [(c, v) for c, v in acc if v.upper() not in lo]
        if len(missing) != 1 or missing[0][0] not in (1, -1):
            return None
        c0, v0 = missing[0]
        own = {"s": v0, "w": R.lower(), "c0": c0, "rho": {"terms": [[c, v] for c, v in acc if v != v0], "const": 0}, "Se": case["ext"][v0.upper()]}
        loopvars.append(R.lower())
    terms = []
    for t in e["terms"]:
        scal, tensors = 1, []
        for f in t["factors"]:
            if f[0] == "s":
                scal *= case["env"][f[1]]
            else:
                tensors.append({"name": f[1], "ranks": list(case["decl"][f[1]]), "idx": [{"terms": [[c, v] for c, v in i], "const": 0} for i in f[2]]})
        terms.append({"scal": scal, "tensors": tensors})
    out_vars = []
    for i in e["oidx"]:
        if len(i) != 1 or i[0][0] != 1 or (own and i[0][1] == own["s"]):
            return None
        out_vars.append(i[0][1])
    allowed = set(loopvars) | ({own["s"]} if own else set())
    if any(v not in allowed for t in terms for x in t["tensors"] for i in x["idx"] for _, v in i["terms"]):
        return None
    q = {"op": "nest_aff", "loop": loopvars, "exts": [case["ext"][v.upper()] for v in loopvars], "out_name": e["out"], "out_vars": out_vars,
         "terms": terms, "tree": rec["tree"]}
    if own:
        q["own"] = own
    return q


def part_form(case, rec):
    """shape partitioning of the output rank with the input rank following, output-stationary loop orders (the lower output level
    is iterated by range: no input resolves there): the Einsum as written + the partition spec; Lean builds the partitioned form
    (C04 driver `partitionedForm`: halo-split followers, virtual tile tensor for the range loop)"""
    import re
    if len(case["eins"]) != 1:
        return None
    e = case["eins"][0]
    d = rec["yaml"]
    parts = ((d.get("mapping") or {}).get("partitioning") or {}).get(e["out"]) or {}
    if len(parts) != 2 or any(t["kind"] != "times" for t in e["terms"]):
        return None
    if any(f[0] == "t" and Q_ in case["decl"][f[1]] and False for t in e["terms"] for f in t["factors"] for Q_ in ()):
        return None
    Qs = [k for k, st in parts.items() if len(st) == 1 and st[0].startswith(("uniform_shape", "nway_shape"))]
    Ws = [k for k, st in parts.items() if st == ["follow(%s)" % (Qs[0] if Qs else "")]]
    if len(Qs) != 1 or len(Ws) != 1:
        return None
    Q, W = Qs[0], Ws[0]
    q = Q.lower()
    arg = parts[Q][0][parts[Q][0].index("(") + 1:-1]
    if not arg.isdigit():
        return None
    n = int(arg) if parts[Q][0].startswith("uniform") else (case["ext"][Q] - 1) // int(arg) + 1
    if n < 1:
        return None
    lo = impl_loop_order(rec, e["out"])
    if lo is None or Q + "1" not in lo or Q + "0" not in lo or any(r.startswith(W) for r in lo):
        return None
    ivars = gens.ein_vars(e)
    followers, terms = [], []
    forms = set()
    for t in e["terms"]:
        scal, tensors = 1, []
        for f in t["factors"]:
            if f[0] == "s":
                scal *= case["env"][f[1]]; continue
            for i, (R, acc) in enumerate(zip(case["decl"][f[1]], f[2])):
                vs = [v for _, v in acc]
                if q in vs:
                    # the partitioned variable's own coefficient is a positive stride; the others may have either sign (a negative one
                    # contributes to the pre-halo)
                    if any(c < 1 for c, v in acc if v == q) or any(c == 0 for c, _ in acc) or (R != W and len(acc) != 1) or (R == W and len(acc) < 2):
                        return None
                    # form A (output-stationary): the lower level of an index-math follower resolves after Q0 (some other variable of the
                    # access is looped later); form B: it resolves AT Q0 (every other variable is looped before), the projection then
                    # carries the data-dependent interval; a tensor carrying the partitioned rank itself (access = q) is co-iterated at Q0
                    if len(acc) >= 2:
                        later = any(lo.index(v.upper()) > lo.index(Q + "0") for v in vs if v != q and v.upper() in lo)
                        forms.add("A" if later else "B")
                    if [f[1], i] not in followers:
                        followers.append([f[1], i])
            tensors.append({"name": f[1], "ranks": list(case["decl"][f[1]]), "idx": [{"terms": [[c, v] for c, v in i], "const": 0} for i in f[2]]})
        terms.append({"scal": scal, "tensors": tensors})
    if not followers or [i for i in e["oidx"] if len(i) != 1 or i[0][0] != 1] or len(forms) != 1:
        return None
    modeB = forms == {"B"}
    if modeB and (len(e["terms"]) != 1 or any(len(case["decl"][nm]) != 1 for nm, _ in followers)):
        return None          # the present partitions must not depend on outer coordinates (single term, one-rank followers)
    a = [c for t in e["terms"] for f in t["factors"] if f[0] == "t" for R, acc in zip(case["decl"][f[1]], f[2]) if R == W for c, v in acc if v == q][0]
    pre = max(sum(-c * (case["ext"][v.upper()] - 1) for c, v in acc if c < 0)
              for t in e["terms"] for f in t["factors"] if f[0] == "t" for R, acc in zip(case["decl"][f[1]], f[2]) if R == W)
    loop2, exts2 = [], []
    for r in lo:
        if r == Q + "1":
            loop2.append(q + "1"); exts2.append(max(case["ext"][Q], (case["ext"][W] - 1 + pre) // a + 1))
        elif r == Q + "0":
            loop2.append(q + "0"); exts2.append(case["ext"][Q])
        elif r.lower() in ivars:
            loop2.append(r.lower()); exts2.append(case["ext"][r])
        else:
            return None
    env = {k: int(v) for k, v in case["ext"].items()}
    env.update({k: int(v) for k, v in case["env"].items() if isinstance(v, int)})
    env.update({"Q__": case["ext"][Q], "N__": n})
    return {"op": "nest_aff", "loop": ivars, "exts": [case["ext"][v.upper()] for v in ivars], "out_name": e["out"], "out_vars": [i[0][1] for i in e["oidx"]],
            "terms": terms, "tree": rec["tree"], "part": dict({"q": q, "n": n, "followers": followers}, **({"mode": "B"} if modeB else {})),
            "loop2": loop2, "exts2": exts2, "env": env}


def lean_aff_request(case, rec, ex):
    q = aff_form(case, rec) or part_form(case, rec)
    if q is None:
        return None
    inputs = {k: {tuple(p): v for p, v in pts} for k, pts in ex["inputs"].items()}
    for t in q["terms"]:
        for x in t["tensors"]:
            x["pts"] = [[list(p), v] for p, v in sorted(inputs[x["name"]].items())]
    return q


def mixed_activity(case, rec):
    """at some loop one term co-iterates a fiber while another term has none (it reaches the loop's variable only through an
    affine access that resolves later): the emitted loop then visits only the first term's coordinates.  Computed on the
    variable sets alone (also when the loop-variable form has non-integer coefficients)."""
    if len(case["eins"]) != 1:
        return False
    e = case["eins"][0]
    if len(e["terms"]) < 2:
        return False
    d = rec["yaml"]
    if (d.get("mapping") or {}).get("partitioning"):
        return False
    lo = impl_loop_order(rec, e["out"])
    if lo is None:
        return False
    ivars = gens.ein_vars(e)
    elim = {}          # eliminated variable -> variables that stand for it
    own = {}           # own rank -> its access (as a tuple) which becomes the plain loop variable
    for R in lo:
        if R.lower() in ivars:
            continue
        for t in e["terms"]:
            for f in t["factors"]:
                if f[0] == "t" and R in case["decl"][f[1]]:
                    acc = f[2][case["decl"][f[1]].index(R)]
                    missing = [v for _, v in acc if v.upper() not in lo]
                    if len(missing) == 1:
                        elim[missing[0]] = {R.lower()} | {v for _, v in acc if v != missing[0]}
                        own[R] = sorted(acc)
    loopvars = [R.lower() for R in lo]
    sets = []
    for t in e["terms"]:
        rs = set()
        for f in t["factors"]:
            if f[0] != "t":
                continue
            for R, acc in zip(case["decl"][f[1]], f[2]):
                if R in own and sorted(acc) == own[R]:
                    vs = {R.lower()}
                else:
                    vs = set()
                    for _, v in acc:
                        vs |= elim.get(v, {v})
                pos = [loopvars.index(v) for v in vs if v in loopvars]
                if pos:
                    rs.add(max(pos))
        sets.append(rs)
    return any(s_ != sets[0] for s_ in sets)


def check_model(ctx, recs):
    """tie of C04.runA_eq_meaningA to the real compiler: the model compiler's affine nest has the real program's loops (loop
    variable, co-iterated fibers, which of them are projected; each emitted trans_fn is - in exact rational arithmetic - the
    inverse of the access, with the loop's interval and the integrality prune for strides) and computes, on the sampled input,
    what the real program computes; the theorem's hypotheses (HypsA) are decided in Lean for every sample"""
    import c01
    reqs, metas = [], []
    for r in recs:
        if not r["ok"]:
            continue
        case = r["case"]
        for ex in r["execs"][:1]:
            if not ex.get("ok"):
                continue
            q = lean_aff_request(case, r, ex)
            if q is None:
                ctx.stat("model_not_applicable"); continue
            reqs.append(q); metas.append((r, case, ex))
    for (r, case, ex), a in zip(metas, common.lean_batch(reqs)):
        if "error" in a:
            raise common.InternalError("lean: " + a["error"])
        out = case["eins"][0]["out"]
        real = c01.pts_set(ex["outputs"].get(out, []))
        run_, spec_ = c01.pts_set(a["run"]), c01.pts_set(a["spec"])
        ctx.stat("model_affine_samples")
        if "own_rank_loop" in case["tags"]:
            ctx.stat("model_affine_own_rank_loop")
        if (r["yaml"].get("mapping") or {}).get("partitioning"):
            ctx.stat("model_affine_partitioned")
            if "\"mode\": \"B\"" in json.dumps(lean_aff_request(case, r, ex).get("part", {})):
                ctx.stat("model_affine_partitioned_interval_logic")
        ok_h = a["hyps_ok"]
        if ok_h:
            ctx.stat("model_hypotheses_hold")
        ok_thm = (run_ == spec_) or not ok_h
        skel_ok = not a.get("skeleton_errors")
        verdict_ok, reason, sig = semcheck.verdict(case, ex)
        preds = classify(case, r)
        ok_model = skel_ok and (real == run_ or (not verdict_ok and bool(preds)))
        ctx.ob(ok_h); ctx.ob(ok_thm); ctx.ob(ok_model)
        if ok_h and ok_thm and ok_model:
            continue
        rep = dict(semcheck.base_replay(r, case, ex), real=real, model_run=run_, model_spec=spec_, hyps_ok=ok_h,
                   skeleton_errors=a.get("skeleton_errors"), skeleton_expected=a["expected_loops"], skeleton_actual=a.get("actual_loops"))
        if not ok_h and a.get("unclipped") and "halo_partition" in preds:
            # a present partition at or beyond the extent: exactly the class of the known finding (the interval before it is not clipped)
            f = ctx.match_finding({"predicates": preds, "signature": "out-of-extent-only"})
            if f:
                ctx.known(f, f["what"], failed_obligations=(not ok_h) + (not ok_thm) + (not ok_model)); continue
        if not ok_h and "term_without_fiber_at_loop" in preds:
            f = ctx.match_finding({"predicates": preds, "signature": "wrong-values"})
            if f:
                ctx.known(f, f["what"], failed_obligations=(not ok_h) + (not ok_thm) + (not ok_model)); continue
        if not ok_h:
            ctx.violation(dict(rep, kind="model-hypotheses", obligation="C04.HypsA decided on the sampled specification and input",
                               reason="the hypotheses of C04.runA_eq_meaningA do not hold for this generated sample (generator or model compiler out of step)"), False)
        elif not ok_thm:
            ctx.violation(dict(rep, kind="model-semantics", obligation="C04.runA_eq_meaningA", reason="model nest and dense nest differ although HypsA holds"), False)
        else:
            ctx.violation(dict(rep, kind="model-correspondence", obligation="model compiler of the affine nest (C04.runA_eq_meaningA) = real compiler: loops, projections and result",
                               reason="the emitted program no longer matches the model nest (%s)" % ("; ".join(a.get("skeleton_errors") or []) or "result")), not verdict_ok)


def witnesses(ctx):
    """known findings that carry a witness are replayed against the real compiler on every run"""
    for f in ctx.findings:
        w = f.get("witness_case")
        if not w:
            continue
        rec = pool.make_record("known:" + f["id"], 0, w, gens.to_yaml_dict(w), "plain", 0, random.Random(0), "")
        if not rec["ok"]:
            ctx.notes.append("known finding %s: witness no longer compiles" % f["id"]); continue
        inputs = {k: {tuple(p): v for p, v in x} for k, x in f["witness_inputs"].items()}
        r = gens.run_text(rec["text"], w, inputs)
        ex = dict(inputs={k: [[list(p), v] for p, v in x.items()] for k, x in inputs.items()}, ok=r.ok, err=r.err, problems=list(r.problems),
                  outputs={k: [[list(p), v] for p, v in x.items()] for k, x in r.outputs.items()})
        ex["cmp"] = gens.compare(w, r, inputs) if r.ok else []
        rec["execs"] = [ex]
        before = len(ctx.known_hits)
        c02.check_records(ctx, [rec], classify=classify, need_reference=False)
        if len(ctx.known_hits) == before:
            ctx.notes.append("known finding %s: witness no longer fails - the defect may have been repaired; entry must be revisited" % f["id"])


def run(ctx):
    ctx.rule = ("generated G4 specifications: O[q] = I[a*q + b*s] * F[s] (a in 1..4, b in {1,2,4}; optional channel rank / mask operand), unpartitioned or with 1-2 uniform_shape / nway_shape levels "
                "on the output rank and follow() on the input rank, every legal loop order incl. projecting through the accessed rank; G4n: unpartitioned 1-D / 2-D convolutions with strides and dilations, "
                "strided single-variable reads, mask operands, a second term, loop order = permutation with one rank possibly replaced by the accessed tensor's own rank; each executed on 2-3 random inputs vs the dense oracle, "
                "all output coordinates below the extent; unpartitioned ones additionally through the Lean model compiler of the affine nest (hypotheses decided, loops and projections validated on the real tree, results compared); "
                "plus random fibers for exact-vs-float projection; non-trivial = program with project(); distinct = distinct text")
    ctx.trusted = ["Lean kernel; Props/C04Nest + C04Den (runA_eq_meaningA: every affine sum-of-products Einsum, loop order, extent, input - exact arithmetic) and Props/C04 (tiling/halo arithmetic)",
                   "the reading of the fibertree API: Nest.runA (project/prune/interval = projPts; co-iteration as in C01), cross-checked against the minifiber stand-in on every sample",
                   "model compiler of the affine nest = real compiler is sampled: per specification the real tree's loops, co-iterated fibers and projections (trans_fn = exact inverse of the access, interval, prune) are validated in Lean, the result compared on the sampled input",
                   "IEEE-754: for power-of-two divisors and small magnitudes CPython's float evaluation of the emitted lambdas equals exact rational evaluation (compared on random fibers)",
                   "own-rank loops are modelled in loop-variable form; partitioned convolutions (intervals, halos) rest on execution + the arithmetic theorems"]
    ctx.assumptions = ["claimed class: dyadic coefficients; at most one partition level on a rank with a halo; partition coordinates below the extent; at every loop every term or no term offers a fiber (outside: four known findings)"]
    k = 1 if ctx.tier == "quick" else 8
    rng = random.Random(ctx.seed * 263 + 4)
    ftdiff.run_project(ctx, rng, 100 * k)
    n = 2 if ctx.tier == "quick" else 3
    recs = pool.collect(ctx, [dict(gen="g4", count=120 * k, modes=["plain"], nexec=n), dict(gen="g4c", count=25 * k, modes=["plain"], nexec=n),
                              dict(gen="g4n", count=90 * k, modes=["plain"], nexec=n), dict(gen="g5conv2", count=20 * k, modes=["plain"], nexec=n),
                              dict(gen="g4p", count=40 * k, modes=["plain"], nexec=n),
                              dict(gen="g4q", count=80 * k, modes=["plain"], nexec=n), dict(gen="g4s", count=30 * k, modes=["plain"], nexec=n)])
    c02.check_records(ctx, recs, classify=classify, need_reference=False)
    check_model(ctx, recs)
    witnesses(ctx)
    # which fraction of the sampled specifications lies inside the claimed class
    inside = sum(1 for r in recs if r["ok"] and not classify(r["case"], r))
    ctx.extra["specifications_inside_claimed_class"] = inside
    ctx.extra["specifications_examined"] = sum(1 for r in recs if r["ok"])
    for f in ctx.findings:
        if f["id"] not in [h for h, _ in ctx.known_hits]:
            ctx.notes.append("known finding %s not encountered in this run's sample" % f["id"])


def replay(ctx, path):
    print("replay: re-run `./check C04`; the replay file carries the specification, inputs and expected result"); return 2
